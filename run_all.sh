#!/bin/bash
# run every enabled check once (quick by default), one line per check
tier="${1:-quick}"
cd "$(dirname "$0")"
for p in $(cat harness/manifest/ENABLED); do
  s=$(date +%s)
  out=$(./check $p --tier $tier 2>&1); rc=$?
  echo "$p rc=$rc $(( $(date +%s) - s ))s :: $(echo "$out" | tail -1)"
  echo "$out" | grep -E "^VIOLATION|^KNOWN-FINDING|^  !" | head -5
done
