(* C12 -- restore is all-or-nothing and never overwrites.
   Only theorem statements (proved in Proofs/ArchiveProofs.v about Model/Archive.v).
   ASSUMED (modelled, not verified): sqlite transactions are atomic and an uncommitted one is
   gone after process exit or kill; the primary key rejects duplicates; shutil.copytree
   refuses an existing destination.  The staged content [x] (what tar left in the staging
   directory), the environment faults [e] (any step may raise; a failing copytree may leave a
   partial new directory) and the kill point [k] are universally quantified. *)
From Coq Require Import List NArith Bool.
From Conductor Require Import Lib.Str Model.Archive Proofs.ArchiveProofs.
From Conductor Require Import Gen.Generated Proofs.GenTieArchive.
Import ListNotations.
Open Scope N_scope.

(* Kill restore after any number k of atomic steps (handlers included; k past the end = not
   killed), for every staged content, project and fault pattern: no version directory that
   existed before has changed, and the recorded versions are exactly those before -- or the
   kill came after the commit of a run that succeeds, and then rows and directories are
   exactly those of the completed restore (all or nothing). *)
Theorem C12_atomic : forall e x P k,
  let Q := restore_crash e x P k in
  dirs_ext (p_dirs P) (p_dirs Q) /\
  (p_rows Q = p_rows P \/
   (snd (restore e x P) = true /\
    p_rows Q = p_rows (fst (restore e x P)) /\ p_dirs Q = p_dirs (fst (restore e x P)))).
Proof. exact restore_atomic. Qed.
Print Assumptions C12_atomic.

(* a restore that reports failure (missing index, missing directory, duplicate row, existing
   destination, extraction failure, any environment fault at any step) leaves the recorded
   versions exactly as they were and every existing version directory unchanged *)
Theorem C12_failure : forall e x P Q,
  restore e x P = (Q, false) -> p_rows Q = p_rows P /\ dirs_ext (p_dirs P) (p_dirs Q).
Proof. exact restore_failure. Qed.
Print Assumptions C12_failure.

(* a restore that reports success had a staged index, has recorded every row of it (after the
   rows that were there), each of them has its directory with the staged content, none of these
   directories existed before (nothing was overwritten), and no other directory changed *)
Theorem C12_success : forall e x P Q,
  restore e x P = (Q, true) ->
  exists idx, x_index x = Some idx /\
    p_rows Q = p_rows P ++ idx /\
    dirs_ext (p_dirs P) (p_dirs Q) /\
    (forall r, In r idx ->
       fs_get (row_key r) (p_dirs P) = None /\
       exists c, fs_get (row_key r) (x_dirs x) = Some c /\ fs_get (row_key r) (p_dirs Q) = Some c) /\
    (forall k, ~ In k (map row_key idx) -> fs_get k (p_dirs Q) = fs_get k (p_dirs P)).
Proof. exact restore_success. Qed.
Print Assumptions C12_success.

(* non-vacuity: an archive of two versions whose second one is already recorded: the first row
   goes into the open transaction, the duplicate raises, the handler rolls back; killed after 5
   steps the transaction is simply lost; with only the new version the restore succeeds *)
Definition ex_row (T : str) (ts : N) : row := {| r_task := T; r_ts := ts; r_commit := None; r_dirty := 0 |}.
Definition ex_Q : proj :=
  {| p_rows := [ex_row [97] 2]; p_dirs := [(([97], 2), 20)]; p_stage := false; p_aidx := None |}.
Definition ex_x : extraction :=
  {| x_file := true; x_ok := true; x_index := Some [ex_row [97] 1; ex_row [97] 2];
     x_dirs := [(([97], 1), 10); (([97], 2), 99)] |}.
Definition ex_x1 : extraction :=
  {| x_file := true; x_ok := true; x_index := Some [ex_row [97] 1]; x_dirs := [(([97], 1), 10)] |}.
Example C12_nonvacuous :
  restore no_faults ex_x ex_Q = (ex_Q, false) /\
  length (fst (restore_states no_faults ex_x (init_state ex_Q))) = 9%nat /\
  d_pending (s_db (nth 5 (fst (restore_states no_faults ex_x (init_state ex_Q))) (init_state ex_Q))) = [ex_row [97] 1] /\
  restore_crash no_faults ex_x ex_Q 5 =
    {| p_rows := [ex_row [97] 2]; p_dirs := [(([97], 2), 20)]; p_stage := true; p_aidx := None |} /\
  restore no_faults ex_x1 ex_Q =
    ({| p_rows := [ex_row [97] 2; ex_row [97] 1]; p_dirs := [(([97], 2), 20); (([97], 1), 10)];
        p_stage := false; p_aidx := None |}, true).
Proof. repeat split; vm_compute; reflexivity. Qed.

(* Tie to the source, re-checked on every run: the ORDER of the steps of the model's restore program is
   the one TRANSLATED from cli/restore.py main in the working tree -- empty the staging directory and
   recreate it, extract, look for the archive's index, load it, insert the rows (uncommitted), list
   the versions, per row: staged directory present? copy, destination present?, and only then
   commit; on any error roll back; finally remove the staging directory.  Committing before the
   copies, or dropping a presence test, breaks this equality. *)
Theorem C12_restore_order_is_the_sources : forall x,
  gen_restore_before_loop = [1; 2; 3; 4; 5; 6; 7] /\
  gen_restore_on_error = [12] /\ gen_restore_finally = [1] /\
  flat_map instr_steps (program x) =
    without_copy_entries gen_restore_before_loop
    ++ flat_map (fun _ => gen_restore_loop_body) (staged_rows x) ++ gen_restore_after_loop /\
  program x = [IMkdir; IExtract; ICheckIndex; ILoadIndex] ++ map IInsert (staged_rows x)
              ++ IListVersions :: flat_map (fun r => [ICheckSrc (row_key r); ICopy (row_key r); ICheckDst (row_key r)]) (staged_rows x)
              ++ [ICommit].
Proof. exact restore_order_tie. Qed.
Print Assumptions C12_restore_order_is_the_sources.
