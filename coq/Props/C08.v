(* C08 -- every experiment execution gets a fresh, unique version directory.
   Only theorem statements, each closed by [exact] of a lemma of Proofs/Store*.v, with the axioms
   it depends on printed beneath.  The model is Model/Store.v: [gen_version] transcribes
   VersionIndex.generate_new_output_version, [alloc_version] the allocation loop of
   RunExperiment._create_new_version, [apply] one atomic step of run / restore / archive / gc /
   clean, of a task process, a kill or a crash; [reachable clock s] = s is reached from the empty
   project by ANY sequence of such steps under the clock function [clock] (any function: stalls,
   backward steps).  The pre-fix allocator is refuted in Refuted/StoreOld.v. *)
From Coq Require Import List NArith Bool.
From Conductor Require Import Lib.Str Model.Store Proofs.StoreSpec Proofs.StoreProofs Proofs.StoreInv
  Proofs.StoreSteps Proofs.StoreThms.
From Conductor Require Import Gen.Generated Proofs.GenTie.
From Conductor Require Import Lib.Regex Lib.RegexBisim Lib.PyRegex Model.Ident Proofs.IdentSpec Proofs.IdentProofs.
Import ListNotations.
Open Scope N_scope.

(* the generator: strictly above the last id handed out, and the wall clock whenever possible *)
Theorem C08_gen_monotone : forall last now,
  last < gen_version last now /\ gen_version last now = N.max now (last + 1).
Proof. exact (fun last now => conj (gen_version_gt last now) (gen_version_max last now)). Qed.
Print Assumptions C08_gen_monotone.

(* In every reachable state of a running `cond run`, for every clock, the next allocation
   succeeds and its id is greater than the last id, than every recorded version of the project
   (committed or in the open transaction, any task) and than every id handed out earlier in this
   invocation -- and the version's directory does not exist. *)
Theorem C08_monotone : forall clock s t last hd ops txn,
  reachable clock s -> s_proc s = Some (PRun last hd ops txn) ->
  exists ts tick', alloc_version clock (s_dirs s) t last (s_tick s) = Some (ts, tick') /\
    last < ts /\
    (forall r, In r (all_rows s) -> r_ts r < ts) /\
    (forall o, In o ops -> o_ts o < ts) /\
    lookup (t, ts) (s_dirs s) = None.
Proof. exact monotone_reach. Qed.
Print Assumptions C08_monotone.

(* the ids, and therefore the directories, of one invocation are pairwise distinct *)
Theorem C08_unique : forall clock s,
  reachable clock s -> NoDup (map o_ts (ops_of s)) /\ NoDup (map o_key (ops_of s)).
Proof. exact unique_ids. Qed.
Print Assumptions C08_unique.

(* the allocation loop terminates for every clock and every content of cond-out: the fuel the
   model gives it (one more than the number of existing directories) is never exhausted ... *)
Theorem C08_alloc_total : forall clock D t last tick, alloc_version clock D t last tick <> None.
Proof. exact alloc_version_total. Qed.
Print Assumptions C08_alloc_total.

(* ... and what it returns is above [last], names no existing directory, and consumed at least
   one clock reading *)
Theorem C08_alloc_fresh : forall clock D t last tick ts tick',
  alloc_version clock D t last tick = Some (ts, tick') ->
  last < ts /\ lookup (t, ts) D = None /\ (tick < tick')%nat.
Proof. exact alloc_version_spec. Qed.
Print Assumptions C08_alloc_fresh.

(* From its allocation until its operation starts the directory of a planned execution does not
   exist; once made it belongs to that execution and is empty (no task output, no args.json /
   options.json) until the task process is spawned; and no directory ever holds output of an
   execution other than the one it was created for. *)
Theorem C08_fresh : forall clock s,
  reachable clock s ->
  (forall o, In o (ops_of s) -> o_phase o = PPlanned -> lookup (o_key o) (s_dirs s) = None) /\
  (forall o, In o (ops_of s) -> o_phase o = PMade ->
     exists d, lookup (o_key o) (s_dirs s) = Some d /\ d_owner d = o_exec o /\ d_started d = [] /\
               d_done d = [] /\ d_args d = false /\ d_opts d = false /\ d_rc d = None) /\
  (forall k d, lookup k (s_dirs s) = Some d -> incl (d_started d) [d_owner d]).
Proof. exact fresh_reach. Qed.
Print Assumptions C08_fresh.

(* start_execution's mkdir(exist_ok=True) never meets an existing directory: it creates it *)
Theorem C08_fresh_mkdir : forall clock s e o,
  reachable clock s -> find_op e (ops_of s) = Some o -> o_phase o = PPlanned ->
  lookup (o_key o) (s_dirs s) = None /\
  lookup (o_key o) (s_dirs (apply clock (LMkdir e) s)) = Some (fresh_dir o).
Proof. exact mkdir_creates. Qed.
Print Assumptions C08_fresh_mkdir.

(* no step of run / restore / archive / gc, of a task process, no kill and no crash changes the
   directory of a recorded version; only `cond clean` does *)
Theorem C08_no_touch : forall clock s l,
  reachable clock s -> is_clean l = false ->
  forall r, In r (s_rows s) -> lookup (row_key r) (s_dirs (apply clock l s)) = lookup (row_key r) (s_dirs s).
Proof. exact no_touch_reach. Qed.
Print Assumptions C08_no_touch.

(* The model's step for `cond restore` touches no directory of a recorded version (C08_no_touch); in
   the code, restore additionally creates and removes its staging directory
   cond-out/<ARCHIVE_STAGING>.  With the name read from config.py on this run, that directory is
   neither the output directory of any task nor a package directory on the path to one: for every
   identifier the parser accepts, the first path component below cond-out differs from it.
   (D23: the name used to be `archive-tmp`, a legal package name -- every restore wiped the recorded
   outputs of a package of that name; Refuted/StagingOld.v keeps the counterexample.) *)
Lemma c08_tie_name : tie_ok name_regex doc_name_re = true.
Proof. vm_compute. reflexivity. Qed.
Lemma c08_tie_ident : tie_ok task_identifier_regex doc_ident_re = true.
Proof. vm_compute. reflexivity. Qed.
Lemma c08_staging_name_ok : staging_name_ok = true.
Proof. vm_compute. reflexivity. Qed.
Theorem C08_staging_is_no_output_location : forall req s i v,
  from_str req s = Some i -> nth_error (out_path i v) 1 <> Some cfg_ARCHIVE_STAGING.
Proof. exact (fun req s i v H => staging_outside i v (from_str_wf c08_tie_ident req s i H) c08_staging_name_ok). Qed.
Print Assumptions C08_staging_is_no_output_location.

(* Tie to the source, re-checked on every run: the timestamp rule of the model is the one TRANSLATED
   from VersionIndex.generate_new_output_version in the working tree (Gen/Generated.v gen_new_version) *)
Theorem C08_gen_version_is_the_sources : forall last now, gen_version last now = gen_new_version last now.
Proof. exact gen_version_tie. Qed.
Print Assumptions C08_gen_version_is_the_sources.

(* non-vacuity: experiment 1 fails at second 1000; the clock then stalls; the next invocation is
   given 1001, a new directory, and records it; the failed directory is still there, unrecorded *)
Definition ex_history : list label :=
  run_labels 0 (None, false) [mk_spec 1 (true, false) true [CStart] 3 None]
  ++ run_labels 1 (None, false) [mk_spec 1 (true, false) true [CStart; CDone] 0 None].
Example C08_nonvacuous :
  let s := run (fun _ => 1000) ex_history init in
  map row_key (s_rows s) = [(1, 1001)] /\
  map fst (s_dirs s) = [(1, 1001); (1, 1000)] /\
  option_map d_started (lookup (1, 1001) (s_dirs s)) = Some [1] /\
  option_map d_started (lookup (1, 1000) (s_dirs s)) = Some [0] /\
  reachable (fun _ => 1000) s.
Proof.
  repeat split; try (vm_compute; reflexivity).
  exists ex_history. split; [repeat constructor | reflexivity].
Qed.
