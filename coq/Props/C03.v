(* C03 -- Failures skip dependents, spare independents, and decide the exit status.
   Statements about Executor.run_plan (Model/Exec.v) for EVERY well-formed plan [wf_plan]
   (the assumption the planner theorem Props/C02.v discharges), EVERY oracle -- which launches
   raise, which return code each process exits with, in which order processes exit -- every
   jobs >= 1 and both settings of --stop-early. *)
From Coq Require Import List Arith Bool NArith.
From Conductor Require Import Model.Loader Model.Planner Model.Exec Model.RunCase
  Proofs.ExecInv Proofs.ExecTheorems Proofs.ExecMain Proofs.PlannerInv Proofs.PlannerExact Proofs.ComposeExec Proofs.ComposeStop Proofs.ExecStatus Proofs.ComposeStatus.
From Conductor Require Import Proofs.WfPlanDec Proofs.ComposeKill.
From Conductor Require Import Gen.Generated Proofs.GenTieExec.
Import ListNotations.

(* Scope notes.  (1) "The oracle fails an operation" = its launch raises a ConductorError, or its process ends with a
   non-zero status; since D31 finish_execution can also fail an execution whose status is 0 (the record files cannot
   be written): the correspondence check folds that case into the status oracle, the model has no third cause.
   (2) Every operation the planner builds has a main task, so the model counts and reports every operation; the
   `main_task is None` filters of the executor are never exercised.  (3) With --stop-early the run ends at the first
   failure: operations that were never dequeued get NO outcome and are not listed as skipped, and a task that ignores
   SIGTERM may outlive the run -- C03_stop_early* say what does hold then; the classification theorems are for runs that
   are not cut short (stopped s = false).

   the final state of every operation is determined by the dependency graph and the oracle:
   SKIPPED iff some dependency did not succeed, iff it reaches a FAILED operation, and then it was
   never started; FAILED iff all dependencies succeeded and the oracle fails it (launch error or
   non-zero return code, signal numbers included); SUCCEEDED iff all dependencies succeeded and
   the oracle does not fail it. *)
Theorem C03_classification :
  forall p jobs stop orc, wf_plan p -> 1 <= jobs ->
  forall s o, final_state p jobs stop orc s -> stopped s = false -> o < length (p_ops p) ->
    (ost s o = SKIPPED <-> exists d, In d (exe_deps p o) /\ ost s d <> SUCCEEDED) /\
    (ost s o = FAILED <-> (forall d, In d (exe_deps p o) -> ost s d = SUCCEEDED) /\ fails p orc o = true) /\
    (ost s o = SUCCEEDED <-> (forall d, In d (exe_deps p o) -> ost s d = SUCCEEDED) /\ fails p orc o = false) /\
    (ost s o = SKIPPED <-> exists f, op_path p o f /\ ost s f = FAILED) /\
    (ost s o = SKIPPED -> forall sl, ~ In (EStart o sl) (trace s)).
Proof. exact main_classification. Qed.
Print Assumptions C03_classification.

(* every operation gets one of the three outcomes, exactly once (no --stop-early exit) *)
Theorem C03_every_op_has_outcome :
  forall p jobs stop orc, wf_plan p -> 1 <= jobs ->
  forall s, final_state p jobs stop orc s -> stopped s = false ->
    (forall o, o < length (p_ops p) -> In o (completed s)) /\ NoDup (completed s) /\
    (forall o, o < length (p_ops p) -> ost s o = SUCCEEDED \/ ost s o = FAILED \/ ost s o = SKIPPED) /\
    infl s = [].
Proof. exact main_all_completed. Qed.
Print Assumptions C03_every_op_has_outcome.

(* the report names exactly the failed and exactly the skipped operations, the run "raises"
   (exit status 1) iff some completed operation did not succeed, the internal assertion
   `len(failed_task_ops) > 0` cannot fire when something did not succeed, and the processes sent
   SIGTERM are exactly those still in flight *)
Theorem C03_report :
  forall p jobs stop orc, wf_plan p -> 1 <= jobs ->
  forall s root, final_state p jobs stop orc s ->
    match report p root s with
    | [EDone; EKill k] => forallb (succeeded s) (completed s) = true /\ k = map fst (procs s)
    | [EFailed f sk; EKill k] =>
        (forall o, In o f <-> In o (completed s) /\ ost s o = FAILED) /\
        (forall o, In o sk <-> In o (completed s) /\ ost s o = SKIPPED) /\
        f <> [] /\ k = map fst (procs s)
    | [EAssertFail; EKill k] => forallb (succeeded s) (completed s) = true
    | _ => False
    end.
Proof. exact main_report. Qed.
Print Assumptions C03_report.

(* --stop-early: whenever the loop takes a step, no failure has been observed before it -- so a
   failure event is always the last event of the loop and nothing is started after it *)
Theorem C03_stop_early :
  forall p jobs stop orc, wf_plan p -> 1 <= jobs ->
  forall s s', reachable p jobs stop orc s -> xstep p jobs stop orc s = Some s' -> stop = true ->
    exists ev, trace s' = ev :: trace s /\ forall e, In e (trace s) -> is_failure e = false.
Proof. exact main_stop_early. Qed.
Print Assumptions C03_stop_early.

(* Task level, end to end (loader -> planner -> executor, Model/RunCase.cond_run; no side condition
   on the project, the plan or the oracle; without --stop-early): every needed task has exactly
   one operation and ends succeeded, failed or skipped;
   - it is SKIPPED iff some task it depends on -- directly or transitively through tasks that are
     executed in this invocation (RPath) -- FAILED, and then it is never started;
   - it FAILED iff every direct dependency that is executed succeeded and the oracle fails it
     (launch error, non-zero exit code or signal);
   - it SUCCEEDED iff every direct dependency that is executed succeeded and the oracle does not
     fail it -- so every needed task that does not depend on a failed one still runs.
   The report (C03_report) names exactly those sets. *)
Theorem C03_task_level_end_to_end :
  forall fuel tasks c loaded ps evs,
  cond_run fuel tasks c = ORun loaded ps (Some evs) -> 1 <= c_jobs c -> c_stop c = false ->
  let pl := plan_of ps in let orc := oracle_of pl c in let n := length (ops ps) in
  let task o := op_task (op_at (ops ps) o) in let info := info_of tasks in
  exists s, final_state pl (c_jobs c) false orc s /\ evs = rev (report pl (c_root c) s ++ trace s) /\
  forall o, o < n ->
    (ost s o = SKIPPED <-> exists f, f < n /\ RPath tasks c (task o) (task f) /\ ost s f = FAILED) /\
    (ost s o = FAILED <->
       (forall d, d < n -> In (task d) (t_deps (info (task o))) -> ost s d = SUCCEEDED) /\ fails pl orc o = true) /\
    (ost s o = SUCCEEDED <->
       (forall d, d < n -> In (task d) (t_deps (info (task o))) -> ost s d = SUCCEEDED) /\ fails pl orc o = false) /\
    (ost s o = SKIPPED -> forall sl, ~ In (EStart o sl) evs) /\
    (ost s o = SUCCEEDED \/ ost s o = FAILED \/ ost s o = SKIPPED).
Proof. exact cond_run_task_classification. Qed.
Print Assumptions C03_task_level_end_to_end.

(* --stop-early, end to end on the event list of a complete `cond run` of the composed model: the first
   failure that is observed (a launch failure or a non-zero exit) is the last thing that happens --
   nothing is started after it, and no failure precedes it (the report, incl. the SIGTERM sweep of
   C03_report, is all that follows) *)
Theorem C03_stop_early_end_to_end :
  forall fuel tasks c loaded ps evs,
  cond_run fuel tasks c = ORun loaded ps (Some evs) -> 1 <= c_jobs c -> c_stop c = true ->
  forall pre e post, evs = pre ++ e :: post -> is_failure e = true ->
  (forall x sl, ~ In (EStart x sl) post) /\ (forall e', In e' pre -> is_failure e' = false).
Proof. exact cond_run_stop_early. Qed.
Print Assumptions C03_stop_early_end_to_end.

(* "... and the tasks still running are sent SIGTERM", end to end on the event list of a complete `cond run` (with or without
   --stop-early; Executor.run_plan's `finally: terminate_processes()`): exactly one SIGTERM sweep happens; it reaches, each once,
   EXACTLY the operations that were started as processes and whose exit has not been observed; it is empty without --stop-early,
   and empty whenever no failure was observed. *)
Theorem C03_sigterm_sweep_end_to_end :
  forall fuel tasks c loaded ps evs,
  cond_run fuel tasks c = ORun loaded ps (Some evs) -> 1 <= c_jobs c ->
  exists k,
    In (EKill k) evs /\ (forall k', In (EKill k') evs -> k' = k) /\ NoDup k /\
    (forall o, In o k <-> (exists sl, In (EStart o sl) evs) /\ (forall rc, ~ In (EFinish o rc) evs) /\
                           op_sync (op_at (ops ps) o) = false) /\
    (c_stop c = false -> k = []) /\
    ((forall e, In e evs -> is_failure e = false) -> k = []).
Proof. exact cond_run_kill_set. Qed.
Print Assumptions C03_sigterm_sweep_end_to_end.

(* The verdict, end to end.  For every project the loader accepts, every configuration and every
   oracle: the event list of a complete `cond run` never contains the firing of
   `assert len(failed_task_ops) > 0`; it ends with "Done!" (exit status 0) EXACTLY when no launch
   failed, no process exited with a non-zero status and nothing was skipped -- and then every planned
   operation finished with status 0; otherwise it ends with a failure report that names at least
   one failed operation (and the run re-raises its error: exit status 1). *)
Theorem C03_verdict_end_to_end :
  forall fuel tasks c loaded ps evs,
  cond_run fuel tasks c = ORun loaded ps (Some evs) -> 1 <= c_jobs c ->
  ~ In EAssertFail evs /\
  (In EDone evs <-> forall e, In e evs -> is_failure e = false /\ is_skip e = false) /\
  (In EDone evs -> forall o, o < length (ops ps) -> In (EFinish o 0%N) evs) /\
  (~ In EDone evs -> exists f sk, In (EFailed f sk) evs /\ f <> []).
Proof. exact cond_run_verdict. Qed.
Print Assumptions C03_verdict_end_to_end.

(* non-vacuity: a well-formed two-operation plan (op 1 depends on op 0) whose first operation
   fails ends with op 0 FAILED, op 1 SKIPPED and a failure report *)
Definition ex_plan : plan :=
  {| p_ops := [ {| op_task := 1; op_exe_deps := []; op_par := false; op_sync := false |};
                {| op_task := 0; op_exe_deps := [0]; op_par := false; op_sync := false |} ];
     p_initial := [0]; p_cached := []; p_num := 2 |}.
Definition ex_orc : oracle := {| launch_fails := fun _ => false; rc_of := fun o => if Nat.eqb o 0 then 3%N else 0%N; pick := fun _ => 0 |}.
Example C03_nonvacuous :
  run_plan ex_plan 1 false ex_orc 10 0 =
  Some [EStart 0 None; EFinish 0 3; ESkip 1; EKill []; EFailed [0] [1]].
Proof. vm_compute. reflexivity. Qed.

(* non-vacuity of the verdict: (a) a dependency exits with 3, the dependent is skipped, the run reports
   the failure; (b) the same project with status 0 everywhere ends with "Done!"; (c) a root whose
   results are cached: the plan is empty and the run still ends with "Done!" (the branch in which the
   assertion would have to hold) *)
Definition v_tasks : list tdef :=
  [ {| td_status := 2; td_deps := [1]; td_kind := KCommand; td_par := false; td_sr := true |};
    {| td_status := 2; td_deps := []; td_kind := KCommand; td_par := false; td_sr := true |} ].
Definition v_cfg (rc : N) : run_cfg :=
  {| c_root := 0; c_again := false; c_jobs := 1; c_stop := false; c_launch_fail := []; c_rcs := [0; rc]%N; c_picks := [] |}.
Definition v_cached : list tdef :=
  [ {| td_status := 2; td_deps := []; td_kind := KExperiment; td_par := false; td_sr := false |} ].
Definition evs_of (o : outcome) : list event := match o with ORun _ _ (Some l) => l | _ => [] end.
Example C03_verdict_nonvacuous :
  evs_of (cond_run 50 v_tasks (v_cfg 3)) = [EStart 0 None; EFinish 0 3; ESkip 1; EKill []; EFailed [0] [1]] /\
  evs_of (cond_run 50 v_tasks (v_cfg 0)) = [EStart 0 None; EFinish 0 0; EStart 1 None; EFinish 1 0; EKill []; EDone] /\
  evs_of (cond_run 50 v_cached (v_cfg 0)) = [ECached 0; EKill []; EDone].
Proof. vm_compute. repeat split. Qed.

(* non-vacuity of the sweep: three parallel tasks under --stop-early -j3; one has succeeded, one fails, the third is still
   running and is the one sent SIGTERM *)
Definition k_tasks : list tdef :=
  [ {| td_status := 2; td_deps := [1;2;3]; td_kind := KCommand; td_par := false; td_sr := true |};
    {| td_status := 2; td_deps := []; td_kind := KCommand; td_par := true; td_sr := true |};
    {| td_status := 2; td_deps := []; td_kind := KCommand; td_par := true; td_sr := true |};
    {| td_status := 2; td_deps := []; td_kind := KCommand; td_par := true; td_sr := true |} ].
Definition k_cfg : run_cfg :=
  {| c_root := 0; c_again := false; c_jobs := 3; c_stop := true; c_launch_fail := []; c_rcs := [0;1;0;0]%N; c_picks := [1;0;0] |}.
Example C03_sigterm_sweep_nonvacuous :
  evs_of (cond_run 50 k_tasks k_cfg) =
  [EStart 0 (Some 0); EStart 1 (Some 1); EStart 2 (Some 2); EFinish 1 0; EFinish 0 1; EKill [2]; EFailed [0] []].
Proof. vm_compute. reflexivity. Qed.

(* Tie to the sources, re-checked on every run: the decisions of the executor model the theorems above are about are the ones
   TRANSLATED from executor.py / ops/operation.py of the working tree --
   (1) a dequeued operation is SKIPPED (and handed to _process_finished_op) exactly when the translated test holds of "all
       its execution dependencies succeeded" (exe_deps_succeeded = all(succeeded) over exe_deps);
   (2) "succeeded" is the translated predicate on the operation's state;
   (3) after a wait for a process the model's run is stopped exactly when it was stopped before or the translated
       `error_occurred and stop_on_first_error` holds of (that process failed, --stop-early);
   (4) "Done!" is reported exactly when the translated verdict `all_succeeded and (main_task_executed or main_task_cached)`
       holds of the completed operations -- otherwise the failure report, never "Done!". *)
Theorem C03_executor_decisions_are_the_sources :
  (forall p jobs stop orc s,
     let o := fst (fst (dequeue s)) in
     gen_skips (forallb (succeeded s) (exe_deps p o)) = true ->
     trace (launch_one p jobs stop orc s) = ESkip o :: trace s /\ ost (launch_one p jobs stop orc s) o = SKIPPED) /\
  (forall p jobs stop orc s,
     let o := fst (fst (dequeue s)) in
     gen_skips (forallb (succeeded s) (exe_deps p o)) = false ->
     forall tr', trace (launch_one p jobs stop orc s) <> ESkip o :: tr') /\
  (forall s o, succeeded s o = gen_op_succeeded (ostate_eqb (ost s o) SUCCEEDED) false) /\
  (forall failed stop, gen_wait_stops failed stop = failed && stop) /\
  (forall p stop orc s, syncs s = [] ->
     let k := Nat.modulo (pick orc (waits s)) (length (procs s)) in
     let o := fst (nth k (procs s) (0, None)) in
     stopped (wait_one p stop orc s) = gen_wait_stops (negb (N.eqb (rc_of orc o) 0)) stop || stopped s) /\
  (forall p root s,
     let all_ok := forallb (succeeded s) (completed s) in
     let main_exec := existsb (fun o => Nat.eqb (op_task (opi p o)) root) (completed s) in
     let main_cached := match completed s with [] => mem root (p_cached p) | _ => false end in
     (gen_verdict_done all_ok main_exec main_cached = true -> report p root s = [EDone; EKill (map fst (procs s))]) /\
     (gen_verdict_done all_ok main_exec main_cached = false -> ~ In EDone (report p root s))).
Proof. split; [exact skip_tie|]. split; [exact no_skip_tie|]. split; [exact succeeded_tie|]. split; [exact wait_stop_tie|]. split; [exact wait_stop_tie_model|exact report_tie]. Qed.
Print Assumptions C03_executor_decisions_are_the_sources.

(* the example plan meets the hypothesis of the theorems above *)
Example C03_example_plan_is_wf : wf_plan ex_plan.
Proof. apply wf_planb_spec. vm_compute. reflexivity. Qed.
