(* C15 -- COND definitions: well-formed accepted, malformed rejected (the decision; partial).
   Only theorem statements, each closed by [exact] of a lemma of Proofs/SchemaProofs.v, with the
   axioms it depends on printed beneath.  The schema table is the one reflected from
   conductor.task_types.raw_task_types on this run (Gen/Generated.v).

   PARTIAL: these theorems cover the accept/reject DECISION of the loader for COND files made of
   documented constructor calls (and run_experiment_group, through C19).  That every rejection
   reaches the user as an `ERROR:` line naming the file, and that arbitrary Python exceptions
   raised by a COND file or an included file are mapped to ConductorErrors, is interpreter
   behaviour outside the model; harness/c15.py checks it on generated sources.  The undocumented
   `environment` constructor is excluded ([fst c <> C_environment]). *)
From Coq Require Import List NArith ZArith Bool.
From Conductor Require Import Lib.Regex Lib.RegexBisim Lib.PyRegex Lib.Str Lib.SchemaTypes
  Gen.Generated Model.Ident Model.Schema Model.Group
  Proofs.IdentSpec Proofs.IdentProofs Proofs.SchemaSpec Proofs.SchemaProofs Proofs.GroupProofs.
From Conductor Require Props.C20 Props.C19.
Require Coq.Strings.String.
Import Coq.Strings.String.StringSyntax.
Import ListNotations.
Open Scope N_scope.

(* for ANY schema: the validator accepts a set of arguments iff every required parameter is
   present, every present parameter has its type, and nothing else is present *)
Theorem C15_validate_generic : forall (schema : list (str * sty)) (args : assoc),
  validate schema args = Ok tt <-> SchemaOk schema args.
Proof. exact validate_generic. Qed.
Print Assumptions C15_validate_generic.

(* {**defaults, **kwargs}: an argument that is passed wins over its default *)
Theorem C15_defaults : forall k defaults kwargs,
  lookup k (dict_merge defaults kwargs) =
  match lookup k (rev kwargs) with Some v => Some v | None => lookup k defaults end.
Proof. exact lookup_merge. Qed.
Print Assumptions C15_defaults.

(* the implementation's table, without the undocumented `environment` row, is the documented
   one: same constructors, same parameters in the same order with the same types, same defaults *)
Theorem C15_table : documented_part task_type_table = doc_table.
Proof. vm_compute. reflexivity. Qed.
Print Assumptions C15_table.

(* Loading ONE task t of a COND file of constructor calls cs (TaskIndex.load_single_task: evaluate the
   file, then materialize t -- what the loader does at every task it visits, and the function the
   correspondence check drives) succeeds iff every definition of the file is a documented
   constructor obeying its schema with a valid name, the names are pairwise different, t is one of
   them, and t's deps are distinct identifiers of the documented grammar, its args/options
   primitive (string keys), a combine's dependency names unique.
   `cond run --check //dir:t` applies this decision to every task of t's transitive closure
   (Model/Loader.v; Props/C14.v proves that traversal sound and complete for an abstract per-task
   verdict); the two are composed by the end-to-end part of the check, not by a theorem. *)
Theorem C15_accept : forall dir cs t,
  Forall (fun c => fst c <> C_environment) cs ->
  (is_ok (check_calls dir cs t) = true <-> DocWellFormed dir cs t).
Proof.
  exact (check_calls_spec C20.tie_name C20.tie_ident C20.tie_rel
           C19.tie_rc C19.tie_re C19.tie_gr C19.tie_co C19.tie_names).
Qed.
Print Assumptions C15_accept.

(* the same for files that also contain run_experiment_group: the decision is that of the file
   with the groups expanded as documented; a group without a documented expansion is rejected *)
Theorem C15_accept_groups : forall dir ss t,
  match expand_file ss with
  | Some cs =>
    Forall (fun c => fst c <> C_environment) cs ->
    (is_ok (check_task dir ss t) = true <-> DocWellFormed dir cs t)
  | None => is_ok (check_task dir ss t) = false
  end.
Proof.
  intros dir ss t. pose proof (C19.C19_reject ss) as R. unfold check_task.
  destruct (expand_file ss) as [cs|].
  - intros Hall. rewrite <- (C15_accept dir cs t Hall). unfold check_calls.
    destruct (parse_file ss), (parse_calls cs); simpl in *; try contradiction; subst; tauto.
  - destruct (parse_file ss); [discriminate R | reflexivity].
Qed.
Print Assumptions C15_accept_groups.

(* accepted names are exactly the documented ones: for a definition whose arguments obey the
   schema, the constructor accepts it iff its name is a non-empty string of letters, digits,
   '-' and '_' *)
Theorem C15_name : forall row c s,
  In row doc_rows -> SchemaOk (tt_schema row) (call_args row c) ->
  lookup K_name (call_args row c) = Some (VStr s) ->
  (is_ok (load_from_cond_file row (snd c)) = true <-> DocName s).
Proof. exact (load_name_spec C20.tie_name). Qed.
Print Assumptions C15_name.

(* a dependency string is accepted iff it is ":name" or "//path/to:name" of the documented
   grammar, and it denotes the identifier the documentation says *)
Theorem C15_dep : forall dir s i, resolve_dep dir s = Some i <-> DocResolves dir s i.
Proof. exact (resolve_dep_spec C20.tie_ident C20.tie_rel). Qed.
Print Assumptions C15_dep.

(* non-vacuity: a two-task file is well formed and accepted; the same file with a trailing
   newline in a name, an unknown parameter or a repeated name is rejected *)
Definition ex_a : call := (C_run_command, [(K_name, VStr (lit "a")); (K_run, VStr (lit "true"))]).
Definition ex_b (name : str) (extra : assoc) : call :=
  (C_combine, [(K_name, VStr name); (K_deps, VList [VStr (lit ":a")])] ++ extra).
Example C15_nonvacuous :
  is_ok (check_calls [lit "d"] [ex_a; ex_b (lit "b") []] (lit "b")) = true /\
  DocWellFormed [lit "d"] [ex_a; ex_b (lit "b") []] (lit "b") /\
  is_ok (check_calls [lit "d"] [ex_a; ex_b (lit "b" ++ [10]) []] (lit "b" ++ [10])) = false /\
  is_ok (check_calls [lit "d"] [ex_a; ex_b (lit "b") [(lit "x", VNone)]] (lit "b")) = false /\
  is_ok (check_calls [lit "d"] [ex_a; ex_b (lit "a") []] (lit "a")) = false.
Proof.
  assert (H : is_ok (check_calls [lit "d"] [ex_a; ex_b (lit "b") []] (lit "b")) = true)
    by (vm_compute; reflexivity).
  split; [exact H|]. split.
  - apply C15_accept; [|exact H]. repeat constructor; intros E; discriminate E.
  - repeat split; vm_compute; reflexivity.
Qed.
