(* C11 -- archive then restore reproduces exactly the selected versions.
   Only theorem statements (proved in Proofs/ArchiveProofs.v about Model/Archive.v), each with the
   axioms it depends on printed beneath.
   PARTIAL: byte identity of directory trees is `tar czf`/`tar xzf`/`shutil.copytree`; in the
   model a directory's content is an opaque value that tar and copytree hand on unchanged
   ([extraction_of], [ICopy]); the harness exercises that on generated trees. *)
From Coq Require Import List NArith Bool.
From Conductor Require Import Lib.Str Model.Archive Proofs.ArchiveProofs.
From Conductor Require Import Gen.Generated Model.ArchiveOut Proofs.ArchiveOutProofs Proofs.GenTieArchiveOut.
Import ListNotations.
Open Scope N_scope.

(* The rows of a successful archive are exactly the selected ones, each once:
   default = every recorded row (even as a list); --latest = only rows that are the newest of
   their task; with a task T = only rows of archivable tasks reachable from T. *)
Theorem C11_selection : forall g target latest P P' A,
  keys_unique (p_rows P) ->
  archive g target latest P = (P', AOk A) ->
  keys_unique (a_rows A) /\
  (forall r, In r (a_rows A) <->
     In r (p_rows P) /\
     (latest = true -> forall r', In r' (p_rows P) -> r_task r' = r_task r -> r_ts r' <= r_ts r) /\
     (forall T, target = Some T -> Reach g T (r_task r) /\ archivable g (r_task r) = true)) /\
  (target = None -> latest = false -> a_rows A = p_rows P).
Proof. exact archive_selection. Qed.
Print Assumptions C11_selection.

(* --latest: each selected task contributes exactly its one newest row *)
Theorem C11_latest_one_per_task : forall g target P P' A,
  keys_unique (p_rows P) ->
  archive g target true P = (P', AOk A) ->
  forall r0, In r0 (p_rows P) ->
    (forall T, target = Some T -> Reach g T (r_task r0) /\ archivable g (r_task r0) = true) ->
    exists r, In r (a_rows A) /\ r_task r = r_task r0 /\
      forall r', In r' (a_rows A) -> r_task r' = r_task r0 -> r' = r.
Proof. exact archive_latest_one_per_task. Qed.
Print Assumptions C11_latest_one_per_task.

(* TaskType.traverse, for every finite graph: |V|+|E|+2 loop iterations always suffice (the
   out-of-fuel result is unreachable); the visitor is called exactly once on each task
   reachable from the root and on nothing else; it completes whenever every reachable task is
   defined. *)
Theorem C11_traverse_nodup : forall g root,
  traverse g root <> TFuel /\
  (forall calls, traverse g root = TOk calls ->
     NoDup calls /\ forall x, In x calls <-> Reach g root x) /\
  ((forall v, Reach g root v -> get_task g v <> None) -> exists calls, traverse g root = TOk calls).
Proof. exact traverse_nodup. Qed.
Print Assumptions C11_traverse_nodup.

(* hence filling the archive index never hits the primary key (the failure of defect D5) *)
Theorem C11_no_integrity_error : forall g target latest P,
  keys_unique (p_rows P) ->
  snd (archive g target latest P) <> AIntegrity /\ snd (archive g target latest P) <> AFuel.
Proof. exact archive_no_integrity. Qed.
Print Assumptions C11_no_integrity_error.

(* archive, then restore (no environment fault) into any project Q that has none of the
   selected (task, timestamp) pairs and none of their directories: restore succeeds, Q's rows
   are extended by exactly the archived rows -- same id, timestamp, commit, dirty flag, they
   are the very same records --, every selected directory exists with the content it has in
   the source project, and nothing else in Q changed. *)
Theorem C11_roundtrip : forall g target latest P P' A Q e,
  archive g target latest P = (P', AOk A) ->
  (forall i, e_fail e i = false) ->
  (forall r, In r (a_rows A) ->
     ~ In (row_key r) (map row_key (p_rows Q)) /\ fs_get (row_key r) (p_dirs Q) = None) ->
  exists Q',
    restore e (extraction_of A) Q = (Q', true) /\
    p_rows Q' = p_rows Q ++ a_rows A /\
    (forall r, In r (a_rows A) ->
       exists c, fs_get (row_key r) (p_dirs P) = Some c /\ fs_get (row_key r) (p_dirs Q') = Some c) /\
    (forall k, ~ In k (map row_key (a_rows A)) -> fs_get k (p_dirs Q') = fs_get k (p_dirs Q)) /\
    dirs_ext (p_dirs Q) (p_dirs Q').
Proof. exact archive_restore_roundtrip. Qed.
Print Assumptions C11_roundtrip.

(* archiving, whatever its outcome, leaves the source's recorded versions and outputs alone *)
Theorem C11_source_unchanged : forall g target latest P,
  p_rows (fst (archive g target latest P)) = p_rows P /\
  p_dirs (fst (archive g target latest P)) = p_dirs P /\
  p_stage (fst (archive g target latest P)) = p_stage P.
Proof. exact archive_source_unchanged. Qed.
Print Assumptions C11_source_unchanged.

(* "Archiving never changes the source project's recorded versions or outputs" -- also when `cond archive` REFUSES or
   FAILS.  Model/ArchiveOut.v: what the file system answers about the -o argument when the command starts (given?
   exists? a directory? parent exists? parent a directory?) and which step of archive.main raises (any, or none) are
   arbitrary.
   Scope: the steps of archive.main AFTER `ctx = Context.from_cwd()`.  Building the context is common to every subcommand and is
   not free of effects: it creates cond-out/ and an empty version index in a fresh project and upgrades a format-1 index in place
   (with its backup file); step 2 (compute_tasks_to_archive) evaluates COND files.  None of that is modelled here; [touches_files]
   speaks about the temporary archive index and the output file only.
   (1) When handle_output_path refuses (-o names an existing file, a generated name that is taken, or a path whose parent is no
       directory) none of these files is touched: the only step entered is handle_output_path itself.
   (2) A failure in one of the three steps before the try block (bad identifier, task not found, cycle, nothing
       archivable in the closure) touches no file either.
   (3) An existing regular file named by -o is never written and never removed, whichever step fails.
   (4) The file the command writes -- the -o argument itself, or the generated name cond-archive+<time to the second>.tar.gz in
       cond-out / in the -o directory -- is written (step 9) and removed by the handler (step 11) only if it did NOT exist when
       the command looked; whatever existed is refused with nothing touched (since the repair D43 also a generated name that an
       archive made within the same second already carries). *)
Theorem C11_refused_archive_touches_nothing : forall p f,
  refused (handle_output_path p) = true ->
  archive_main p f = [1] /\ existsb touches_files (archive_main p f) = false.
Proof. intros p f H. split; [exact (refused_trace p f H)|exact (refused_touches_nothing p f H)]. Qed.
Print Assumptions C11_refused_archive_touches_nothing.

Theorem C11_early_failure_touches_nothing : forall p k, (k < 3)%nat ->
  existsb touches_files (archive_main p (Some k)) = false.
Proof. exact early_failure_touches_nothing. Qed.
Print Assumptions C11_early_failure_touches_nothing.

Theorem C11_existing_file_is_never_written_or_removed : forall p f,
  o_given p = true -> o_exists p = true -> o_is_dir p = false ->
  existsb writes_output (archive_main p f) = false /\ existsb removes_output (archive_main p f) = false.
Proof. exact existing_file_is_safe. Qed.
Print Assumptions C11_existing_file_is_never_written_or_removed.

Theorem C11_output_removed_only_if_it_was_absent : forall p f,
  (existsb removes_output (archive_main p f) = true -> target_existed p = false) /\
  (existsb writes_output (archive_main p f) = true -> target_existed p = false) /\
  (target_existed p = true -> archive_main p f = [1]).
Proof.
  intros p f. split; [apply unlink_only_what_was_absent|]. split; [apply write_only_what_was_absent|apply existing_target_is_refused].
Qed.
Print Assumptions C11_output_removed_only_if_it_was_absent.

(* the temporary index cond-out/version_index_archive.sqlite does not outlive a command that ends by returning or by an
   exception (the `finally:`; a process killed by a signal it does not handle -- SIGKILL, or SIGTERM/SIGINT outside `cond run`'s
   handlers -- leaves it behind, and the next `cond archive` unlinks it first: step 4); a failure inside the try block is followed by
   the removal of the (partial) output file, the re-raise and the removal of the index.  [fail_at] beyond the last step denotes
   no real execution (the trace then equals that of a failure in the last step plus the steps after it). *)
Theorem C11_temporary_index_is_removed : forall p f,
  existsb (fun c => c =? 5) (archive_main p f) = true -> last (archive_main p f) 0 = 4.
Proof. exact temp_index_removed. Qed.
Print Assumptions C11_temporary_index_is_removed.

Theorem C11_failure_inside_the_try_cleans_up : forall p k, refused (handle_output_path p) = false -> (3 <= k)%nat ->
  exists pre, archive_main p (Some k) = [1;2;3] ++ pre ++ [11; 12; 4] /\ firstn (S (k - 3)) steps_try = pre.
Proof. exact failure_in_try_cleans_up. Qed.
Print Assumptions C11_failure_inside_the_try_cleans_up.

(* Tie to the sources, re-checked on every run: the decision of handle_output_path and the order of the steps of
   archive.main (before the try block / inside it / bare except / finally) are the ones TRANSLATED from cli/archive.py
   of the working tree, and create_archive has the one shape in which `tar czf` is the only writer of the output file.
   Moving the existence test into the try block (seed C11/i), another test order in handle_output_path, a handler that
   no longer re-raises, or a second statement touching the output file breaks these obligations. *)
Theorem C11_archive_output_is_the_sources :
  (forall p, decision_code (handle_output_path p) =
             gen_archive_output_decision (o_given p) (o_exists p) (o_is_dir p) (o_parent_exists p) (o_parent_is_dir p) (o_gen_exists p)) /\
  steps_before_try = gen_archive_before_try /\ steps_try = gen_archive_try /\
  steps_on_error = gen_archive_on_error /\ steps_finally = gen_archive_finally /\
  gen_archive_tar_is_the_only_writer = true.
Proof. split; [exact archive_output_tie|exact archive_steps_tie]. Qed.
Print Assumptions C11_archive_output_is_the_sources.

(* ... and the selection of the rows (VersionIndex.copy_entries_to, the subject of C11_selection): the batches the
   model loads are those of the method TRANSLATED from the working tree -- the query chosen by the translated test on
   (tasks is None, latest_only); the whole table in one bulk_load, or one query and one bulk_load per element of `tasks`
   in order; and the SQL texts of version_index_queries.py are the ones the list functions transcribe.  A loop that
   batches the tasks differently (seed C11/j: `IN (...)` over slices of 100), another query for a flag combination or an
   edited SQL text breaks these obligations. *)
Theorem C11_copy_entries_is_the_sources : forall src tasks latest,
  batches src tasks latest =
  match tasks with
  | None => [query_by_code (gen_copy_query true latest) [] src]
  | Some ts => map (fun T => query_by_code (gen_copy_query false latest) T src) ts
  end /\
  gen_copy_whole_table_is_one_bulk_load = true /\ gen_copy_per_task_in_order_counts_summed = true /\
  gen_sql_texts_are_the_transcribed_ones = true.
Proof. exact copy_batches_tie. Qed.
Print Assumptions C11_copy_entries_is_the_sources.

(* the tar member list of `cond archive` and the copy loop of `cond restore` iterate get_all_versions(): one entry per row *)
Theorem C11_member_list_is_every_row : gen_index_readers_return_one_entry_per_row = true.
Proof. reflexivity. Qed.
Print Assumptions C11_member_list_is_every_row.

(* non-vacuity: `-o backup.tar.gz` with backup.tar.gz present is refused with one step; `-o new.tar.gz` (absent, parent a
   directory) whose tar fails enters 1..9, removes the partial file, re-raises and removes the index; success ends with
   the removal of the index *)
Example C11_archive_out_nonvacuous :
  let existing := {| o_given := true; o_exists := true; o_is_dir := false; o_parent_exists := true; o_parent_is_dir := true; o_gen_exists := false |} in
  let fresh := {| o_given := true; o_exists := false; o_is_dir := false; o_parent_exists := true; o_parent_is_dir := true; o_gen_exists := false |} in
  let same_second := {| o_given := false; o_exists := false; o_is_dir := false; o_parent_exists := false; o_parent_is_dir := false; o_gen_exists := true |} in
  handle_output_path same_second = OErrExists /\ archive_main same_second None = [1] /\
  handle_output_path existing = OErrExists /\ archive_main existing None = [1] /\
  handle_output_path fresh = OGiven /\
  archive_main fresh (Some 8%nat) = [1;2;3;4;5;6;7;8;9;11;12;4] /\
  archive_main fresh (Some 1%nat) = [1;2] /\
  archive_main fresh None = [1;2;3;4;5;6;7;8;9;10;4].
Proof. repeat split; reflexivity. Qed.

(* non-vacuity: g -> [e1, mid], mid -> [e1, e2] (mid not archivable), two versions of e1;
   `archive //:g --latest` selects g@6, e2@5, e1@7 and restoring into an empty project works *)
Definition ex_g : graph :=
  [([103], {| t_deps := [[101; 49]; [109]]; t_archivable := true |});
   ([109], {| t_deps := [[101; 49]; [101; 50]]; t_archivable := false |});
   ([101; 49], {| t_deps := []; t_archivable := true |});
   ([101; 50], {| t_deps := []; t_archivable := true |})].
Definition ex_row (T : str) (ts : N) : row := {| r_task := T; r_ts := ts; r_commit := None; r_dirty := 0 |}.
Definition ex_P : proj :=
  {| p_rows := [ex_row [101; 49] 4; ex_row [101; 50] 5; ex_row [103] 6; ex_row [101; 49] 7];
     p_dirs := [(([101; 49], 4), 40); (([101; 50], 5), 50); (([103], 6), 60); (([101; 49], 7), 70)];
     p_stage := false; p_aidx := None |}.
Definition ex_empty : proj := {| p_rows := []; p_dirs := []; p_stage := false; p_aidx := None |}.
Example C11_nonvacuous :
  keys_unique (p_rows ex_P) /\
  traverse ex_g [103] = TOk [[103]; [109]; [101; 50]; [101; 49]] /\
  exists A, archive ex_g (Some [103]) true ex_P = (ex_P, AOk A) /\
    a_rows A = [ex_row [103] 6; ex_row [101; 50] 5; ex_row [101; 49] 7] /\
    restore no_faults (extraction_of A) ex_empty =
      ({| p_rows := a_rows A; p_dirs := [(([103], 6), 60); (([101; 50], 5), 50); (([101; 49], 7), 70)];
          p_stage := false; p_aidx := None |}, true).
Proof.
  split.
  - unfold keys_unique. simpl. repeat constructor; simpl; intuition discriminate.
  - split; [vm_compute; reflexivity|]. eexists. split; [vm_compute; reflexivity|].
    split; vm_compute; reflexivity.
Qed.
