(* C11 -- archive then restore reproduces exactly the selected versions.
   Only theorem statements (proved in Proofs/ArchiveProofs.v about Model/Archive.v), each with the
   axioms it depends on printed beneath.
   PARTIAL: byte identity of directory trees is `tar czf`/`tar xzf`/`shutil.copytree`; in the
   model a directory's content is an opaque value that tar and copytree hand on unchanged
   ([extraction_of], [ICopy]); the harness exercises that on generated trees. *)
From Coq Require Import List NArith Bool.
From Conductor Require Import Lib.Str Model.Archive Proofs.ArchiveProofs.
Import ListNotations.
Open Scope N_scope.

(* The rows of a successful archive are exactly the selected ones, each once:
   default = every recorded row (even as a list); --latest = only rows that are the newest of
   their task; with a task T = only rows of archivable tasks reachable from T. *)
Theorem C11_selection : forall g target latest P P' A,
  keys_unique (p_rows P) ->
  archive g target latest P = (P', AOk A) ->
  keys_unique (a_rows A) /\
  (forall r, In r (a_rows A) <->
     In r (p_rows P) /\
     (latest = true -> forall r', In r' (p_rows P) -> r_task r' = r_task r -> r_ts r' <= r_ts r) /\
     (forall T, target = Some T -> Reach g T (r_task r) /\ archivable g (r_task r) = true)) /\
  (target = None -> latest = false -> a_rows A = p_rows P).
Proof. exact archive_selection. Qed.
Print Assumptions C11_selection.

(* --latest: each selected task contributes exactly its one newest row *)
Theorem C11_latest_one_per_task : forall g target P P' A,
  keys_unique (p_rows P) ->
  archive g target true P = (P', AOk A) ->
  forall r0, In r0 (p_rows P) ->
    (forall T, target = Some T -> Reach g T (r_task r0) /\ archivable g (r_task r0) = true) ->
    exists r, In r (a_rows A) /\ r_task r = r_task r0 /\
      forall r', In r' (a_rows A) -> r_task r' = r_task r0 -> r' = r.
Proof. exact archive_latest_one_per_task. Qed.
Print Assumptions C11_latest_one_per_task.

(* TaskType.traverse, for every finite graph: |V|+|E|+2 loop iterations always suffice (the
   out-of-fuel result is unreachable); the visitor is called exactly once on each task
   reachable from the root and on nothing else; it completes whenever every reachable task is
   defined. *)
Theorem C11_traverse_nodup : forall g root,
  traverse g root <> TFuel /\
  (forall calls, traverse g root = TOk calls ->
     NoDup calls /\ forall x, In x calls <-> Reach g root x) /\
  ((forall v, Reach g root v -> get_task g v <> None) -> exists calls, traverse g root = TOk calls).
Proof. exact traverse_nodup. Qed.
Print Assumptions C11_traverse_nodup.

(* hence filling the archive index never hits the primary key (the failure of defect D5) *)
Theorem C11_no_integrity_error : forall g target latest P,
  keys_unique (p_rows P) ->
  snd (archive g target latest P) <> AIntegrity /\ snd (archive g target latest P) <> AFuel.
Proof. exact archive_no_integrity. Qed.
Print Assumptions C11_no_integrity_error.

(* archive, then restore (no environment fault) into any project Q that has none of the
   selected (task, timestamp) pairs and none of their directories: restore succeeds, Q's rows
   are extended by exactly the archived rows -- same id, timestamp, commit, dirty flag, they
   are the very same records --, every selected directory exists with the content it has in
   the source project, and nothing else in Q changed. *)
Theorem C11_roundtrip : forall g target latest P P' A Q e,
  archive g target latest P = (P', AOk A) ->
  (forall i, e_fail e i = false) ->
  (forall r, In r (a_rows A) ->
     ~ In (row_key r) (map row_key (p_rows Q)) /\ fs_get (row_key r) (p_dirs Q) = None) ->
  exists Q',
    restore e (extraction_of A) Q = (Q', true) /\
    p_rows Q' = p_rows Q ++ a_rows A /\
    (forall r, In r (a_rows A) ->
       exists c, fs_get (row_key r) (p_dirs P) = Some c /\ fs_get (row_key r) (p_dirs Q') = Some c) /\
    (forall k, ~ In k (map row_key (a_rows A)) -> fs_get k (p_dirs Q') = fs_get k (p_dirs Q)) /\
    dirs_ext (p_dirs Q) (p_dirs Q').
Proof. exact archive_restore_roundtrip. Qed.
Print Assumptions C11_roundtrip.

(* archiving, whatever its outcome, leaves the source's recorded versions and outputs alone *)
Theorem C11_source_unchanged : forall g target latest P,
  p_rows (fst (archive g target latest P)) = p_rows P /\
  p_dirs (fst (archive g target latest P)) = p_dirs P /\
  p_stage (fst (archive g target latest P)) = p_stage P.
Proof. exact archive_source_unchanged. Qed.
Print Assumptions C11_source_unchanged.

(* non-vacuity: g -> [e1, mid], mid -> [e1, e2] (mid not archivable), two versions of e1;
   `archive //:g --latest` selects g@6, e2@5, e1@7 and restoring into an empty project works *)
Definition ex_g : graph :=
  [([103], {| t_deps := [[101; 49]; [109]]; t_archivable := true |});
   ([109], {| t_deps := [[101; 49]; [101; 50]]; t_archivable := false |});
   ([101; 49], {| t_deps := []; t_archivable := true |});
   ([101; 50], {| t_deps := []; t_archivable := true |})].
Definition ex_row (T : str) (ts : N) : row := {| r_task := T; r_ts := ts; r_commit := None; r_dirty := 0 |}.
Definition ex_P : proj :=
  {| p_rows := [ex_row [101; 49] 4; ex_row [101; 50] 5; ex_row [103] 6; ex_row [101; 49] 7];
     p_dirs := [(([101; 49], 4), 40); (([101; 50], 5), 50); (([103], 6), 60); (([101; 49], 7), 70)];
     p_stage := false; p_aidx := None |}.
Definition ex_empty : proj := {| p_rows := []; p_dirs := []; p_stage := false; p_aidx := None |}.
Example C11_nonvacuous :
  keys_unique (p_rows ex_P) /\
  traverse ex_g [103] = TOk [[103]; [109]; [101; 50]; [101; 49]] /\
  exists A, archive ex_g (Some [103]) true ex_P = (ex_P, AOk A) /\
    a_rows A = [ex_row [103] 6; ex_row [101; 50] 5; ex_row [101; 49] 7] /\
    restore no_faults (extraction_of A) ex_empty =
      ({| p_rows := a_rows A; p_dirs := [(([103], 6), 60); (([101; 50], 5), 50); (([101; 49], 7), 70)];
          p_stage := false; p_aidx := None |}, true).
Proof.
  split.
  - unfold keys_unique. simpl. repeat constructor; simpl; intuition discriminate.
  - split; [vm_compute; reflexivity|]. eexists. split; [vm_compute; reflexivity|].
    split; vm_compute; reflexivity.
Qed.
