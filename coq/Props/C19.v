(* C19 -- run_experiment_group is exactly its documented expansion.
   Only theorem statements, each closed by [exact] of a lemma of Proofs/GroupProofs.v, with the
   axioms it depends on printed beneath.  The schema table is the one reflected from the source
   on this run (Gen/Generated.v); the [tie_*] facts are decided by computation against it. *)
From Coq Require Import List NArith ZArith Bool.
From Conductor Require Import Lib.Regex Lib.RegexBisim Lib.PyRegex Lib.Str Lib.SchemaTypes
  Gen.Generated Model.Ident Model.Schema Model.Group
  Proofs.IdentSpec Proofs.IdentProofs Proofs.SchemaSpec Proofs.SchemaProofs Proofs.GroupProofs Proofs.GenTieGroup.
From Conductor Require Props.C20.
Require Coq.Strings.String.
Import Coq.Strings.String.StringSyntax.
Import ListNotations.
Open Scope N_scope.

Lemma tie_rc : find_row task_type_table C_run_command = Some row_run_command.
Proof. vm_compute. reflexivity. Qed.
Lemma tie_re : find_row task_type_table C_run_experiment = Some row_run_experiment.
Proof. vm_compute. reflexivity. Qed.
Lemma tie_gr : find_row task_type_table C_group = Some row_group.
Proof. vm_compute. reflexivity. Qed.
Lemma tie_co : find_row task_type_table C_combine = Some row_combine.
Proof. vm_compute. reflexivity. Qed.
Lemma tie_names :
  map tt_name task_type_table = [C_run_command; C_run_experiment; C_group; C_combine; C_environment].
Proof. vm_compute. reflexivity. Qed.

(* Whatever run_experiment and combine are bound to (h, acting on any state st): evaluating
   run_experiment_group(d) is issuing the constructor calls of group_doc d in order and then, if
   the definition is not of the documented form, raising the diagnostic group_doc d names. *)
Theorem C19_equal : forall (S : Type) (h : call -> S -> result S) (d : gdef) (st : S),
  group_impl h d st = run_trace h (group_doc d) st.
Proof. exact (@group_impl_doc). Qed.
Print Assumptions C19_equal.

(* For a definition of the documented form (members are ExperimentInstances with pairwise
   different string names, deps a list) group_doc d is the documented expansion and nothing else:
   one run_experiment per instance (own name/args/options/parallelizable, the group's run, the
   group's deps plus ":" ++ previous name when chained), then combine(name, [":" ++ n_i]). *)
Theorem C19_expansion : forall d xs, GroupDocForm d xs -> group_doc d = (expansion d xs, None).
Proof. exact group_doc_docform. Qed.
Print Assumptions C19_expansion.

(* In any COND file (statements before and after, several groups): parsing the file and parsing
   the file with every group replaced by its documented expansion are accepted together and then
   define the same tasks (names, classes, every argument, in the same order); a group with a
   member that has no documented expansion is rejected.  Name clashes among instances, with the
   group name and with other tasks of the file are decided by the same shim on both sides. *)
Theorem C19_reject : forall ss,
  match expand_file ss with
  | None => is_ok (parse_file ss) = false
  | Some cs => res_agree (parse_file ss) (parse_calls cs)
  end.
Proof. exact (fun ss => file_vs_expansion C20.tie_name tie_rc tie_re tie_gr tie_co tie_names ss []). Qed.
Print Assumptions C19_reject.

(* hence the loaded task graphs (identifiers, classes, deps in order, run/args/options/
   parallelizable) coincide, and so does the decision of `cond run --check` *)
Theorem C19_graph : forall dir ss cs,
  expand_file ss = Some cs ->
  res_agree (bind (parse_file ss) (materialize_all dir)) (bind (parse_calls cs) (materialize_all dir)).
Proof.
  intros dir ss cs H. pose proof (C19_reject ss) as R. rewrite H in R.
  destruct (parse_file ss), (parse_calls cs); simpl in *; try contradiction; try exact I.
  subst. apply res_agree_refl.
Qed.
Print Assumptions C19_graph.

(* Tie to the sources, re-checked on every run: the function the theorems above are about (Model/Group.v group_loop /
   group_impl, a transcription of run_experiment_group) is the function of the working tree -- harness/gen_generated.py
   group_item compares the statement list of run_experiment_group with the transcribed one (three accumulators; ONE loop over
   `experiments` with the instance test, the duplicate test, the name remembered, the dependency list, the run_experiment call
   with the instance's own name / args / options / parallelizable, the identifier appended and remembered; TypeError mapped to
   ExperimentGroupInvalidExperimentInstance; combine(name, deps=identifiers) at the end), and the chain test is the expression
   TRANSLATED from it.  A loop split in two (seed C14/i), a normalised duplicate key (C19/l), swapped parameters or a filtered
   member list break these obligations. *)
Theorem C19_group_body_is_the_sources :
  gen_group_body_is_the_transcribed_one = true /\
  forall (S : Type) (h : call -> S -> result S) run chain task_deps x ms seen prev rel st,
  py_in (i_name x) seen = Some false ->
  group_loop h run chain task_deps (MInst x :: ms) seen prev rel st =
  let experiment_deps :=
    if gen_group_chains chain (opt_some prev)
    then match prev with
         | Some p => match spread task_deps with Some l => Some (VList (l ++ [VStr p])) | None => None end
         | None => Some task_deps
         end
    else Some task_deps in
  match experiment_deps with
  | None => Err EGroupInvalidInstance
  | Some deps =>
    bind (h (experiment_call x run deps) st) (fun st' =>
      match i_name x with
      | VStr s => let id := COLON :: s in group_loop h run chain task_deps ms (seen ++ [i_name x]) (Some id) (rel ++ [VStr id]) st'
      | _ => Err EGroupInvalidInstance
      end)
  end.
Proof. split; [reflexivity|exact group_loop_step_tie]. Qed.
Print Assumptions C19_group_body_is_the_sources.

(* non-vacuity: the documented example is of the documented form, its expansion is accepted and
   loads to the three documented tasks *)
Definition ex_inst (n : str) (threads : Z) : instance :=
  {| i_name := VStr n; i_args := VList []; i_options := VDict [(VStr (lit "threads"), VInt threads)];
     i_par := VBool false |}.
Definition ex_group : gdef :=
  {| g_name := VStr (lit "sweep"); g_run := VStr (lit "./run_benchmark.sh");
     g_experiments := Some [MInst (ex_inst (lit "sweep-1") 1); MInst (ex_inst (lit "sweep-2") 2)];
     g_chain := true; g_deps := Some (VList [VStr (lit ":compile")]) |}.
Example C19_nonvacuous :
  GroupDocForm ex_group [ex_inst (lit "sweep-1") 1; ex_inst (lit "sweep-2") 2] /\
  option_map (map fst) (doc_calls ex_group) = Some [C_run_experiment; C_run_experiment; C_combine] /\
  match bind (parse_file [SGroup ex_group]) (materialize_all [lit "d"]) with
  | Ok [a; b; c] =>
    map iname (tk_deps a) = [lit "compile"] /\
    map iname (tk_deps b) = [lit "compile"; lit "sweep-1"] /\
    map iname (tk_deps c) = [lit "sweep-1"; lit "sweep-2"]
  | _ => False
  end.
Proof.
  split; [|split].
  - split; [reflexivity|]. split.
    + exists [lit "sweep-1"; lit "sweep-2"]. split; [reflexivity|].
      constructor; [intros [H|[]]; discriminate H|]. constructor; [intros []|constructor].
    + eexists. reflexivity.
  - vm_compute. reflexivity.
  - vm_compute. repeat split.
Qed.
