(* C20 -- Task identifiers: one grammar, canonical form, distinct output locations.
   Only theorem statements, each closed by [exact] of a lemma of Proofs/, with the axioms it
   depends on printed beneath.  The patterns are those of the source as translated into
   Gen/Generated.v on this run; the four [tie_*] facts are decided by computation against it. *)
From Coq Require Import List NArith Bool.
From Conductor Require Import Lib.Regex Lib.RegexBisim Lib.PyRegex Lib.Str
  Gen.Generated Model.Ident Model.Env Proofs.IdentSpec Proofs.IdentProofs Proofs.PathString Proofs.GenTieIdent.
Import ListNotations.
Local Open Scope N_scope.

Lemma tie_name : tie_ok name_regex doc_name_re = true.
Proof. vm_compute. reflexivity. Qed.
Lemma tie_ident : tie_ok task_identifier_regex doc_ident_re = true.
Proof. vm_compute. reflexivity. Qed.
Lemma tie_rel : tie_ok relative_task_identifier_regex doc_rel_re = true.
Proof. vm_compute. reflexivity. Qed.
Lemma tie_suffix : exists rest, cfg_TASK_OUTPUT_DIR_SUFFIX = DOT :: rest.
Proof. eexists. reflexivity. Qed.

(* a string is a valid task name iff it is non-empty and made of letters, digits, '-', '_' *)
Theorem C20_name : forall s, is_name_valid s = true <-> DocName s.
Proof. exact (name_valid_spec tie_name). Qed.
Print Assumptions C20_name.

(* a string parses as an identifier iff it is in the documented grammar
   (//)?(segment/)*(segment)?:name  -- and carries the // prefix when that is required *)
Theorem C20_ident : forall req s,
  (exists i, from_str req s = Some i) <->
  DocIdent s /\ (req = true -> starts_with [SLASH; SLASH] s = true).
Proof. exact (from_str_accepts tie_ident). Qed.
Print Assumptions C20_ident.

(* printing any well-formed identifier and parsing it yields the same identifier *)
Theorem C20_roundtrip : forall req i, WfIdent i -> from_str req (ident_repr i) = Some i.
Proof. exact (roundtrip tie_ident). Qed.
Print Assumptions C20_roundtrip.

(* whatever parses is well formed, and printing and re-parsing it is the identity *)
Theorem C20_parse_print_parse : forall req s i,
  from_str req s = Some i -> WfIdent i /\ from_str true (ident_repr i) = Some i.
Proof. exact (parse_print_parse tie_ident). Qed.
Print Assumptions C20_parse_print_parse.

(* "an identifier has one canonical form": the dictionaries and sets of the loader, the planner and the version index are
   keyed by TaskIdentifier objects, i.e. by __eq__ and __hash__.  As TRANSLATED from the working tree on every run
   (the gen_ident definitions of Gen.Generated): the printed form is "//" + the path's components joined by "/" + ":" + the name, equality
   compares path and name, and the hash is a function of the printed form (that __hash__ reads `hash(repr(self))` is a PIN of the
   translator -- it refuses anything else --, the third conjunct below then holds for every function h of strings).  Hence equal identifiers -- however they were
   spelled: `//data/:prep`, `//data:prep`, `data:prep` -- are ONE key (same hash for every hash function of strings), and
   two well-formed identifiers print alike only if they are equal, so different identifiers are different keys.
   (Seed C01/j cached the hash of the spelling an identifier was parsed from.) *)
Theorem C20_equal_identifiers_are_one_key :
  (forall i, ident_repr i = gen_ident_repr (join gen_ident_path_sep (ipath i)) (iname i)) /\
  (forall a b, ident_eqb a b = gen_ident_eq (paths_eqb (ipath a) (ipath b)) (str_eqb (iname a) (iname b))) /\
  (forall (h : str -> N) a b, ident_eqb a b = true -> h (ident_repr a) = h (ident_repr b)) /\
  (forall req s1 s2 a b, from_str req s1 = Some a -> from_str req s2 = Some b ->
     (ident_repr a = ident_repr b <-> ident_eqb a b = true)).
Proof.
  split; [exact ident_repr_tie|]. split; [exact ident_eq_tie|]. split; [exact (eq_implies_same_hash eq_refl)|].
  intros req s1 s2 a b Ha Hb. split.
  - intro E. destruct (parse_print_parse tie_ident req s1 a Ha) as [_ Pa]. destruct (parse_print_parse tie_ident req s2 b Hb) as [_ Pb].
    rewrite E in Pa. rewrite Pa in Pb. injection Pb as ->. apply Proofs.SchemaProofs.ident_eqb_spec. reflexivity.
  - intro E. apply Proofs.SchemaProofs.ident_eqb_spec in E. now subst.
Qed.
Print Assumptions C20_equal_identifiers_are_one_key.

Example C20_two_spellings_one_key :
  exists a b, from_str true [47;47;100;47;58;112] = Some a /\ from_str true [47;47;100;58;112] = Some b /\
              ident_eqb a b = true /\ ident_repr a = [47;47;100;58;112].
Proof. eexists. eexists. repeat split; vm_compute; reflexivity. Qed.

(* ':name' is accepted exactly for valid names and resolves against the listing file's directory *)
Theorem C20_relative : forall s dir i,
  from_relative_str s dir = Some i <->
  exists n, s = COLON :: n /\ DocName n /\ i = {| ipath := dir; iname := n |}.
Proof. exact (from_relative_spec tie_rel). Qed.
Print Assumptions C20_relative.

Theorem C20_relative_dep : forall dir n,
  DocName n -> resolve_dep dir (COLON :: n) = Some {| ipath := dir; iname := n |}.
Proof. exact (resolve_relative tie_rel). Qed.
Print Assumptions C20_relative_dep.

(* two different (identifier, version) pairs never share an output directory ... *)
Theorem C20_outdir_inj : forall i1 v1 i2 v2,
  WfIdent i1 -> WfIdent i2 -> out_path i1 v1 = out_path i2 v2 -> i1 = i2 /\ v1 = v2.
Proof. exact (out_path_inj tie_suffix). Qed.
Print Assumptions C20_outdir_inj.

(* ... also as path STRINGS, which is what the file system sees: below one project root, two different (identifier, version)
   pairs never give the same output location (no component can contain '/': names by the grammar, `cond-out` and `.task` by
   computation on the configuration as it is now, versions because they are decimal numbers), and every output location
   lies strictly below <root>/cond-out/ *)
Lemma tie_outdir_no_slash : forallb (fun c => negb (c =? SLASH)) cfg_OUTPUT_DIR = true.
Proof. vm_compute. reflexivity. Qed.
Lemma tie_suffix_no_slash : forallb (fun c => negb (c =? SLASH)) cfg_TASK_OUTPUT_DIR_SUFFIX = true.
Proof. vm_compute. reflexivity. Qed.

Theorem C20_output_location_strings_distinct : forall root i1 v1 i2 v2,
  WfIdent i1 -> WfIdent i2 -> cond_out root i1 v1 = cond_out root i2 v2 -> i1 = i2 /\ v1 = v2.
Proof. exact (cond_out_string_inj tie_outdir_no_slash tie_suffix_no_slash tie_suffix). Qed.
Print Assumptions C20_output_location_strings_distinct.

Theorem C20_output_location_below_cond_out : forall root i v,
  exists rest, cond_out root i v = root ++ SLASH :: cfg_OUTPUT_DIR ++ SLASH :: rest.
Proof. exact cond_out_below_output_dir. Qed.
Print Assumptions C20_output_location_below_cond_out.

(* ... and no output directory lies inside another task's output directory *)
Theorem C20_outdir_not_nested : forall i1 v1 i2 v2 rest,
  WfIdent i1 -> WfIdent i2 -> out_path i1 v1 ++ rest = out_path i2 v2 ->
  rest = [] /\ i1 = i2 /\ v1 = v2.
Proof. exact (out_path_not_nested tie_suffix). Qed.
Print Assumptions C20_outdir_not_nested.

(* non-vacuity: a concrete well-formed identifier, parsed by the model from "//a/b:c" *)
Example C20_nonvacuous :
  from_str true [47; 47; 97; 47; 98; 58; 99] = Some {| ipath := [[97]; [98]]; iname := [99] |}
  /\ WfIdent {| ipath := [[97]; [98]]; iname := [99] |}.
Proof.
  split; [vm_compute; reflexivity|].
  split; simpl; repeat constructor; discriminate.
Qed.
