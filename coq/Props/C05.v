(* C05 -- Cached-result selection follows the documented compatibility rule.
   Only theorem statements, each closed by [exact] of a lemma of Proofs/, with the axioms it
   depends on printed beneath.

   The theorems quantify over ARBITRARY functions [is_ancestor], [get_distance], [rev_parse]
   (the three git commands conductor.utils.git.Git wraps): nothing is assumed about git.  What
   is assumed -- and tested by the harness against real git, not proved -- is only the reading
   of the statements: that `merge-base --is-ancestor c h` means "c is an ancestor of or equal to
   h" and `rev-list --count h ^c` means "number of commits separating h and c".  The C05_dag_*
   theorems are about the explicit commit graph of Model/Select.v, which the harness compares
   with real git on generated histories. *)
From Coq Require Import List NArith Bool Permutation.
From Conductor Require Model.Loader Model.Planner Model.Exec Model.RunCase Proofs.PlannerOrder Proofs.PlannerInv Proofs.PlanClosure.
From Conductor Require Import Lib.Str Model.Select Proofs.SelectSpec Proofs.SelectProofs Proofs.SelectDag.
From Conductor Require Import Gen.Generated Proofs.GenTieSelect.
Import ListNotations.
Open Scope N_scope.

Section C05.
  Variable is_ancestor : cid -> cid -> bool.
  Variable get_distance : cid -> cid -> N.
  Variable rev_parse : str -> option cid.

  Notation select := (select is_ancestor get_distance).
  Notation Best := (Best is_ancestor get_distance).
  Notation NoAncestor := (NoAncestor is_ancestor).

  (* With git and a current commit h (timestamps pairwise distinct = the primary key):
     the selected version is exactly the recorded version whose commit is an ancestor of h with
     the fewest separating commits, newest on ties -- or, when NO version carries a commit, the
     newest version; nothing is selected exactly when no version is on the ancestry of h and
     (some version has a commit or nothing is recorded). *)
  Theorem C05_select_spec : forall h vs, DistinctTs vs ->
    (forall v, select (Head h) vs = Some v <-> Best h vs v \/ (AllNull vs /\ Newest vs v))
    /\ (select (Head h) vs = None <-> NoAncestor h vs /\ (vs = [] \/ SomeCommit vs)).
  Proof. exact (select_spec is_ancestor get_distance). Qed.

  (* never a version from a non-ancestor commit; a commit-less version only when all are *)
  Theorem C05_never_foreign : forall h vs v,
    select (Head h) vs = Some v ->
    match commit v with
    | Some c => is_ancestor h c = true
    | None => AllNull vs /\ vs <> []
    end.
  Proof. exact (select_never_foreign is_ancestor get_distance). Qed.

  (* the fall-back (every recorded commit is null) is the no-git rule *)
  Theorem C05_fallback : forall h vs, AllNull vs -> select (Head h) vs = latest vs.
  Proof. exact (select_fallback is_ancestor get_distance). Qed.

  (* the order in which sqlite returns the rows does not matter *)
  Theorem C05_perm : forall m vs vs',
    Permutation vs vs' -> DistinctTs vs -> select m vs = select m vs'.
  Proof. exact (select_perm is_ancestor get_distance). Qed.

  Theorem C05_perm_rows : forall m t rows rows',
    Permutation rows rows' -> DistinctTs (versions_for t rows) ->
    select_task is_ancestor get_distance m rows t = select_task is_ancestor get_distance m rows' t.
  Proof. exact (select_task_perm is_ancestor get_distance). Qed.

  (* without git, with git disabled, or without commits: the newest version *)
  Theorem C05_nogit : forall m vs, (m = NoGit \/ m = NoCommits) -> DistinctTs vs ->
    (forall v, select m vs = Some v <-> Newest vs v) /\ (select m vs = None <-> vs = []).
  Proof. exact (select_nogit is_ancestor get_distance). Qed.

  (* --at-least C: a task runs iff its selected version is absent, has no commit, or is a strict
     ancestor of C; without a commit flag iff no version is selected; --again always *)
  Theorem C05_at_least : forall C sel,
    should_run is_ancestor (Some C) sel = true <-> MustRerun is_ancestor C sel.
  Proof. exact (should_run_at_least is_ancestor). Qed.

  Theorem C05_executes : forall again at_least m vs,
    executes is_ancestor get_distance again at_least m vs = true <->
    again = true \/
    match at_least with
    | None => select m vs = None
    | Some C => MustRerun is_ancestor C (select m vs)
    end.
  Proof. exact (executes_spec is_ancestor get_distance). Qed.

  (* where the two commits are comparable, "not re-run" = "cached version at least as new as C" *)
  Theorem C05_at_least_as_new : forall C v vc,
    (forall a b, is_ancestor a b = true -> is_ancestor b a = true -> a = b) ->
    (forall a, is_ancestor a a = true) ->
    commit v = Some vc ->
    is_ancestor C vc = true \/ is_ancestor vc C = true ->
    (should_run is_ancestor (Some C) (Some v) = false <-> is_ancestor vc C = true).
  Proof. exact (at_least_as_new is_ancestor). Qed.

  (* cli/run.md: exactly the documented flag combinations are accepted, with the documented
     meaning; every rejection has its documented reason; --this-commit = --at-least=HEAD *)
  Theorem C05_flags : forall f m a oc,
    validate_flags is_ancestor rev_parse f m = Plan a oc <->
    Documented is_ancestor rev_parse f m (Plan a oc).
  Proof. exact (flags_accept is_ancestor rev_parse). Qed.

  Theorem C05_flags_reject : forall f m e,
    validate_flags is_ancestor rev_parse f m = Rejected e -> Reason is_ancestor rev_parse f m e.
  Proof. exact (flags_reject is_ancestor rev_parse). Qed.

  Theorem C05_this_commit : forall again m,
    validate_flags is_ancestor rev_parse {| f_again := again; f_at_least := None; f_this_commit := true |} m =
    validate_flags is_ancestor rev_parse {| f_again := again; f_at_least := Some HEAD_SYM; f_this_commit := false |} m.
  Proof. exact (this_commit_is_at_least_head is_ancestor rev_parse). Qed.
End C05.
Print Assumptions C05_select_spec.
Print Assumptions C05_never_foreign.
Print Assumptions C05_fallback.
Print Assumptions C05_perm.
Print Assumptions C05_perm_rows.
Print Assumptions C05_nogit.
Print Assumptions C05_at_least.
Print Assumptions C05_executes.
Print Assumptions C05_at_least_as_new.
Print Assumptions C05_flags.
Print Assumptions C05_flags_reject.
Print Assumptions C05_this_commit.

(* on a well-formed commit graph ancestor-or-equal is a partial order ... *)
Theorem C05_dag_order : forall d, wf_dag d [] ->
  (forall c, known d c = true -> dag_is_ancestor d c c = true)
  /\ (forall a b c, dag_is_ancestor d a b = true -> dag_is_ancestor d b c = true -> dag_is_ancestor d a c = true)
  /\ (forall a b, dag_is_ancestor d a b = true -> dag_is_ancestor d b a = true -> a = b).
Proof.
  intros d W. split; [|split].
  - exact (dag_anc_refl d W).
  - exact (dag_anc_trans d W).
  - exact (dag_anc_antisym d W).
Qed.
Print Assumptions C05_dag_order.

(* ... a commit is at distance 0 from itself and any other ancestor is further away ... *)
Theorem C05_dag_distance : forall d, wf_dag d [] ->
  (forall h, dag_distance d h h = 0)
  /\ (forall h c, dag_is_ancestor d h c = true -> c <> h -> 0 < dag_distance d h c).
Proof.
  intros d W. split.
  - exact (dag_distance_self d).
  - exact (dag_distance_pos d W).
Qed.
Print Assumptions C05_dag_distance.

(* ... so a version recorded at the current commit is always the one selected, and
   --this-commit does not run a task again that already ran at HEAD *)
Theorem C05_dag_head_wins : forall d, wf_dag d [] -> forall h vs v w,
  known d h = true -> In w vs -> commit w = Some h ->
  dag_select d (Head h) vs = Some v -> commit v = Some h.
Proof. exact dag_head_version_wins. Qed.
Print Assumptions C05_dag_head_wins.

Theorem C05_dag_this_commit_idempotent : forall d, wf_dag d [] -> forall h vs w,
  known d h = true -> In w vs -> commit w = Some h ->
  executes (dag_is_ancestor d) (dag_distance d) false (Some h) (Head h) vs = false.
Proof. exact dag_this_commit_idempotent. Qed.
Print Assumptions C05_dag_this_commit_idempotent.

(* Tie to the source, re-checked on every run: the model's should_run is the decision list TRANSLATED
   from RunExperiment.should_run in the working tree (Gen/Generated.v gen_should_run), for every git
   oracle, every --at-least argument and every selected version *)
Theorem C05_should_run_is_the_sources :
  forall (is_ancestor : cid -> cid -> bool) (al : option cid) (sel : option version),
  should_run is_ancestor al sel =
  gen_should_run (is_none sel) (is_none al)
                 (match sel with Some v => is_none (commit v) | None => false end)
                 (match sel, al with Some v, Some c => match commit v with Some vc => N.eqb vc c | None => false end | _, _ => false end)
                 (match sel, al with Some v, Some c => match commit v with Some vc => is_ancestor c vc | None => false end | _, _ => false end).
Proof. exact should_run_tie. Qed.
Print Assumptions C05_should_run_is_the_sources.

(* ... and the flag validation of `cond run` (cli/run.py validate_args): the model rejects exactly the
   combinations the TRANSLATED function rejects, with the error class of the same name, testing in
   the same order *)
Theorem C05_validate_args_is_the_sources : forall f m,
  option_map flag_error_name (validate_args f m) =
  gen_validate_args (f_this_commit f) (is_some' (f_at_least f)) (f_again f) (uses_git m) (is_some' (current_commit m)).
Proof. exact validate_args_tie. Qed.
Print Assumptions C05_validate_args_is_the_sources.

(* ... and the selection itself (RunExperiment._retrieve_most_relevant_existing_version): for every git oracle, mode and
   list of recorded versions the model's `select` -- the function C05_select_spec and the theorems above are about --
   is the method TRANSLATED from the working tree: the first loop files every version under the translated per-version
   decision (gen_sel_classify), the second loop updates (selected_version, closest_distance) under the translated
   decision over that state (gen_sel_closest), and what is returned is chosen by the translated tests on uses_git,
   current_commit and the lengths of the lists (gen_sel_top).  A selection loop rewritten in the sources (another
   comparison, another tie-break, another order of the tests, `max(..., key=...)`) changes or breaks these obligations. *)
Theorem C05_selection_loop_is_the_sources :
  forall (is_ancestor : cid -> cid -> bool) (get_distance : cid -> cid -> N) (m : mode) (vs : list version),
  select is_ancestor get_distance m vs =
  let lists := match m with Head h => fold_left (classify_by_gen is_ancestor h) vs ([], []) | _ => ([], []) end in
  match gen_sel_top (uses_git m) (is_none (current_commit m)) (length (fst lists)) (length (snd lists)) (length vs) with
  | 0 => latest vs
  | 1 => match m with Head h => option_map fst (fold_left (closest_by_gen get_distance h) (fst lists) None) | _ => None end
  | 2 => py_max_ts (snd lists)
  | _ => None
  end.
Proof. exact select_tie. Qed.
Print Assumptions C05_selection_loop_is_the_sources.

(* the version index queries the selection reads through (get_all_versions_for_task: all_entries_for_task; get_latest_output_version:
   latest_task_version -- exact match on the task identifier, newest first) are, text for text, the ones the list functions
   versions_for / latest transcribe (harness/gen_generated.py copy_item compares the whitespace-normalised SQL on every run) *)
Theorem C05_index_queries_are_the_transcribed_ones :
  gen_sql_texts_are_the_transcribed_ones = true /\ gen_index_readers_return_one_entry_per_row = true.
Proof. split; reflexivity. Qed.
Print Assumptions C05_index_queries_are_the_transcribed_ones.

Theorem C05_selection_steps_are_the_sources :
  forall (is_ancestor : cid -> cid -> bool) (get_distance : cid -> cid -> N) (h : cid),
  (forall vs ancs nulls, classify is_ancestor h vs ancs nulls = fold_left (classify_by_gen is_ancestor h) vs (ancs, nulls)) /\
  (forall st v, closest_step get_distance h st v = closest_by_gen get_distance h st v).
Proof. intros ia gd h. split; [exact (classify_tie ia h)|exact (closest_tie gd h)]. Qed.
Print Assumptions C05_selection_steps_are_the_sources.

(* non-vacuity: a history with a merge (1 <- 2, 1 <- 3, {2,3} <- 4 = HEAD, 1 <- 5 off the
   ancestry); versions at 2 and 3 are equally far from HEAD (distance 2 each), the newer one
   wins; the newest version of all (at 5) and the commit-less one are not chosen *)
Definition ex_d : dag := [(1, []); (2, [1]); (3, [1]); (4, [2; 3]); (5, [1])].
Definition ex_v : version := {| ts := 11; commit := Some 3; dirty := true |}.
Definition ex_vs : list version :=
  [ {| ts := 10; commit := Some 2; dirty := false |}; ex_v;
    {| ts := 12; commit := None; dirty := false |};
    {| ts := 13; commit := Some 5; dirty := false |};
    {| ts := 9; commit := Some 1; dirty := false |} ].
Example C05_nonvacuous :
  wf_dag ex_d [] /\ DistinctTs ex_vs
  /\ dag_distance ex_d 4 2 = 2 /\ dag_distance ex_d 4 3 = 2 /\ dag_distance ex_d 4 1 = 3
  /\ dag_is_ancestor ex_d 4 5 = false
  /\ dag_select ex_d (Head 4) ex_vs = Some ex_v
  /\ should_run (dag_is_ancestor ex_d) (Some 4) (dag_select ex_d (Head 4) ex_vs) = true
  /\ should_run (dag_is_ancestor ex_d) (Some 1) (dag_select ex_d (Head 4) ex_vs) = false
  /\ Best (dag_is_ancestor ex_d) (dag_distance ex_d) 4 ex_vs ex_v.
Proof.
  split.
  { simpl. intuition (try discriminate; subst; simpl; auto). }
  split.
  { unfold DistinctTs. simpl. repeat constructor; simpl; intuition discriminate. }
  repeat (split; [vm_compute; reflexivity|]).
  assert (S : dag_select ex_d (Head 4) ex_vs = Some ex_v) by (vm_compute; reflexivity).
  destruct (select_head_some _ _ _ _ _ S) as [B|[A _]]; [exact B|].
  exfalso. assert (H : commit ex_v = None) by (apply A; simpl; auto). discriminate H.
Qed.

(* "--again ignores the cache for the whole closure": for every project and every should_run decision, with --again
   nothing is reported as cached and EXACTLY the tasks of the root's transitive closure (the root, and every task reachable
   by a dependency path) are planned, each as one operation. *)
Theorem C05_again_plans_exactly_the_closure :
  forall info sr root, (forall t, NoDup (Planner.t_deps (info t))) ->
  forall fuel ps, Planner.plan_for info sr true fuel root = Some ps ->
    Planner.cached ps = [] /\
    (forall t, (exists o, (o < length (Planner.ops ps))%nat /\ Planner.op_task (PlannerInv.op_at (Planner.ops ps) o) = t) <->
               (t = root \/ PlannerOrder.TPath info root t)) /\
    NoDup (map Planner.op_task (Planner.ops ps)).
Proof. exact PlanClosure.again_plans_exactly_the_closure. Qed.
Print Assumptions C05_again_plans_exactly_the_closure.

(* Known finding F3.  The rule above is per task; WHICH tasks a run examines is the planner's traversal
   (Model/Planner.v), and it stops at an experiment whose cached version is current.  In the composed
   model: d (a command) -> e2 -> e, where e2's should_run is false (its version is at HEAD) and e's
   is true (its only version is a strict ancestor of the --at-least commit): `cond run //:d` starts d
   only; e is neither executed nor reported as cached -- it is never examined. *)
Definition f3_tasks : list RunCase.tdef :=
  [ {| RunCase.td_status := 2%nat; RunCase.td_deps := [1%nat]; RunCase.td_kind := Planner.KCommand; RunCase.td_par := false; RunCase.td_sr := true |};
    {| RunCase.td_status := 2%nat; RunCase.td_deps := [2%nat]; RunCase.td_kind := Planner.KExperiment; RunCase.td_par := false; RunCase.td_sr := false |};
    {| RunCase.td_status := 2%nat; RunCase.td_deps := []; RunCase.td_kind := Planner.KExperiment; RunCase.td_par := false; RunCase.td_sr := true |} ].
Definition f3_cfg : RunCase.run_cfg :=
  {| RunCase.c_root := 0%nat; RunCase.c_again := false; RunCase.c_jobs := 1%nat; RunCase.c_stop := false; RunCase.c_launch_fail := [];
     RunCase.c_rcs := [0; 0; 0]; RunCase.c_picks := [] |}.
Theorem C05_below_a_cached_experiment_refuted :
  match RunCase.cond_run 50%nat f3_tasks f3_cfg with
  | RunCase.ORun _ ps (Some evs) =>
      map Planner.op_task (Planner.ops ps) = [0%nat] /\ Planner.cached ps = [1%nat] /\
      RunCase.td_sr (RunCase.tdef_of f3_tasks 2%nat) = true /\
      evs = [Exec.ECached 1%nat; Exec.EStart 0%nat None; Exec.EFinish 0%nat 0; Exec.EKill []; Exec.EDone]
  | _ => False
  end.
Proof. vm_compute. repeat split; reflexivity. Qed.
Print Assumptions C05_below_a_cached_experiment_refuted.
