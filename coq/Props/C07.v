(* C07 -- Task environment contract and a consistent dependency snapshot.
   Models: Model/Env.v (command line, environment variables, support library), Model/Ident.v
   (output paths), Model/Planner.v (which version of each dependency a task is handed).
   The option format and the path separator are those of the source (Gen/Generated.v). *)
From Coq Require Import List NArith Bool.
From Conductor Require Import Lib.Str Gen.Generated Model.Ident Model.Env Model.Loader Model.Planner
  Model.RunCase Proofs.EnvProofs Proofs.PlannerInv Proofs.PlannerExact Proofs.PlannerOrder Proofs.Compose Proofs.SpawnEnv Proofs.GenTieEnv.
Import ListNotations.
Local Open Scope N_scope.

Lemma tie_format : cfg_EXP_OPTION_CMD_FORMAT = doc_option_format.
Proof. vm_compute. reflexivity. Qed.
Lemma tie_sep : cfg_DEPS_ENV_PATH_SEPARATOR = [COLON].
Proof. vm_compute. reflexivity. Qed.

(* the command is `run`, then the args, then the --key=value options, each in declared order,
   booleans rendered true/false, separated by single spaces -- for all args and options *)
Theorem C07_cmdline : forall run args opts,
  cmdline run args opts =
  Some (run ++ [SPACE] ++ join [SPACE] (map render args) ++ [SPACE] ++
        join [SPACE] (map (fun kv => [DASH; DASH] ++ fst kv ++ [EQUALS] ++ render (snd kv)) opts)).
Proof. exact (cmdline_spec tie_format). Qed.
Print Assumptions C07_cmdline.

(* inside the task, get_deps_paths() is exactly the listed directories, in order, for any number
   of non-empty colon-free paths -- and the empty list when COND_DEPS is empty *)
Theorem C07_lib_roundtrip : forall paths,
  Forall (fun p => p <> [] /\ ~ In COLON p) paths ->
  lib_get_deps_paths (cond_deps paths) = paths.
Proof. exact (lib_roundtrip tie_sep). Qed.
Print Assumptions C07_lib_roundtrip.

(* the side condition is needed: without it the statement is false of the model (and of the library).
   A directory whose path contains the separator -- only the project root can contribute one; task,
   package and version names cannot -- is reported as two.  The property does not quantify over
   root paths; the check records this as an assumption. *)
Theorem C07_lib_roundtrip_colon_refuted :
  exists p, p <> [] /\ lib_get_deps_paths (cond_deps [p]) <> [p].
Proof. exists [47; 114; 58; 120; 47; 97].   (* /r:x/a *) split; [discriminate|]. vm_compute. discriminate. Qed.
Print Assumptions C07_lib_roundtrip_colon_refuted.

Theorem C07_lib_empty : lib_get_deps_paths (cond_deps []) = [].
Proof. exact lib_empty. Qed.
Print Assumptions C07_lib_empty.

(* COND_OUT = <root>/cond-out/<path>/<name>.task[.<version>] *)
Theorem C07_cond_out : forall root i v,
  cond_out root i v = root ++ SLASH :: cfg_OUTPUT_DIR ++ flat_map (fun c => SLASH :: c) (ipath i) ++ SLASH :: task_output_dir i v.
Proof. exact cond_out_shape. Qed.
Print Assumptions C07_cond_out.

(* The environment of the task process, as start_execution builds it (the definitions are regenerated from the sources on
   every run: Gen.Generated gen_env_overrides / gen_env_slot_some / gen_env_slot_none), for EVERY environment Conductor itself
   inherited: COND_OUT, COND_DEPS and COND_NAME carry the output directory, the joined dependency directories and the task's
   name -- also when Conductor's own environment already defines them --, COND_SLOT is the slot number in decimal when the task
   has a slot and is UNSET otherwise (also when inherited), and every other variable is passed on unchanged. *)
Theorem C07_environment_contract : forall inherited root i v deps slot,
  let e := spawn_env inherited (cond_out root i v) deps (cond_name i) slot in
  env_get cfg_OUTPUT_ENV_VARIABLE_NAME e = Some (cond_out root i v) /\
  env_get cfg_DEPS_ENV_VARIABLE_NAME e = Some (cond_deps deps) /\
  env_get cfg_TASK_NAME_ENV_VARIABLE_NAME e = Some (iname i) /\
  env_get cfg_SLOT_ENV_VARIABLE_NAME e = option_map dec slot /\
  (forall k, is_cond_var k = false -> env_get k e = env_get k inherited).
Proof. intros inherited root i v deps slot. exact (spawn_env_contract gen_env_shape inherited (cond_out root i v) deps (cond_name i) slot). Qed.
Print Assumptions C07_environment_contract.

(* ... so what the support library reads back inside the task is what was declared: get_output_path() is COND_OUT and
   get_deps_paths() the listed directories in order (colon-free, non-empty paths: see C07_lib_roundtrip_colon_refuted) *)
Theorem C07_library_reads_the_environment : forall inherited root i v deps slot,
  Forall (fun p => p <> [] /\ ~ In COLON p) deps ->
  let e := spawn_env inherited (cond_out root i v) deps (cond_name i) slot in
  option_map lib_get_output_path (env_get cfg_OUTPUT_ENV_VARIABLE_NAME e) = Some (cond_out root i v) /\
  option_map lib_get_deps_paths (env_get cfg_DEPS_ENV_VARIABLE_NAME e) = Some deps.
Proof.
  intros inherited root i v deps slot Hd e.
  destruct (spawn_env_contract gen_env_shape inherited (cond_out root i v) deps (cond_name i) slot) as (Ho & Hdp & _).
  fold e in Ho, Hdp. rewrite Ho, Hdp. cbn [option_map]. split; [reflexivity|]. f_equal. exact (lib_roundtrip tie_sep deps Hd).
Qed.
Print Assumptions C07_library_reads_the_environment.

(* Which directories COND_DEPS lists (TaskType.get_deps_output_paths, the loop regenerated from the sources on every run:
   Gen.Generated.gen_deps_paths_step): for EVERY list of dependencies -- [outs] gives, per declared dependency in the
   order of `deps`, its current output directory, None for an experiment that has no version at all -- the list handed
   to the task is exactly the directories that exist, in the declared order, one entry per dependency: nothing is
   dropped, merged, de-duplicated or reordered -- in particular two dependencies whose directories have the same LAST
   component (//left:data and //right:data: .../left/data.task and .../right/data.task) both appear, and so do two
   dependencies with the very same directory string.  When every dependency has an output the list has the length of
   `deps`.  (Seed C20/i "de-duplicated" the list by the directory's name.) *)
Theorem C07_cond_deps_lists_every_dependency_output : forall outs : list (option str),
  deps_output_paths outs = flat_map (fun o => match o with Some p => [p] | None => [] end) outs /\
  (forall ps, outs = map Some ps -> deps_output_paths outs = ps) /\
  (forall k p, nth_error outs k = Some (Some p) -> In p (deps_output_paths outs)).
Proof.
  intro outs.
  assert (E : deps_output_paths outs = some_paths outs) by (apply deps_output_paths_spec; vm_compute; reflexivity).
  split; [exact E|]. split.
  - intros ps ->. rewrite E. unfold some_paths. clear E. induction ps as [|q ps IH]; [reflexivity|]. simpl. f_equal. exact IH.
  - intros k p Hk. rewrite E. unfold some_paths. apply in_flat_map. exists (Some p). split; [exact (nth_error_In _ _ Hk)|left; reflexivity].
Qed.
Print Assumptions C07_cond_deps_lists_every_dependency_output.

Example C07_same_named_dependencies_both_listed :
  deps_output_paths [Some [108; 47; 100]; None; Some [114; 47; 100]; Some [108; 47; 100]] = [[108; 47; 100]; [114; 47; 100]; [108; 47; 100]].
Proof. vm_compute. reflexivity. Qed.

(* the process: bash (shell=True with executable /bin/bash) runs the command line of C07_cmdline in the directory of the
   task's COND file, in a session of its own (read off the Popen call of the sources on every run) *)
Theorem C07_started_by_bash_in_the_cond_directory : forall run args opts root i sp,
  spawn_of run args opts root i = Some sp ->
  sp_shell sp = true /\ sp_executable sp = [47; 98; 105; 110; 47; 98; 97; 115; 104] /\ sp_new_session sp = true /\
  sp_cwd sp = root ++ flat_map (fun c => SLASH :: c) (ipath i) /\ cmdline run args opts = Some (sp_command sp).
Proof.
  intros run args opts root i sp H. destruct gen_popen_shape as (E1 & E2 & E3 & E4 & E5). unfold spawn_of in H. rewrite E3, E5 in H. cbn [andb] in H.
  destruct (cmdline run args opts) as [c|]; [|discriminate]. inversion H; subst sp. cbn. rewrite E1, E2, E4. repeat split; reflexivity.
Qed.
Print Assumptions C07_started_by_bash_in_the_cond_directory.

(* one new version per task and invocation (create_new_version is called at most once per task),
   so every dependent that is handed the version written in this invocation is handed the same one *)
Theorem C07_one_new_version_per_task :
  forall info sr again root, (forall t, NoDup (t_deps (info t))) ->
  forall fuel ps, plan_for info sr again fuel root = Some ps -> NoDup (nv_calls ps).
Proof.
  intros info sr again root Hd fuel ps H.
  exact (proj2 (proj2 (proj2 (proj2 (proj2 (proj2 (proj2 (plan_exact info sr again root Hd fuel ps H)))))))).
Qed.
Print Assumptions C07_one_new_version_per_task.

(* The dependency snapshot, end to end: every operation `cond run` creates is handed exactly one
   snapshot of its dependencies' output paths (get_deps_output_paths at its creation), listing
   every declared dependency in declared order, and for each of them the path is the one of the
   version created IN THIS INVOCATION exactly when that dependency is an experiment that this
   invocation (re)runs -- otherwise its selected existing version / unversioned directory.  In
   particular the version a dependent reads is never one that a later step of the same invocation
   replaces: a dependency that runs has its new version created before any dependent's snapshot
   is taken, for every project the loader accepts. *)
Theorem C07_snapshot :
  forall fuel tasks c loaded ps r,
  cond_run fuel tasks c = ORun loaded ps r ->
  map fst (snaps ps) = map op_task (ops ps) /\
  (forall x l, In (x, l) (snaps ps) ->
     l = map (fun d => (d, runs (sr_of tasks) (c_again c) d && is_exp (info_of tasks) d)) (td_deps (tdef_of tasks x))) /\
  NoDup (nv_calls ps).
Proof.
  intros fuel tasks c loaded ps r H.
  destruct (cond_run_plan fuel tasks c loaded ps r H) as (_ & _ & _ & _ & _ & _ & A & B & C). auto.
Qed.
Print Assumptions C07_snapshot.

(* non-vacuity *)
Example C07_nonvacuous :
  cmdline [112; 121] [AStr [49]; ABool true] [([107], AStr [51])] =
  Some [112; 121; 32; 49; 32; 116; 114; 117; 101; 32; 45; 45; 107; 61; 51].
Proof. vm_compute. reflexivity. Qed.
