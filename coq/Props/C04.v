(* C04 -- Parallelism limits: --jobs bound, exclusive sequential tasks, distinct slots.
   For EVERY well-formed plan, EVERY oracle (completion order, return codes, launch failures),
   every jobs >= 1, at EVERY state the executor loop passes through. *)
From Coq Require Import List Arith Bool NArith.
From Conductor Require Import Model.Loader Model.Planner Model.Exec Model.RunCase
  Proofs.ExecInv Proofs.ExecTheorems Proofs.ExecMain Proofs.PlannerInv Proofs.PlannerOrder Proofs.ComposeExec.
From Conductor Require Import Gen.Generated Proofs.GenTie Proofs.GenTieLowering Proofs.GenTieExec.
From Conductor Require Import Proofs.WfPlanDec Lib.Str Model.Env Proofs.SpawnEnv Proofs.GenTieEnv.
Import ListNotations.

(* [infl s] = operations in flight; [procs s] = (operation, COND_SLOT) of the running processes.
   1. at most `jobs` operations are in flight;
   2. a non-parallelizable operation in flight is the only one in flight;
   3. the slots of the running processes are pairwise distinct and in [0, jobs);
   4. a process has no slot iff it is not parallelizable or jobs = 1;
   5. the in-flight set is exactly the set of started-and-not-yet-finished operations of the trace
      (so 1-4 speak about every instant of the run);
   6. whenever an operation may be launched the free-slot stack is non-empty (the peek
      `_available_slots[-1]` cannot fail). *)
Theorem C04_limits :
  forall p jobs stop orc, wf_plan p -> 1 <= jobs ->
  forall s, reachable p jobs stop orc s ->
    length (infl s) <= jobs /\
    (forall o, In o (infl s) -> is_par p o = false -> infl s = [o]) /\
    NoDup (slots_of (procs s)) /\ (forall sl, In sl (slots_of (procs s)) -> sl < jobs) /\
    (forall o sl, In (o, sl) (procs s) -> (sl = None <-> (is_par p o = false \/ jobs <= 1))) /\
    (forall o, In o (infl s) <-> (exists sl, In (EStart o sl) (trace s)) /\ forall rc, ~ In (EFinish o rc) (trace s)) /\
    (gate_open jobs s = true -> avail s <> []).
Proof. exact main_limits. Qed.
Print Assumptions C04_limits.

(* End to end, in terms of the TASKS' `parallelizable` attribute (par_of: the declared flag for
   run_command / run_experiment, false for group / combine): at every state the executor passes
   through when `cond run` executes a project the loader accepted -- no side condition. *)
Theorem C04_limits_end_to_end :
  forall fuel tasks c loaded ps r,
  cond_run fuel tasks c = ORun loaded ps r -> 1 <= c_jobs c ->
  let pl := plan_of ps in let orc := oracle_of pl c in let jobs := c_jobs c in
  let task o := op_task (op_at (ops ps) o) in let par t := par_of (info_of tasks) t in
  forall s, reachable pl jobs (c_stop c) orc s ->
    length (infl s) <= jobs /\
    (forall o, In o (infl s) -> o < length (ops ps)) /\
    (forall o, In o (infl s) -> par (task o) = false -> infl s = [o]) /\
    NoDup (slots_of (procs s)) /\ (forall sl, In sl (slots_of (procs s)) -> sl < jobs) /\
    (forall o sl, In (o, sl) (procs s) -> (sl = None <-> (par (task o) = false \/ jobs <= 1))) /\
    (forall o, In o (infl s) <-> (exists sl, In (EStart o sl) (trace s)) /\ forall rc, ~ In (EFinish o rc) (trace s)).
Proof. exact cond_run_limits. Qed.
Print Assumptions C04_limits_end_to_end.

(* "COND_SLOT is unset exactly when the task is not parallelizable or JOBS is 1", end to end and in terms of the environment
   variable itself: for every process the executor has running, whatever environment Conductor inherited (also one that
   already defines COND_SLOT: D20), whatever the other values -- the variable start_execution hands over is unset exactly then,
   and otherwise holds the decimal slot number, which is below JOBS. *)
Theorem C04_cond_slot_variable_end_to_end :
  forall fuel tasks c loaded ps r,
  cond_run fuel tasks c = ORun loaded ps r -> 1 <= c_jobs c ->
  let pl := plan_of ps in let orc := oracle_of pl c in let jobs := c_jobs c in
  let task o := op_task (op_at (ops ps) o) in let par t := par_of (info_of tasks) t in
  forall s, reachable pl jobs (c_stop c) orc s ->
  forall o sl, In (o, sl) (procs s) ->
  forall inherited out deps name,
    let var := env_get cfg_SLOT_ENV_VARIABLE_NAME (spawn_env inherited out deps name (option_map N.of_nat sl)) in
    (var = None <-> (par (task o) = false \/ jobs <= 1)) /\
    (forall v, var = Some v -> exists n, sl = Some n /\ n < jobs /\ v = dec (N.of_nat n)).
Proof.
  intros fuel tasks c loaded ps r H Hj pl orc jobs task par s Hr o sl Hin inherited out deps name var.
  destruct (cond_run_limits fuel tasks c loaded ps r H Hj s Hr) as (_ & _ & _ & _ & Hlt & Hnone & _).
  destruct (spawn_env_contract gen_env_shape inherited out deps name (option_map N.of_nat sl)) as (_ & _ & _ & Hv & _).
  fold var in Hv. split.
  - pose proof (Hnone o sl Hin) as Hi. rewrite Hv. destruct sl as [n|]; cbn [option_map]; split; intro A.
    + discriminate.
    + apply Hi in A. discriminate.
    + apply Hi. reflexivity.
    + reflexivity.
  - intros v Ev. rewrite Hv in Ev. destruct sl as [n|]; cbn in Ev; [|discriminate]. inversion Ev; subst v.
    exists n. split; [reflexivity|]. split; [|reflexivity]. apply Hlt. unfold slots_of. apply in_flat_map. exists (o, Some n). split; [exact Hin | left; reflexivity].
Qed.
Print Assumptions C04_cond_slot_variable_end_to_end.

(* Tie to the source, re-checked on every run: the launch conditions of the model are the ones
   TRANSLATED from Executor._launch_ops_if_able in the working tree (Gen/Generated.v gen_gate_open) *)
Theorem C04_gate_is_the_sources : forall jobs s,
  gate_open jobs s = gen_gate_open (has_ops s) (has_par s) (runpar s) (inflight s) jobs.
Proof. exact gate_tie. Qed.
Print Assumptions C04_gate_is_the_sources.

(* ... and so is the condition under which a launched operation is given a slot *)
Theorem C04_slot_rule_is_the_sources : forall par jobs, gen_wants_slot par jobs = par && Nat.ltb 1 jobs.
Proof. exact slot_tie. Qed.
Print Assumptions C04_slot_rule_is_the_sources.

(* ... and the flag the slot rule and the launch gate read -- an operation's `parallelizable` -- is the task's own declaration
   for run_command / run_experiment and False for combine / group, for the root of the plan as for every other task (the
   second visit of create_plan_for as TRANSLATED from planner.py on every run; seed C04/l lowered the requested task as
   sequential) *)
Theorem C04_parallelizable_is_the_declaration : forall k (tp : bool), exists cls par ver rec ser,
  lowering_row k = Some (kind_code k, (cls, par, ver, rec, ser)) /\
  (match k with KCommand | KExperiment => tp | _ => false end) = par && tp.
Proof. intros k tp. destruct (lowering_tie k) as (c & p & v & r & s & H & _ & Hp & _). exists c, p, v, r, s. split; [exact H|apply Hp]. Qed.
Print Assumptions C04_parallelizable_is_the_declaration.

(* ... and the two ready lists of the model are _ReadyToRunQueue as TRANSLATED from executor.py: has_ops / has_parallelizable_ops
   over the two lengths, an operation joins the parallel queue iff it is parallelizable (at the end), parallelizable operations
   are dequeued first (from the front) *)
Theorem C04_ready_queue_is_the_sources : forall p s o,
  has_ops s = gen_queue_has_ops (length (readyS s)) (length (readyP s)) /\
  has_par s = gen_queue_has_par (length (readyS s)) (length (readyP s)) /\
  readyP (enqueue p s o) = (if gen_enqueue_to_parallel (is_par p o) then readyP s ++ [o] else readyP s) /\
  readyS (enqueue p s o) = (if gen_enqueue_to_parallel (is_par p o) then readyS s else readyS s ++ [o]) /\
  dequeue s = (if gen_dequeue_from_parallel (has_par s)
               then (hd 0 (readyP s), readyS s, tl (readyP s))
               else (hd 0 (readyS s), tl (readyS s), [])) /\
  gen_queues_are_fifo = true.
Proof. exact queue_tie. Qed.
Print Assumptions C04_ready_queue_is_the_sources.

(* ... used by the model where the source uses it: the start event of a launched operation carries
   the top of the free-slot stack exactly when the translated condition holds of that operation *)
Theorem C04_slot_rule_drives_the_launch : forall p jobs stop orc s,
  let o := fst (fst (dequeue s)) in
  forallb (succeeded s) (exe_deps p o) = true -> launch_fails orc o = false ->
  trace (launch_one p jobs stop orc s) =
  EStart o (if gen_wants_slot (is_par p o) jobs then hd_error (avail s) else None) :: trace s.
Proof. exact slot_tie_launch. Qed.
Print Assumptions C04_slot_rule_drives_the_launch.

(* non-vacuity: three independent parallelizable operations under jobs = 2 run two at a time
   with slots 0 and 1, the third reuses the slot freed first *)
Definition ex_plan : plan :=
  {| p_ops := [ {| op_task := 1; op_exe_deps := []; op_par := true; op_sync := false |};
                {| op_task := 2; op_exe_deps := []; op_par := true; op_sync := false |};
                {| op_task := 3; op_exe_deps := []; op_par := true; op_sync := false |} ];
     p_initial := [0; 1; 2]; p_cached := []; p_num := 3 |}.
Definition ex_orc : oracle := {| launch_fails := fun _ => false; rc_of := fun _ => 0%N; pick := fun k => if Nat.eqb k 0 then 1 else 0 |}.
Example C04_nonvacuous :
  run_plan ex_plan 2 false ex_orc 20 3 =
  Some [EStart 0 (Some 0); EStart 1 (Some 1); EFinish 1 0; EStart 2 (Some 1); EFinish 0 0; EFinish 2 0; EKill []; EDone].
Proof. vm_compute. reflexivity. Qed.

(* the example plan meets the hypothesis of the theorems above *)
Example C04_example_plan_is_wf : wf_plan ex_plan.
Proof. apply wf_planb_spec. vm_compute. reflexivity. Qed.
