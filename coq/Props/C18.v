(* C18 -- combine() exposes each dependency's output under its name.
   Only theorem statements, each closed by [exact] of a lemma of Proofs/, with the axioms it
   depends on printed beneath.  Model: Model/Combine.v (constructor check, planner filter, the
   loop of CombineOutputs.start_execution) over Lib/Path.v (os.path.relpath, link resolution).

   Reading guide.  [run_combine f co out deps d]: the combine task whose output directory is [out]
   in a project whose output directory (ctx.output_path) is [co],
   whose listed dependencies are [deps] (each paired with the output path the planner obtains
   for it, None when there is none) and whose output directory initially has the entries [d];
   [f] is what the file system answers about the dependencies' directories.  The result is
   [DuplicateDepName n] (rejected while loading) or [Ran outcome entries].
   [link_dest out t] is the place a link with text [t] located in [out] leads to. *)
From Coq Require Import List NArith Bool.
From Conductor Require Import Lib.Str Lib.Cmp Lib.Path Gen.Generated Model.Ident Model.Combine
  Proofs.IdentSpec Proofs.PathProofs Proofs.CombineProofs Proofs.GenTieCombine.
Import ListNotations.
Local Open Scope N_scope.

Lemma tie_out_dir : clean_comp cfg_OUTPUT_DIR = true.
Proof. vm_compute. reflexivity. Qed.

(* following os.path.relpath(p, start=base) from base leads to p -- any depths, any names *)
Theorem C18_relpath_resolves : forall base p,
  clean base = true -> clean p = true -> resolve (base ++ relpath base p) = p.
Proof. exact relpath_resolves. Qed.
Print Assumptions C18_relpath_resolves.

(* a combine task that runs has dependencies with pairwise distinct names *)
Theorem C18_distinct_names : forall f co out deps d o d',
  run_combine f co out deps d = Ran o d' -> NoDup (map iname (map fst deps)).
Proof. exact run_distinct. Qed.
Print Assumptions C18_distinct_names.

(* after a successful run, every listed dependency whose output directory is a non-empty
   directory has an entry under its name that is a link leading exactly to that directory *)
Theorem C18_links : forall f co out deps d d',
  clean out = true ->
  (forall i p, In (i, Some p) deps -> clean p = true) ->
  run_combine f co out deps d = Ran Done d' ->
  forall id dir, In (id, Some dir) deps ->
    fs_is_dir f dir = true -> fs_nonempty f dir = true ->
    exists t, lookup (iname id) d' = Some (Link t) /\ link_dest out t = dir.
Proof. exact run_links. Qed.
Print Assumptions C18_links.

(* the same inside a project: any root directory, task and dependencies in packages of any
   depth, any versions -- no side conditions on the identifiers are left.  What IS assumed, here
   and in Lib/Path.v: links resolve lexically (os.path.normpath), i.e. no component of the paths
   involved is itself a symbolic link -- the code computes the link text with os.path.relpath,
   which is lexical; a cond-out sub-directory that is a symlink to another disk is outside this
   statement (and breaks the links; recorded as an assumption of the check). *)
Theorem C18_links_project : forall f root cid deps d d',
  clean root = true -> WfIdent cid ->
  (forall i p, In (i, Some p) deps -> WfIdent i /\ exists v, p = abs_out root i v) ->
  run_combine f (cond_out_dir root) (abs_out root cid None) deps d = Ran Done d' ->
  forall id dir, In (id, Some dir) deps ->
    fs_is_dir f dir = true -> fs_nonempty f dir = true ->
    exists t, lookup (iname id) d' = Some (Link t) /\ link_dest (abs_out root cid None) t = dir.
Proof. exact (run_links_project tie_out_dir). Qed.
Print Assumptions C18_links_project.

(* re-running: if the names of the wanted dependencies are free or held by links Conductor made
   ([replaceable]: the link leads, lexically, to a `<name>.task[.<version>]` directory inside the
   project's output directory -- whether or not that directory still exists), the run succeeds
   and every such entry is replaced by the link to the directory selected now *)
Theorem C18_update : forall f co out deps d,
  ctor_check [] (map fst deps) = None ->
  (forall i p, In (i, Some p) deps -> fs_is_dir f p = true -> fs_nonempty f p = true ->
               entry_ok co out (iname i) (lookup (iname i) (start_dir d))) ->
  exists d', run_combine f co out deps d = Ran Done d' /\
    forall id dir, In (id, Some dir) deps ->
      fs_is_dir f dir = true -> fs_nonempty f dir = true ->
      lookup (iname id) d' = Some (Link (relpath out dir)).
Proof. exact run_update. Qed.
Print Assumptions C18_update.

(* ... and that precondition is what Conductor's own runs leave: after a successful run, the entry
   of every linked dependency is again replaceable, for any version the dependency has later and
   even if the version it leads to is deleted in between (D27: a dangling link used to end every
   later run in a FileExistsError traceback) *)
Theorem C18_own_links_stay_replaceable : forall f root cid deps d d',
  clean root = true -> WfIdent cid ->
  (forall i p, In (i, Some p) deps -> WfIdent i /\ exists v, p = abs_out root i v) ->
  run_combine f (cond_out_dir root) (abs_out root cid None) deps d = Ran Done d' ->
  forall id dir, In (id, Some dir) deps -> fs_is_dir f dir = true -> fs_nonempty f dir = true ->
  entry_ok (cond_out_dir root) (abs_out root cid None) (iname id) (lookup (iname id) d').
Proof. exact (made_links_replaceable tie_out_dir). Qed.
Print Assumptions C18_own_links_stay_replaceable.

(* an entry that is not a link Conductor made -- a regular file, a directory, or a symbolic link
   that leads anywhere else (D28: any link used to be overwritten) -- under a wanted dependency's
   name: the run fails, the entry is still there unchanged, and when nothing else is in the way
   the error names exactly it *)
Theorem C18_conflict : forall f co out deps d id dir e,
  ctor_check [] (map fst deps) = None ->
  In (id, Some dir) deps -> fs_is_dir f dir = true -> fs_nonempty f dir = true ->
  lookup (iname id) (start_dir d) = Some e -> replaceable co out (iname id) e = false ->
  exists o d', run_combine f co out deps d = Ran o d' /\ o <> Done /\
    lookup (iname id) d' = Some e /\
    ((forall i p, In (i, Some p) deps -> fs_is_dir f p = true -> fs_nonempty f p = true ->
                  iname i <> iname id -> entry_ok co out (iname i) (lookup (iname i) (start_dir d))) ->
     o = ConflictAt (iname id)).
Proof. exact run_conflict. Qed.
Print Assumptions C18_conflict.

(* entries whose names are not dependency names are never touched, whatever the outcome *)
Theorem C18_frame : forall f co out deps d o d' n,
  run_combine f co out deps d = Ran o d' ->
  (forall i p, In (i, Some p) deps -> iname i <> n) ->
  lookup n d' = lookup n (start_dir d).
Proof. exact run_frame. Qed.
Print Assumptions C18_frame.

(* non-vacuity: project root /r, task //x/y:c combining //:a (run_command), //p/q:e (version 5
   of an experiment), //:g (a group: path without a directory) and //x:n (no output path);
   the old entry e is a live link to version 3, "keep" is somebody else's file. *)
Definition ex_root : path := [[114]].
Definition ex_a := {| ipath := []; iname := [97] |}.
Definition ex_e := {| ipath := [[112]; [113]]; iname := [101] |}.
Definition ex_g := {| ipath := []; iname := [103] |}.
Definition ex_n := {| ipath := [[120]]; iname := [110] |}.
Definition ex_c := {| ipath := [[120]; [121]]; iname := [99] |}.
Definition ex_fs : fs :=
  {| fs_is_dir := fun p => negb (strs_eqb p (abs_out ex_root ex_g None));
     fs_nonempty := fun _ => true |}.
Definition ex_deps : list (ident * option path) :=
  [(ex_a, Some (abs_out ex_root ex_a None)); (ex_e, Some (abs_out ex_root ex_e (Some 5)));
   (ex_g, Some (abs_out ex_root ex_g None)); (ex_n, None)].
Definition ex_before : dirmap :=
  [([101], Link (relpath (abs_out ex_root ex_c None) (abs_out ex_root ex_e (Some 3))));
   ([107; 101; 101; 112], Other)].

Example C18_nonvacuous :
  exists d', run_combine ex_fs (cond_out_dir ex_root) (abs_out ex_root ex_c None) ex_deps (Some ex_before) = Ran Done d'
    /\ lookup [97] d' = Some (Link [PAR; PAR; PAR; [97; 46; 116; 97; 115; 107]])
    /\ link_dest (abs_out ex_root ex_c None) [PAR; PAR; PAR; [97; 46; 116; 97; 115; 107]]
       = abs_out ex_root ex_a None
    /\ (exists t, lookup [101] d' = Some (Link t)
                  /\ link_dest (abs_out ex_root ex_c None) t = abs_out ex_root ex_e (Some 5))
    /\ lookup [103] d' = None
    /\ lookup [107; 101; 101; 112] d' = Some Other.
Proof.
  eexists. split; [vm_compute; reflexivity|].
  split; [vm_compute; reflexivity|]. split; [vm_compute; reflexivity|].
  split; [eexists; split; vm_compute; reflexivity|].
  split; vm_compute; reflexivity.
Qed.

(* non-vacuity of C18_conflict for a link: under the name of dependency a there is somebody else's
   symbolic link (to /r/old/v1, outside cond-out): the run reports the conflict and leaves it *)
Definition ex_foreign : dirmap := [([97], Link [PAR; PAR; PAR; PAR; [111; 108; 100]; [118; 49]])].
Example C18_foreign_link_nonvacuous :
  replaceable (cond_out_dir ex_root) (abs_out ex_root ex_c None) [97] (Link [PAR; PAR; PAR; PAR; [111; 108; 100]; [118; 49]]) = false /\
  run_combine ex_fs (cond_out_dir ex_root) (abs_out ex_root ex_c None) ex_deps (Some ex_foreign) = Ran (ConflictAt [97]) ex_foreign.
Proof. split; vm_compute; reflexivity. Qed.

(* Tie to the source, re-checked on every run: the loop of the model takes, for each dependency, the
   decision TRANSLATED from CombineOutputs.start_execution in the working tree (0 continue, 1 unlink
   and link, 2 CombineOutputFileConflict, 3 link) and acts on it -- dropping the test for Conductor's
   own links (D28) or going back to `exists()` before `is_symlink()` (D27) breaks this equality *)
Theorem C18_loop_takes_the_sources_decision : forall f co out dep_id dep_dir rest d ex,
  (lookup (iname dep_id) d = None -> ex = false) -> (lookup (iname dep_id) d = Some Other -> ex = true) ->
  combine_loop f co out ((dep_id, dep_dir) :: rest) d =
  match gen_combine_decision (fs_is_dir f dep_dir) (fs_nonempty f dep_dir)
          (match lookup (iname dep_id) d with Some (Link _) => true | _ => false end)
          (match lookup (iname dep_id) d with Some (Link t) => is_conductor_link co out (iname dep_id) t | _ => false end) ex with
  | 0 => combine_loop f co out rest d
  | 1 => combine_loop f co out rest (add (iname dep_id) (Link (relpath out dep_dir)) (remove (iname dep_id) d))
  | 2 => (ConflictAt (iname dep_id), d)
  | _ => combine_loop f co out rest (add (iname dep_id) (Link (relpath out dep_dir)) d)
  end.
Proof. intros f co out dep_id dep_dir rest d ex Hn Ho. rewrite loop_by_decision, (combine_decision_tie f co out dep_id dep_dir d ex Hn Ho). reflexivity. Qed.
Print Assumptions C18_loop_takes_the_sources_decision.
