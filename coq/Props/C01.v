(* C01 -- Dependencies finish successfully before a task starts.
   Executor part: for EVERY well-formed plan, EVERY oracle (completion order, return codes,
   launch failures), every jobs >= 1, both --stop-early settings, at EVERY state of the loop. *)
From Coq Require Import List Arith Bool NArith.
From Conductor Require Import Model.Loader Model.Planner Model.Exec Model.RunCase
  Proofs.ExecInv Proofs.ExecTheorems Proofs.ExecMain Proofs.PlannerInv Proofs.PlannerExact Proofs.PlannerOrder Proofs.Compose Proofs.ComposeExec Proofs.ComposeOrder.
From Conductor Require Import Gen.Generated Proofs.GenTieExec.
Import ListNotations.

(* [trace s] lists the events newest first.  If operation x is started at some point of the run,
   then every operation d that x depends on directly or transitively in the operation graph
   (i) has finished with status 0 strictly before that point, (ii) was started before that point,
   and (iii) is never started again afterwards -- so the executions of a dependency and of its
   dependent never overlap. *)
Theorem C01_op_order :
  forall p jobs stop orc, wf_plan p -> 1 <= jobs ->
  forall s x sl post pre d,
    reachable p jobs stop orc s -> trace s = post ++ EStart x sl :: pre -> op_path p x d ->
    In (EFinish d 0%N) pre /\ (exists sl', In (EStart d sl') pre) /\ (forall sl', ~ In (EStart d sl') post).
Proof. exact main_op_order. Qed.
Print Assumptions C01_op_order.

(* Task level, end to end, for the composed model the correspondence check evaluates
   (loader -> planner -> executor; Model/RunCase.cond_run): whenever `cond run` gets as far as
   executing, the operation of a task is started only after the operation of EVERY direct
   dependency that is executed in this invocation (`runs d = again || should_run d`) has finished
   with status 0, and that dependency is not started afterwards.  No side condition on the plan,
   the graph or the oracle: duplicate-freeness, acyclicity and well-formedness are consequences of
   the loader having accepted the project (Proofs/Compose.v).  Together with C01_op_order this
   covers every dependency that is linked through executed tasks; the remaining case (a path
   through a cached experiment) is the refuted statement below. *)
Theorem C01_direct_deps_first_end_to_end :
  forall fuel tasks c loaded ps evs,
  cond_run fuel tasks c = ORun loaded ps (Some evs) -> 1 <= c_jobs c ->
  forall pre ox sl post, evs = pre ++ EStart ox sl :: post ->
  ox < length (ops ps) /\
  forall d, In d (td_deps (tdef_of tasks (op_task (op_at (ops ps) ox)))) ->
            runs (sr_of tasks) (c_again c) d = true ->
  exists od, od < length (ops ps) /\ op_task (op_at (ops ps) od) = d /\
             In (EFinish od 0%N) pre /\ (forall sl', ~ In (EStart od sl') post).
Proof. exact cond_run_direct_deps_first. Qed.
Print Assumptions C01_direct_deps_first_end_to_end.

(* The same, transitively: EVERY task reached from the starting task along dependency edges whose
   targets are all executed in this invocation ([RPath]: a non-empty path in the task graph, every
   node after the first with `runs = true`) has finished with status 0 before, was started before,
   and is not started afterwards.  This is the literal property minus exactly the F1 case (a path
   that passes through a task that is NOT executed, i.e. a cached experiment). *)
Theorem C01_transitive_deps_first_end_to_end :
  forall fuel tasks c loaded ps evs,
  cond_run fuel tasks c = ORun loaded ps (Some evs) -> 1 <= c_jobs c ->
  forall pre ox sl post, evs = pre ++ EStart ox sl :: post ->
  ox < length (ops ps) /\
  forall d, RPath tasks c (op_task (op_at (ops ps) ox)) d ->
  exists od, od < length (ops ps) /\ op_task (op_at (ops ps) od) = d /\
             In (EFinish od 0%N) pre /\ (exists sl', In (EStart od sl') pre) /\ (forall sl', ~ In (EStart od sl') post).
Proof. exact cond_run_transitive_deps_first. Qed.
Print Assumptions C01_transitive_deps_first_end_to_end.

(* The operation graph the planner builds has exactly the edges of the task graph between
   lowered tasks (both directions), and all_ops is a topological order of it. *)
Theorem C01_task_edges :
  forall info sr again root, (forall t, NoDup (t_deps (info t))) ->
  (forall t, NReach info sr again root t -> ~ TPath info t t) ->
  forall fuel ps, plan_for info sr again fuel root = Some ps ->
  (forall o, o < length (ops ps) ->
     forall d, In d (t_deps (info (op_task (op_at (ops ps) o)))) -> runs sr again d = true ->
     exists od, In od (op_exe_deps (op_at (ops ps) o)) /\ od < o /\ op_task (op_at (ops ps) od) = d) /\
  (forall o od, o < length (ops ps) -> In od (op_exe_deps (op_at (ops ps) o)) ->
     od < o /\ In (op_task (op_at (ops ps) od)) (t_deps (info (op_task (op_at (ops ps) o))))).
Proof.
  intros info sr again root Hd Ha fuel ps H.
  destruct (plan_edges info sr again root Hd Ha fuel ps H) as (A & B & _). auto.
Qed.
Print Assumptions C01_task_edges.

(* The literal statement -- "every task it transitively depends on that is executed in this
   invocation" -- is FALSE of the faithful composed model when the only dependency path runs
   through a cached experiment (known finding F1): r->[x,y], x->c, c->d, y->d with c cached and
   d a command.  x (task 1) starts before d (task 4) has finished, although x ->* d. *)
Definition f1_tasks : list tdef :=
  [ {| td_status := 2; td_deps := [1; 2]; td_kind := KCommand; td_par := true; td_sr := true |};
    {| td_status := 2; td_deps := [3]; td_kind := KCommand; td_par := true; td_sr := true |};
    {| td_status := 2; td_deps := [4]; td_kind := KCommand; td_par := true; td_sr := true |};
    {| td_status := 2; td_deps := [4]; td_kind := KExperiment; td_par := true; td_sr := false |};
    {| td_status := 2; td_deps := []; td_kind := KCommand; td_par := true; td_sr := true |} ].
Definition f1_cfg : run_cfg :=
  {| c_root := 0; c_again := false; c_jobs := 2; c_stop := false; c_launch_fail := []; c_rcs := [0;0;0;0;0]%N; c_picks := [0;0;0;0] |}.

Definition events_of (o : outcome) : list event := match o with ORun _ _ (Some l) => l | _ => [] end.
Definition task_of_op (o : outcome) (op : nat) : nat :=
  match o with ORun _ ps _ => op_task (nth op (ops ps) {| op_task := 0; op_exe_deps := []; op_par := false; op_sync := false |}) | _ => 0 end.

Definition f1_out : outcome := cond_run 100 f1_tasks f1_cfg.

Theorem C01_full_refuted :
  exists (ox od : nat) (sl : option nat) (pre post : list event),
    events_of f1_out = pre ++ EStart ox sl :: post /\
    task_of_op f1_out ox = 1 /\ task_of_op f1_out od = 4 /\
    (* task 1 depends on task 3 (cached) which depends on task 4, which is executed ... *)
    In 3 (td_deps (tdef_of f1_tasks 1)) /\ In 4 (td_deps (tdef_of f1_tasks 3)) /\
    (exists sl', In (EStart od sl') (events_of f1_out)) /\
    (* ... yet 4 has not finished when 1 starts *)
    ~ In (EFinish od 0%N) pre.
Proof.
  exists 0, 1, (Some 0), [ECached 3],
    [EStart 1 (Some 1); EFinish 0 0%N; EFinish 1 0%N; EStart 2 (Some 1); EFinish 2 0%N; EStart 3 (Some 1); EFinish 3 0%N; EKill []; EDone].
  split; [vm_compute; reflexivity|]. split; [vm_compute; reflexivity|]. split; [vm_compute; reflexivity|].
  split; [vm_compute; auto|]. split; [vm_compute; auto|].
  split; [exists (Some 1); vm_compute; auto|].
  intros [H|[]]. discriminate.
Qed.
Print Assumptions C01_full_refuted.

(* Tie to the sources, re-checked on every run: WHEN a dependent becomes ready.  _process_finished_op as TRANSLATED from
   executor.py of the working tree: the finished operation is appended to the completed list, the counter of every dependent
   is decremented once per edge, and a dependent (in deps_of order) joins the ready queues exactly when the translated test on
   its counter says so (gen_enqueue_dependent: not `waiting_on > 0`) -- the model's process_finished, on which C01_op_order
   rests, is that function. *)
Theorem C01_ready_rule_is_the_sources : forall p s o,
  let ds := deps_of p o in
  let w' := fun x => (waiting s x - Planner.count x ds)%nat in
  let newly := filter (fun d => gen_enqueue_dependent (w' d)) ds in
  readyS (process_finished p s o) = readyS s ++ filter (fun d => negb (is_par p d)) newly /\
  readyP (process_finished p s o) = readyP s ++ filter (is_par p) newly /\
  completed (process_finished p s o) = completed s ++ [o] /\
  (forall x, waiting (process_finished p s o) x = w' x) /\
  gen_finished_op_steps = [1%N; 2%N; 3%N].
Proof. exact process_finished_tie. Qed.
Print Assumptions C01_ready_rule_is_the_sources.

(* non-vacuity of the end-to-end theorem: the F1 project itself is accepted, planned and executed *)
Example C01_end_to_end_nonvacuous :
  exists loaded ps evs, cond_run 100 f1_tasks f1_cfg = ORun loaded ps (Some evs) /\ 1 <= c_jobs f1_cfg /\ length evs = 11.
Proof. vm_compute. do 3 eexists. split; [reflexivity|]. split; [repeat constructor | reflexivity]. Qed.
