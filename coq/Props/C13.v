(* C13 -- `cond gc` removes exactly the unrecorded experiment outputs.
   Only theorem statements, each closed by [exact] of a lemma of Proofs/GcProofs.v.  The two
   directory-name patterns are those of cli/gc.py as translated into Gen/Generated.v on this run;
   the [tie_*] facts are decided by computation against it.

   Vocabulary.  A tree [t0 : fs] is the content of cond-out (Model/Gc.v); paths are component lists
   relative to cond-out.  [wf_tree] = entry names are unique within a directory.
   [GcTarget rec t0 q] (Proofs/GcProofs.v) =
        q = p ++ [<name>.task.<t>]   with <name> a documented task name, t > 0 in canonical decimal,
        no component of p looks like a task directory, q is a directory of t0,
        and (//p:name, t) is not recorded.
   The record of the pre-fix pattern defect (D15) is Refuted/IdentOld.v:C13_gc_regex_refuted. *)
From Coq Require Import List NArith Bool.
From Conductor Require Import Lib.Regex Lib.RegexBisim Lib.PyRegex Lib.Str
  Gen.Generated Model.Ident Proofs.IdentSpec Proofs.IdentProofs Model.Gc Proofs.GcProofs.
From Conductor Require Import Proofs.GenTieGc.
Import ListNotations.
Open Scope N_scope.

Lemma tie_exp : tie_ok gc_experiment_task_regex doc_exp_re = true.
Proof. vm_compute. reflexivity. Qed.
Lemma tie_reg : tie_ok gc_regular_task_regex doc_reg_re = true.
Proof. vm_compute. reflexivity. Qed.
Lemma tie_suffix : cfg_TASK_OUTPUT_DIR_SUFFIX = DOT_TASK.
Proof. reflexivity. Qed.
Lemma tie_ident : tie_ok task_identifier_regex doc_ident_re = true.
Proof. vm_compute. reflexivity. Qed.

(* the experiment-directory pattern accepts exactly <name>.task.<t> (t > 0, canonical decimal),
   the regular pattern exactly <name>.task; these are the names `cond run` gives to output
   directories *)
Theorem C13_regex : forall s,
  (py_match gc_experiment_task_regex s = true <->
     exists name t, DocName name /\ 0 < t /\ s = name ++ DOT_TASK ++ [DOT] ++ dec t) /\
  (py_match gc_regular_task_regex s = true <-> exists name, DocName name /\ s = name ++ DOT_TASK) /\
  (forall i t, task_output_dir i (Some t) = iname i ++ DOT_TASK ++ [DOT] ++ dec t) /\
  (forall i, task_output_dir i None = iname i ++ DOT_TASK).
Proof.
  intros s. split; [exact (exp_match_spec tie_exp s)|]. split; [exact (reg_match_spec tie_reg s)|].
  split; [exact (task_output_dir_exp tie_suffix) | exact (task_output_dir_reg tie_suffix)].
Qed.
Print Assumptions C13_regex.

(* a directory name denotes at most one (task name, timestamp), the model's group extraction
   recovers it, and a timestamp with a leading zero is not a version directory *)
Theorem C13_ts_inj :
  (forall n1 t1 n2 t2, DocName n1 -> DocName n2 ->
     exp_dir_name n1 t1 = exp_dir_name n2 t2 -> n1 = n2 /\ t1 = t2) /\
  (forall name t, DocName name -> 0 < t ->
     exp_name (exp_dir_name name t) = name /\ exp_ts (exp_dir_name name t) = t) /\
  (forall name ds, DocName name ->
     py_match gc_experiment_task_regex (name ++ DOT_TASK ++ [DOT] ++ 48 :: ds) = false).
Proof.
  split; [exact exp_dir_name_inj|]. split; [exact (exp_groups tie_exp)|].
  intros name ds Hn. destruct (py_match _ _) eqn:E; [|reflexivity].
  apply (exp_match_spec tie_exp) in E. now apply no_leading_zero in E.
Qed.
Print Assumptions C13_ts_inj.

(* the walk terminates without error; the directories handed to rmtree are exactly the targets;
   with -v exactly those are printed, in deletion order; afterwards a path exists iff it existed
   and is not at or below a target *)
Theorem C13_exact : forall rec t0 v, wf_tree t0 ->
  exists D,
    (forall q, In q D <-> GcTarget rec t0 q) /\
    gc false v rec t0 =
      Done {| stack := []; tree := rm_all D t0;
              out := if v then map deleting_line D else []; removed := D |} /\
    (forall q, exists_at q (rm_all D t0) = true <->
               exists_at q t0 = true /\ forall d, GcTarget rec t0 d -> ~ is_prefix d q).
Proof.
  intros rec t0 v Hwf.
  destruct (gc_exact tie_exp tie_suffix rec t0 v Hwf) as (D & HD & H1 & _).
  exists D. split; [exact HD|]. split; [exact H1|]. intros q. now apply survivors.
Qed.
Print Assumptions C13_exact.

(* --dry-run changes nothing and prints exactly the directories the real run removes, in the
   same order *)
Theorem C13_dry_run : forall rec t0 v, wf_tree t0 ->
  exists D,
    (forall q, In q D <-> GcTarget rec t0 q) /\
    gc true v rec t0 = Done {| stack := []; tree := t0; out := map would_line D; removed := [] |} /\
    exists real, gc false v rec t0 = Done real /\ removed real = D.
Proof.
  intros rec t0 v Hwf.
  destruct (gc_exact tie_exp tie_suffix rec t0 v Hwf) as (D & HD & H1 & H2).
  exists D. split; [exact HD|]. split; [exact H2|]. eexists. split; [exact H1 | reflexivity].
Qed.
Print Assumptions C13_dry_run.

(* never a recorded version: the directory of every row of the index, and everything below it,
   is still there afterwards *)
Theorem C13_keeps_recorded : forall rows t0 v s i t rest fin,
  wf_tree t0 -> In (s, t) rows -> from_str true s = Some i -> 0 < t ->
  gc_main false v rows t0 = Done fin ->
  let q := version_dir (ipath i) (iname i) t ++ rest in
  exists_at q t0 = true -> exists_at q (tree fin) = true.
Proof. exact (gc_main_keeps_recorded tie_exp tie_reg tie_suffix tie_ident). Qed.
Print Assumptions C13_keeps_recorded.

(* never a run_command / combine output (<name>.task) nor anything below one; never anything
   nested inside a task directory on its own; never a file; never cond-out itself *)
Theorem C13_keeps_others : forall rec t0,
  (forall D a c rest, (forall d, In d D <-> GcTarget rec t0 d) ->
     nontasky a -> RegDirName c ->
     exists_at (a ++ [c] ++ rest) t0 = true -> exists_at (a ++ [c] ++ rest) (rm_all D t0) = true) /\
  (forall q, GcTarget rec t0 q ->
     IsDir t0 q /\ q <> [] /\
     forall a c b, q = a ++ [c] ++ b -> b <> [] -> looks_like_task c = false).
Proof.
  intros rec t0. split.
  - intros D a c rest HD Ha Hc. exact (keeps_regular tie_exp tie_reg tie_suffix rec t0 D a c rest HD Ha Hc).
  - intros q Hq. split; [exact (target_is_dir rec t0 q Hq)|].
    destruct Hq as (p & name & t & -> & _ & _ & Hp & _). unfold version_dir. split.
    + destruct p; discriminate.
    + intros a c b E Hb. destruct (@exists_last _ b Hb) as (b' & x & ->).
      rewrite !app_assoc in E. apply app_inj_tail in E as [E _]. subst p.
      eapply nontasky_in; [exact Hp|]. apply in_or_app. left. apply in_or_app. right. now left.
Qed.
Print Assumptions C13_keeps_others.

(* a row of the index that is not a task identifier stops gc before it touches anything *)
Theorem C13_bad_index : forall dry v rows t0,
  (exists s t, In (s, t) rows /\ from_str true s = None) -> gc_main dry v rows t0 = BadIndex.
Proof.
  intros dry v rows t0 H. unfold gc_main. apply load_recorded_none in H. now rewrite H.
Qed.
Print Assumptions C13_bad_index.

(* non-vacuity: cond-out = { a/ { x.task.5/, x.task.6/ { y.task.7/ }, x.task/, f (file) } },
   (//a:x, 5) recorded: gc removes exactly a/x.task.6 *)
Example C13_nonvacuous :
  let t0 := [Dir [97] [Dir [120;46;116;97;115;107;46;53] [];
                        Dir [120;46;116;97;115;107;46;54] [Dir [121;46;116;97;115;107;46;55] []];
                        Dir [120;46;116;97;115;107] []; File [102]]] in
  wf_tree t0 /\
  match gc_main false true [([47;47;97;58;120], 5)] t0 with
  | Done s => removed s = [[[97]; [120;46;116;97;115;107;46;54]]]
  | _ => False
  end.
Proof.
  split; [apply wf_treeb_sound; vm_compute; reflexivity | vm_compute; reflexivity].
Qed.

(* Tie to the source, re-checked on every run: for each directory entry the scan of the model takes the
   decision TRANSLATED from cli/gc.py main in the working tree (0 leave it, 1 explore it later,
   2 delete it), from: is it a directory of its own (not a symlink), does its name match the
   experiment pattern, the regular task pattern, is (identifier, timestamp) recorded *)
Theorem C13_scan_takes_the_sources_decision : forall rec p n is_dir es stack to_delete,
  scan rec p ((n, is_dir) :: es) stack to_delete =
  match gen_gc_decision is_dir (py_match gc_experiment_task_regex n) (py_match gc_regular_task_regex n)
                        (recorded rec {| ipath := p; iname := exp_name n |} (exp_ts n)) with
  | 0 => scan rec p es stack to_delete
  | 1 => scan rec p es ((p ++ [n]) :: stack) to_delete
  | _ => scan rec p es stack (to_delete ++ [p ++ [n]])
  end.
Proof. exact scan_takes_the_sources_decision. Qed.
Print Assumptions C13_scan_takes_the_sources_decision.

(* ... and the recorded set [rec] the scan consults is what VersionIndex.get_all_versions() returns: one entry per row of the
   index, none merged or dropped (the reader and the text of its query are compared with the expected ones on every run;
   seeds C08/k and C11/l collected the rows in a dictionary keyed by the timestamp alone) *)
Theorem C13_recorded_set_is_every_row :
  gen_index_readers_return_one_entry_per_row = true /\ gen_sql_texts_are_the_transcribed_ones = true.
Proof. split; reflexivity. Qed.
Print Assumptions C13_recorded_set_is_every_row.
