(* C10 -- recorded stdout/stderr and argument records are exact (PARTIAL).
   Proved: the logic of the copy loop for EVERY byte string and EVERY chunking of it, for both
   copier threads under every schedule; which record type / descriptor a run gets from its slot;
   when args.json / options.json are written and that this happens before the index row.
   NOT proved (CPython / the kernel; covered by real executions in harness/c10.py): that a pipe
   delivers to read1 exactly the bytes the child wrote, in order, followed by b"" only at end of
   file; that a file opened "wb" and handed to the child receives what the child writes; thread
   scheduling fairness of ThreadPoolExecutor; json.dump / json.load. *)
From Coq Require Import List NArith Bool.
From Conductor Require Import Model.Tee Proofs.TeeProofs Gen.Generated Proofs.GenTieTee.
Import ListNotations.
Open Scope N_scope.

(* for every byte list b and every way read1 may cut it into non-empty chunks (followed by end of
   file): stdout.log = b and Conductor's own stream receives exactly b after what it already had *)
Theorem C10_tee_exact : forall (b : bytes) (cs tail : list bytes) (stream : bytes),
  Forall nonempty cs -> concat cs = b -> eof_tail tail ->
  tee_pipe_run (cs ++ tail) stream = (b, stream ++ b).
Proof. exact tee_pipe_run_exact. Qed.
Print Assumptions C10_tee_exact.

(* when Conductor's own stream stops accepting data after [ok] writes (its reader went away, the
   device is full), the log is still exactly what the child wrote, the pipe is drained to its end,
   and the stream has received exactly the first [ok] chunks (D25) *)
Theorem C10_tee_exact_when_own_stream_fails : forall ok (b : bytes) (cs tail : list bytes) (stream : bytes),
  Forall nonempty cs -> concat cs = b -> eof_tail tail ->
  tee_loop_f ok (cs ++ tail) [] stream = (b, stream ++ concat (firstn ok cs)).
Proof. intros ok b cs tail stream Hne <- Ht. now rewrite tee_loop_f_spec. Qed.
Print Assumptions C10_tee_exact_when_own_stream_fails.

(* stdout and stderr are copied by two threads; under every schedule, whenever a copier has
   finished (which OutputHandler.finish waits for) its log and its stream are exact, and it does
   finish once it has been scheduled often enough -- either stream first, any interleaving *)
Theorem C10_tee_interleaved : forall sched cs_out cs_err t_out t_err s_out s_err,
  Forall nonempty cs_out -> Forall nonempty cs_err -> eof_tail t_out -> eof_tail t_err ->
  let r := run_sched sched (tee_start (cs_out ++ t_out) s_out) (tee_start (cs_err ++ t_err) s_err) in
  (tdone (fst r) = true -> tfile (fst r) = concat cs_out /\ tstream (fst r) = s_out ++ concat cs_out) /\
  (tdone (snd r) = true -> tfile (snd r) = concat cs_err /\ tstream (snd r) = s_err ++ concat cs_err) /\
  ((count true sched > length cs_out)%nat -> tdone (fst r) = true) /\
  ((count false sched > length cs_err)%nat -> tdone (snd r) = true).
Proof. exact interleaved. Qed.
Print Assumptions C10_tee_interleaved.

(* a recorded execution is Teed iff it has no slot and OnlyLogged iff it has one; the executor
   assigns a slot iff the task is parallelizable and --jobs > 1; Teed = the child writes into a
   pipe, OnlyLogged = the child's descriptor is the log file itself.  In both modes the log holds
   exactly what the child wrote; it is forwarded to Conductor's own stream exactly in Teed mode *)
Theorem C10_mode : forall par slots avail cs tail c,
  Forall nonempty cs -> eof_tail tail ->
  let slot := slot_for par slots avail in
  let rt := record_type_of true slot in
  (rt = Teed <-> slot = None) /\ (rt = OnlyLogged <-> exists k, slot = Some k) /\
  (slot = None <-> par = false \/ slots <= 1) /\
  (popen_arg_of rt = Pipe <-> slot = None) /\ (popen_arg_of rt = LogFile <-> exists k, slot = Some k) /\
  let c' := deliver rt (match slot with None => cs ++ tail | Some _ => cs end) c in
  logfile c' = Some (concat cs) /\
  own c' = match slot with None => own c ++ concat cs | Some _ => own c end.
Proof.
  intros par slots avail cs tail c Hne Ht slot rt.
  destruct (mode_spec slot) as (M1 & M2 & _ & M3 & M4).
  destruct (slot_for_spec par slots avail) as [S1 _].
  repeat (split; [assumption|]). exact (deliver_exact slot cs tail c Hne Ht).
Qed.
Print Assumptions C10_mode.

(* both logs are finished (copier joined at end of file, file closed) before anything else happens;
   args.json exists iff args is non-empty, options.json iff options is non-empty -- for EVERY
   execution, whatever its exit status (D26); both are written before the exit status is examined;
   a non-zero status then raises and inserts no row; a zero status inserts and commits the row last *)
Theorem C10_presence : forall (A B : Type) (args : list A) (opts : list B) rc ae oe,
  record_rule args opts rc =
    (match args with [] => false | _ => true end, match opts with [] => false | _ => true end) /\
  exists pre post,
    finish_execution rc true ae oe true = [CloseLog; CloseLog] ++ pre ++ post /\
    (forall e, In e pre -> e = WriteArgsJson \/ e = WriteOptionsJson) /\
    (In WriteArgsJson pre <-> ae = false) /\ (In WriteOptionsJson pre <-> oe = false) /\
    (rc <> 0 -> post = [RaiseNonZeroExit]) /\ (rc = 0 -> post = [InsertRow; CommitIndex]).
Proof.
  intros A B args opts rc ae oe. split; [apply record_rule_spec|].
  destruct (finish_spec rc true ae oe true) as (pre & post & E & P & I1 & I2 & R1 & R2).
  exists pre, post. repeat (split; [assumption|]). split; [rewrite I1 | split; [rewrite I2 | split; assumption]]; intuition.
Qed.
Print Assumptions C10_presence.

(* non-vacuity: the child wrote "ab" ++ "c" to stdout in two chunks, stderr stayed empty; the
   stderr copier happens to run first *)
Example C10_nonvacuous :
  let r := run_sched [false; true; true; true]
             (tee_start [[97; 98]; [99]; []] [62]) (tee_start [[]] []) in
  tdone (fst r) = true /\ tfile (fst r) = [97; 98; 99] /\ tstream (fst r) = [62; 97; 98; 99] /\
  tdone (snd r) = true /\ tfile (snd r) = [] /\
  record_rule [1; 2] (@nil N) 0 = (true, false) /\ record_rule [1; 2] [3] 7 = (true, true).
Proof. vm_compute. repeat split; reflexivity. Qed.

(* Ties to the source, re-checked on every run: the effects of the model's finish_execution, in order,
   are the ones TRANSLATED from RunTaskExecutable.finish_execution in the working tree (1 args.json,
   2 options.json, 3 raise TaskNonZeroExit, 4 insert the row, 5 commit) -- moving the record files
   behind the exit-status test again (D26) breaks this equality -- and the record type is chosen as in
   start_execution (0 NotRecorded, 1 Teed, 2 OnlyLogged) *)
Theorem C10_finish_is_the_sources : forall rc ser ae oe hv,
  map effect_code (finish_execution rc ser ae oe hv) = gen_finish (negb (rc =? 0)) ser ae oe hv.
Proof. exact finish_tie. Qed.
Print Assumptions C10_finish_is_the_sources.

Theorem C10_record_type_is_the_sources : forall record_output (slot : option N),
  rt_code' (record_type_of record_output slot) =
  gen_record_type record_output (match slot with None => true | Some _ => false end).
Proof. exact record_type_tie. Qed.
Print Assumptions C10_record_type_is_the_sources.

(* The copier loop itself is the sources': the decision of ONE iteration of `while True:` in TeeProcessor._tee_pipe_run (break on
   an empty read; write the chunk to the log; unless stream_ok is cleared, write it to Conductor's own stream and flush, clearing
   stream_ok when that raises) is translated from utils/tee.py on every run, and interpreting it iteration by iteration is exactly
   the loop [tee_loop_f] that C10_tee_exact / C10_tee_exact_when_own_stream_fails are about. *)
Theorem C10_copier_loop_is_the_sources :
  (forall data_empty stream_ok write_ok,
     map tee_eff_code (tee_iteration data_empty stream_ok write_ok) = gen_tee_iteration data_empty stream_ok write_ok) /\
  (forall ok reads stream,
     tee_loop_it ok reads {| ts_file := []; ts_stream := stream; ts_ok := true; ts_broke := false |} = tee_loop_f ok reads [] stream).
Proof. split; [exact tee_iteration_tie | intros ok reads stream; exact (tee_loop_it_is_tee_loop_f reads ok [] stream true)]. Qed.
Print Assumptions C10_copier_loop_is_the_sources.
