(* C16 -- An interrupt stops all running tasks and records nothing unfinished.
   Model/Abort.v: the signal handler, the deferred region around the launch of an operation and run_plan's abort handler, as
   the sources have them (Gen.Generated gen_launch_block / gen_abort_handler_terminates_registered are re-read from
   errors/signal.py and execution/executor.py on every run); Model/Exec.v for the states of the loop.
   "No version is recorded for a task that had not exited 0" is C06_only_success (every label sequence of Model/Store.v,
   aborts and kills included); "exits non-zero reporting the abort" is checked on the implementation (harness/c16.py). *)
From Coq Require Import List Arith Bool NArith.
From Conductor Require Import Gen.Generated Model.Loader Model.Planner Model.Exec Model.Abort
  Proofs.ExecInv Proofs.ExecMain Proofs.AbortProofs Proofs.GenTieAbort Refuted.AbortOld.
Import ListNotations.

(* SIGINT / SIGTERM at ANY moment of the launch of an operation -- before the block, before any of its statements (which, the
   handler only noting the signal inside the block, covers every instant inside them: inside subprocess.Popen() after the fork,
   between its return and the assignment, before the registration ...), any number of signals -- starting from any state of the
   loop in which the registered processes are the existing ones: if ConductorAbort is raised, the process groups sent SIGTERM
   are exactly the task processes that exist (the one just spawned included); otherwise the launch ends outside the region
   with nothing pending and again registered = existing.  For an operation that spawns a process, one that works
   synchronously (combine) and one whose launch fails. *)
Theorem C16_kill_all : forall o k sigs s,
  depth s = 0 -> pending s = false -> same_set (registered s) (existing s) ->
  match run o k launch_prog sigs false s with
  | Abort killed live => same_set killed live
  | Cont s' => depth s' = 0 /\ pending s' = false /\ same_set (registered s') (existing s')
  end.
Proof.
  intros o k sigs s Hd Hp Hs. apply (run_good o k launch_prog 0 sigs false s gen_launch_block_shape). cbn. auto.
Qed.
Print Assumptions C16_kill_all.

(* a signal is never lost: if one arrives at any of those moments, ConductorAbort is raised (at once outside the block, when
   the block is left otherwise) *)
Theorem C16_no_signal_is_lost : forall o k sigs s,
  depth s = 0 -> pending s = false -> same_set (registered s) (existing s) ->
  existsb (fun b => b) (firstn (length launch_prog) sigs) = true ->
  exists killed live, run o k launch_prog sigs false s = Abort killed live.
Proof.
  intros o k sigs s Hd Hp Hs Hsig. apply (run_no_loss o k launch_prog 0 sigs false s gen_launch_block_shape); [cbn; auto | right; exact Hsig].
Qed.
Print Assumptions C16_no_signal_is_lost.

(* without a signal the launch registers exactly the process it created *)
Theorem C16_quiet_launch_registers_the_new_process : forall o k s,
  depth s = 0 -> pending s = false ->
  exists s', run o k launch_prog [] false s = Cont s' /\ depth s' = 0 /\ pending s' = false /\
    match k with
    | LProcess => existing s' = existing s ++ [o] /\ registered s' = registered s ++ [o]
    | _ => existing s' = existing s /\ registered s' = registered s
    end.
Proof. intros o k s Hd Hp. exact (run_quiet o k launch_prog s gen_launch_block_shape Hd Hp _ eq_refl). Qed.
Print Assumptions C16_quiet_launch_registers_the_new_process.

(* the sources: what the theorems above are about is what errors/signal.py and executor.py say now *)
Theorem C16_launch_block_is_the_sources :
  launch_prog = map decode gen_launch_block /\ shape 0 (map decode gen_launch_block) = true /\
  gen_abort_handler_terminates_registered = true.
Proof. split; [reflexivity|]. split; [exact gen_launch_block_shape | exact gen_abort_handler]. Qed.
Print Assumptions C16_launch_block_is_the_sources.

(* before the repair D35 the statement was false (former known finding D7'): kept about the old model *)
Theorem C16_before_D35_refuted : exists pt x, In x (AbortOld.live pt) /\ ~ In x (AbortOld.killed pt).
Proof. exact old_abort_missed_the_child_inside_popen. Qed.
Print Assumptions C16_before_D35_refuted.

(* at every state of the main loop (any plan, oracle, jobs): the registered processes are started-and-unreaped operations,
   and every started-and-unreaped operation is registered unless it is a synchronous one (which has no process) -- so the
   hypothesis of C16_kill_all holds at every state of the loop, and an abort between two launches or while waiting reaches
   every task process that exists *)
Theorem C16_loop_kills_only_unreaped :
  forall p jobs stop orc, wf_plan p -> 1 <= jobs ->
  forall s, reachable p jobs stop orc s ->
  forall o, In o (existing (at_loop s)) ->
    (exists sl, In (EStart o sl) (trace s)) /\ (forall rc, ~ In (EFinish o rc) (trace s)).
Proof. exact loop_procs_are_started_unfinished. Qed.
Print Assumptions C16_loop_kills_only_unreaped.

Theorem C16_loop_kills_every_unreaped :
  forall p jobs stop orc, wf_plan p -> 1 <= jobs ->
  forall s, reachable p jobs stop orc s ->
  forall o, (exists sl, In (EStart o sl) (trace s)) -> (forall rc, ~ In (EFinish o rc) (trace s)) ->
    In o (syncs s) \/ In o (registered (at_loop s)).
Proof. exact loop_started_unfinished_async_are_procs. Qed.
Print Assumptions C16_loop_kills_every_unreaped.

(* non-vacuity: a signal inside the block (before start_execution, i.e. also "inside Popen after the fork") during the launch
   of process 7 while 3 and 5 run: all three are sent SIGTERM; the same signal before the block reaches 3 and 5, and 7 is never
   started; no signal: 7 is registered *)
Example C16_nonvacuous :
  let s := {| depth := 0; pending := false; existing := [3; 5]; registered := [3; 5] |} in
  run 7 LProcess launch_prog [false; false; true] false s = Abort [3; 5; 7] [3; 5; 7] /\
  run 7 LProcess launch_prog [true] false s = Abort [3; 5] [3; 5] /\
  run 7 LProcess launch_prog [] false s = Cont {| depth := 0; pending := false; existing := [3; 5; 7]; registered := [3; 5; 7] |} /\
  run 7 LFails launch_prog [false; false; false; true] false s = Abort [3; 5] [3; 5].
Proof. vm_compute. repeat split. Qed.
