(* C16 -- An interrupt stops all running tasks and records nothing unfinished (PARTIAL).
   Model/Abort.v: what the abort handlers do as a function of the point where the signal handler
   raised; Model/Exec.v for the states of the loop. *)
From Coq Require Import List Arith Bool NArith.
From Conductor Require Import Model.Loader Model.Planner Model.Exec Model.Abort
  Proofs.ExecInv Proofs.ExecMain Proofs.AbortProofs.
Import ListNotations.

(* at every modelled point other than "inside Popen() after the fork", the process groups that
   receive SIGTERM are exactly the task processes that exist *)
Theorem C16_kill_all_partial : forall pt,
  (forall s o, pt <> InLaunch s o InsidePopenAfterFork) -> same_set (killed pt) (live pt).
Proof. exact kill_all_except_in_popen. Qed.
Print Assumptions C16_kill_all_partial.

(* the full statement is false at that point (known finding D7'): the child exists and is missed *)
Theorem C16_full_refuted : exists pt x, In x (live pt) /\ ~ In x (killed pt).
Proof. exact in_popen_refuted. Qed.
Print Assumptions C16_full_refuted.

(* at every state of the main loop (any plan, oracle, jobs): what terminate_processes signals are
   started-and-unreaped operations, and every started-and-unreaped operation is signalled unless it
   is a synchronous one (which has no process) *)
Theorem C16_loop_kills_only_unreaped :
  forall p jobs stop orc, wf_plan p -> 1 <= jobs ->
  forall s, reachable p jobs stop orc s ->
  forall o, In o (live (AtLoop s)) ->
    (exists sl, In (EStart o sl) (trace s)) /\ (forall rc, ~ In (EFinish o rc) (trace s)).
Proof. exact loop_procs_are_started_unfinished. Qed.
Print Assumptions C16_loop_kills_only_unreaped.

Theorem C16_loop_kills_every_unreaped :
  forall p jobs stop orc, wf_plan p -> 1 <= jobs ->
  forall s, reachable p jobs stop orc s ->
  forall o, (exists sl, In (EStart o sl) (trace s)) -> (forall rc, ~ In (EFinish o rc) (trace s)) ->
    In o (syncs s) \/ In o (killed (AtLoop s)).
Proof. exact loop_started_unfinished_async_are_procs. Qed.
Print Assumptions C16_loop_kills_every_unreaped.

Example C16_nonvacuous :
  killed (InLaunch (xinit {| p_ops := []; p_initial := []; p_cached := []; p_num := 0 |} 2) 3 ReturnedNotRegistered) = [3].
Proof. reflexivity. Qed.
