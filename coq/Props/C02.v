(* C02 -- Each needed task runs exactly once per invocation; nothing else runs.
   Planner part: for EVERY task table with duplicate-free dependency lists (what the loader
   accepts; cycles are not even excluded here), EVERY should_run oracle (= every prior contents of
   the version index, every git state, --at-least) and both values of --again.
   Executor part: for every well-formed plan and every oracle. *)
From Coq Require Import List Arith Bool NArith.
From Conductor Require Import Model.Loader Model.Planner Model.Exec Model.RunCase Proofs.Compose Proofs.ComposeRun
  Proofs.ExecInv Proofs.ExecTheorems Proofs.ExecMain Proofs.PlannerInv Proofs.PlannerThm Proofs.PlannerExact Proofs.PlannerOrder Proofs.PlanClosure.
From Conductor Require Import Gen.Generated Proofs.GenTie Proofs.GenTieLowering Proofs.GenTiePlannerVisit.
Import ListNotations.

(* Needed = tasks reachable from the root through tasks that run, and that run themselves;
   Frontier = tasks so reachable that have a reusable result (`runs t = again || should_run t`).
   The lowered tasks are exactly Needed, each lowered to ONE operation; the tasks reported
   "Using cached results" are exactly Frontier, each once; no task is both; the progress total is
   the number of operations; should_run and create_new_version are invoked at most once per task. *)
Theorem C02_plan_exact :
  forall info sr again root, (forall t, NoDup (t_deps (info t))) ->
  forall fuel ps, plan_for info sr again fuel root = Some ps ->
    (forall t, (exists o, o < length (ops ps) /\ op_task (op_at (ops ps) o) = t) <-> Needed info sr again root t) /\
    NoDup (map op_task (ops ps)) /\
    (forall t, In t (cached ps) <-> Frontier info sr again root t) /\ NoDup (cached ps) /\
    (forall t, In t (cached ps) -> ~ In t (map op_task (ops ps))) /\
    p_num (plan_of ps) = length (ops ps) /\
    NoDup (sr_calls ps) /\ NoDup (nv_calls ps).
Proof. exact plan_exact. Qed.
Print Assumptions C02_plan_exact.

(* nothing outside the closure of the root is lowered (Needed is inside the closure by definition:
   NReach follows dependency edges from the root) *)
Theorem C02_inside_closure :
  forall info sr again root t, Needed info sr again root t -> NReach info sr again root t.
Proof. intros info sr again root t [H _]. exact H. Qed.
Print Assumptions C02_inside_closure.

(* ... in terms of plain dependency paths: whatever is planned for execution or reported as cached is the root or is
   reachable from the root by a dependency path -- never a task outside T's transitive closure *)
Theorem C02_nothing_outside_the_closure :
  forall info sr again root, (forall t, NoDup (t_deps (info t))) ->
  forall fuel ps, plan_for info sr again fuel root = Some ps ->
  forall t, In t (map op_task (ops ps)) \/ In t (cached ps) -> t = root \/ TPath info root t.
Proof. intros info sr again root H fuel ps. exact (planned_and_cached_inside_closure info sr root H again fuel ps). Qed.
Print Assumptions C02_nothing_outside_the_closure.

(* the planner's output satisfies what the executor theorems (C01, C03, C04, C09) assume *)
Theorem C02_plan_wf :
  forall info sr again, (forall t, NoDup (t_deps (info t))) ->
  forall fuel root ps, plan_for info sr again fuel root = Some ps -> wf_plan (plan_of ps).
Proof. exact plan_wf. Qed.
Print Assumptions C02_plan_wf.

(* executor: no operation is started twice, whatever the completion order and the failures *)
Theorem C02_started_once :
  forall p jobs stop orc, wf_plan p -> 1 <= jobs ->
  forall s x sl post pre, reachable p jobs stop orc s -> trace s = post ++ EStart x sl :: pre ->
    (forall sl', ~ In (EStart x sl') pre) /\ (forall sl', ~ In (EStart x sl') post).
Proof. exact main_started_once. Qed.
Print Assumptions C02_started_once.

(* without failures every operation is started: all of them are completed and SUCCEEDED *)
Theorem C02_all_run_when_nothing_fails :
  forall p jobs stop orc, wf_plan p -> 1 <= jobs ->
  (forall o, fails p orc o = false) ->
  forall s, final_state p jobs stop orc s -> stopped s = false ->
  forall o, o < length (p_ops p) -> ost s o = SUCCEEDED.
Proof. exact main_all_run_when_nothing_fails. Qed.
Print Assumptions C02_all_run_when_nothing_fails.

(* non-vacuity: the diamond a->[b,d], b->d (the shape the pinned commit got wrong, D1) *)
Definition ex_info (t : nat) : tinfo :=
  match t with
  | 0 => {| t_deps := [1; 2]; t_kind := KCommand; t_par := false |}
  | 1 => {| t_deps := [2]; t_kind := KCommand; t_par := false |}
  | _ => {| t_deps := []; t_kind := KExperiment; t_par := false |}
  end.
(* End to end (Proofs/Compose.v): the plan that `cond run` executes once the loader has accepted
   the project is well formed and contains exactly the needed tasks, once each -- with no
   hypothesis on the project: duplicate-free dependency lists are what the loader accepted. *)
Theorem C02_end_to_end :
  forall fuel tasks c loaded ps r,
  cond_run fuel tasks c = ORun loaded ps r ->
  wf_plan (plan_of ps) /\
  (forall t, (exists o, o < length (ops ps) /\ op_task (op_at (ops ps) o) = t) <->
             Needed (info_of tasks) (sr_of tasks) (c_again c) (c_root c) t) /\
  NoDup (map op_task (ops ps)) /\
  (forall t, In t (cached ps) <-> Frontier (info_of tasks) (sr_of tasks) (c_again c) (c_root c) t).
Proof.
  intros fuel tasks c loaded ps r H.
  destruct (cond_run_plan fuel tasks c loaded ps r H) as (A & B & C & D & _). auto.
Qed.
Print Assumptions C02_end_to_end.

(* End to end, on the event list of a complete `cond run` of the composed model: no operation is
   started twice, every started operation belongs to a needed task, distinct operations are distinct
   tasks -- so every task is executed AT MOST once and nothing but needed tasks is executed ... *)
Theorem C02_at_most_once_end_to_end :
  forall fuel tasks c loaded ps evs,
  cond_run fuel tasks c = ORun loaded ps (Some evs) -> 1 <= c_jobs c ->
  (forall pre ox sl post, evs = pre ++ EStart ox sl :: post ->
     (forall sl', ~ In (EStart ox sl') pre) /\ (forall sl', ~ In (EStart ox sl') post)) /\
  (forall ox sl, In (EStart ox sl) evs ->
     ox < length (ops ps) /\
     Needed (info_of tasks) (sr_of tasks) (c_again c) (c_root c) (op_task (op_at (ops ps) ox))) /\
  NoDup (map op_task (ops ps)).
Proof. exact cond_run_started_at_most_once. Qed.
Print Assumptions C02_at_most_once_end_to_end.

(* ... and EXACTLY once, finishing with status 0, when no task fails *)
Theorem C02_exactly_once_when_nothing_fails_end_to_end :
  forall fuel tasks c loaded ps evs,
  cond_run fuel tasks c = ORun loaded ps (Some evs) -> 1 <= c_jobs c -> c_stop c = false ->
  (forall o, fails (plan_of ps) (oracle_of (plan_of ps) c) o = false) ->
  forall t, Needed (info_of tasks) (sr_of tasks) (c_again c) (c_root c) t ->
  exists o, o < length (ops ps) /\ op_task (op_at (ops ps) o) = t /\
            (exists sl, In (EStart o sl) evs) /\ In (EFinish o 0%N) evs.
Proof. exact cond_run_all_needed_run. Qed.
Print Assumptions C02_exactly_once_when_nothing_fails_end_to_end.

(* Tie to the source, re-checked on every run: the test under which the planner reports a first-visited
   task as cached and does not traverse it is the one TRANSLATED from create_plan_for (gen_prune) *)
Theorem C02_prune_rule_is_the_sources : forall again b, gen_prune again b = negb again && negb b.
Proof. exact prune_tie. Qed.
Print Assumptions C02_prune_rule_is_the_sources.

(* ... and what a task that is NOT pruned becomes (the second visit of create_plan_for, TRANSLATED from planner.py on every run:
   Gen.Generated.gen_lowering): exactly one operation per task -- RunTaskExecutable for run_command / run_experiment, CombineOutputs
   for combine, NoOp for group --; the model lowers every kind as the translated table says: synchronous exactly for the
   operation classes other than RunTaskExecutable, `parallelizable` taken from the task's declaration exactly where the
   sources pass it on, a new version created (and recorded, with the output and the serialised arguments) exactly for
   experiments. *)
Theorem C02_lowering_is_the_sources : forall k, exists cls par ver rec ser,
  lowering_row k = Some (kind_code k, (cls, par, ver, rec, ser)) /\
  is_sync k = negb (N.eqb cls 0) /\
  (forall tp : bool, (match k with KCommand | KExperiment => tp | _ => false end) = par && tp) /\
  ver = (match k with KExperiment => true | _ => false end) /\ rec = ver /\ ser = ver.
Proof. exact lowering_tie. Qed.
Print Assumptions C02_lowering_is_the_sources.

(* ... stated about the model's planner step itself: at the second visit of a task, pstep appends ONE operation for it whose
   attributes are those of the translated row of the task's kind, and records a create_new_version call exactly when the row
   says so *)
Theorem C02_second_visit_is_the_sources : forall info sr again s i stk s',
  stack s = i :: stk ->
  lt_second (nth i (store s) dummy_lt) = true ->
  pstep info sr again s = Some s' ->
  let t := lt_task (nth i (store s) dummy_lt) in
  let k := t_kind (info t) in
  exists cls par ver rec ser oi,
    lowering_row k = Some (kind_code k, (cls, par, ver, rec, ser)) /\
    ops s' = ops s ++ [oi] /\ op_task oi = t /\
    op_par oi = par && t_par (info t) /\
    op_sync oi = negb (N.eqb cls 0) /\
    nv_calls s' = (if ver then nv_calls s ++ [t] else nv_calls s).
Proof. exact lowering_tie_pstep. Qed.
Print Assumptions C02_second_visit_is_the_sources.

(* ... and how the closure is walked (the dependency loop of the FIRST visit, TRANSLATED from planner.py on every run): the
   dependencies are taken in reversed declaration order (the model's pstep hands `rev (t_deps ...)` to push_deps; the
   translator refuses any other iteration); a dependency that was already visited is LINKED to the visited lowering and not
   traversed again, any other becomes a new lowering task that is linked and pushed -- so every needed task is lowered once
   (C02_plan_exact) and every declared dependency becomes an edge (C01_task_edges). *)
Theorem C02_closure_walk_is_the_sources :
  gen_first_visit_shares_a_visited_lowering = true /\
  forall d ds vis st stk deps,
  push_deps (d :: ds) vis st stk deps =
  match gen_push_dep (match lookup d vis with Some _ => true | None => false end), lookup d vis with
  | 0%N, Some v => push_deps ds vis st stk (deps ++ [v])
  | _, _ =>
    let j := length st in
    push_deps ds vis (st ++ [{| lt_task := d; lt_second := false; lt_deps := []; lt_out := Own [] |}]) (j :: stk) (deps ++ [j])
  end.
Proof. split; [reflexivity|exact push_deps_step_tie]. Qed.
Print Assumptions C02_closure_walk_is_the_sources.

(* ... used by the model where the source uses it: on the first visit of a task the planner step
   records it as cached and pops it without pushing its dependencies exactly when the translated
   condition holds of (--again, should_run t) *)
Theorem C02_prune_rule_drives_the_planner : forall info sr again s i stk,
  stack s = i :: stk ->
  let t := lt_task (nth i (store s) dummy_lt) in
  lt_second (nth i (store s) dummy_lt) = false -> Planner.lookup t (visited s) = None ->
  match pstep info sr again s with
  | Some s' => if gen_prune again (sr t) then cached s' = cached s ++ [t] /\ stack s' = stk
               else cached s' = cached s
  | None => False
  end.
Proof. exact prune_tie_pstep. Qed.
Print Assumptions C02_prune_rule_drives_the_planner.

Example C02_nonvacuous :
  match plan_for ex_info (fun _ => true) false 50 0 with
  | Some ps => map op_task (ops ps) = [2; 1; 0] /\ map op_exe_deps (ops ps) = [[]; [0]; [0; 1]] /\ cached ps = []
  | None => False
  end.
Proof. vm_compute. repeat split. Qed.
