(* C06 -- only successful runs become versions; the index never outlives its data.
   Only theorem statements (see Props/C08.v for the model).  [Inv s]: every committed row's
   directory exists and is [good]: complete (no copy in progress), owned by an execution whose
   task process is gone with exit status 0, written by that execution only, planned under the
   HEAD (commit, dirty flag) the row carries, with args.json / options.json whenever the task has
   arguments / options.  [stop s] is the state after the cond process died (or exited): the open
   transaction is lost, nothing else.  Assumed, not proved: sqlite commits atomically and a killed
   process loses exactly its open transaction; archives given to restore satisfy [archive_ok]
   (C06_archive_ok: those made by `cond archive` do); gc does not delete a directory whose task
   process is still running; one cond process per project at a time.  `cond clean` is NOT atomic in
   the model: the index file goes first (LCleanIndex), then the directories one by one in any order
   (LCleanDir k), each step possibly followed by a kill. *)
From Coq Require Import List NArith Bool.
From Conductor Require Import Lib.Str Model.Store Proofs.StoreSpec Proofs.StoreProofs Proofs.StoreInv
  Proofs.StoreSteps Proofs.StoreThms Refuted.CleanOld.
From Conductor Require Import Gen.Generated.
Import ListNotations.
Open Scope N_scope.

(* After ANY sequence ls1 of steps of any commands, task processes and kills, under any clock:
   the invariant holds, it holds if the cond process is killed right there, and it keeps holding
   along any continuation ls2 (new commands, surviving task processes, further crashes).  Every
   prefix of a history is a history, so this is "at every instant, after every step". *)
Theorem C06_inv_all_histories : forall clock ls1 ls2,
  Forall label_ok ls1 -> Forall label_ok ls2 ->
  Inv (run clock ls1 init) /\
  Inv (stop (run clock ls1 init)) /\
  Inv (run clock ls2 (stop (run clock ls1 init))).
Proof. exact inv_all_histories. Qed.
Print Assumptions C06_inv_all_histories.

(* A row enters the index (its open transaction) in exactly two ways: `cond run` inserts it for an
   execution whose task process has exited with status 0, with the HEAD of this invocation; or
   `cond restore` takes it from the archive. *)
Theorem C06_only_success : forall clock s l r,
  reachable clock s -> In r (all_rows (apply clock l s)) -> ~ In r (all_rows s) ->
  match s_proc s with
  | Some (PRun _ hd _ _) =>
    r_head r = hd /\
    exists c, In c (s_kids s) /\ k_key c = row_key r /\ k_live c = false /\ k_rc c = 0
  | Some (PRestore a _ _) => In r (map fst a)
  | _ => False
  end.
Proof. exact only_success_reach. Qed.
Print Assumptions C06_only_success.

(* committed rows come from that transaction only *)
Theorem C06_committed_from_txn : forall clock l s r,
  In r (s_rows (apply clock l s)) -> In r (all_rows s).
Proof. exact committed_from_txn. Qed.
Print Assumptions C06_committed_from_txn.

(* what `cond archive` packs in a reachable state is an acceptable input of `cond restore` *)
Theorem C06_archive_ok : forall clock sel s, reachable clock s -> archive_ok (archive_of sel s).
Proof. exact archive_of_ok. Qed.
Print Assumptions C06_archive_ok.

(* The order matters (defect D22, repaired in /repo by e97eb39): with the single rmtree of the old
   `cond clean`, which may meet a version directory before the index file, a kill in between leaves a
   recorded row without its directory -- the invariant fails. *)
Theorem C06_clean_refuted_old :
  let s := stop (do_clean_dir_old (row_key the_row) (apply clock0 (LBegin CClean) recorded)) in
  In the_row (s_rows s) /\ lookup (row_key the_row) (s_dirs s) = None /\ ~ Inv s.
Proof. exact Refuted.CleanOld.C06_clean_refuted_old. Qed.
Print Assumptions C06_clean_refuted_old.

(* Tie to the sources, re-checked on every run: the order of `cond clean` in the model -- the version index is unlinked FIRST,
   then the version directories go one by one, then the rest -- is the order of cli/clean.py of the working tree as TRANSLATED
   (gen_clean_removals = [unlink(index); rmtree(cond-out)], the command stopping with status 1 and nothing removed when the index
   cannot be unlinked), and the command proceeds exactly when --force is given or `y` was typed (never at end of input). *)
Definition clean_step_code (l : label) : list N :=
  match l with LCleanIndex => [1] | LCleanDir _ => [2] | LCleanAll => [2] | _ => [] end.
Fixpoint dedup_adjacent (l : list N) : list N :=
  match l with
  | a :: (b :: _) as t => if a =? b then dedup_adjacent t else a :: dedup_adjacent t
  | _ => l
  end.
Theorem C06_clean_order_is_the_sources : forall s,
  dedup_adjacent (flat_map clean_step_code (command_labels s KClean)) = gen_clean_removals /\
  gen_clean_stops_when_the_index_cannot_be_removed = true /\
  (forall force eof typed_y, gen_clean_proceeds force eof typed_y = force || (negb eof && typed_y)).
Proof.
  intro s. split; [|split; [reflexivity|intros [] [] []; reflexivity]].
  unfold command_labels. cbn [app flat_map clean_step_code]. rewrite flat_map_app.
  assert (E : forall l : fs, dedup_adjacent ([1] ++ flat_map clean_step_code (map (fun kd => LCleanDir (fst kd)) l) ++ [2]) = [1; 2]).
  { intro l. cbn [app]. induction l as [|kd l IH]; [reflexivity|]. cbn [map flat_map clean_step_code app] in *.
    destruct (flat_map clean_step_code (map (fun kd0 => LCleanDir (fst kd0)) l) ++ [2]) as [|x r] eqn:El; [destruct l; discriminate El|].
    assert (Hx : x = 2). { destruct l as [|kd' l']; cbn in El; injection El as <- _; reflexivity. }
    subst x. cbn [dedup_adjacent] in IH |- *. exact IH. }
  cbn [flat_map clean_step_code app]. exact (E (s_dirs s)).
Qed.
Print Assumptions C06_clean_order_is_the_sources.

(* non-vacuity: a history with a failed, a killed and a successful execution, cut by a crash
   between insert and commit, then completed by a second invocation *)
Definition ex_specs : list spec :=
  [mk_spec 1 (true, true) true [CStart; CDone] 0 None;
   mk_spec 2 (false, false) true [CStart] 3 None;
   mk_spec 3 (false, true) true [CStart] 0 (Some 9)].
Definition ex_run1 : list label := run_labels 0 (Some [97], true) ex_specs.
Example C06_nonvacuous :
  let clock := fun n => 1000 + N.of_nat n in
  (* killed between insert_output_version and commit_changes of experiment 1: nothing recorded *)
  s_rows (stop (run clock (firstn 14 ex_run1) init)) = [] /\
  nth_error ex_run1 13 = Some (LInsert 0) /\
  (* the complete invocation records exactly experiment 1, with this invocation's HEAD *)
  s_rows (run clock ex_run1 init) = [mk_row 1 1000 (Some [97], true)] /\
  map fst (s_dirs (run clock ex_run1 init)) = [(3, 1002); (2, 1001); (1, 1000)] /\
  Forall label_ok ex_run1.
Proof.
  repeat split; try (vm_compute; reflexivity). repeat constructor.
Qed.
