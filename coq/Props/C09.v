(* C09 -- Runs always terminate with every planned task accounted for (scheduler bookkeeping).
   For EVERY well-formed plan, EVERY oracle (which in-flight process exits next, with which code,
   which launches fail), every jobs >= 1 and both settings of --stop-early. *)
From Coq Require Import List Arith Bool NArith.
From Conductor Require Import Model.Loader Model.Planner Model.Exec Model.RunCase
  Proofs.ExecInv Proofs.ExecTheorems Proofs.ExecMain Proofs.LoaderProofs Proofs.Compose
  Model.Reaper Proofs.ReaperProofs.
From Conductor Require Import Gen.Generated Proofs.GenTie Proofs.ExecNested.
From Conductor Require Import Proofs.WfPlanDec Model.Inflight Proofs.InflightProofs.
Import ListNotations.

(* progress: every iteration of the main loop launches, skips or completes an operation, so the
   loop ends within 2*|ops| iterations whatever the oracle does *)
Theorem C09_progress :
  forall p jobs stop orc, wf_plan p -> 1 <= jobs ->
  exists s, xiter p jobs stop orc (2 * length (p_ops p) + 1) (xinit p jobs) = Some s.
Proof. exact main_terminates. Qed.
Print Assumptions C09_progress.

(* no deadlock + accounting: when the loop ends (not through --stop-early) nothing is ready or in
   flight, _completed_ops is a duplicate-free enumeration of ALL operations and each has exactly
   one of the outcomes succeeded / failed / skipped *)
Theorem C09_no_deadlock_accounting :
  forall p jobs stop orc, wf_plan p -> 1 <= jobs ->
  forall s, final_state p jobs stop orc s -> stopped s = false ->
    (forall o, o < length (p_ops p) -> In o (completed s)) /\ NoDup (completed s) /\
    (forall o, o < length (p_ops p) -> ost s o = SUCCEEDED \/ ost s o = FAILED \/ ost s o = SKIPPED) /\
    infl s = [].
Proof. exact main_all_completed. Qed.
Print Assumptions C09_no_deadlock_accounting.

(* at every state of the loop (so also after a --stop-early exit) the completed operations are
   pairwise distinct operations of the plan, each with an outcome *)
Theorem C09_accounting_any_time :
  forall p jobs stop orc, wf_plan p -> 1 <= jobs ->
  forall s, reachable p jobs stop orc s ->
    NoDup (completed s) /\ forall o, In o (completed s) -> o < length (p_ops p) /\ ost s o <> QUEUED.
Proof. exact main_completed_subset. Qed.
Print Assumptions C09_accounting_any_time.

(* a completion is attributed to an operation that was started and had not finished: the
   in-flight set is exactly the started-and-unfinished operations, and an operation is started
   at most once *)
Theorem C09_no_misattribution :
  forall p jobs stop orc, wf_plan p -> 1 <= jobs ->
  forall s, reachable p jobs stop orc s ->
    (forall o, In o (infl s) <-> (exists sl, In (EStart o sl) (trace s)) /\ forall rc, ~ In (EFinish o rc) (trace s)) /\
    (forall x sl post pre, trace s = post ++ EStart x sl :: pre ->
       (forall sl', ~ In (EStart x sl') pre) /\ (forall sl', ~ In (EStart x sl') post)).
Proof.
  intros p jobs stop orc wf Hj s Hr. split.
  - exact (proj1 (proj2 (proj2 (proj2 (proj2 (proj2 (main_limits p jobs stop orc wf Hj s Hr))))))).
  - intros x sl post pre E. exact (main_started_once p jobs stop orc wf Hj s x sl post pre Hr E).
Qed.
Print Assumptions C09_no_misattribution.

Definition ex_plan : plan :=
  {| p_ops := [ {| op_task := 1; op_exe_deps := []; op_par := true; op_sync := false |};
                {| op_task := 2; op_exe_deps := []; op_par := true; op_sync := false |};
                {| op_task := 0; op_exe_deps := [0; 1]; op_par := false; op_sync := true |} ];
     p_initial := [0; 1]; p_cached := []; p_num := 3 |}.
Definition ex_orc : oracle := {| launch_fails := fun _ => false; rc_of := fun _ => 0%N; pick := fun _ => 1 |}.
(* The whole pipeline, end to end: on a finite project (V: any duplicate-free set of task
   identifiers containing the root and closed under declared dependencies) the loader's traversal,
   the planner's lowering loop and the executor's main loop ALL end by themselves within
   [run_fuel tasks V] iterations, for every oracle: `cond run` ends with a load error naming a
   defect or with a complete run and its report -- never by running out of steps. *)
Theorem C09_pipeline_terminates :
  forall tasks c V fuel,
  finite_project (graph_of tasks) (c_root c) V -> 1 <= c_jobs c -> run_fuel tasks V <= fuel ->
  (exists r, cond_run fuel tasks c = OLoadError r /\ r <> OutOfFuel /\ forall v, r <> Ok v) \/
  (exists loaded ps evs, cond_run fuel tasks c = ORun loaded ps (Some evs)).
Proof. exact cond_run_terminates. Qed.
Print Assumptions C09_pipeline_terminates.

(* ---- the child-reaping protocol (utils/sigchld.py; Model/Reaper.v), for EVERY interleaving of child
   exits (several per signal included), signal deliveries, handler runs and steps of wait() ---- *)

(* no lost wake-up: in every reachable state in which the main thread sleeps in read() and nothing
   but a further exit can happen, there is no unreaped child and no unconsumed return code *)
Theorem C09_no_lost_wakeup :
  forall tr s, rrun false rinit tr = Some s -> blocked s = true -> zombies s = [] /\ rcs s = [].
Proof. intros tr s H. apply no_lost_wakeup. exact (rrun_inv tr rinit s rinv_init H). Qed.
Print Assumptions C09_no_lost_wakeup.

(* no completion is lost, duplicated or attributed to the wrong process: the exits that happened are,
   as a multiset of (pid, status), exactly what wait() has returned plus what is recorded plus what
   is still unreaped *)
Theorem C09_exits_accounted :
  forall tr s, rrun false rinit tr = Some s ->
  Permutation.Permutation (exits_of tr) (returned s ++ rcs s ++ zombies s).
Proof. exact exits_accounted. Qed.
Print Assumptions C09_exits_accounted.

(* wait() terminates once something has exited: from every reachable state with an unreaped child or
   an unconsumed return code, on every continuation without further exits some step is possible and
   every possible step leads towards the return of wait() *)
Theorem C09_wait_inevitably_returns :
  forall tr s, rrun false rinit tr = Some s -> waiting s -> Inev s.
Proof. intros tr s H Hw. apply wait_inevitably_returns; [exact (rrun_inv tr rinit s rinv_init H) | exact Hw]. Qed.
Print Assumptions C09_wait_inevitably_returns.

(* Executor over reaper.  Model/Exec.v lets an arbitrary oracle decide which in-flight process exits
   next and with which status ([pick], [rc_of]) and proves every scheduler theorem for ALL oracles.
   The protocol delivers nothing outside that quantification: along any run in which every child
   exits once, the values wait() has returned are pairwise distinct children, each one a child that
   did exit, with the status it exited with -- i.e. some completion order with the true statuses,
   one of the oracles. *)
Theorem C09_wait_results_are_an_admissible_oracle :
  forall tr s, rrun false rinit tr = Some s -> NoDup (map fst (exits_of tr)) ->
  NoDup (map fst (returned s)) /\
  (forall p rc, In (p, rc) (returned s) -> In (p, rc) (exits_of tr)) /\
  (forall p rc rc', In (p, rc) (returned s) -> In (p, rc') (exits_of tr) -> rc = rc').
Proof. exact wait_results_admissible. Qed.
Print Assumptions C09_wait_results_are_an_admissible_oracle.

(* The executor's layer on top (Model/Inflight.v: _InflightOperations, the table keyed by pid and wait_for_next_op's loop
   over SigchldHelper.wait()).  One call: the operation handed back is the one registered under the pid of the value that ended
   the call, with that value's status; everything consumed before it named an unregistered process (an unrelated child);
   exactly that entry leaves the table. *)
Theorem C09_next_op_attribution : forall t w o rc t' w',
  next_op t w = Some (o, rc, t', w') ->
  exists pid skipped,
    w = skipped ++ (pid, rc) :: w' /\ In (pid, o) t /\ t' = tbl_remove pid t /\
    (forall q r, In (q, r) skipped -> ~ In q (map fst t)).
Proof. exact next_op_attribution. Qed.
Print Assumptions C09_next_op_attribution.

(* the call keeps waiting exactly as long as no value names a registered process *)
Theorem C09_next_op_waits_iff : forall t w,
  next_op t w = None <-> forall q r, In (q, r) w -> ~ In q (map fst t).
Proof. exact next_op_waits_iff. Qed.
Print Assumptions C09_next_op_waits_iff.

(* All calls, over the protocol: along ANY run of the reaper in which every child exits once (see F4 below), for any table
   with one entry per pid and per operation -- every completion the executor obtains is an operation registered under the pid
   of a child that DID exit, with the status that very child exited with (no completion is attributed to the wrong task);
   every returned value of a registered child yields the completion of its operation (none is lost); and no operation is
   completed twice.  Unrelated children complete nothing. *)
Theorem C09_completions_over_the_reaper : forall tr s t,
  rrun false rinit tr = Some s -> NoDup (map fst (exits_of tr)) -> NoDup (map fst t) -> NoDup (map snd t) ->
  (forall o rc, In (o, rc) (completions t (returned s)) ->
     exists pid, In (pid, o) t /\ In (pid, rc) (exits_of tr) /\ forall rc', In (pid, rc') (exits_of tr) -> rc' = rc) /\
  (forall pid o rc, In (pid, o) t -> In (pid, rc) (returned s) -> In (o, rc) (completions t (returned s))) /\
  NoDup (map fst (completions t (returned s))).
Proof. exact completions_over_reaper. Qed.
Print Assumptions C09_completions_over_the_reaper.

Example C09_inflight_nonvacuous :
  completions [(51, 1); (52, 2)] [(50, 0); (52, 3); (60, 9); (51, 0)] = [(2, 3); (1, 0)] /\
  next_op [(51, 1)] [(50, 0); (60, 9)] = None.
Proof. vm_compute. split; reflexivity. Qed.

(* the hypothesis "every child exits once" (pairwise distinct pids) is needed.  The kernel may hand the pid of a
   reaped child to a new one while the first exit is still queued; the values returned by wait() then
   name one pid twice, and the executor, which keys its in-flight table by pid, charges the queued
   exit to the newly started operation (known finding F4, shown on the real code by the check). *)
Theorem C09_admissible_oracle_needs_distinct_pids_refuted :
  exists tr s, rrun false rinit tr = Some s /\ ~ NoDup (map fst (returned s)).
Proof.
  exists [EvExit 1 0; EvDeliver; EvHandler; EvCall; EvTest; EvExit 1 3; EvDeliver; EvHandler; EvCall; EvTest]. eexists.
  split; [vm_compute; reflexivity|]. cbn. intros H. inversion H as [|x l Hin _]; subst. apply Hin. left. reflexivity.
Qed.
Print Assumptions C09_admissible_oracle_needs_distinct_pids_refuted.

(* the protocol before /repo 2ba821d (the Python-level handler is the only writer of the pipe) loses
   a wake-up: D17, found as real hangs, kept as a machine-checked record *)
Theorem C09_old_protocol_refuted :
  exists tr s, rrun true rinit tr = Some s /\ blocked s = true /\ zombies s <> [].
Proof. exact old_protocol_refuted. Qed.
Print Assumptions C09_old_protocol_refuted.

Example C09_reaper_nonvacuous :
  exists s, rrun false rinit [EvCall; EvTest; EvExit 7 0; EvExit 8 3; EvDeliver; EvRead; EvHandler; EvTest] = Some s /\
            returned s = [(8, 3)] /\ rcs s = [(7, 0)] /\ waiting s.
Proof. eexists. split; [vm_compute; reflexivity|]. split; [reflexivity|]. split; [reflexivity|]. right. discriminate. Qed.

(* Tie to the source, re-checked on every run: the launch conditions of the model are the ones
   TRANSLATED from Executor._launch_ops_if_able in the working tree (Gen/Generated.v gen_gate_open) *)
Theorem C09_gate_is_the_sources : forall jobs s,
  gate_open jobs s = gen_gate_open (has_ops s) (has_par s) (runpar s) (inflight s) jobs.
Proof. exact gate_tie. Qed.
Print Assumptions C09_gate_is_the_sources.

(* ... and so are the main loop's condition and the test that skips the wait (Executor.run_plan), at the
   points where the flattened model evaluates them: with the launch gate closed *)
Theorem C09_main_loop_is_the_sources : forall jobs s, gate_open jobs s = false ->
  gen_loop_goes_on (has_ops s) (inflight s) = negb (Nat.eqb (inflight s) 0) /\
  gen_skip_wait (inflight s) = Nat.eqb (inflight s) 0.
Proof. exact loop_tie. Qed.
Print Assumptions C09_main_loop_is_the_sources.

(* The model runs ONE flat loop; Executor.run_plan is two nested loops with break / continue / an early
   return.  [Run] (Proofs/ExecNested.v) is the big-step semantics of that nested text, one
   constructor per way through the loop bodies; from every state in which the loop has not been
   left, the nested loops end in s' exactly when the flat loop does -- so every theorem about
   [final_state] / [run_plan] is a theorem about the nested loops.  In particular the busy
   `continue` (nothing in flight, gate closed) cannot spin. *)
Theorem C09_nested_loops_are_the_flat_loop : forall p jobs stop orc s s',
  stopped s = false -> (Run p jobs stop orc s s' <-> exists k, xiter p jobs stop orc k s = Some s').
Proof. exact nested_is_flat. Qed.
Print Assumptions C09_nested_loops_are_the_flat_loop.

(* ... and the three tests of the nested loops are the ones TRANSLATED from the working tree *)
Theorem C09_nested_tests_are_the_sources : forall jobs s,
  loop_cond s = gen_loop_goes_on (has_ops s) (inflight s) /\
  gate_open jobs s = gen_gate_open (has_ops s) (has_par s) (runpar s) (inflight s) jobs /\
  Nat.eqb (inflight s) 0 = gen_skip_wait (inflight s).
Proof. exact nested_tie. Qed.
Print Assumptions C09_nested_tests_are_the_sources.

Example C09_nonvacuous :
  run_plan ex_plan 2 false ex_orc 7 0 =
  Some [EStart 0 (Some 0); EStart 1 (Some 1); EFinish 1 0; EFinish 0 0; EStart 2 None; EFinish 2 0; EKill []; EDone].
Proof. vm_compute. reflexivity. Qed.

(* the example plan meets the hypothesis of the theorems above *)
Example C09_example_plan_is_wf : wf_plan ex_plan.
Proof. apply wf_planb_spec. vm_compute. reflexivity. Qed.
