(* C14 -- Dependency graphs are validated soundly before anything runs.
   About Model/Loader.v (TaskIndex.load_transitive_closure): for EVERY project (a function from
   task to Undefined | Bad | Good deps), every root T and every listing order of every
   dependency list.  [Reach g T x]: x is reachable from T along dependency edges;
   [Path g x x]: x lies on a cycle. *)
From Coq Require Import List Arith Bool Permutation.
From Conductor Require Import Model.Loader Model.Planner Model.Exec Model.RunCase Proofs.LoaderProofs Proofs.ValidateProofs Proofs.LoaderKinds.
Import ListNotations.

(* every outcome is justified: a cycle error => a cycle is reachable; task-not-found for x => x is
   reachable and undefined; a definition error for x => x is reachable and malformed; a
   duplicate-dependency error for x => x is reachable and lists a task twice; success => the root
   is loaded, and everything loaded is reachable and forms a closed acyclic set *)
Theorem C14_sound : forall g T fuel, sound_result g T (load_closure g fuel T).
Proof. exact load_closure_sound. Qed.
Print Assumptions C14_sound.

(* success means: exactly the reachable tasks are loaded, each is well formed with a
   duplicate-free dependency list, and no cycle is reachable *)
Theorem C14_ok_clean : forall g T fuel v,
  load_closure g fuel T = Ok v ->
  (forall x, Reach g T x <-> In x v) /\
  (forall x, Reach g T x -> exists ds, g x = Good ds /\ NoDup ds) /\
  (forall x, Reach g T x -> ~ Path g x x).
Proof. exact ok_means_clean. Qed.
Print Assumptions C14_ok_clean.

(* termination: on a finite project (V closed under dependencies) the traversal -- including the
   re-expansion of stale stack entries -- ends within 3 + sum over V of (2*outdegree + 2) steps *)
Theorem C14_term : forall g T V,
  NoDup V -> In T V -> (forall x ds, In x V -> g x = Good ds -> forall d, In d ds -> In d V) ->
  load_closure g (fuel_bound g V) T <> OutOfFuel.
Proof. exact load_closure_terminates. Qed.
Print Assumptions C14_term.

(* accepted if and only if no defect (cycle, undefined, malformed, duplicate) is reachable;
   hence every acyclic complete graph is accepted however its shared dependencies are listed *)
Theorem C14_accept_iff : forall g T V,
  finite_project g T V ->
  ((exists v, load_closure g (fuel_bound g V) T = Ok v) <-> ~ Defect g T).
Proof. exact accept_iff. Qed.
Print Assumptions C14_accept_iff.

(* "reports a cyclic-dependency error iff ..., a task-not-found error iff ..., a duplicate-dependency error iff ...": several
   kinds of defect can be reachable at once and only the first one met is reported, so the per-kind equivalence holds in this
   form -- whenever any defect is reachable an error is reported and the reported error is real, ... *)
Theorem C14_some_real_error_reported : forall g T V,
  finite_project g T V -> Defect g T ->
  let r := load_closure g (fuel_bound g V) T in
  (r = ErrCycle /\ DCycle g T) \/ (exists x, r = ErrNotFound x /\ Reach g T x /\ g x = Undefined) \/
  (exists x, r = ErrBad x /\ Reach g T x /\ g x = Bad) \/
  (exists x, r = ErrDup x /\ Reach g T x /\ exists ds, g x = Good ds /\ has_dup ds = true).
Proof. exact some_real_error_reported. Qed.
Print Assumptions C14_some_real_error_reported.

(* ... and per kind: the error of a kind is reported ONLY IF a defect of that kind is reachable (no side condition), and IF
   defects of that kind are the only ones reachable *)
Theorem C14_error_kinds : forall g T V,
  finite_project g T V ->
  let r := load_closure g (fuel_bound g V) T in
  (r = ErrCycle -> DCycle g T) /\ ((exists x, r = ErrNotFound x) -> DUndef g T) /\ ((exists x, r = ErrDup x) -> DDup g T) /\
  ((exists x, r = ErrBad x) -> DBad g T) /\
  (DCycle g T -> ~ DUndef g T -> ~ DBad g T -> ~ DDup g T -> r = ErrCycle) /\
  (DUndef g T -> ~ DCycle g T -> ~ DBad g T -> ~ DDup g T -> exists x, r = ErrNotFound x) /\
  (DDup g T -> ~ DCycle g T -> ~ DUndef g T -> ~ DBad g T -> exists x, r = ErrDup x).
Proof. exact error_kinds. Qed.
Print Assumptions C14_error_kinds.

(* two kinds at once: which one is reported depends on the listing order, so no stronger per-kind statement holds *)
Example C14_two_kinds_first_met_wins :
  load_closure (fun x => match x with 0 => Good [2; 1] | 1 => Good [0] | _ => Undefined end) 50 0 = ErrCycle /\
  load_closure (fun x => match x with 0 => Good [1; 2] | 1 => Good [0] | _ => Undefined end) 50 0 = ErrNotFound 2.
Proof. vm_compute. auto. Qed.

(* acceptance does not depend on the order in which any task lists its dependencies *)
Theorem C14_order_independent : forall g g' T V,
  same_up_to_order g g' -> finite_project g T V ->
  ((exists v, load_closure g (fuel_bound g V) T = Ok v) <-> (exists v, load_closure g' (fuel_bound g' V) T = Ok v)).
Proof. exact order_independent. Qed.
Print Assumptions C14_order_independent.

(* on any loading error nothing is planned or executed: the composed model stops there *)
Theorem C14_no_exec : forall fuel tasks c,
  (forall v, load_closure (graph_of tasks) fuel (c_root c) <> Ok v) ->
  cond_run fuel tasks c = OLoadError (load_closure (graph_of tasks) fuel (c_root c)).
Proof.
  intros fuel tasks c H. unfold cond_run. destruct (load_closure (graph_of tasks) fuel (c_root c)) eqn:E; try reflexivity.
  exfalso. eapply H. reflexivity.
Qed.
Print Assumptions C14_no_exec.

(* Whole-project validation (TaskIndex.validate_all_loaded_tasks, used by the explorer), for EVERY
   project g and EVERY order [keys] of the loaded tasks: every outcome is justified -- a cycle
   error => a cycle is reachable from a loaded task; task-not-found for x => x is reachable from a
   loaded task and is not loaded; success => every loaded task's dependencies are loaded, no
   loaded task lies on a cycle, and the reported roots are EXACTLY the loaded tasks that no loaded
   task depends on, each once. *)
Theorem C14_validate_all_sound : forall g keys fuel, vsound g keys (validate_all g fuel keys).
Proof. exact validate_all_sound. Qed.
Print Assumptions C14_validate_all_sound.

(* ... and with [vfuel g keys] steps it always decides: it accepts iff the project has no defect
   (no cycle and no dangling dependency reachable from a loaded task), whatever the order *)
Theorem C14_validate_all_decides : forall g keys fuel, vfuel g keys <= fuel ->
  ((exists roots, validate_all g fuel keys = VOk roots) <-> ~ VDefect g keys) /\
  (forall roots, validate_all g fuel keys = VOk roots ->
     (forall t, In t roots <-> In t keys /\ forall x, In x keys -> ~ In t (deps_of_kind (g x))) /\ NoDup roots).
Proof. exact validate_all_decides. Qed.
Print Assumptions C14_validate_all_decides.

(* non-vacuity: a diamond listed in both orders is accepted; adding a back edge is a cycle error *)
Definition gd (order : bool) : graph := fun x =>
  match x with
  | 0 => Good (if order then [1; 2] else [2; 1])
  | 1 => Good [2]
  | 2 => Good []
  | _ => Undefined
  end.
Example C14_nonvacuous :
  load_closure (gd true) 50 0 = Ok [0; 1; 2] /\ load_closure (gd false) 50 0 = Ok [0; 1; 2] /\
  finite_project (gd true) 0 [0; 1; 2] /\
  load_closure (fun x => match x with 2 => Good [0] | _ => gd true x end) 50 0 = ErrCycle.
Proof.
  split; [vm_compute; reflexivity|]. split; [vm_compute; reflexivity|]. split; [|vm_compute; reflexivity].
  split; [repeat constructor; simpl; intuition discriminate|]. split; [simpl; auto|].
  intros x ds Hx Hg d Hd. simpl in Hx. destruct Hx as [<-|[<-|[<-|[]]]]; simpl in Hg; inversion Hg; subst; simpl in *; intuition.
Qed.

Example C14_validate_nonvacuous :
  validate_all (gd true) 50 [2; 0; 1] = VOk [0] /\ validate_all (gd true) 50 [0; 1] = VNotFound 2 /\
  validate_all (fun x => match x with 2 => Good [0] | _ => gd true x end) 50 [1; 0; 2] = VCycle.
Proof. vm_compute. auto. Qed.

