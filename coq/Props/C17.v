(* C17 -- commands behave the same from any directory inside the project (PARTIAL).
   Only theorem statements, each closed by [exact] of a lemma of Proofs/, with the axioms it
   depends on printed beneath.  Model: Model/Cwd.v over Lib/Path.v.

   What is proved: the two places where the working directory enters the code -- root discovery
   (Context.from_cwd) and the rendering of printed paths (gc, archive, where).  What is NOT
   proved and stays differential testing of the implementation against itself (harness/c17.py):

     (full statement) for every subcommand c, flags, project state S and directories d1, d2 under
     the root:  exit(c, S, d1) = exit(c, S, d2),  cond-out(c, S, d1) = cond-out(c, S, d2)  and the
     printed locations of c from d1 and from d2 denote the same absolute paths.

   The pre-fix rendering of `cond gc -n/-v` is refuted in Refuted/CwdOld.v (C17_gc_refuted). *)
From Coq Require Import List NArith Bool.
From Conductor Require Import Lib.Str Lib.Cmp Lib.Path Gen.Generated Model.Cwd
  Proofs.PathProofs Proofs.CwdProofs Refuted.CwdOld.
From Conductor Require Model.ArchiveOut Proofs.ArchiveOutCwd.
From Conductor Require Import Proofs.GenTieWhere.
Import ListNotations.
Local Open Scope N_scope.

(* if R has the config file and no directory from cwd up to but excluding R has one, the root
   found from cwd is R *)
Theorem C17_root : forall has_cfg R rest,
  has_cfg R = true ->
  (forall k, (0 < k <= length rest)%nat -> has_cfg (R ++ firstn k rest) = false) ->
  find_root has_cfg (R ++ rest) = Some R.
Proof. exact find_root_nearest. Qed.
Print Assumptions C17_root.

(* hence the same root from any two such directories *)
Theorem C17_root_same : forall has_cfg R rest1 rest2,
  has_cfg R = true ->
  (forall k, (0 < k <= length rest1)%nat -> has_cfg (R ++ firstn k rest1) = false) ->
  (forall k, (0 < k <= length rest2)%nat -> has_cfg (R ++ firstn k rest2) = false) ->
  find_root has_cfg (R ++ rest1) = find_root has_cfg (R ++ rest2).
Proof. exact find_root_same. Qed.
Print Assumptions C17_root_same.

(* conversely the root that is found is the nearest ancestor-or-self with the config file *)
Theorem C17_root_sound : forall has_cfg cwd R,
  find_root has_cfg cwd = Some R ->
  exists rest, cwd = R ++ rest /\ has_cfg R = true /\
    forall k, (0 < k <= length rest)%nat -> has_cfg (R ++ firstn k rest) = false.
Proof. exact find_root_sound. Qed.
Print Assumptions C17_root_sound.

(* and "no project root" is reported exactly when no ancestor-or-self has the file *)
Theorem C17_root_none : forall has_cfg cwd,
  find_root has_cfg cwd = None <-> forall k, has_cfg (firstn k cwd) = false.
Proof. exact find_root_none. Qed.
Print Assumptions C17_root_none.

(* every path printed relative to the working directory is defined for every working directory
   (the model functions are total) and denotes, read from that directory, the absolute path it
   stands for: gc's "Would delete"/"Deleting" lines ... *)
Theorem C17_render_gc : forall cwd p,
  clean cwd = true -> clean p = true -> denote cwd (gc_render cwd p) = p.
Proof. exact gc_render_denotes. Qed.
Print Assumptions C17_render_gc.

(* ... archive's "Archive saved as" line, for the default location and for absolute -o paths
   (relative when cwd is an ancestor, absolute otherwise) and for -o paths given relative to the
   working directory (printed as given) ... *)
Theorem C17_render_archive : forall cwd p r,
  (clean p = true -> denote cwd (archive_render cwd (UAbs p)) = p) /\
  denote cwd (archive_render cwd (URel r)) = locate cwd (URel r).
Proof. intros cwd p r. split; [exact (archive_render_abs_denotes cwd p) | exact (archive_render_rel_denotes cwd r)]. Qed.
Print Assumptions C17_render_archive.

(* ... and `where`, which does not depend on the working directory at all: absolute, or with
   -p relative to the project root (defined because output paths lie under the root) *)
Theorem C17_render_where : forall root rest,
  clean (root ++ rest) = true ->
  where_render root (root ++ rest) false = Some (ShAbs (root ++ rest)) /\
  exists r, where_render root (root ++ rest) true = Some (ShRel r) /\
            denote root (ShRel r) = root ++ rest.
Proof. intros root rest H. split; [reflexivity | exact (where_render_rel root rest H)]. Qed.
Print Assumptions C17_render_where.

(* so from any two working directories the printed paths denote the same location *)
Theorem C17_render_total : forall cwd1 cwd2 p,
  clean cwd1 = true -> clean cwd2 = true -> clean p = true ->
  denote cwd1 (gc_render cwd1 p) = denote cwd2 (gc_render cwd2 p) /\
  denote cwd1 (archive_render cwd1 (UAbs p)) = denote cwd2 (archive_render cwd2 (UAbs p)).
Proof. exact render_total. Qed.
Print Assumptions C17_render_total.

(* the repair of D4 did not change what is printed where the old code worked *)
Theorem C17_gc_fix_conservative : forall cwd p r,
  gc_render_old cwd p = Some (ShRel r) -> r <> [] -> gc_render cwd p = ShRel r.
Proof.
  intros cwd p r H Hr. apply gc_render_unchanged; [|assumption].
  unfold gc_render_old in H. destruct (relative_to cwd p); [congruence | discriminate].
Qed.
Print Assumptions C17_gc_fix_conservative.

(* history (D4): the pre-fix rendering str(exp_path.relative_to(cwd)) is undefined from a package
   directory although the root is found and the post-fix rendering is fine *)
Theorem C17_gc_old_refuted :
  exists (has_cfg : path -> bool) R cwd p,
    find_root has_cfg cwd = Some R /\ is_prefix R cwd = true /\ is_prefix (output_path R) p = true /\
    clean cwd = true /\ clean p = true /\
    denote cwd (gc_render cwd p) = p /\
    gc_render_old cwd p = None.
Proof. exact C17_gc_refuted. Qed.
Print Assumptions C17_gc_old_refuted.

(* Tie to the sources for WHERE `cond archive -o <path>` writes: the model of this property (Cwd.handle_output_path: a
   path typed by the user, located from the working directory; the answer as a user path or one of the two errors) takes,
   for every file system (ex, isdir), working directory, root, generated name and argument, the decision of
   Model/ArchiveOut.v on what the file system says about that argument -- and that decision is the one TRANSLATED from
   cli/archive.py of the working tree on every run (gen_archive_output_decision). *)
Theorem C17_archive_output_location_is_the_sources : forall ex isdir cwd root name raw,
  Proofs.ArchiveOutCwd.choice_matches (handle_output_path ex isdir cwd root name raw)
     (Model.ArchiveOut.handle_output_path (Proofs.ArchiveOutCwd.probe_of ex isdir cwd root name raw)) root name raw /\
  Model.ArchiveOut.decision_code (Model.ArchiveOut.handle_output_path (Proofs.ArchiveOutCwd.probe_of ex isdir cwd root name raw)) =
  (let p := Proofs.ArchiveOutCwd.probe_of ex isdir cwd root name raw in
   gen_archive_output_decision (Model.ArchiveOut.o_given p) (Model.ArchiveOut.o_exists p) (Model.ArchiveOut.o_is_dir p)
                               (Model.ArchiveOut.o_parent_exists p) (Model.ArchiveOut.o_parent_is_dir p) (Model.ArchiveOut.o_gen_exists p)).
Proof.
  intros. split; [apply Proofs.ArchiveOutCwd.cwd_model_takes_the_decision|apply Proofs.ArchiveOutCwd.cwd_model_decision_is_the_sources].
Qed.
Print Assumptions C17_archive_output_location_is_the_sources.

(* `cond where` / conductor.lib.where(): the answer is the function TRANSLATED from lib/path.py of the working tree (the same
   decision -- nothing / relative to the project root / absolute -- on every output path, file system and flag combination),
   computed with a Context built INSIDE the call (so a long-lived process sees the HEAD, index and configuration current at
   each call; seed C05/j kept the first one), and a location is reported only if it exists unless -f was given. *)
Theorem C17_where_is_the_sources : forall ex root out nok rel,
  gen_where_context_is_fresh_per_call = true /\
  where_answer ex root out nok rel =
  match gen_where_decision (match out with None => true | Some _ => false end)
                           (match out with Some o => ex o | None => false end) nok rel, out with
  | 1, Some o => match relative_to root o with Some r => Some (ShRel r) | None => None end
  | 2, Some o => Some (ShAbs o)
  | _, _ => None
  end.
Proof. exact where_tie. Qed.
Print Assumptions C17_where_is_the_sources.

Theorem C17_where_reports_only_what_exists : forall ex root out rel s,
  where_answer ex root out false rel = Some s -> exists o, out = Some o /\ ex o = true.
Proof. exact where_reports_existing. Qed.
Print Assumptions C17_where_reports_only_what_exists.

(* non-vacuity: /r has the config file, /r/a also has a directory of that name (has_cfg answers
   is_file, so false), cwd = /r/a/b: the root found is /r; `cond gc -n` from there prints
   ../../cond-out/a/x.task.5 for /r/cond-out/a/x.task.5 *)
Example C17_nonvacuous :
  let has_cfg := fun d => strs_eqb d [[114]] in
  find_root has_cfg [[114]; [97]; [98]] = Some [[114]]
  /\ gc_render [[114]; [97]; [98]] (output_path [[114]] ++ [[97]; [120; 46; 116; 97; 115; 107; 46; 53]])
     = ShRel [PAR; PAR; cfg_OUTPUT_DIR; [97]; [120; 46; 116; 97; 115; 107; 46; 53]]
  /\ clean [[114]; [97]; [98]] = true.
Proof. repeat split; vm_compute; reflexivity. Qed.
