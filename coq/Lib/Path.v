(* Absolute normalised paths as lists of components (the parts below "/"), with the fragment
   of pathlib / os.path the models use.  Definitions only; the lemmas are in
   Proofs/PathProofs.v.

     is_prefix b p      b == p or b in p.parents
     relative_to b p    pathlib: p.relative_to(b)      -- None = ValueError
     relpath b p        os.path.relpath(p, start=b)    -- for absolute normalised b, p
     resolve l          os.path.normpath("/" + "/".join(l)), i.e. what the kernel resolves a
                        link text to when no intermediate component is itself a link
     show_abs / show_rel   str() of the absolute / relative path *)
From Coq Require Import List NArith Bool.
From Conductor Require Import Lib.Str.
Import ListNotations.
Local Open Scope N_scope.

Notation path := (list str) (only parsing).

Definition CUR : str := [46].          (* "."  : os.curdir *)
Definition PAR : str := [46; 46].      (* ".." : os.pardir *)
Definition SEP : N := 47.              (* "/" *)

Definition is_cur (c : str) : bool := str_eqb c CUR.
Definition is_par (c : str) : bool := str_eqb c PAR.
Definition is_empty (c : str) : bool := match c with [] => true | _ => false end.

(* a component that names a directory entry: not empty, not "." and not ".." *)
Definition clean_comp (c : str) : bool := negb (is_empty c) && negb (is_cur c) && negb (is_par c).
Definition clean (p : list str) : bool := forallb clean_comp p.

Fixpoint is_prefix (b p : path) : bool :=
  match b, p with
  | [], _ => true
  | x :: b', y :: p' => str_eqb x y && is_prefix b' p'
  | _ :: _, [] => false
  end.

(* PurePath.relative_to: the parts of the base must be a prefix of the parts of the path,
   otherwise ValueError.  The result may be empty (rendered "."). *)
Fixpoint relative_to (b p : path) : option (list str) :=
  match b, p with
  | [], _ => Some p
  | x :: b', y :: p' => if str_eqb x y then relative_to b' p' else None
  | _ :: _, [] => None
  end.

(* len(os.path.commonprefix([start_list, path_list])) *)
Fixpoint common_len (a b : path) : nat :=
  match a, b with
  | x :: a', y :: b' => if str_eqb x y then S (common_len a' b') else O
  | _, _ => O
  end.

(* posixpath.relpath:
     i = len(commonprefix([start_list, path_list]))
     rel_list = [pardir] * (len(start_list) - i) + path_list[i:]
     if not rel_list: return curdir
     return sep.join(rel_list) *)
Definition relpath (base p : path) : list str :=
  let i := common_len base p in
  match repeat PAR (length base - i) ++ skipn i p with
  | [] => [CUR]
  | rel_list => rel_list
  end.

(* posixpath.normpath for a path with one leading slash: the stack new_comps is kept reversed.
     for comp in comps:
         if comp is empty or comp == dot: continue
         if comp != '..' ...: new_comps.append(comp)       (absolute: '..' is never appended)
         elif new_comps: new_comps.pop() *)
Fixpoint norm_acc (st : list str) (l : list str) : list str :=
  match l with
  | [] => st
  | c :: l' =>
    if is_empty c || is_cur c then norm_acc st l'
    else if is_par c then norm_acc (tl st) l'
    else norm_acc (c :: st) l'
  end.

Definition resolve (l : list str) : path := rev (norm_acc [] l).

(* where a link with text [target] placed in directory [dir] leads *)
Definition link_dest (dir : path) (target : list str) : path := resolve (dir ++ target).

(* str(path) *)
Definition show_rel (r : list str) : str :=
  match r with [] => CUR | _ => join [SEP] r end.
Definition show_abs (p : path) : str := SEP :: join [SEP] p.
