(* Boolean comparison helpers and enumerators used only by the correspondence checks
   (generated cases_*.v files evaluate model functions with vm_compute and compare the results
   with what the implementation returned). *)
From Coq Require Import List NArith Bool.
From Conductor Require Import Lib.Str.
Import ListNotations.
Local Open Scope N_scope.

Fixpoint list_eqb {A} (eqb : A -> A -> bool) (a b : list A) : bool :=
  match a, b with
  | [], [] => true
  | x :: a', y :: b' => eqb x y && list_eqb eqb a' b'
  | _, _ => false
  end.
Definition option_eqb {A} (eqb : A -> A -> bool) (a b : option A) : bool :=
  match a, b with
  | None, None => true
  | Some x, Some y => eqb x y
  | _, _ => false
  end.
Definition pair_eqb {A B} (ea : A -> A -> bool) (eb : B -> B -> bool) (a b : A * B) : bool :=
  ea (fst a) (fst b) && eb (snd a) (snd b).
Definition strs_eqb := list_eqb str_eqb.
Definition nat_list_eqb := list_eqb Nat.eqb.

(* all strings over alpha of length <= n, in a fixed order the harness reproduces *)
Fixpoint strings_upto (alpha : list N) (n : nat) : list str :=
  match n with
  | O => [[]]
  | S k => [] :: flat_map (fun c => map (cons c) (strings_upto alpha k)) alpha
  end.

(* indices at which a predicate fails *)
Fixpoint bad_indices {A} (ok : A -> bool) (l : list A) (i : nat) : list nat :=
  match l with
  | [] => []
  | x :: l' => if ok x then bad_indices ok l' (S i) else i :: bad_indices ok l' (S i)
  end.

(* first position at which two lists differ *)
Fixpoint first_diff {A} (eqb : A -> A -> bool) (a b : list A) (i : nat) : option (nat * option A * option A) :=
  match a, b with
  | [], [] => None
  | x :: a', y :: b' => if eqb x y then first_diff eqb a' b' (S i) else Some (i, Some x, Some y)
  | x :: _, [] => Some (i, Some x, None)
  | [], y :: _ => Some (i, None, Some y)
  end.

(* ---------- compact result channel ----------
   A model result is flattened to a list of numbers by a prefix code (lengths first) and packed
   into one N in base 2^21 (enough for any code point); the harness computes the same number
   from what the implementation returned and the case file compares the two with N.eqb.  One
   numeral per case keeps the generated files cheap to elaborate. *)
Definition ser_N (n : N) : list N := [n].
Definition ser_nat (n : nat) : list N := [N.of_nat n].
Definition ser_bool (b : bool) : list N := [if b then 1 else 0].
Definition ser_str (s : str) : list N := N.of_nat (length s) :: s.
Definition ser_list {A} (f : A -> list N) (l : list A) : list N := N.of_nat (length l) :: flat_map f l.
Definition ser_opt {A} (f : A -> list N) (o : option A) : list N :=
  match o with None => [0] | Some x => 1 :: f x end.
Definition ser_pair {A B} (f : A -> list N) (g : B -> list N) (p : A * B) : list N := f (fst p) ++ g (snd p).
(* Large numerals are expensive for Coq to parse (number notations are evaluated by reduction),
   so what crosses the boundary is a 64-bit polynomial hash of the flattened result: equal
   results give equal hashes (no false alarm is possible); a disagreement escapes only on a
   hash collision. *)
Definition mask64 : N := 18446744073709551615.
Definition pack (l : list N) : N := fold_left (fun acc b => N.land (acc * 1000003 + b + 1) mask64) l 7.

(* indices i at which got[i] <> want[i]; the lists have equal length by construction *)
Fixpoint mismatches (got want : list N) (i : nat) : list nat :=
  match got, want with
  | g :: got', w :: want' => if g =? w then mismatches got' want' (S i) else i :: mismatches got' want' (S i)
  | [], [] => []
  | _, _ => [i]
  end.
