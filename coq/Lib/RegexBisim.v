(* Reflective decision procedure (sound, not complete) for language equality of two
   regular expressions over the infinite alphabet N:  [equiv_check r1 r2 = true]
   implies [forall s, matches r1 s = matches r2 s].
   The alphabet is partitioned by the boundary points of the character ranges that
   occur in the two expressions; every code point behaves like the greatest boundary
   point below it.  [explore] (unverified, fuelled) computes a candidate bisimulation,
   [check_bisim] (verified) checks it. *)
From Coq Require Import List NArith Bool Lia.
From Conductor Require Import Lib.Regex.
Import ListNotations.
Local Open Scope N_scope.

Fixpoint memN (x : N) (l : list N) : bool :=
  match l with [] => false | y :: l' => (x =? y) || memN x l' end.
Lemma memN_In x l : memN x l = true -> In x l.
Proof.
  induction l; simpl; [discriminate|]. intros H. apply orb_true_iff in H as [H|H].
  - apply N.eqb_eq in H; auto.
  - auto.
Qed.

Definition rng_okb (B : list N) (rg : N * N) : bool := memN (fst rg) B && memN (snd rg + 1) B.

Fixpoint okre (B : list N) (r : re) : bool :=
  match r with
  | Cls c => forallb (rng_okb B) c
  | Cat a b | Alt a b => okre B a && okre B b
  | Star a => okre B a
  | _ => true
  end.

(* greatest boundary point <= c (0 when there is none) *)
Fixpoint repr (B : list N) (c : N) : N :=
  match B with
  | [] => 0
  | b :: B' => let m := repr B' c in if (b <=? c) && (m <=? b) then b else m
  end.

Lemma repr_le B c : repr B c <= c.
Proof.
  induction B as [|b B IH]; simpl; [lia|].
  destruct (b <=? c) eqn:E1; simpl; [|assumption].
  destruct (repr B c <=? b) eqn:E2; [|assumption]. apply N.leb_le in E1; assumption.
Qed.
Lemma repr_in B c : repr B c = 0 \/ In (repr B c) B.
Proof.
  induction B as [|b B IH]; simpl; [auto|].
  destruct ((b <=? c) && (repr B c <=? b)); [right; auto|]. destruct IH; auto.
Qed.
Lemma repr_ub B c b : In b B -> b <= c -> b <= repr B c.
Proof.
  induction B as [|b0 B IH]; simpl; [tauto|]. intros [->|Hin] Hle.
  - apply N.leb_le in Hle as Hle'. rewrite Hle'. simpl.
    destruct (repr B c <=? b) eqn:E; [lia|]. apply N.leb_gt in E. lia.
  - specialize (IH Hin Hle).
    destruct (b0 <=? c) eqn:E1; simpl; [|assumption].
    destruct (repr B c <=? b0) eqn:E2; [|assumption]. apply N.leb_le in E2. lia.
Qed.

Lemma in_rng_repr B c rg : rng_okb B rg = true -> in_rng c rg = in_rng (repr B c) rg.
Proof.
  unfold rng_okb, in_rng. intros H. apply andb_true_iff in H as [H1 H2].
  apply memN_In in H1, H2.
  pose proof (repr_le B c) as Hle.
  destruct (fst rg <=? c) eqn:E1.
  - apply N.leb_le in E1. pose proof (repr_ub B c _ H1 E1) as Hlo.
    apply N.leb_le in Hlo. rewrite Hlo. simpl.
    destruct (c <=? snd rg) eqn:E2.
    + apply N.leb_le in E2. symmetry. apply N.leb_le. lia.
    + apply N.leb_gt in E2. symmetry. apply N.leb_gt.
      assert (Hb : snd rg + 1 <= c) by lia.
      pose proof (repr_ub B c _ H2 Hb). lia.
  - simpl. apply N.leb_gt in E1. symmetry. apply andb_false_iff. left.
    apply N.leb_gt. lia.
Qed.

Lemma in_cls_repr B c cl : forallb (rng_okb B) cl = true -> in_cls c cl = in_cls (repr B c) cl.
Proof.
  unfold in_cls. induction cl as [|rg cl IH]; simpl; [reflexivity|]. intros H.
  apply andb_true_iff in H as [H1 H2]. rewrite (in_rng_repr B c rg H1), (IH H2). reflexivity.
Qed.

Lemma deriv_repr B c r : okre B r = true -> deriv c r = deriv (repr B c) r.
Proof.
  induction r; simpl; intros H; try reflexivity.
  - now rewrite (in_cls_repr B c c0 H).
  - apply andb_true_iff in H as [H1 H2]. now rewrite (IHr1 H1), (IHr2 H2).
  - apply andb_true_iff in H as [H1 H2]. now rewrite (IHr1 H1), (IHr2 H2).
  - now rewrite (IHr H).
Qed.

(* ---------- the checker ---------- *)
Definition pair_eqb (p q : re * re) : bool := re_eqb (fst p) (fst q) && re_eqb (snd p) (snd q).
Fixpoint mem_pair (p : re * re) (l : list (re * re)) : bool :=
  match l with [] => false | q :: l' => pair_eqb p q || mem_pair p l' end.
Lemma mem_pair_In p l : mem_pair p l = true -> In p l.
Proof.
  induction l as [|q l IH]; simpl; [discriminate|]. intros H.
  apply orb_true_iff in H as [H|H]; [|auto]. left.
  unfold pair_eqb in H. apply andb_true_iff in H as [H1 H2].
  apply re_eqb_eq in H1, H2. destruct p, q; simpl in *; congruence.
Qed.

Definition step_pair (b : N) (p : re * re) : re * re := (deriv b (fst p), deriv b (snd p)).

Definition check_pair (B : list N) (rel : list (re * re)) (p : re * re) : bool :=
  Bool.eqb (nullable (fst p)) (nullable (snd p))
  && okre B (fst p) && okre B (snd p)
  && forallb (fun b => mem_pair (step_pair b p) rel) (0 :: B).

Definition check_bisim (B : list N) (rel : list (re * re)) : bool := forallb (check_pair B rel) rel.

Theorem check_bisim_sound B rel :
  check_bisim B rel = true ->
  forall s r1 r2, In (r1, r2) rel -> matches r1 s = matches r2 s.
Proof.
  intros Hc. unfold check_bisim in Hc. rewrite forallb_forall in Hc.
  induction s as [|c s IH]; intros r1 r2 Hin.
  - specialize (Hc _ Hin). unfold check_pair in Hc. simpl in Hc.
    rewrite !matches_nil.
    repeat (apply andb_true_iff in Hc as [Hc ?]). now apply eqb_prop.
  - pose proof (Hc _ Hin) as Hp. unfold check_pair in Hp. cbn [fst snd] in Hp.
    apply andb_true_iff in Hp as [Hp Hstep].
    apply andb_true_iff in Hp as [Hp Hok2].
    apply andb_true_iff in Hp as [_ Hok1].
    rewrite !matches_cons.
    rewrite (deriv_repr B c r1 Hok1), (deriv_repr B c r2 Hok2).
    rewrite forallb_forall in Hstep.
    assert (Hb : In (repr B c) (0 :: B)).
    { destruct (repr_in B c) as [E|E]; [rewrite E; left; reflexivity | right; assumption]. }
    specialize (Hstep _ Hb). apply mem_pair_In in Hstep. unfold step_pair in Hstep.
    cbn [fst snd] in Hstep. now apply IH.
Qed.

(* ---------- candidate construction (unverified) ---------- *)
Fixpoint ranges (r : re) : list (N * N) :=
  match r with
  | Cls c => c
  | Cat a b | Alt a b => ranges a ++ ranges b
  | Star a => ranges a
  | _ => []
  end.

Fixpoint dedupN (l : list N) : list N :=
  match l with [] => [] | x :: l' => let d := dedupN l' in if memN x d then d else x :: d end.

Definition bounds (r1 r2 : re) : list N :=
  dedupN (flat_map (fun rg => [fst rg; snd rg + 1]) (ranges r1 ++ ranges r2)).

Fixpoint explore (fuel : nat) (B : list N) (todo rel : list (re * re)) : list (re * re) :=
  match fuel with
  | O => rel
  | S f =>
    match todo with
    | [] => rel
    | p :: todo' =>
      if mem_pair p rel then explore f B todo' rel
      else explore f B (map (fun b => step_pair b p) (0 :: B) ++ todo') (p :: rel)
    end
  end.

Definition equiv_check (r1 r2 : re) : bool :=
  let B := bounds r1 r2 in
  let rel := explore 5000 B [(r1, r2)] [] in
  mem_pair (r1, r2) rel && check_bisim B rel.

Theorem equiv_check_sound r1 r2 :
  equiv_check r1 r2 = true -> forall s, matches r1 s = matches r2 s.
Proof.
  unfold equiv_check. intros H s. apply andb_true_iff in H as [H1 H2].
  eapply check_bisim_sound; eauto. now apply mem_pair_In.
Qed.

Corollary equiv_check_L r1 r2 :
  equiv_check r1 r2 = true -> forall s, L r1 s <-> L r2 s.
Proof.
  intros H s. rewrite <- !matches_spec, (equiv_check_sound _ _ H s). reflexivity.
Qed.

(* sanity: the procedure says yes on a re-written pattern and no on a different one *)
Example equiv_check_yes :
  equiv_check (Plus (Cls [(97, 122); (48, 57)])) (Cat (Cls [(48, 57); (97, 122)]) (Star (Cls [(48, 50); (51, 57); (97, 122)]))) = true.
Proof. vm_compute. reflexivity. Qed.
Example equiv_check_no :
  equiv_check (Plus (Cls [(97, 122)])) (Star (Cls [(97, 122)])) = false.
Proof. vm_compute. reflexivity. Qed.
