(* Strings as lists of code points; the fragment of Python's str API the models use. *)
From Coq Require Import List NArith Bool Lia Decimal DecimalN.
Import ListNotations.
Local Open Scope N_scope.

Definition str := list N.

Fixpoint str_eqb (a b : str) : bool :=
  match a, b with
  | [], [] => true
  | x :: a', y :: b' => (x =? y) && str_eqb a' b'
  | _, _ => false
  end.
Lemma str_eqb_spec a : forall b, str_eqb a b = true <-> a = b.
Proof.
  induction a as [|x a IH]; destruct b as [|y b]; simpl; split; try congruence; intros H.
  - apply andb_true_iff in H as [H1 H2]. apply N.eqb_eq in H1. apply IH in H2. congruence.
  - inversion H; subst. rewrite N.eqb_refl. simpl. now apply IH.
Qed.
Lemma str_eqb_refl a : str_eqb a a = true.
Proof. now apply str_eqb_spec. Qed.
Lemma str_eqb_false a b : str_eqb a b = false <-> a <> b.
Proof.
  split.
  - intros H E. apply str_eqb_spec in E. congruence.
  - intros H. destruct (str_eqb a b) eqn:E; [|reflexivity]. apply str_eqb_spec in E. contradiction.
Qed.

Definition str_eq_dec (a b : str) : {a = b} + {a <> b}.
Proof. apply list_eq_dec, N.eq_dec. Defined.

(* s.startswith(p) *)
Fixpoint starts_with (p s : str) : bool :=
  match p, s with
  | [], _ => true
  | x :: p', y :: s' => (x =? y) && starts_with p' s'
  | _ :: _, [] => false
  end.
Lemma starts_with_spec p : forall s, starts_with p s = true <-> exists t, s = p ++ t.
Proof.
  induction p as [|x p IH]; intros s; simpl.
  - split; eauto.
  - destruct s as [|y s].
    + split; [discriminate | intros [t Ht]; discriminate].
    + rewrite andb_true_iff, N.eqb_eq, IH. split.
      * intros [-> [t ->]]. eauto.
      * intros [t Ht]. inversion Ht; subst. eauto.
Qed.

(* s.split(sep) for a one-character separator: never returns the empty list *)
Fixpoint split (sep : N) (s : str) : list str :=
  match s with
  | [] => [[]]
  | x :: s' =>
    if x =? sep then [] :: split sep s'
    else match split sep s' with
         | h :: t => (x :: h) :: t
         | [] => [[x]]
         end
  end.

(* sep.join(l) *)
Fixpoint join (sep : str) (l : list str) : str :=
  match l with
  | [] => []
  | [a] => a
  | a :: l' => a ++ sep ++ join sep l'
  end.

Lemma split_nonempty sep s : split sep s <> [].
Proof.
  destruct s as [|x s]; simpl; [discriminate|].
  destruct (x =? sep); [discriminate|]. destruct (split sep s); discriminate.
Qed.

Definition no_char (c : N) (s : str) : Prop := ~ In c s.

Lemma split_no_sep sep s : ~ In sep s -> split sep s = [s].
Proof.
  induction s as [|x s IH]; simpl; intros H; [reflexivity|].
  destruct (x =? sep) eqn:E.
  - apply N.eqb_eq in E. subst. tauto.
  - rewrite IH by tauto. reflexivity.
Qed.

Lemma split_app_sep sep a b :
  ~ In sep a -> split sep (a ++ sep :: b) = a :: split sep b.
Proof.
  induction a as [|x a IH]; simpl; intros H.
  - now rewrite N.eqb_refl.
  - destruct (x =? sep) eqn:E.
    + apply N.eqb_eq in E. subst. tauto.
    + rewrite IH by tauto. reflexivity.
Qed.

(* split is the inverse of join on separator-free pieces (Python: sep.join(l).split(sep) == l
   for non-empty l whose members do not contain sep) *)
Lemma split_join sep l :
  l <> [] -> Forall (fun a => ~ In sep a) l -> split sep (join [sep] l) = l.
Proof.
  induction l as [|a l IH]; intros Hne Hall; [congruence|].
  inversion Hall; subst. destruct l as [|b l].
  - simpl. now apply split_no_sep.
  - change (join [sep] (a :: b :: l)) with (a ++ sep :: join [sep] (b :: l)).
    rewrite split_app_sep by assumption. f_equal. apply IH; [discriminate | assumption].
Qed.

Lemma join_split sep s : join [sep] (split sep s) = s.
Proof.
  induction s as [|x s IH]; simpl; [reflexivity|].
  destruct (x =? sep) eqn:E.
  - apply N.eqb_eq in E; subst.
    pose proof (split_nonempty sep s) as Hne.
    destruct (split sep s) as [|h t] eqn:Es; [congruence|].
    change (join [sep] ([] :: h :: t)) with ([] ++ [sep] ++ join [sep] (h :: t)).
    rewrite IH. reflexivity.
  - pose proof (split_nonempty sep s) as Hne.
    destruct (split sep s) as [|h t] eqn:Es; [congruence|].
    destruct t as [|h' t'].
    + simpl in *. congruence.
    + change (join [sep] ((x :: h) :: h' :: t')) with (x :: (h ++ [sep] ++ join [sep] (h' :: t'))).
      change (join [sep] (h :: h' :: t')) with (h ++ [sep] ++ join [sep] (h' :: t')) in IH.
      congruence.
Qed.

(* ---------- decimal rendering: str(n) for a natural number ---------- *)
Fixpoint uint_codes (u : Decimal.uint) : str :=
  match u with
  | Nil => []
  | D0 u => 48 :: uint_codes u | D1 u => 49 :: uint_codes u | D2 u => 50 :: uint_codes u
  | D3 u => 51 :: uint_codes u | D4 u => 52 :: uint_codes u | D5 u => 53 :: uint_codes u
  | D6 u => 54 :: uint_codes u | D7 u => 55 :: uint_codes u | D8 u => 56 :: uint_codes u
  | D9 u => 57 :: uint_codes u
  end.

Definition dec (n : N) : str := uint_codes (N.to_uint n).

Lemma uint_codes_inj u : forall v, uint_codes u = uint_codes v -> u = v.
Proof.
  induction u; destruct v; simpl; intros H; try discriminate; try reflexivity;
    inversion H; f_equal; auto.
Qed.

Lemma dec_inj n m : dec n = dec m -> n = m.
Proof.
  unfold dec. intros H. apply uint_codes_inj in H.
  rewrite <- (DecimalN.Unsigned.of_to n), <- (DecimalN.Unsigned.of_to m). now rewrite H.
Qed.

Definition is_digit (c : N) : bool := (48 <=? c) && (c <=? 57).

Lemma uint_codes_digits u : Forall (fun c => is_digit c = true) (uint_codes u).
Proof. induction u; simpl; constructor; auto. Qed.
Lemma dec_digits n : Forall (fun c => is_digit c = true) (dec n).
Proof. apply uint_codes_digits. Qed.

Lemma dec_nonempty n : dec n <> [].
Proof.
  unfold dec. destruct n as [|p]; simpl; [discriminate|].
  unfold Pos.to_uint. pose proof (DecimalPos.Unsigned.to_of) as _.
  destruct (Decimal.rev (Pos.to_little_uint p)) eqn:E; simpl; try discriminate.
  exfalso.
  assert (H : Pos.to_uint p = Nil) by exact E.
  pose proof (DecimalPos.Unsigned.of_to p) as Hof. rewrite H in Hof. simpl in Hof. discriminate.
Qed.
