(* Types shared between the generated schema table (Gen/Generated.v) and Model/Schema.v. *)
From Coq Require Import List NArith.
Import ListNotations.

Inductive sty := TStr | TBool | TList | TDict | TListOf (t : sty) | TOpt (t : sty).
Inductive sdefault := DNone | DBool (b : bool) | DEmptyList | DEmptyDict.

Record task_type_row := {
  tt_name : list N;
  tt_schema : list (list N * sty);
  tt_defaults : list (list N * sdefault);
  tt_full : list N
}.
