(* How CPython applies a compiled pattern: the translator (harness/gen_generated.py) emits,
   for each pattern object of the source, its body as a [re], the kind of end anchor it
   carries and the method the source calls on it.  [py_match] is CPython's documented
   meaning of that combination (no MULTILINE flag: `$` matches at the end and just before a
   newline that is the last character; `\Z` matches only at the end; `.match` anchors at the
   start only; `.fullmatch` at both ends). *)
From Coq Require Import List NArith Bool Lia.
From Conductor Require Import Lib.Regex.
Import ListNotations.
Local Open Scope N_scope.

Inductive end_anchor := Dollar | EndZ | NoEnd.
Inductive match_method := MMatch | MFullmatch.
Record pyre := { body : re; anchor : end_anchor; meth : match_method }.

Definition NL : N := 10.

(* s = s' ++ [NL] ? *)
Definition strip_nl (s : list N) : option (list N) :=
  match rev s with
  | x :: r => if x =? NL then Some (rev r) else None
  | [] => None
  end.

Fixpoint prefixes (s : list N) : list (list N) :=
  match s with [] => [[]] | x :: s' => [] :: map (cons x) (prefixes s') end.

Definition py_match (p : pyre) (s : list N) : bool :=
  match meth p, anchor p with
  | MFullmatch, _ => matches (body p) s
  | MMatch, EndZ => matches (body p) s
  | MMatch, Dollar =>
      matches (body p) s ||
      match strip_nl s with Some s' => matches (body p) s' | None => false end
  | MMatch, NoEnd => existsb (matches (body p)) (prefixes s)
  end.

Definition exact (p : pyre) : bool :=
  match meth p, anchor p with
  | MFullmatch, _ => true
  | MMatch, EndZ => true
  | _, _ => false
  end.

Lemma py_match_exact p s : exact p = true -> py_match p s = matches (body p) s.
Proof. unfold exact, py_match. destruct (meth p), (anchor p); congruence. Qed.

Lemma strip_nl_spec s s' : strip_nl s = Some s' <-> s = s' ++ [NL].
Proof.
  unfold strip_nl. split.
  - destruct (rev s) as [|x r] eqn:E; [discriminate|].
    destruct (x =? NL) eqn:Ex; [|discriminate]. apply N.eqb_eq in Ex; subst.
    intros H; inversion H; subst. rewrite <- (rev_involutive s), E. reflexivity.
  - intros ->. rewrite rev_app_distr. simpl. rewrite ?N.eqb_refl, rev_involutive. reflexivity.
Qed.

(* With `$` and `.match` the pattern accepts the body's language plus each of its words
   followed by one newline. *)
Lemma py_match_dollar p s :
  meth p = MMatch -> anchor p = Dollar ->
  (py_match p s = true <-> L (body p) s \/ exists s', s = s' ++ [NL] /\ L (body p) s').
Proof.
  intros Hm Ha. unfold py_match. rewrite Hm, Ha. rewrite orb_true_iff, matches_spec.
  split; intros [H|H]; auto.
  - destruct (strip_nl s) as [s'|] eqn:E; [|discriminate].
    apply strip_nl_spec in E. apply matches_spec in H. right; eauto.
  - destruct H as (s' & -> & H). right.
    assert (E : strip_nl (s' ++ [NL]) = Some s') by now apply strip_nl_spec.
    rewrite E. now apply matches_spec.
Qed.
