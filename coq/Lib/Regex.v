(* Regular expressions over code points (N) with character classes given as
   inclusive range lists; denotation L; Brzozowski derivatives with normalising
   smart constructors; matches_spec : matches r s = true <-> L r s. *)
From Coq Require Import List NArith Bool Lia.
Import ListNotations.
Local Open Scope N_scope.

Definition cls := list (N * N).

Inductive re :=
| Emp | Eps | Cls (c : cls) | Cat (a b : re) | Alt (a b : re) | Star (a : re).

Definition in_rng (x : N) (r : N * N) : bool := (fst r <=? x) && (x <=? snd r).
Definition in_cls (x : N) (c : cls) : bool := existsb (in_rng x) c.

Inductive L : re -> list N -> Prop :=
| L_eps : L Eps []
| L_cls c x : in_cls x c = true -> L (Cls c) [x]
| L_cat a b s t : L a s -> L b t -> L (Cat a b) (s ++ t)
| L_altl a b s : L a s -> L (Alt a b) s
| L_altr a b s : L b s -> L (Alt a b) s
| L_star_nil a : L (Star a) []
| L_star_cons a s t : L a s -> L (Star a) t -> L (Star a) (s ++ t).

Definition Plus (a : re) : re := Cat a (Star a).
Definition Opt (a : re) : re := Alt Eps a.
Definition Chr (x : N) : re := Cls [(x, x)].

(* ---------- boolean equality ---------- *)
Definition rng_eqb (a b : N * N) : bool := (fst a =? fst b) && (snd a =? snd b).
Fixpoint cls_eqb (a b : cls) : bool :=
  match a, b with
  | [], [] => true
  | x :: a', y :: b' => rng_eqb x y && cls_eqb a' b'
  | _, _ => false
  end.
Fixpoint re_eqb (a b : re) : bool :=
  match a, b with
  | Emp, Emp => true
  | Eps, Eps => true
  | Cls c, Cls d => cls_eqb c d
  | Cat a1 a2, Cat b1 b2 => re_eqb a1 b1 && re_eqb a2 b2
  | Alt a1 a2, Alt b1 b2 => re_eqb a1 b1 && re_eqb a2 b2
  | Star a1, Star b1 => re_eqb a1 b1
  | _, _ => false
  end.

Lemma rng_eqb_eq a b : rng_eqb a b = true -> a = b.
Proof.
  destruct a, b; unfold rng_eqb; simpl; intros H.
  apply andb_true_iff in H as [H1 H2].
  apply N.eqb_eq in H1, H2; congruence.
Qed.
Lemma cls_eqb_eq a : forall b, cls_eqb a b = true -> a = b.
Proof.
  induction a as [|x a IH]; destruct b as [|y b]; simpl; try congruence; intros H.
  apply andb_true_iff in H as [H1 H2]. apply rng_eqb_eq in H1. f_equal; auto.
Qed.
Lemma re_eqb_eq a : forall b, re_eqb a b = true -> a = b.
Proof.
  induction a; destruct b; simpl; try congruence; intros H.
  - f_equal; now apply cls_eqb_eq.
  - apply andb_true_iff in H as [H1 H2]; f_equal; auto.
  - apply andb_true_iff in H as [H1 H2]; f_equal; auto.
  - f_equal; auto.
Qed.
Lemma rng_eqb_refl a : rng_eqb a a = true.
Proof. unfold rng_eqb; now rewrite !N.eqb_refl. Qed.
Lemma cls_eqb_refl a : cls_eqb a a = true.
Proof. induction a; simpl; auto. now rewrite rng_eqb_refl. Qed.
Lemma re_eqb_refl a : re_eqb a a = true.
Proof. induction a; simpl; auto using cls_eqb_refl; now rewrite ?IHa1, ?IHa2. Qed.

(* ---------- derivatives ---------- *)
Fixpoint nullable (r : re) : bool :=
  match r with
  | Emp => false | Eps => true | Cls _ => false
  | Cat a b => nullable a && nullable b
  | Alt a b => nullable a || nullable b
  | Star _ => true
  end.

Definition cat (a b : re) : re :=
  match a, b with
  | Emp, _ => Emp
  | _, Emp => Emp
  | Eps, _ => b
  | _, Eps => a
  | _, _ => Cat a b
  end.

(* members of the right spine of an alternation *)
Fixpoint alt_mem (a r : re) : bool :=
  match r with
  | Alt x y => re_eqb a x || alt_mem a y
  | _ => re_eqb a r
  end.

Definition alt1 (a b : re) : re :=
  match a, b with
  | Emp, _ => b
  | _, Emp => a
  | _, _ => if alt_mem a b then b else Alt a b
  end.

(* flatten a left operand that is itself an alternation *)
Fixpoint alt (a b : re) : re :=
  match a with
  | Alt x y => alt1 x (alt y b)
  | _ => alt1 a b
  end.

Fixpoint deriv (x : N) (r : re) : re :=
  match r with
  | Emp | Eps => Emp
  | Cls c => if in_cls x c then Eps else Emp
  | Cat a b => if nullable a then alt (cat (deriv x a) b) (deriv x b)
               else cat (deriv x a) b
  | Alt a b => alt (deriv x a) (deriv x b)
  | Star a => cat (deriv x a) (Star a)
  end.

Definition derivs (s : list N) (r : re) : re := fold_left (fun r x => deriv x r) s r.
Definition matches (r : re) (s : list N) : bool := nullable (derivs s r).

(* ---------- correctness ---------- *)
Lemma L_emp_inv s : ~ L Emp s.
Proof. intros H; inversion H. Qed.
Lemma L_eps_inv s : L Eps s -> s = [].
Proof. intros H; now inversion H. Qed.

Lemma cat_spec a b s : L (cat a b) s <-> L (Cat a b) s.
Proof.
  split.
  - intros H. unfold cat in H.
    destruct a; try (now exfalso; eapply L_emp_inv; eauto);
    destruct b; try (now exfalso; eapply L_emp_inv; eauto); auto;
    try (change s with ([] ++ s); constructor; [constructor | assumption]);
    try (rewrite <- (app_nil_r s); constructor; [assumption | constructor]).
  - intros H. inversion H as [| |a' b' s1 s2 H1 H2| | | |]; subst.
    unfold cat.
    destruct a; try (now exfalso; eapply L_emp_inv; eauto);
    destruct b; try (now exfalso; eapply L_emp_inv; eauto);
    try (apply L_eps_inv in H1; subst; simpl; assumption);
    try (apply L_eps_inv in H2; subst; rewrite app_nil_r; assumption);
    try (now constructor).
Qed.

Lemma alt_mem_spec a r s : alt_mem a r = true -> L a s -> L r s.
Proof.
  induction r; simpl; intros Hm Ha;
    try (apply re_eqb_eq in Hm; subst; assumption).
  apply orb_true_iff in Hm as [Hm|Hm].
  - apply re_eqb_eq in Hm; subst. now apply L_altl.
  - apply L_altr. auto.
Qed.

Lemma alt1_cases a b :
  (a = Emp /\ alt1 a b = b) \/
  (b = Emp /\ alt1 a b = a) \/
  (alt1 a b = if alt_mem a b then b else Alt a b).
Proof.
  destruct a; [left; split; reflexivity| | | | |];
    (destruct b; [right; left; split; reflexivity| | | | |]; right; right; reflexivity).
Qed.

Lemma alt1_spec a b s : L (alt1 a b) s <-> L (Alt a b) s.
Proof.
  destruct (alt1_cases a b) as [[-> E]|[[-> E]|E]]; rewrite E.
  - split; intros H; [now apply L_altr|]. inversion H; subst; [|assumption].
    exfalso; eapply L_emp_inv; eauto.
  - split; intros H; [now apply L_altl|]. inversion H; subst; [assumption|].
    exfalso; eapply L_emp_inv; eauto.
  - destruct (alt_mem a b) eqn:Em; [|reflexivity].
    split; intros H; [now apply L_altr|]. inversion H; subst; [|assumption].
    eapply alt_mem_spec; eauto.
Qed.

Lemma alt_spec a : forall b s, L (alt a b) s <-> L (Alt a b) s.
Proof.
  induction a; intros b s; try apply alt1_spec.
  simpl. rewrite alt1_spec. split; intros H.
  - inversion H; subst.
    + apply L_altl, L_altl; assumption.
    + match goal with Hx : L (alt a2 b) s |- _ => apply IHa2 in Hx; inversion Hx; subst end.
      * apply L_altl, L_altr; assumption.
      * apply L_altr; assumption.
  - inversion H; subst.
    + match goal with Hx : L (Alt a1 a2) s |- _ => inversion Hx; subst end.
      * now apply L_altl.
      * apply L_altr, IHa2. now apply L_altl.
    + apply L_altr, IHa2. now apply L_altr.
Qed.

Lemma nullable_spec r : nullable r = true <-> L r [].
Proof.
  induction r; simpl.
  - split; [discriminate | intros H; inversion H].
  - split; [constructor | auto].
  - split; [discriminate | intros H; inversion H].
  - rewrite andb_true_iff, IHr1, IHr2. split.
    + intros [H1 H2]. change (@nil N) with (@nil N ++ []). now constructor.
    + intros H. inversion H as [| |a' b' s1 s2 H1 H2 [Ea Eb] Heq| | | |]; subst.
      apply app_eq_nil in Heq as [-> ->]. auto.
  - rewrite orb_true_iff, IHr1, IHr2. split.
    + intros [H|H]; [now apply L_altl | now apply L_altr].
    + intros H; inversion H; auto.
  - split; [constructor | auto].
Qed.

Lemma L_star_cons_inv a x s :
  L (Star a) (x :: s) -> exists s1 s2, s = s1 ++ s2 /\ L a (x :: s1) /\ L (Star a) s2.
Proof.
  intros H. remember (Star a) as r eqn:Er. remember (x :: s) as w eqn:Ew.
  revert x s Er Ew. induction H; intros x0 s0 Er Ew; try discriminate.
  inversion Er; subst a0.
  destruct s as [|y s'].
  - simpl in Ew. eapply IHL2; eauto.
  - simpl in Ew. inversion Ew; subst. exists s', t. auto.
Qed.

Lemma deriv_spec r : forall x s, L (deriv x r) s <-> L r (x :: s).
Proof.
  induction r; intros x s; simpl.
  - split; intros H; inversion H.
  - split; intros H; inversion H.
  - destruct (in_cls x c) eqn:E.
    + split; intros H.
      * apply L_eps_inv in H; subst. now constructor.
      * inversion H; subst. constructor.
    + split; intros H; [inversion H|]. inversion H; subst. congruence.
  - assert (Hcat : L (cat (deriv x r1) r2) s <->
                   exists s1 s2, s = s1 ++ s2 /\ L r1 (x :: s1) /\ L r2 s2).
    { rewrite cat_spec. split.
      - intros H. inversion H; subst. do 2 eexists. split; [reflexivity|].
        split; [now apply IHr1 | assumption].
      - intros (s1 & s2 & -> & H1 & H2). constructor; [now apply IHr1 | assumption]. }
    destruct (nullable r1) eqn:En.
    + rewrite alt_spec. split.
      * intros H. inversion H; subst.
        -- match goal with Hx : L (cat _ _) _ |- _ => apply Hcat in Hx end.
           destruct H3 as (s1 & s2 & -> & H1 & H2).
           change (x :: s1 ++ s2) with ((x :: s1) ++ s2). now constructor.
        -- change (x :: s) with ([] ++ x :: s). constructor.
           ++ now apply nullable_spec.
           ++ now apply IHr2.
      * intros H. inversion H as [| |a' b' s1 s2 H1 H2 [Ea Eb] Heq| | | |]; subst.
        destruct s1 as [|y s1'].
        -- simpl in Heq; subst. apply L_altr. now apply IHr2.
        -- simpl in Heq. inversion Heq; subst. apply L_altl, Hcat. eauto.
    + rewrite Hcat. split.
      * intros (s1 & s2 & -> & H1 & H2).
        change (x :: s1 ++ s2) with ((x :: s1) ++ s2). now constructor.
      * intros H. inversion H as [| |a' b' s1 s2 H1 H2 [Ea Eb] Heq| | | |]; subst.
        destruct s1 as [|y s1'].
        -- apply nullable_spec in H1. congruence.
        -- simpl in Heq. inversion Heq; subst. eauto.
  - rewrite alt_spec. split; intros H; inversion H; subst.
    + apply L_altl. now apply IHr1.
    + apply L_altr. now apply IHr2.
    + apply L_altl. now apply IHr1.
    + apply L_altr. now apply IHr2.
  - rewrite cat_spec. split.
    + intros H. inversion H; subst.
      change (x :: s0 ++ t) with ((x :: s0) ++ t). constructor; [now apply IHr | assumption].
    + intros H. apply L_star_cons_inv in H as (s1 & s2 & -> & H1 & H2).
      constructor; [now apply IHr | assumption].
Qed.

Lemma derivs_spec s : forall r t, L (derivs s r) t <-> L r (s ++ t).
Proof.
  induction s as [|x s IH]; intros r t; simpl; [reflexivity|].
  unfold derivs in *. simpl. rewrite IH. apply deriv_spec.
Qed.

Theorem matches_spec r s : matches r s = true <-> L r s.
Proof.
  unfold matches. rewrite nullable_spec, derivs_spec, app_nil_r. reflexivity.
Qed.

Lemma matches_cons r x s : matches r (x :: s) = matches (deriv x r) s.
Proof. reflexivity. Qed.
Lemma matches_nil r : matches r [] = nullable r.
Proof. reflexivity. Qed.

(* ---------- a few language lemmas used by the specifications ---------- *)
Lemma L_star_forall a s :
  L (Star a) s <-> exists ws, s = concat ws /\ Forall (L a) ws.
Proof.
  split.
  - intros H. remember (Star a) as r eqn:E. induction H; try discriminate.
    + exists []. auto.
    + inversion E; subst. destruct (IHL2 eq_refl) as (ws & -> & Hws).
      exists (s :: ws). auto.
  - intros (ws & -> & Hws). induction Hws; simpl; constructor; auto.
Qed.

Lemma L_star_cls c s : L (Star (Cls c)) s <-> Forall (fun x => in_cls x c = true) s.
Proof.
  split.
  - intros H. remember (Star (Cls c)) as r eqn:E. induction H; try discriminate; auto.
    inversion E; subst. inversion H; subst. simpl. constructor; auto.
  - induction 1 as [|x s Hx Hs IH]; [constructor|].
    change (x :: s) with ([x] ++ s). constructor; [now constructor | assumption].
Qed.

Lemma L_plus_cls c s :
  L (Plus (Cls c)) s <-> s <> [] /\ Forall (fun x => in_cls x c = true) s.
Proof.
  unfold Plus. split.
  - intros H. inversion H; subst. inversion H2; subst. simpl.
    apply L_star_cls in H4. split; [discriminate | constructor; auto].
  - intros [Hne Hall]. destruct s as [|x s]; [congruence|]. inversion Hall; subst.
    change (x :: s) with ([x] ++ s). constructor; [now constructor | now apply L_star_cls].
Qed.

(* ---------- inversion principles as equivalences ---------- *)
Lemma L_cat_iff a b s : L (Cat a b) s <-> exists s1 s2, s = s1 ++ s2 /\ L a s1 /\ L b s2.
Proof.
  split.
  - intros H; inversion H; subst; eauto.
  - intros (s1 & s2 & -> & H1 & H2). now constructor.
Qed.
Lemma L_alt_iff a b s : L (Alt a b) s <-> L a s \/ L b s.
Proof.
  split.
  - intros H; inversion H; subst; auto.
  - intros [H|H]; [now apply L_altl | now apply L_altr].
Qed.
Lemma L_eps_iff s : L Eps s <-> s = [].
Proof. split; [apply L_eps_inv | intros ->; constructor]. Qed.
Lemma L_opt_iff a s : L (Opt a) s <-> s = [] \/ L a s.
Proof. unfold Opt. rewrite L_alt_iff, L_eps_iff. reflexivity. Qed.
Lemma L_chr_iff c s : L (Chr c) s <-> s = [c].
Proof.
  unfold Chr. split.
  - intros H; inversion H; subst. unfold in_cls, in_rng in *. simpl in *.
    rewrite orb_false_r in H1. apply andb_true_iff in H1 as [H1 H2].
    apply N.leb_le in H1, H2. f_equal. lia.
  - intros ->. constructor. unfold in_cls, in_rng. simpl. rewrite N.leb_refl. reflexivity.
Qed.
