(* Planner invariants, part 2: which tasks are lowered and which are reported cached.
   Needed / Frontier are defined independently of the algorithm (least fixed point over the task
   graph); the theorems hold for EVERY task table (cyclic ones included), every should_run oracle
   and both values of --again. *)
From Coq Require Import List Arith Bool Lia.
From Conductor Require Import Model.Loader Model.Planner Proofs.ListFacts Proofs.PlannerInv.
Import ListNotations.

Section Exact.
  Variable info : nat -> tinfo.
  Variable sr : nat -> bool.
  Variable again : bool.
  Variable root : nat.
  Hypothesis deps_nodup : forall t, NoDup (t_deps (info t)).

  Definition runs (t : nat) : bool := again || sr t.

  (* reachable from the root through tasks that are executed (traversal stops at cached tasks) *)
  Inductive NReach : nat -> Prop :=
  | nr_root : NReach root
  | nr_step x y : NReach x -> runs x = true -> In y (t_deps (info x)) -> NReach y.

  Definition Needed (t : nat) : Prop := NReach t /\ runs t = true.
  Definition Frontier (t : nat) : Prop := NReach t /\ runs t = false.

  Record QInv (s : pstate) : Prop := {
    q_reach : forall i, i < length (store s) -> NReach (task_at (store s) i);
    q_status : forall t i, In (t, i) (visited s) ->
               (runs t = true -> lt_second (lt_at (store s) i) = true) /\
               (runs t = false -> In t (cached s) /\ lt_second (lt_at (store s) i) = false);
    q_cached : forall t, In t (cached s) -> runs t = false /\ exists i, In (t, i) (visited s);
    q_cached_nodup : NoDup (cached s);
    q_closed : forall t i, In (t, i) (visited s) -> runs t = true ->
               forall d, In d (t_deps (info t)) ->
               (exists j, In (d, j) (visited s)) \/ (exists j, In j (stack s) /\ task_at (store s) j = d);
    q_root : (exists i, In (root, i) (visited s)) \/ (exists j, In j (stack s) /\ task_at (store s) j = root);
    q_done : forall i, i < length (store s) -> lt_second (lt_at (store s) i) = true ->
             In i (stack s) \/ exists o, lt_out (lt_at (store s) i) = Own [o];
    (* should_run is evaluated once per visited task (never under --again);
       create_new_version once per lowered experiment *)
    q_sr : sr_calls s = if again then [] else rev (map fst (visited s));
    q_nv : nv_calls s = flat_map (fun oi => match t_kind (info (op_task oi)) with KExperiment => [op_task oi] | _ => [] end) (ops s)
  }.

  Lemma qinit : QInv (pinit root).
  Proof.
    constructor; cbn [pinit store stack visited cached length sr_calls nv_calls ops].
    - intros i Hi. assert (i = 0) by (simpl in Hi; lia). subst. cbn. constructor.
    - intros t i [].
    - intros t [].
    - constructor.
    - intros t i [].
    - right. exists 0. split; [left; reflexivity | reflexivity].
    - intros i Hi Hs. assert (i = 0) by (simpl in Hi; lia). subst. cbn in Hs. discriminate.
    - cbn. destruct again; reflexivity.
    - reflexivity.
  Qed.

  (* a stack entry that is popped as "already visited" or becomes visited stays accounted for *)
  Lemma acct_pop (V V' : list (nat * nat)) (st : list ltask) i stk d :
    (forall t x, In (t, x) V -> In (t, x) V') ->
    (exists v, In (task_at st i, v) V') ->
    ((exists j, In (d, j) V) \/ (exists j, In j (i :: stk) /\ task_at st j = d)) ->
    (exists j, In (d, j) V') \/ (exists j, In j stk /\ task_at st j = d).
  Proof.
    intros Hsub (v & Hv) [(j & Hj)|(j & [<-|Hj] & Ht)].
    - left. eauto.
    - left. exists v. now rewrite <- Ht.
    - right. eauto.
  Qed.

  Theorem pstep_qinv s s' : PInv info s -> QInv s -> pstep info sr again s = Some s' -> QInv s'.
  Proof.
    intros I Q. unfold pstep. destruct (stack s) as [|i stk] eqn:Es; [discriminate|].
    fold (lt_at (store s) i). fold (task_at (store s) i).
    assert (Hin : In i (stack s)) by (rewrite Es; left; reflexivity).
    pose proof (k_ok _ _ I i Hin) as Hi.
    destruct (pend _ _ I i Hin) as [Hout Hp].
    assert (Hnd : NoDup (i :: stk)).
    { rewrite <- Es. apply (k_nodup _ _ I). }
    inversion Hnd as [|? ? Hni Hnd']; subst.
    set (t := task_at (store s) i) in *.
    destruct (lt_second (lt_at (store s) i)) eqn:Hsec; cbn [negb].
    - (* second visit *)
      intros H. inversion H; subst. clear H. rewrite Hout. cbn [app].
      set (ltD := {| lt_task := t; lt_second := true; lt_deps := lt_deps (lt_at (store s) i);
                     lt_out := Own [length (ops s)] |}).
      assert (Htask : forall j, task_at (set_nth i ltD (store s)) j = task_at (store s) j) by (apply task_at_set; [assumption | reflexivity]).
      assert (Hlen : length (set_nth i ltD (store s)) = length (store s)) by apply length_set_nth.
      pose proof (sec_primary _ _ I i Hi Hsec) as Hprim. apply lookup_In in Hprim. fold t in Hprim.
      constructor; cbn [store stack visited cached sr_calls nv_calls ops]; rewrite ?Hlen.
      + intros x Hx. rewrite Htask. now apply (q_reach _ Q).
      + intros t' x Hx. destruct (q_status _ Q t' x Hx) as [H1 H2].
        destruct (Nat.eq_dec x i) as [->|Hne].
        * rewrite lt_at_set_eq by assumption. cbn. split; [reflexivity|]. intros Hr. destruct (H2 Hr). congruence.
        * now rewrite lt_at_set_neq by auto.
      + apply (q_cached _ Q).
      + apply (q_cached_nodup _ Q).
      + intros t' x Hx Hr d Hd.
        pose proof (q_closed _ Q t' x Hx Hr d Hd) as Hc. rewrite Es in Hc.
        destruct (acct_pop (visited s) (visited s) (store s) i stk d (fun _ _ h => h) (ex_intro _ i Hprim) Hc) as [H|(j & Hj & Ht)];
          [left; assumption | right; exists j; split; [assumption | now rewrite Htask]].
      + pose proof (q_root _ Q) as Hc. rewrite Es in Hc.
        destruct (acct_pop (visited s) (visited s) (store s) i stk root (fun _ _ h => h) (ex_intro _ i Hprim) Hc) as [H|(j & Hj & Ht)];
          [left; assumption | right; exists j; split; [assumption | now rewrite Htask]].
      + intros x Hx Hs. destruct (Nat.eq_dec x i) as [->|Hne].
        * right. rewrite lt_at_set_eq by assumption. cbn. eauto.
        * rewrite lt_at_set_neq in * by auto. destruct (q_done _ Q x Hx Hs) as [H|H]; [|right; assumption].
          left. rewrite Es in H. destruct H as [->|H]; [congruence | assumption].
      + apply (q_sr _ Q).
      + rewrite flat_map_app. cbn [flat_map op_task]. rewrite app_nil_r, <- (q_nv _ Q).
        fold t. destruct (t_kind (info t)); reflexivity || now rewrite app_nil_r.
    - destruct (Hp eq_refl) as [Hnprim Hnodeps].
      destruct (lookup t (visited s)) as [v|] eqn:El.
      + (* alias *)
        intros H. inversion H; subst. clear H.
        set (ltA := {| lt_task := t; lt_second := false; lt_deps := lt_deps (lt_at (store s) i); lt_out := Alias v |}).
        assert (Htask : forall j, task_at (set_nth i ltA (store s)) j = task_at (store s) j) by (apply task_at_set; [assumption | reflexivity]).
        assert (Hlen : length (set_nth i ltA (store s)) = length (store s)) by apply length_set_nth.
        pose proof (lookup_In _ _ _ El) as Hv.
        constructor; cbn [store stack visited cached sr_calls nv_calls ops]; rewrite ?Hlen.
        * intros x Hx. rewrite Htask. now apply (q_reach _ Q).
        * intros t' x Hx. destruct (q_status _ Q t' x Hx) as [H1 H2].
          destruct (Nat.eq_dec x i) as [->|Hne].
          -- exfalso. destruct (v_ok _ _ I t' i Hx) as [_ Et]. fold t in Et. subst t'.
             apply Hnprim. rewrite <- El. apply In_lookup; [apply (v_keys _ _ I) | assumption].
          -- now rewrite lt_at_set_neq by auto.
        * apply (q_cached _ Q).
        * apply (q_cached_nodup _ Q).
        * intros t' x Hx Hr d Hd.
          pose proof (q_closed _ Q t' x Hx Hr d Hd) as Hc. rewrite Es in Hc.
          destruct (acct_pop (visited s) (visited s) (store s) i stk d (fun _ _ h => h) (ex_intro _ v Hv) Hc) as [H|(j & Hj & Ht)];
            [left; assumption | right; exists j; split; [assumption | now rewrite Htask]].
        * pose proof (q_root _ Q) as Hc. rewrite Es in Hc.
          destruct (acct_pop (visited s) (visited s) (store s) i stk root (fun _ _ h => h) (ex_intro _ v Hv) Hc) as [H|(j & Hj & Ht)];
            [left; assumption | right; exists j; split; [assumption | now rewrite Htask]].
        * intros x Hx Hs. destruct (Nat.eq_dec x i) as [->|Hne].
          -- rewrite lt_at_set_eq in Hs by assumption. discriminate.
          -- rewrite lt_at_set_neq in * by auto. destruct (q_done _ Q x Hx Hs) as [H|H]; [|right; assumption].
             left. rewrite Es in H. destruct H as [->|H]; [congruence | assumption].
        * apply (q_sr _ Q).
        * apply (q_nv _ Q).
      + destruct (negb again && negb (sr t)) eqn:Ecache.
        * (* reusable result: reported cached, not traversed *)
          intros H. inversion H; subst. clear H.
          assert (Hr : runs t = false).
          { unfold runs. apply andb_true_iff in Ecache as [E1 E2]. apply negb_true_iff in E1, E2. now rewrite E1, E2. }
          assert (Hsub : forall t' x, In (t', x) (visited s) -> In (t', x) ((t, i) :: visited s)) by (intros; right; assumption).
          constructor; cbn [store stack visited cached sr_calls nv_calls ops].
          -- apply (q_reach _ Q).
          -- intros t' x [Hx|Hx].
             ++ inversion Hx; subst. split; [congruence|]. intros _. split; [apply in_or_app; right; left; reflexivity | assumption].
             ++ destruct (q_status _ Q t' x Hx) as [H1 H2]. split; [assumption|]. intros Hr'. destruct (H2 Hr').
                split; [apply in_or_app; left; assumption | assumption].
          -- intros t' Ht'. apply in_app_or in Ht' as [Ht'|[<-|[]]].
             ++ destruct (q_cached _ Q t' Ht') as [H1 (x & Hx)]. split; [assumption|]. exists x. right; assumption.
             ++ split; [assumption|]. exists i. left; reflexivity.
          -- apply NoDup_app_intro; [apply (q_cached_nodup _ Q) | repeat constructor; intros [] |].
             intros x Hx [<-|[]]. destruct (q_cached _ Q _ Hx) as [_ (w & Hw)].
             apply (proj1 (lookup_None _ _) El w). assumption.
          -- intros t' x [Hx|Hx] Hr' d Hd; [inversion Hx; subst; congruence|].
             pose proof (q_closed _ Q t' x Hx Hr' d Hd) as Hc. rewrite Es in Hc.
             apply (acct_pop (visited s) ((t, i) :: visited s) (store s) i stk d Hsub); [|assumption].
             exists i. left; reflexivity.
          -- pose proof (q_root _ Q) as Hc. rewrite Es in Hc.
             apply (acct_pop (visited s) ((t, i) :: visited s) (store s) i stk root Hsub); [|assumption].
             exists i. left; reflexivity.
          -- intros x Hx Hs. destruct (q_done _ Q x Hx Hs) as [H|H]; [|right; assumption].
             left. rewrite Es in H. destruct H as [->|H]; [congruence | assumption].
          -- rewrite (q_sr _ Q). apply andb_true_iff in Ecache as [E1 _]. apply negb_true_iff in E1. rewrite E1.
             cbn [map fst rev]. reflexivity.
          -- apply (q_nv _ Q).
        * (* must run: expand *)
          destruct (push_deps _ _ _ _ _) as [[st1 stk1] deps1] eqn:Epd.
          intros H. inversion H; subst. clear H.
          assert (Hr : runs t = true).
          { unfold runs. apply andb_false_iff in Ecache as [E|E]; apply negb_false_iff in E; rewrite E; [reflexivity | apply orb_true_r]. }
          destruct (push_deps_spec _ _ _ _ _ _ _ _ Epd) as (new & newidx & idxs & E1 & E2 & E3 & E4 & E5 & E6 & E7).
          simpl in E3. subst deps1.
          set (ltC := {| lt_task := t; lt_second := true; lt_deps := idxs; lt_out := lt_out (lt_at (store s) i) |}).
          set (n0 := length (store s)) in *.
          assert (Hlen1 : length st1 = n0 + length new) by (rewrite E1, app_length; reflexivity).
          assert (Hlen' : length (set_nth i ltC st1) = n0 + length new) by (rewrite length_set_nth; assumption).
          assert (Hi1 : i < length st1) by lia.
          assert (Hold1 : forall x, x < n0 -> lt_at st1 x = lt_at (store s) x).
          { intros x Hx. unfold lt_at. rewrite E1. now apply app_nth1. }
          assert (Hati : lt_at (set_nth i ltC st1) i = ltC) by now apply lt_at_set_eq.
          assert (Hold : forall x, x < n0 -> x <> i -> lt_at (set_nth i ltC st1) x = lt_at (store s) x).
          { intros x Hx Hne. rewrite lt_at_set_neq by auto. now apply Hold1. }
          assert (Hnew : forall x, n0 <= x -> lt_at (set_nth i ltC st1) x = lt_at st1 x).
          { intros x Hx. apply lt_at_set_neq. lia. }
          assert (Htask_old : forall x, x < n0 -> task_at (set_nth i ltC st1) x = task_at (store s) x).
          { intros x Hx. unfold task_at. destruct (Nat.eq_dec x i) as [->|Hne]; [rewrite Hati; reflexivity | now rewrite Hold]. }
          assert (Htask_new : forall x, n0 <= x -> task_at (set_nth i ltC st1) x = task_at st1 x).
          { intros x Hx. unfold task_at. now rewrite Hnew. }
          assert (Hnewidx : forall x, In x newidx <-> n0 <= x < n0 + length new).
          { intros x. rewrite E5. apply in_seq. }
          assert (Hsub : forall t' x, In (t', x) (visited s) -> In (t', x) ((t, i) :: visited s)) by (intros; right; assumption).
          assert (Hstk : forall j, In j (i :: stk) -> In j stk1) by (intros j Hj; rewrite E2; apply in_or_app; right; assumption).
          assert (Hacct : forall d, (exists j, In (d, j) (visited s)) \/ (exists j, In j (i :: stk) /\ task_at (store s) j = d) ->
                                    (exists j, In (d, j) ((t, i) :: visited s)) \/
                                    (exists j, In j stk1 /\ task_at (set_nth i ltC st1) j = d)).
          { intros d [(j & Hj)|(j & Hj & Ht)]; [left; eauto|]. right. exists j. split; [auto|].
            rewrite Htask_old; [assumption|]. apply (k_ok _ _ I). rewrite Es. assumption. }
          constructor; cbn [store stack visited cached sr_calls nv_calls ops]; rewrite ?Hlen'.
          -- intros x Hx. destruct (Nat.lt_ge_cases x n0) as [Hlt|Hge].
             ++ rewrite Htask_old by assumption. now apply (q_reach _ Q).
             ++ rewrite Htask_new by assumption. destruct (E6 x) as (_ & B & _); [apply Hnewidx; lia|].
                apply (nr_step t); [apply (q_reach _ Q i Hi) | assumption | now apply in_rev].
          -- intros t' x [Hx|Hx].
             ++ inversion Hx; subst. rewrite Hati. cbn. split; [reflexivity | congruence].
             ++ destruct (v_ok _ _ I t' x Hx) as [Hxn _]. fold n0 in Hxn.
                assert (x <> i).
                { intros ->. destruct (v_ok _ _ I t' i Hx) as [_ Et]. fold t in Et. subst t'.
                  apply (proj1 (lookup_None _ _) El i). assumption. }
                rewrite Hold by assumption. now apply (q_status _ Q).
          -- intros t' Ht'. destruct (q_cached _ Q t' Ht') as [H1 (x & Hx)]. split; [assumption|]. exists x. right; assumption.
          -- apply (q_cached_nodup _ Q).
          -- intros t' x [Hx|Hx] Hr' d Hd.
             ++ inversion Hx; subst t' x. apply in_rev in Hd. apply In_nth_error in Hd as (k & Hk).
                destruct (E7 k d Hk) as (j & _ & [Hc|(_ & Hc2 & Hc3)]).
                ** left. exists j. now apply lookup_In.
                ** right. exists j. split; [rewrite E2; apply in_or_app; left; rewrite <- in_rev; assumption|].
                   rewrite Htask_new; [assumption|]. apply Hnewidx in Hc2. lia.
             ++ apply Hacct. rewrite <- Es. now apply (q_closed _ Q t' x).
          -- apply Hacct. rewrite <- Es. apply (q_root _ Q).
          -- intros x Hx Hs. destruct (Nat.lt_ge_cases x n0) as [Hlt|Hge].
             ++ destruct (Nat.eq_dec x i) as [->|Hne].
                ** left. apply Hstk. left; reflexivity.
                ** rewrite Hold in * by assumption. destruct (q_done _ Q x Hlt Hs) as [H|H]; [|right; assumption].
                   left. apply Hstk. now rewrite <- Es.
             ++ rewrite Hnew in Hs by assumption. destruct (E6 x) as (A & _); [apply Hnewidx; lia|].
                rewrite A in Hs. discriminate.
          -- rewrite (q_sr _ Q). destruct again; [reflexivity|]. cbn [map fst rev]. reflexivity.
          -- apply (q_nv _ Q).
  Qed.

  Lemma piter_both fuel : forall s s',
    PInv info s -> QInv s -> piter info sr again fuel s = Some s' -> PInv info s' /\ QInv s' /\ stack s' = [].
  Proof.
    induction fuel as [|f IH]; intros s s' I Q; cbn [piter]; [discriminate|].
    destruct (pstep info sr again s) as [s1|] eqn:E.
    - intros H. eapply IH; [| |exact H]; [eapply pstep_inv; eauto | eapply pstep_qinv; eauto].
    - intros H. inversion H; subst.
      destruct (piter_inv info sr again deps_nodup 1 s' s' I) as [_ Hst]; [cbn [piter]; now rewrite E|]. auto.
  Qed.

  Section Final.
    Variable s : pstate.
    Hypothesis I : PInv info s.
    Hypothesis Q : QInv s.
    Hypothesis Hstack : stack s = [].

    Lemma visited_iff_reach t : (exists i, In (t, i) (visited s)) <-> NReach t.
    Proof.
      split.
      - intros (i & Hi). destruct (v_ok _ _ I t i Hi) as [Hlt <-]. now apply (q_reach _ Q).
      - induction 1 as [|x y _ IH Hr Hd].
        + destruct (q_root _ Q) as [H|(j & Hj & _)]; [assumption | rewrite Hstack in Hj; destruct Hj].
        + destruct IH as (i & Hi).
          destruct (q_closed _ Q x i Hi Hr y Hd) as [H|(j & Hj & _)]; [assumption | rewrite Hstack in Hj; destruct Hj].
    Qed.

    (* the lowered tasks are exactly the needed ones *)
    Lemma ops_iff_needed t :
      (exists o, o < length (ops s) /\ op_task (op_at (ops s) o) = t) <-> Needed t.
    Proof.
      split.
      - intros (o & Ho & <-).
        destruct (op_primary _ _ I o Ho) as (i & Hi & Hoi).
        destruct (o_own _ _ I i [o] Hi Hoi) as [_ H1]. destruct (H1 o (or_introl eq_refl)) as (_ & Ht & Hs).
        pose proof (sec_primary _ _ I i Hi Hs) as Hp. apply lookup_In in Hp. rewrite Ht.
        split; [apply visited_iff_reach; eauto|].
        destruct (q_status _ Q _ _ Hp) as [_ H2]. destruct (runs (task_at (store s) i)); [reflexivity|].
        destruct (H2 eq_refl). congruence.
      - intros [Hr Hruns]. apply visited_iff_reach in Hr as (i & Hi).
        destruct (v_ok _ _ I t i Hi) as [Hlt Ht].
        destruct (q_status _ Q t i Hi) as [H1 _]. specialize (H1 Hruns).
        destruct (q_done _ Q i Hlt H1) as [H|(o & Ho)]; [rewrite Hstack in H; destruct H|].
        destruct (o_own _ _ I i [o] Hlt Ho) as [_ H3]. destruct (H3 o (or_introl eq_refl)) as (A & B & _).
        exists o. split; [assumption | congruence].
    Qed.

    (* the tasks reported as cached are exactly the frontier of reusable results *)
    Lemma cached_iff_frontier t : In t (cached s) <-> Frontier t.
    Proof.
      split.
      - intros H. destruct (q_cached _ Q t H) as [Hr (i & Hi)]. split; [apply visited_iff_reach; eauto | assumption].
      - intros [Hr Hruns]. apply visited_iff_reach in Hr as (i & Hi).
        destruct (q_status _ Q t i Hi) as [_ H2]. now destruct (H2 Hruns).
    Qed.

    Lemma op_tasks_nodup : NoDup (map op_task (ops s)).
    Proof.
      apply (proj2 (NoDup_nth (map op_task (ops s)) 0)). intros a b Ha Hb E. rewrite map_length in Ha, Hb.
      change 0 with (op_task dummy_op) in E. rewrite !map_nth in E.
      assert (Hinj : forall o o', o < length (ops s) -> o' < length (ops s) ->
                op_task (op_at (ops s) o) = op_task (op_at (ops s) o') -> o = o').
      { intros o o' Ho Ho' E'.
        destruct (op_primary _ _ I o Ho) as (i & Hi & Hoi).
        destruct (op_primary _ _ I o' Ho') as (i' & Hi' & Hoi').
        destruct (o_own _ _ I i [o] Hi Hoi) as [_ H1]. destruct (H1 o (or_introl eq_refl)) as (_ & Ht & Hs).
        destruct (o_own _ _ I i' [o'] Hi' Hoi') as [_ H1']. destruct (H1' o' (or_introl eq_refl)) as (_ & Ht' & Hs').
        pose proof (sec_primary _ _ I i Hi Hs) as Hp. pose proof (sec_primary _ _ I i' Hi' Hs') as Hp'.
        assert (Ei : i = i') by (rewrite <- Ht, E', Ht' in Hp; congruence).
        subst i'. rewrite Hoi in Hoi'. inversion Hoi'. reflexivity. }
      now apply Hinj.
    Qed.

    (* should_run / create_new_version are invoked at most once per task *)
    Lemma sr_calls_nodup : NoDup (sr_calls s).
    Proof.
      rewrite (q_sr _ Q). destruct again; [constructor|]. apply NoDup_rev. apply (v_keys _ _ I).
    Qed.

    Lemma nv_calls_nodup : NoDup (nv_calls s).
    Proof.
      rewrite (q_nv _ Q). pose proof op_tasks_nodup as H. induction (ops s) as [|oi l IH]; simpl; [constructor|].
      inversion H as [|? ? Hn Hl]; subst. specialize (IH Hl).
      destruct (t_kind (info (op_task oi))); simpl; try assumption.
      constructor; [|assumption]. intros Hin. apply Hn. apply in_flat_map in Hin as (oj & Hoj & Hx).
      apply in_map_iff. exists oj. split; [|assumption].
      destruct (t_kind (info (op_task oj))); simpl in Hx; try contradiction. destruct Hx as [Hx|[]]. exact Hx.
    Qed.
  End Final.

  Theorem plan_exact fuel ps :
    plan_for info sr again fuel root = Some ps ->
    (forall t, (exists o, o < length (ops ps) /\ op_task (op_at (ops ps) o) = t) <-> Needed t) /\
    NoDup (map op_task (ops ps)) /\
    (forall t, In t (cached ps) <-> Frontier t) /\ NoDup (cached ps) /\
    (forall t, In t (cached ps) -> ~ In t (map op_task (ops ps))) /\
    p_num (plan_of ps) = length (ops ps) /\
    NoDup (sr_calls ps) /\ NoDup (nv_calls ps).
  Proof.
    unfold plan_for. intros H.
    destruct (piter_both fuel (pinit root) ps (init_inv info root) qinit H) as (I & Q & Hst).
    split; [intros t; now apply ops_iff_needed|]. split; [now apply op_tasks_nodup|].
    split; [intros t; now apply cached_iff_frontier|]. split; [apply (q_cached_nodup _ Q)|].
    split.
    - intros t Hc Ho. apply (cached_iff_frontier ps I Q Hst) in Hc as [_ Hr].
      apply in_map_iff in Ho as (oi & Et & Hoi). apply In_nth with (d := dummy_op) in Hoi as (o & Ho & Eo).
      assert (Hn : Needed t) by (apply (ops_iff_needed ps I Q Hst); exists o; split; [assumption|]; unfold op_at; now rewrite Eo).
      destruct Hn. congruence.
    - split; [reflexivity|]. split; [now apply sr_calls_nodup | now apply nv_calls_nodup].
  Qed.
End Exact.
