(* C16: whenever ConductorAbort reaches run_plan, the processes that are sent SIGTERM are exactly the task processes that
   exist -- for every position (and any number) of signals around and inside the launch of an operation -- and a signal is
   never lost.  Model/Abort.v; the loop level reuses the executor invariants of Model/Exec.v. *)
From Coq Require Import List Arith Bool Lia NArith.
From Conductor Require Import Model.Loader Model.Planner Model.Exec Model.Abort
  Proofs.ExecInv Proofs.ExecTheorems Proofs.ExecMain.
Import ListNotations.

Definition I (o : nat) (k : lkind) (st : nat) (skipping : bool) (s : lstate) : Prop :=
  match st with
  | 0 => depth s = 0 /\ pending s = false /\ skipping = false /\ same_set (registered s) (existing s)
  | 1 => depth s = 1 /\ skipping = false /\ same_set (registered s) (existing s)
  | 2 => depth s = 1 /\
         match k with
         | LProcess => skipping = false /\ same_set (registered s ++ [o]) (existing s)
         | LSync => skipping = false /\ same_set (registered s) (existing s)
         | LFails => skipping = true /\ same_set (registered s) (existing s)
         end
  | _ => depth s = 1 /\ (skipping = true <-> k = LFails) /\ same_set (registered s) (existing s)
  end.

Definition good (r : result) : Prop :=
  match r with
  | Abort kl lv => same_set kl lv
  | Cont s => depth s = 0 /\ pending s = false /\ same_set (registered s) (existing s)
  end.

Definition noted (s : lstate) : lstate := {| depth := depth s; pending := true; existing := existing s; registered := registered s |}.

Lemma deliver_inside s : depth s = 1 -> deliver s = Cont (noted s).
Proof. intros H. unfold deliver, noted. rewrite H. reflexivity. Qed.

Lemma deliver_outside s : depth s = 0 -> deliver s = Abort (registered s) (existing s).
Proof. intros H. unfold deliver. rewrite H. reflexivity. Qed.

Lemma I_noted o k st sk s : 1 <= st -> I o k st sk s -> I o k st sk (noted s).
Proof. intros Hst. destruct st as [|[|[|st]]]; [lia| | |]; cbn; auto. Qed.

Lemma same_set_snoc a b o : same_set (a ++ [o]) b -> same_set (a ++ [o]) b.
Proof. auto. Qed.

Lemma same_set_app_snoc a b o : same_set a b -> same_set (a ++ [o]) (b ++ [o]).
Proof. intros H x. rewrite !in_app_iff. rewrite (H x). tauto. Qed.

(* one statement executed at a position where the invariant holds (no signal): the invariant holds at the next position *)
Lemma run_good o k : forall prog st sigs sk s,
  shape st prog = true -> I o k st sk s -> good (run o k prog sigs sk s).
Proof.
  induction prog as [|i prog IH]; intros st sigs sk s Hsh HI; [discriminate|].
  cbn [run].
  (* the signal before this statement *)
  assert (Hsig : (hd false sigs = true /\ st = 0) \/
                 exists s1, (if hd false sigs then deliver s else Cont s) = Cont s1 /\ I o k st sk s1).
  { destruct (hd false sigs) eqn:Eb; [|right; exists s; auto].
    destruct st as [|st]; [left; auto|]. right. exists (noted s). split; [|apply I_noted; [lia|exact HI]].
    apply deliver_inside. destruct st as [|[|st]]; cbn in HI; tauto. }
  destruct Hsig as [[Eb E0]|(s1 & E1 & HI1)].
  { subst st. rewrite Eb. destruct HI as (Hd & _ & _ & Hs). rewrite (deliver_outside s Hd). exact Hs. }
  rewrite E1. clear E1 HI s. rename s1 into s, HI1 into HI.
  destruct i; cbn [shape] in Hsh.
  - (* IEnter *) destruct st as [|st]; [|discriminate]. destruct HI as (Hd & Hp & Hk & Hs). subst sk.
    apply (IH 1); [exact Hsh|]. cbn. rewrite Hd. auto.
  - (* IOther *) destruct st as [|st]; [discriminate|]. apply (IH (S st)); assumption.
  - (* IStart *) destruct st as [|[|st]]; try discriminate. destruct HI as (Hd & Hk & Hs). subst sk.
    destruct k; apply (IH 2); try exact Hsh; cbn; (split; [exact Hd|]); split; try reflexivity; try exact Hs.
    apply same_set_app_snoc. exact Hs.
  - (* IRegister *) destruct st as [|[|[|st]]]; try discriminate. destruct HI as (Hd & HK).
    destruct k; destruct HK as (Hk & Hs); subst sk; apply (IH 3); try exact Hsh; cbn; (split; [exact Hd|]); split; try exact Hs;
      split; intros; try discriminate; try reflexivity.
  - (* ILeave *) destruct st as [|[|[|[|st]]]]; try discriminate. destruct prog; [|discriminate].
    destruct HI as (Hd & _ & Hs). rewrite Hd. cbn [pred Nat.eqb andb].
    destruct (pending s) eqn:Ep; cbn [andb run good]; [exact Hs|]. cbn. auto.
Qed.

(* no signal is lost: if one arrives before any statement of the block (or was noted already), ConductorAbort is raised *)
Lemma run_no_loss o k : forall prog st sigs sk s,
  shape st prog = true -> I o k st sk s ->
  (1 <= st /\ pending s = true) \/ existsb (fun b => b) (firstn (length prog) sigs) = true ->
  exists kl lv, run o k prog sigs sk s = Abort kl lv.
Proof.
  induction prog as [|i prog IH]; intros st sigs sk s Hsh HI Hp; [discriminate|].
  cbn [run].
  destruct (hd false sigs) eqn:Eb.
  - (* a signal right here *)
    destruct st as [|st].
    + destruct HI as (Hd & _). rewrite (deliver_outside s Hd). eauto.
    + assert (Hd : depth s = 1) by (destruct st as [|[|st]]; cbn in HI; tauto).
      rewrite (deliver_inside s Hd).
      assert (HI' : I o k (S st) sk (noted s)) by (apply I_noted; [lia|exact HI]).
      assert (Hp' : 1 <= S st /\ pending (noted s) = true) by (split; [lia|reflexivity]).
      clear Hp HI. revert HI' Hp'. generalize (noted s). clear s Hd. intros s HI Hp.
      destruct i; cbn [shape] in Hsh.
      * discriminate.
      * eapply (IH (S st)); eauto.
      * destruct st as [|st]; [|discriminate]. destruct HI as (Hd & Hk & Hs). subst sk.
        destruct k; eapply (IH 2); try exact Hsh; try (left; split; [lia|cbn; tauto]); cbn; (split; [exact Hd|]); split; try reflexivity; try exact Hs.
        apply same_set_app_snoc. exact Hs.
      * destruct st as [|[|st]]; try discriminate. destruct HI as (Hd & HK).
        destruct k; destruct HK as (Hk & Hs); subst sk; eapply (IH 3); try exact Hsh; try (left; split; [lia|cbn; tauto]); cbn; (split; [exact Hd|]); split; try exact Hs;
          split; intros; try discriminate; try reflexivity.
      * destruct st as [|[|[|st]]]; try discriminate. destruct prog; [|discriminate].
        destruct HI as (Hd & _). rewrite Hd. destruct Hp as (_ & Hp). rewrite Hp. cbn. eauto.
  - (* no signal here *)
    assert (Hp' : (1 <= st /\ pending s = true) \/ existsb (fun b => b) (firstn (length prog) (tl sigs)) = true).
    { destruct Hp as [Hp|Hp]; [left; exact Hp|]. right. destruct sigs as [|b sigs]; [cbn in Hp; discriminate|].
      cbn [hd] in Eb. subst b. cbn [length firstn existsb orb tl] in *. exact Hp. }
    clear Hp. destruct i; cbn [shape] in Hsh.
    + destruct st as [|st]; [|discriminate]. destruct HI as (Hd & Hpf & Hk & Hs). subst sk.
      eapply (IH 1); [exact Hsh| |].
      * cbn. rewrite Hd. auto.
      * destruct Hp' as [(_ & Hp)|Hp]; [rewrite Hpf in Hp; discriminate | right; exact Hp].
    + destruct st as [|st]; [discriminate|]. eapply (IH (S st)); eauto.
    + destruct st as [|[|st]]; try discriminate. destruct HI as (Hd & Hk & Hs). subst sk.
      assert (Hp2 : (1 <= 2 /\ pending s = true) \/ existsb (fun b => b) (firstn (length prog) (tl sigs)) = true)
        by (destruct Hp' as [(_ & Hp)|Hp]; [left; split; [lia|exact Hp] | right; exact Hp]).
      destruct k; eapply (IH 2); try exact Hsh; try exact Hp2; cbn; (split; [exact Hd|]); split; try reflexivity; try exact Hs.
      apply same_set_app_snoc. exact Hs.
    + destruct st as [|[|[|st]]]; try discriminate. destruct HI as (Hd & HK).
      assert (Hp3 : (1 <= 3 /\ pending s = true) \/ existsb (fun b => b) (firstn (length prog) (tl sigs)) = true)
        by (destruct Hp' as [(_ & Hp)|Hp]; [left; split; [lia|exact Hp] | right; exact Hp]).
      destruct k; destruct HK as (Hk & Hs); subst sk; eapply (IH 3); try exact Hsh; try exact Hp3; cbn; (split; [exact Hd|]); split; try exact Hs;
        split; intros; try discriminate; try reflexivity.
    + destruct st as [|[|[|[|st]]]]; try discriminate. destruct prog; [|discriminate].
      destruct HI as (Hd & _). rewrite Hd. destruct Hp' as [(_ & Hp)|Hp]; [rewrite Hp; cbn; eauto | cbn in Hp; discriminate].
Qed.

(* without a signal the launch ends outside the region, nothing pending, the new process (if any) registered *)
Lemma run_quiet o k prog s :
  shape 0 prog = true -> depth s = 0 -> pending s = false ->
  forall r, run o k prog [] false s = r ->
  exists s', r = Cont s' /\ depth s' = 0 /\ pending s' = false /\
    match k with
    | LProcess => existing s' = existing s ++ [o] /\ registered s' = registered s ++ [o]
    | _ => existing s' = existing s /\ registered s' = registered s
    end.
Proof.
  intros Hsh Hd Hp r <-.
  assert (G : forall prog st sk s0,
    shape st prog = true -> pending s0 = false ->
    match st with 0 => depth s0 = 0 /\ sk = false | _ => depth s0 = 1 end ->
    (st <= 1 -> sk = false) -> (sk = true -> k = LFails) ->
    exists s', run o k prog [] sk s0 = Cont s' /\ depth s' = 0 /\ pending s' = false /\
      match k with
      | LProcess => (st <= 1 -> existing s' = existing s0 ++ [o]) /\ (2 <= st -> existing s' = existing s0) /\
                    (st <= 2 -> registered s' = registered s0 ++ [o]) /\ (3 <= st -> registered s' = registered s0)
      | _ => existing s' = existing s0 /\ registered s' = registered s0
      end).
  { clear. induction prog as [|i prog IH]; intros st sk s0 Hsh Hp Hdep Hsk1 Hsk2; [discriminate|].
    cbn [run hd tl]. destruct i; cbn [shape] in Hsh.
    - destruct st as [|st]; [|discriminate]. destruct Hdep as (Hd & ->).
      destruct (IH 1 false (with_depth (S (depth s0)) s0) Hsh Hp) as (s' & E & H1 & H2 & H3); [cbn; rewrite Hd; reflexivity|auto|discriminate|].
      exists s'. split; [exact E|]. split; [exact H1|]. split; [exact H2|]. destruct k; cbn in H3; try exact H3.
      destruct H3 as (A & B & C & D). repeat split; intros; try lia; auto.
    - destruct st as [|st]; [discriminate|]. destruct (IH (S st) sk s0 Hsh Hp Hdep Hsk1 Hsk2) as (s' & E & H); eauto.
    - destruct st as [|[|st]]; try discriminate. rewrite (Hsk1 (le_n 1)).
      destruct k.
      + destruct (IH 2 false {| depth := depth s0; pending := pending s0; existing := existing s0 ++ [o]; registered := registered s0 |} Hsh Hp Hdep) as (s' & E & H1 & H2 & A & B & C & D); [lia|discriminate|].
        exists s'. split; [exact E|]. split; [exact H1|]. split; [exact H2|]. cbn in *. repeat split; intros; try lia; auto.
      + destruct (IH 2 false s0 Hsh Hp Hdep) as (s' & E & H); [lia|discriminate|]. eauto.
      + destruct (IH 2 true s0 Hsh Hp Hdep) as (s' & E & H); [lia|reflexivity|]. eauto.
    - destruct st as [|[|[|st]]]; try discriminate.
      destruct sk.
      + pose proof (Hsk2 eq_refl) as ->. destruct (IH 3 true s0 Hsh Hp Hdep) as (s' & E & H); [lia|reflexivity|]. eauto.
      + destruct k.
        * destruct (IH 3 false {| depth := depth s0; pending := pending s0; existing := existing s0; registered := registered s0 ++ [o] |} Hsh Hp Hdep) as (s' & E & H1 & H2 & A & B & C & D); [lia|discriminate|].
          exists s'. split; [exact E|]. split; [exact H1|]. split; [exact H2|]. cbn in *. repeat split; intros; try lia; auto.
        * destruct (IH 3 false s0 Hsh Hp Hdep) as (s' & E & H); [lia|discriminate|]. eauto.
        * destruct (IH 3 false s0 Hsh Hp Hdep) as (s' & E & H); [lia|discriminate|]. eauto.
    - destruct st as [|[|[|[|st]]]]; try discriminate. destruct prog; [|discriminate].
      rewrite Hdep, Hp. cbn. exists (with_depth 0 s0). split; [reflexivity|]. split; [reflexivity|]. split; [exact Hp|].
      destruct k; cbn; repeat split; intros; try lia; auto. }
  destruct (G prog 0 false s Hsh Hp (conj Hd eq_refl)) as (s' & E & H1 & H2 & H3); [auto|discriminate|].
  exists s'. split; [exact E|]. split; [exact H1|]. split; [exact H2|].
  destruct k; try exact H3. destruct H3 as (A & _ & C & _). split; [apply A; lia | apply C; lia].
Qed.

(* ---- the loop level: between two launches (and while waiting) the registered processes are the processes of the
   executor state, which are exactly the started-and-unreaped asynchronous operations ---- *)
Definition at_loop (s : xstate) : lstate :=
  {| depth := 0; pending := false; existing := map fst (procs s); registered := map fst (procs s) |}.

Lemma loop_procs_are_started_unfinished p jobs stop orc :
  wf_plan p -> 1 <= jobs ->
  forall s, reachable p jobs stop orc s ->
  forall o, In o (existing (at_loop s)) ->
    (exists sl, In (EStart o sl) (trace s)) /\ (forall rc, ~ In (EFinish o rc) (trace s)).
Proof.
  intros wf Hj s Hr o Ho.
  destruct (main_limits p jobs stop orc wf Hj s Hr) as (_ & _ & _ & _ & _ & H & _).
  apply H. unfold infl, inflP. apply in_or_app. right. exact Ho.
Qed.

Lemma loop_started_unfinished_async_are_procs p jobs stop orc :
  wf_plan p -> 1 <= jobs ->
  forall s, reachable p jobs stop orc s ->
  forall o, (exists sl, In (EStart o sl) (trace s)) -> (forall rc, ~ In (EFinish o rc) (trace s)) ->
    In o (syncs s) \/ In o (registered (at_loop s)).
Proof.
  intros wf Hj s Hr o Hs Hf.
  destruct (main_limits p jobs stop orc wf Hj s Hr) as (_ & _ & _ & _ & _ & H & _).
  assert (Hin : In o (infl s)) by (apply H; auto).
  unfold infl, inflP in Hin. apply in_app_or in Hin. exact Hin.
Qed.

Lemma at_loop_I o k s : I o k 0 false (at_loop s).
Proof. cbn. repeat split; auto; intros x; tauto. Qed.
