From Coq Require Import List Arith Bool Lia NArith.
From Conductor Require Import Model.Loader Model.Planner Model.Exec Model.Abort
  Proofs.ExecInv Proofs.ExecTheorems Proofs.ExecMain.
Import ListNotations.

Lemma kill_all_except_in_popen pt :
  (forall s o, pt <> InLaunch s o InsidePopenAfterFork) -> same_set (killed pt) (live pt).
Proof.
  intros H x. destruct pt as [s|s o lp]; [reflexivity|].
  destruct lp; simpl; try reflexivity.
  - exfalso. eapply H. reflexivity.
  - rewrite in_app_iff. simpl. tauto.
Qed.

Lemma in_popen_refuted : exists pt x, In x (live pt) /\ ~ In x (killed pt).
Proof.
  exists (InLaunch (xinit {| p_ops := []; p_initial := []; p_cached := []; p_num := 0 |} 1) 0 InsidePopenAfterFork), 0.
  simpl. split; [auto | tauto].
Qed.

(* at every state of the loop the processes are exactly the started-and-unfinished asynchronous
   operations, so terminate_processes reaches every task process that exists *)
Lemma loop_procs_are_started_unfinished p jobs stop orc :
  wf_plan p -> 1 <= jobs ->
  forall s, reachable p jobs stop orc s ->
  forall o, In o (live (AtLoop s)) ->
    (exists sl, In (EStart o sl) (trace s)) /\ (forall rc, ~ In (EFinish o rc) (trace s)).
Proof.
  intros wf Hj s Hr o Ho.
  destruct (main_limits p jobs stop orc wf Hj s Hr) as (_ & _ & _ & _ & _ & H & _).
  apply H. unfold infl, inflP. apply in_or_app. right. exact Ho.
Qed.

Lemma loop_started_unfinished_async_are_procs p jobs stop orc :
  wf_plan p -> 1 <= jobs ->
  forall s, reachable p jobs stop orc s ->
  forall o, (exists sl, In (EStart o sl) (trace s)) -> (forall rc, ~ In (EFinish o rc) (trace s)) ->
    In o (syncs s) \/ In o (killed (AtLoop s)).
Proof.
  intros wf Hj s Hr o Hs Hf.
  destruct (main_limits p jobs stop orc wf Hj s Hr) as (_ & _ & _ & _ & _ & H & _).
  assert (Hin : In o (infl s)) by (apply H; auto).
  unfold infl, inflP in Hin. apply in_app_or in Hin. exact Hin.
Qed.
