(* Who is sent SIGTERM at the end of a run, end to end on the event list of the composed model
   (Executor.run_plan's `finally: self._inflight_ops.terminate_processes()`): exactly the operations that
   were started as processes and whose exit has not been observed -- none in a run that is not cut short. *)
From Coq Require Import List Arith Bool Lia NArith.
From Conductor Require Import Model.Loader Model.Planner Model.Exec Model.RunCase
  Proofs.ListFacts Proofs.PlannerInv Proofs.PlannerExact
  Proofs.ExecInv Proofs.ExecTheorems Proofs.ExecMain Proofs.ExecStatus Proofs.Compose Proofs.ComposeExec Proofs.ComposeRun Proofs.ComposeStop.
Import ListNotations.

Lemma report_shape p root s : exists hd, report p root s = [hd; EKill (map fst (procs s))] /\ (forall k, hd <> EKill k) /\
  (forall o sl, hd <> EStart o sl) /\ (forall o rc, hd <> EFinish o rc).
Proof.
  unfold report. destruct (_ && _).
  - eexists. split; [reflexivity|]. repeat split; intros; discriminate.
  - destruct (filter _ _); (eexists; split; [reflexivity|]; repeat split; intros; discriminate).
Qed.

Lemma nodup_app_r {A} (a b : list A) : NoDup (a ++ b) -> NoDup b.
Proof. induction a as [|x a IH]; [auto|]. intros H. inversion H; subst. auto. Qed.
Lemma nodup_app_l {A} (a b : list A) : NoDup (a ++ b) -> NoDup a.
Proof.
  induction a as [|x a IH]; [constructor|]. intros H. inversion H as [|? ? Hn Hd]; subst. constructor; [|auto].
  intros Hin. apply Hn. apply in_or_app. left. exact Hin.
Qed.

Section Kill.
  Variables (p : plan) (jobs : nat) (stop : bool) (orc : oracle).
  Hypothesis wf : wf_plan p.
  Hypothesis Hjobs : 1 <= jobs.

  (* the processes in flight: started, exit not observed, and not a synchronous (combine) operation *)
  Lemma procs_are_started_unfinished_processes s :
    reachable p jobs stop orc s ->
    NoDup (map fst (procs s)) /\
    forall o, In o (map fst (procs s)) <->
      (exists sl, In (EStart o sl) (trace s)) /\ (forall rc, ~ In (EFinish o rc) (trace s)) /\ op_sync (opi p o) = false.
  Proof.
    intros Hr. pose proof (reachable_inv _ _ _ _ _ wf Hjobs Hr) as HI.
    destruct (main_limits p jobs stop orc wf Hjobs s Hr) as (_ & _ & _ & _ & _ & Hinfl & _).
    pose proof (i_s _ _ _ _ _ HI) as HS. pose proof (i_c _ _ _ _ _ HI) as HC.
    split.
    - pose proof (c_nodup _ _ _ _ _ _ _ _ HC) as Hnd. unfold allqP in Hnd.
      apply nodup_app_r, nodup_app_r, nodup_app_r, nodup_app_l in Hnd. exact Hnd.
    - intros o. split.
      + intros Hin. destruct (proj1 (Hinfl o)) as (Hs & Hf); [unfold infl, inflP; apply in_or_app; right; exact Hin|].
        split; [exact Hs|]. split; [exact Hf|]. exact (proj1 (s_proc _ _ _ _ _ _ HS o Hin)).
      + intros (Hs & Hf & Hsy). pose proof (proj2 (Hinfl o) (conj Hs Hf)) as Hin. unfold infl, inflP in Hin.
        apply in_app_or in Hin as [Hin|Hin]; [|exact Hin].
        exfalso. destruct (s_sync _ _ _ _ _ _ HS o Hin) as (E & _). rewrite E in Hsy. discriminate.
  Qed.
End Kill.

Theorem cond_run_kill_set fuel tasks c loaded ps evs :
  cond_run fuel tasks c = ORun loaded ps (Some evs) -> 1 <= c_jobs c ->
  exists k,
    In (EKill k) evs /\ (forall k', In (EKill k') evs -> k' = k) /\ NoDup k /\
    (forall o, In o k <-> (exists sl, In (EStart o sl) evs) /\ (forall rc, ~ In (EFinish o rc) evs) /\
                           op_sync (op_at (ops ps) o) = false) /\
    (c_stop c = false -> k = []) /\
    ((forall e, In e evs -> is_failure e = false) -> k = []).
Proof.
  intros H Hjobs.
  destruct (cond_run_unfold _ _ _ _ _ _ H) as (Hload & Hplan & s & Hfin & Hev).
  pose proof (composed_wf tasks (c_root c) fuel loaded Hload (sr_of tasks) (c_again c) fuel ps Hplan) as Hwf.
  pose proof (final_reachable _ _ _ _ _ Hfin) as Hreach.
  destruct (report_shape (plan_of ps) (c_root c) s) as (hd & Erep & Hk & Hst & Hfi).
  destruct (reachable_events (plan_of ps) (c_jobs c) (c_stop c) (oracle_of (plan_of ps) c) s Hreach) as (Hloop & Hstopped).
  destruct (procs_are_started_unfinished_processes _ _ _ _ Hwf Hjobs s Hreach) as (Hnd & Hiff).
  assert (Hin_evs : forall e, In e evs <-> e = hd \/ e = EKill (map fst (procs s)) \/ In e (trace s)).
  { intros e. rewrite Hev, <- in_rev, Erep. cbn [app In]. intuition (subst; auto). }
  assert (Hstart : forall o sl, In (EStart o sl) evs <-> In (EStart o sl) (trace s)).
  { intros o sl. rewrite Hin_evs. split; [|auto]. intros [E|[E|Hin]]; [exfalso; eapply Hst; eauto | discriminate | exact Hin]. }
  assert (Hfinish : forall o rc, In (EFinish o rc) evs <-> In (EFinish o rc) (trace s)).
  { intros o rc. rewrite Hin_evs. split; [|auto]. intros [E|[E|Hin]]; [exfalso; eapply Hfi; eauto | discriminate | exact Hin]. }
  exists (map fst (procs s)). split; [apply Hin_evs; auto|]. split.
  { intros k' Hin. apply Hin_evs in Hin as [E|[E|Hin]]; [exfalso; eapply Hk; eauto | inversion E; reflexivity |].
    exfalso. exact (Hloop _ Hin). }
  split; [exact Hnd|]. split.
  { intros o. rewrite Hiff. unfold opi, plan_of; cbn [p_ops].
    split; intros ((sl & Hs) & Hf & Hsy); (split; [exists sl; apply Hstart; exact Hs|]); (split; [|exact Hsy]); intros rc Hc; apply (Hf rc); apply Hfinish; exact Hc. }
  assert (Hnostop : stopped s = false -> map fst (procs s) = []).
  { intros Hns. destruct (main_all_completed (plan_of ps) (c_jobs c) (c_stop c) (oracle_of (plan_of ps) c) Hwf Hjobs s Hfin Hns) as (_ & _ & _ & Hinfl).
    unfold infl, inflP in Hinfl. apply app_eq_nil in Hinfl. exact (proj2 Hinfl). }
  split.
  - intros Hstop. apply Hnostop. rewrite Hstop in Hreach. exact (reachable_not_stopped _ _ _ _ Hreach).
  - intros Hnf. apply Hnostop. destruct (stopped s) eqn:Est; [|reflexivity]. exfalso.
    destruct (Hstopped eq_refl) as (e & Hin & He). rewrite (Hnf e) in He; [discriminate|]. apply Hin_evs. auto.
Qed.
