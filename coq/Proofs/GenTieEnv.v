(* Tie: the environment and the Popen call of the regenerated definitions have the shape the contract is proved for
   (re-checked by computation on every run). *)
From Coq Require Import List NArith Bool.
From Conductor Require Import Lib.Str Gen.Generated Model.Env Proofs.SpawnEnv.
Import ListNotations.
Local Open Scope N_scope.

Lemma gen_env_shape : env_shape_ok.
Proof. unfold env_shape_ok. repeat split; vm_compute; reflexivity. Qed.

(* the task is started by bash (shell=True, executable="/bin/bash"), in its own session, in the working path, with the
   command line " ".join([run, args, options]) *)
Lemma gen_popen_shape :
  gen_popen_shell = true /\ gen_popen_executable = [47; 98; 105; 110; 47; 98; 97; 115; 104] /\
  gen_popen_cwd_is_working_path = true /\ gen_popen_new_session = true /\ gen_run_is_run_args_options_joined_by_space = true.
Proof. repeat split; vm_compute; reflexivity. Qed.
