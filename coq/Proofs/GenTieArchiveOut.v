(* Ties between Model/ArchiveOut.v / the copy_entries_to batches of Model/Archive.v and the methods TRANSLATED from cli/archive.py
   and execution/version_index.py of the working tree.  Kept apart from Proofs/GenTieArchive.v (the order of `cond restore`) so that
   the obligations of C11 do not depend on the shape of restore.main. *)
From Coq Require Import List NArith Bool.
From Conductor Require Import Gen.Generated Model.Archive.
Import ListNotations.
Local Open Scope N_scope.

(* ---------------------------------------------------------------------------------------------
   cond archive: Model/ArchiveOut.v is cli/archive.py of the working tree -- handle_output_path takes the decision
   TRANSLATED from the sources on every answer of the file system, and main enters its steps in the translated order
   (before the try block, inside it, in the bare `except:`, in `finally:`); create_archive has the one shape in which
   `tar czf <output file>` is the only statement that touches the output file. *)
From Conductor Require Import Lib.Str Model.ArchiveOut.

Lemma archive_output_tie : forall p,
  decision_code (handle_output_path p) =
  gen_archive_output_decision (o_given p) (o_exists p) (o_is_dir p) (o_parent_exists p) (o_parent_is_dir p) (o_gen_exists p).
Proof.
  intros [g e d pe pd ge]. unfold handle_output_path, gen_archive_output_decision. cbn [o_given o_exists o_is_dir o_parent_exists o_parent_is_dir o_gen_exists].
  destruct g, e, d, pe, pd, ge; reflexivity.
Qed.

Lemma archive_steps_tie :
  steps_before_try = gen_archive_before_try /\ steps_try = gen_archive_try /\
  steps_on_error = gen_archive_on_error /\ steps_finally = gen_archive_finally /\
  gen_archive_tar_is_the_only_writer = true.
Proof. repeat split; reflexivity. Qed.

(* ---------------------------------------------------------------------------------------------
   VersionIndex.copy_entries_to: the batches the model hands to bulk_load are the ones of the TRANSLATED method -- the
   query chosen by the translated test on (tasks is None, latest_only); the whole table in ONE bulk_load, or one query
   and one bulk_load per element of `tasks`, in order (so a task listed twice is queried twice and the second load meets
   the primary key), counts summed; the four SQL texts are the ones the list functions of Model/Archive.v transcribe. *)
Definition query_by_code (c : N) (T : str) (src : table) : list row :=
  match c with
  | 0 => q_all src
  | 1 => q_latest_per_task src
  | 2 => q_for_task T src
  | _ => q_latest_for_task T src
  end.

Lemma copy_batches_tie : forall src tasks latest,
  batches src tasks latest =
  match tasks with
  | None => [query_by_code (gen_copy_query true latest) [] src]
  | Some ts => map (fun T => query_by_code (gen_copy_query false latest) T src) ts
  end /\
  gen_copy_whole_table_is_one_bulk_load = true /\ gen_copy_per_task_in_order_counts_summed = true /\
  gen_sql_texts_are_the_transcribed_ones = true.
Proof.
  intros src tasks latest. split; [|repeat split; reflexivity].
  unfold batches, gen_copy_query. destruct tasks as [ts|]; destruct latest; reflexivity.
Qed.
