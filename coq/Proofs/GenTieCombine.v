(* Tie between Model/Combine.v and the per-dependency decision TRANSLATED from
   CombineOutputs.start_execution in the working tree (Gen/Generated.v gen_combine_decision). *)
From Coq Require Import List NArith Bool.
From Conductor Require Import Lib.Str Lib.Path Gen.Generated Model.Ident Model.Combine.
Import ListNotations.
Open Scope N_scope.

(* what the loop does for one dependency, as a code: 0 continue, 1 unlink + link, 2 conflict, 3 link *)
Definition model_decision (f : fs) (co out : path) (dep_id : ident) (dep_dir : path) (d : dirmap) : N :=
  if negb (fs_is_dir f dep_dir) || negb (fs_nonempty f dep_dir) then 0
  else match lookup (iname dep_id) d with
       | Some e => if replaceable co out (iname dep_id) e then 1 else 2
       | None => 3
       end.

(* the loop is: take the decision, act on it *)
Lemma loop_by_decision f co out dep_id dep_dir rest d :
  combine_loop f co out ((dep_id, dep_dir) :: rest) d =
  match model_decision f co out dep_id dep_dir d with
  | 0 => combine_loop f co out rest d
  | 1 => combine_loop f co out rest (add (iname dep_id) (Link (relpath out dep_dir)) (remove (iname dep_id) d))
  | 2 => (ConflictAt (iname dep_id), d)
  | _ => combine_loop f co out rest (add (iname dep_id) (Link (relpath out dep_dir)) d)
  end.
Proof.
  cbn [combine_loop]. unfold model_decision.
  destruct (negb (fs_is_dir f dep_dir) || negb (fs_nonempty f dep_dir)); [reflexivity|].
  destruct (lookup (iname dep_id) d) as [e|]; [|reflexivity].
  destruct (replaceable co out (iname dep_id) e); reflexivity.
Qed.

(* the decision is the translated one.  The file-system facts about the entry: it is a symbolic link
   iff the model has a Link there; it is "one Conductor made" iff is_conductor_link; exists() is
   true for a non-link entry, false when there is no entry, and irrelevant for a link. *)
Lemma combine_decision_tie f co out dep_id dep_dir d ex :
  (lookup (iname dep_id) d = None -> ex = false) ->
  (lookup (iname dep_id) d = Some Other -> ex = true) ->
  model_decision f co out dep_id dep_dir d =
  gen_combine_decision (fs_is_dir f dep_dir) (fs_nonempty f dep_dir)
    (match lookup (iname dep_id) d with Some (Link _) => true | _ => false end)
    (match lookup (iname dep_id) d with Some (Link t) => is_conductor_link co out (iname dep_id) t | _ => false end)
    ex.
Proof.
  intros Hn Ho. unfold model_decision, gen_combine_decision.
  destruct (negb (fs_is_dir f dep_dir) || negb (fs_nonempty f dep_dir)); [reflexivity|].
  destruct (lookup (iname dep_id) d) as [[t|]|].
  - cbn [replaceable]. destruct (is_conductor_link co out (iname dep_id) t); reflexivity.
  - rewrite (Ho eq_refl). reflexivity.
  - rewrite (Hn eq_refl). reflexivity.
Qed.
