(* Lemmas about Lib/Path.v.  Main result: relpath_resolves -- following the relative path
   computed by os.path.relpath from its start directory leads back to the target, for absolute
   normalised paths of any depth. *)
From Coq Require Import List Arith NArith Bool Lia.
From Conductor Require Import Lib.Str Lib.Path.
Import ListNotations.
Local Open Scope N_scope.

(* ---------- clean components ---------- *)
Lemma clean_comp_spec c : clean_comp c = true <-> c <> [] /\ c <> CUR /\ c <> PAR.
Proof.
  unfold clean_comp, is_cur, is_par.
  rewrite !andb_true_iff, !negb_true_iff, !str_eqb_false.
  destruct c; simpl; split; intros; intuition congruence.
Qed.

Lemma clean_comp_flags c :
  clean_comp c = true -> is_empty c = false /\ is_cur c = false /\ is_par c = false.
Proof.
  unfold clean_comp. rewrite !andb_true_iff, !negb_true_iff. tauto.
Qed.

Lemma clean_spec p : clean p = true <-> Forall (fun c => c <> [] /\ c <> CUR /\ c <> PAR) p.
Proof.
  unfold clean. rewrite forallb_forall, Forall_forall.
  split; intros H c Hc; apply clean_comp_spec; auto.
Qed.

Lemma clean_app a b : clean (a ++ b) = clean a && clean b.
Proof. apply forallb_app. Qed.

Lemma clean_cons c p : clean (c :: p) = clean_comp c && clean p.
Proof. reflexivity. Qed.

Lemma clean_firstn n p : clean p = true -> clean (firstn n p) = true.
Proof.
  intros H. rewrite <- (firstn_skipn n p), clean_app in H.
  apply andb_true_iff in H. tauto.
Qed.

Lemma clean_skipn n p : clean p = true -> clean (skipn n p) = true.
Proof.
  intros H. rewrite <- (firstn_skipn n p), clean_app in H.
  apply andb_true_iff in H. tauto.
Qed.

Lemma clean_no_par p : clean p = true -> ~ In PAR p.
Proof.
  intros H Hin. apply clean_spec in H. rewrite Forall_forall in H.
  apply H in Hin. tauto.
Qed.

Lemma clean_no_cur p : clean p = true -> ~ In CUR p.
Proof.
  intros H Hin. apply clean_spec in H. rewrite Forall_forall in H.
  apply H in Hin. tauto.
Qed.

(* ---------- is_prefix / relative_to ---------- *)
Lemma relative_to_spec b : forall p r, relative_to b p = Some r <-> p = b ++ r.
Proof.
  induction b as [|x b IH]; intros p r; simpl.
  - split; congruence.
  - destruct p as [|y p].
    + split; discriminate.
    + destruct (str_eqb x y) eqn:E.
      * apply str_eqb_spec in E; subst y. rewrite IH. split; congruence.
      * apply str_eqb_false in E. split; [discriminate | congruence].
Qed.

Lemma is_prefix_spec b : forall p, is_prefix b p = true <-> exists r, p = b ++ r.
Proof.
  induction b as [|x b IH]; intros p; simpl.
  - split; eauto.
  - destruct p as [|y p].
    + split; [discriminate | intros [r Hr]; discriminate].
    + rewrite andb_true_iff, str_eqb_spec, IH. split.
      * intros [-> [r ->]]. eauto.
      * intros [r Hr]. inversion Hr; subst. eauto.
Qed.

Lemma is_prefix_refl p : is_prefix p p = true.
Proof. apply is_prefix_spec. exists []. now rewrite app_nil_r. Qed.

Lemma is_prefix_app b r : is_prefix b (b ++ r) = true.
Proof. apply is_prefix_spec. eauto. Qed.

(* relative_to is defined exactly on the paths at or below the base *)
Lemma relative_to_defined b p : is_prefix b p = true <-> exists r, relative_to b p = Some r.
Proof.
  rewrite is_prefix_spec. split; intros [r Hr]; exists r; now apply relative_to_spec.
Qed.

Lemma relative_to_undefined b p : is_prefix b p = false <-> relative_to b p = None.
Proof.
  split; intros H.
  - destruct (relative_to b p) as [r|] eqn:E; [|reflexivity].
    assert (is_prefix b p = true) by (apply relative_to_defined; eauto). congruence.
  - destruct (is_prefix b p) eqn:E; [|reflexivity].
    apply relative_to_defined in E as [r Hr]. congruence.
Qed.

(* ---------- common prefix ---------- *)
Lemma common_len_firstn a : forall b, firstn (common_len a b) a = firstn (common_len a b) b.
Proof.
  induction a as [|x a IH]; intros [|y b]; simpl; try reflexivity.
  destruct (str_eqb x y) eqn:E; simpl; [|reflexivity].
  apply str_eqb_spec in E; subst. f_equal. apply IH.
Qed.

Lemma common_len_le a : forall b, (common_len a b <= length a)%nat.
Proof.
  induction a as [|x a IH]; intros [|y b]; simpl; try lia.
  destruct (str_eqb x y); [specialize (IH b)|]; lia.
Qed.

Lemma common_len_app b r : common_len b (b ++ r) = length b.
Proof.
  induction b as [|x b IH]; simpl; [now destruct r|].
  rewrite str_eqb_refl. now rewrite IH.
Qed.

Lemma common_len_full_prefix a : forall b, common_len a b = length a -> is_prefix a b = true.
Proof.
  induction a as [|x a IH]; intros [|y b]; simpl; intros H; try reflexivity; try discriminate.
  destruct (str_eqb x y); [|discriminate]. simpl. apply IH. lia.
Qed.

(* ---------- normalisation ---------- *)
Lemma norm_acc_app a : forall st b, norm_acc st (a ++ b) = norm_acc (norm_acc st a) b.
Proof.
  induction a as [|c a IH]; intros st b; simpl; [reflexivity|].
  destruct (is_empty c || is_cur c); [apply IH|].
  destruct (is_par c); apply IH.
Qed.

Lemma norm_acc_clean a : clean a = true -> forall st, norm_acc st a = rev a ++ st.
Proof.
  induction a as [|c a IH]; intros H st; [reflexivity|].
  rewrite clean_cons in H. apply andb_true_iff in H as [Hc Ha].
  apply clean_comp_flags in Hc as (H1 & H2 & H3).
  simpl. rewrite H1, H2, H3. simpl. rewrite IH by assumption.
  now rewrite <- app_assoc.
Qed.

Lemma norm_acc_pars n : forall st, norm_acc st (repeat PAR n) = skipn n st.
Proof.
  induction n as [|n IH]; intros st; [reflexivity|].
  change (repeat PAR (S n)) with (PAR :: repeat PAR n).
  change (norm_acc st (PAR :: repeat PAR n)) with (norm_acc (tl st) (repeat PAR n)).
  rewrite IH. destruct st; simpl; [now rewrite skipn_nil | reflexivity].
Qed.

Lemma resolve_clean p : clean p = true -> resolve p = p.
Proof.
  intros H. unfold resolve. rewrite norm_acc_clean by assumption.
  now rewrite app_nil_r, rev_involutive.
Qed.

Lemma resolve_app_clean b l : clean b = true -> resolve (b ++ l) = rev (norm_acc (rev b) l).
Proof.
  intros H. unfold resolve. rewrite norm_acc_app, (norm_acc_clean b H).
  now rewrite app_nil_r.
Qed.

(* ---------- the key theorem ---------- *)
Theorem relpath_resolves base p :
  clean base = true -> clean p = true -> resolve (base ++ relpath base p) = p.
Proof.
  intros Hb Hp. unfold relpath.
  set (i := common_len base p).
  pose proof (common_len_firstn base p) as Hc. fold i in Hc.
  pose proof (common_len_le base p) as Hle. fold i in Hle.
  assert (Hbase : base = firstn i base ++ skipn i base) by (symmetry; apply firstn_skipn).
  assert (Hpath : p = firstn i base ++ skipn i p) by (rewrite Hc; symmetry; apply firstn_skipn).
  assert (Hlen : (length base - i)%nat = length (skipn i base)) by (now rewrite skipn_length).
  assert (Hclean_p' : clean (skipn i p) = true) by now apply clean_skipn.
  (* the stack after reading base and going up once per remaining base component *)
  assert (Hup : norm_acc (rev base) (repeat PAR (length base - i)) = rev (firstn i base)).
  { rewrite norm_acc_pars, Hlen, <- rev_length.
    replace (rev base) with (rev (skipn i base) ++ rev (firstn i base))
      by (now rewrite <- rev_app_distr, firstn_skipn).
    rewrite skipn_app, Nat.sub_diag, skipn_all. reflexivity. }
  destruct (repeat PAR (length base - i) ++ skipn i p) as [|s l] eqn:E.
  - apply app_eq_nil in E as [E1 E2].
    rewrite resolve_app_clean by assumption. simpl.
    rewrite rev_involutive. rewrite Hpath, E2, app_nil_r.
    rewrite E1 in Hup. simpl in Hup.
    apply (f_equal (@rev str)) in Hup. now rewrite !rev_involutive in Hup.
  - rewrite <- E. rewrite resolve_app_clean by assumption.
    rewrite norm_acc_app, Hup, norm_acc_clean by assumption.
    rewrite rev_app_distr, !rev_involutive. now rewrite <- Hpath.
Qed.

(* ---------- further facts about relpath ---------- *)
Lemma relpath_nonempty base p : relpath base p <> [].
Proof.
  unfold relpath. destruct (repeat PAR _ ++ skipn _ p); discriminate.
Qed.

(* at or below the start directory the result is the remainder (pathlib and os.path agree) *)
Lemma relpath_app b r : relpath b (b ++ r) = match r with [] => [CUR] | _ => r end.
Proof.
  unfold relpath. rewrite common_len_app, Nat.sub_diag. simpl.
  rewrite skipn_app, Nat.sub_diag, skipn_all. simpl. now destruct r.
Qed.

Lemma relpath_below b r : r <> [] -> relpath b (b ++ r) = r.
Proof. intros Hr. rewrite relpath_app. destruct r; congruence. Qed.

Lemma relpath_self b : relpath b b = [CUR].
Proof. generalize (relpath_app b []). now rewrite app_nil_r. Qed.

Lemma relpath_relative_to b p r :
  relative_to b p = Some r -> relpath b p = match r with [] => [CUR] | _ => r end.
Proof.
  intros H. apply relative_to_spec in H; subst p. destruct r as [|x r].
  - rewrite app_nil_r. apply relpath_self.
  - now apply relpath_below.
Qed.

(* outside the start directory the result starts with ".." -- which is exactly when
   relative_to raises *)
Lemma relpath_outside b p :
  is_prefix b p = false -> exists t, relpath b p = PAR :: t.
Proof.
  intros H. unfold relpath.
  pose proof (common_len_le b p) as Hle.
  destruct (Nat.eq_dec (common_len b p) (length b)) as [E|E].
  - apply common_len_full_prefix in E. congruence.
  - destruct (length b - common_len b p)%nat as [|k] eqn:Ek; [lia|].
    simpl. eauto.
Qed.

Lemma relpath_inside_no_par b p :
  clean p = true -> is_prefix b p = true -> ~ In PAR (relpath b p).
Proof.
  intros Hp H. apply relative_to_defined in H as [r Hr].
  rewrite (relpath_relative_to _ _ _ Hr).
  apply relative_to_spec in Hr; subst p. rewrite clean_app in Hp.
  apply andb_true_iff in Hp as [_ Hr]. destruct r as [|x r].
  - simpl. intros [H|[]]. discriminate.
  - now apply clean_no_par.
Qed.

Lemma resolve_relative_to b p r :
  clean p = true -> relative_to b p = Some r -> resolve (b ++ r) = p.
Proof.
  intros Hp H. apply relative_to_spec in H; subst p. now apply resolve_clean.
Qed.

(* "." and "" components are ignored by resolve *)
Lemma resolve_cur_end b : resolve (b ++ [CUR]) = resolve b.
Proof. unfold resolve. rewrite norm_acc_app. reflexivity. Qed.
