(* Tie between Model/Group.v group_loop and run_experiment_group as read from task_types/stdlib/run_experiment_group.py of the
   working tree: the statement list of the function is the transcribed one (compared on every run by harness/gen_generated.py
   group_item) and the chain test is the TRANSLATED expression (Gen/Generated.v gen_group_chains). *)
From Coq Require Import List NArith ZArith Bool.
From Conductor Require Import Lib.Str Lib.SchemaTypes Gen.Generated Model.Ident Model.Schema Model.Group.
Import ListNotations.

Definition opt_some {A} (o : option A) : bool := match o with Some _ => true | None => false end.

(* one iteration of the loop for a member that is an ExperimentInstance with a new, hashable name *)
Lemma group_loop_step_tie : forall (S : Type) (h : call -> S -> result S) run chain task_deps x ms seen prev rel st,
  py_in (i_name x) seen = Some false ->
  group_loop h run chain task_deps (MInst x :: ms) seen prev rel st =
  let experiment_deps :=
    if gen_group_chains chain (opt_some prev)
    then match prev with
         | Some p => match spread task_deps with Some l => Some (VList (l ++ [VStr p])) | None => None end
         | None => Some task_deps
         end
    else Some task_deps in
  match experiment_deps with
  | None => Err EGroupInvalidInstance
  | Some deps =>
    bind (h (experiment_call x run deps) st) (fun st' =>
      match i_name x with
      | VStr s => let id := COLON :: s in group_loop h run chain task_deps ms (seen ++ [i_name x]) (Some id) (rel ++ [VStr id]) st'
      | _ => Err EGroupInvalidInstance
      end)
  end.
Proof.
  intros S h run chain task_deps x ms seen prev rel st H. cbn [group_loop]. rewrite H.
  destruct chain, prev; reflexivity.
Qed.
