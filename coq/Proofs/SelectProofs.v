(* Proofs about Model/Select.v: the loops of _retrieve_most_relevant_existing_version compute
   the documented rule of Proofs/SelectSpec.v; order independence; should_run; flags. *)
From Coq Require Import List Arith NArith Bool Lia ZifyBool ZifyN ZifyNat Permutation.
From Conductor Require Import Lib.Str Model.Select Proofs.SelectSpec.
Import ListNotations.
Open Scope N_scope.

(* ---------- generic list facts ---------- *)
Lemma filter_len_le {A} (f : A -> bool) (l : list A) : (length (filter f l) <= length l)%nat.
Proof. induction l as [|a l IH]; simpl; [lia|]. destruct (f a); simpl; lia. Qed.

Lemma filter_length_all {A} (f : A -> bool) (l : list A) :
  length (filter f l) = length l -> forall x, In x l -> f x = true.
Proof.
  induction l as [|a l IH]; simpl; [tauto|].
  destruct (f a) eqn:E; simpl; intros H x [<-|Hx]; auto.
  - pose proof (filter_len_le f l). lia.
  - pose proof (filter_len_le f l). lia.
Qed.

Lemma filter_all_id {A} (f : A -> bool) (l : list A) :
  (forall x, In x l -> f x = true) -> filter f l = l.
Proof.
  induction l as [|a l IH]; simpl; intros H; [reflexivity|].
  rewrite (H a) by auto. f_equal. apply IH. auto.
Qed.

Lemma filter_length_neq_ex {A} (f : A -> bool) (l : list A) :
  length (filter f l) <> length l -> exists x, In x l /\ f x = false.
Proof.
  induction l as [|a l IH]; simpl; [congruence|].
  destruct (f a) eqn:E; simpl; intros H.
  - destruct IH as [x [Hx Fx]]; [congruence|]. exists x. auto.
  - exists a. auto.
Qed.

Lemma nodup_ts_inj (vs : list version) v w :
  NoDup (map ts vs) -> In v vs -> In w vs -> ts v = ts w -> v = w.
Proof.
  induction vs as [|a vs IH]; simpl; [tauto|].
  intros ND Hv Hw E. inversion ND as [|x l Hn ND']; subst.
  destruct Hv as [<-|Hv], Hw as [<-|Hw]; auto.
  - exfalso. apply Hn. rewrite E. now apply in_map.
  - exfalso. apply Hn. rewrite <- E. now apply in_map.
Qed.

(* ---------- Python's max(..., key=timestamp) / ORDER BY timestamp DESC LIMIT 1 ---------- *)
Definition max_step (acc : option version) (v : version) : option version :=
  match acc with
  | None => Some v
  | Some m => if ts m <? ts v then Some v else acc
  end.

Lemma py_max_fold l : forall acc,
  match fold_left max_step l acc with
  | None => acc = None /\ l = []
  | Some m => (In m l \/ acc = Some m)
              /\ (forall w, In w l -> ts w <= ts m)
              /\ (forall a, acc = Some a -> ts a <= ts m)
  end.
Proof.
  induction l as [|v l IH]; intros acc; simpl.
  - destruct acc; [|tauto]. repeat split; auto; [tauto|]. intros a [= ->]. lia.
  - specialize (IH (max_step acc v)).
    destruct (fold_left max_step l (max_step acc v)) as [m|].
    + destruct IH as [Hin [Hall Hacc]].
      assert (Hv : ts v <= ts m /\ (forall a, acc = Some a -> ts a <= ts m)).
      { destruct acc as [a|]; simpl in *.
        - destruct (N.ltb_spec (ts a) (ts v)).
          + specialize (Hacc v eq_refl). split; [lia|]. intros a' [= <-]. lia.
          + specialize (Hacc a eq_refl). split; [lia|]. intros a' [= <-]. lia.
        - specialize (Hacc v eq_refl). split; [lia|]. discriminate. }
      destruct Hv as [Hv Hacc'].
      repeat split.
      * destruct Hin as [Hin|Hin]; [left; now right|].
        destruct acc as [a|]; simpl in Hin.
        -- destruct (ts a <? ts v); injection Hin as <-; [left; now left | now right].
        -- injection Hin as <-. left; now left.
      * intros w [<-|Hw]; auto.
      * exact Hacc'.
    + destruct IH as [H _]. destruct acc as [a|]; simpl in H; [destruct (ts a <? ts v)|]; discriminate.
Qed.

Lemma py_max_ts_some l v : py_max_ts l = Some v -> Newest l v.
Proof.
  unfold py_max_ts. change (fun acc v0 => match acc with None => Some v0 | Some m => if ts m <? ts v0 then Some v0 else acc end) with max_step.
  intros H. pose proof (py_max_fold l None) as P. rewrite H in P.
  destruct P as [[Hin|Hin] [Hall _]]; [|discriminate]. split; auto.
Qed.

Lemma py_max_ts_none l : py_max_ts l = None <-> l = [].
Proof.
  unfold py_max_ts. change (fun acc v0 => match acc with None => Some v0 | Some m => if ts m <? ts v0 then Some v0 else acc end) with max_step.
  split.
  - intros H. pose proof (py_max_fold l None) as P. rewrite H in P. tauto.
  - intros ->. reflexivity.
Qed.

Lemma newest_unique vs v w : DistinctTs vs -> Newest vs v -> Newest vs w -> v = w.
Proof.
  intros ND [Hv Av] [Hw Aw]. apply (nodup_ts_inj vs); auto.
  specialize (Av w Hw). specialize (Aw v Hv). lia.
Qed.

Lemma latest_spec vs : DistinctTs vs ->
  (forall v, latest vs = Some v <-> Newest vs v) /\ (latest vs = None <-> vs = []).
Proof.
  intros ND. split; [|apply py_max_ts_none].
  intros v. split; [apply py_max_ts_some|].
  intros Hn. unfold latest. destruct (py_max_ts vs) as [m|] eqn:E.
  - f_equal. apply (newest_unique vs); auto. now apply py_max_ts_some.
  - apply py_max_ts_none in E. subst. destruct Hn as [[] _].
Qed.

Section Proofs.
  Variable is_ancestor : cid -> cid -> bool.
  Variable get_distance : cid -> cid -> N.
  Variable rev_parse : str -> option cid.

  Notation select := (select is_ancestor get_distance).
  Notation classify := (classify is_ancestor).
  Notation closest_step := (closest_step get_distance).
  Notation anc_v := (anc_v is_ancestor).
  Notation dist_v := (dist_v get_distance).
  Notation closer := (closer get_distance).
  Notation Best := (Best is_ancestor get_distance).
  Notation NoAncestor := (NoAncestor is_ancestor).
  Notation should_run := (should_run is_ancestor).
  Notation MustRerun := (MustRerun is_ancestor).
  Notation validate_flags := (validate_flags is_ancestor rev_parse).
  Notation Documented := (Documented is_ancestor rev_parse).
  Notation Reason := (Reason is_ancestor rev_parse).

  Definition isanc_b (h : cid) (v : version) : bool :=
    match commit v with Some c => is_ancestor h c | None => false end.
  Definition isnull_b (v : version) : bool := negb (is_some (commit v)).

  Lemma isanc_b_spec h v : isanc_b h v = true <-> anc_v h v.
  Proof.
    unfold isanc_b, SelectSpec.anc_v. destruct (commit v) as [c|]; split.
    - intros H. eauto.
    - intros [c' [[= <-] H]]. exact H.
    - discriminate.
    - intros [c' [H _]]. discriminate.
  Qed.

  Lemma isnull_b_spec v : isnull_b v = true <-> commit v = None.
  Proof. unfold isnull_b. destruct (commit v); simpl; split; congruence. Qed.

  (* the first loop is two filters *)
  Lemma classify_filter h vs : forall a n,
    classify h vs a n = (a ++ filter (isanc_b h) vs, n ++ filter isnull_b vs).
  Proof.
    induction vs as [|v vs IH]; intros a n; simpl.
    - now rewrite !app_nil_r.
    - unfold isanc_b, isnull_b. destruct (commit v) as [c|]; simpl.
      + destruct (is_ancestor h c); rewrite IH; [rewrite <- app_assoc|]; reflexivity.
      + rewrite IH. rewrite <- app_assoc. reflexivity.
  Qed.

  (* invariant of the second loop *)
  Definition Inv (h : cid) (seen : list version) (st : option (version * N)) : Prop :=
    match st with
    | None => seen = []
    | Some (s, cd) => cd = dist_v h s /\ In s seen /\ forall w, In w seen -> closer h s w
    end.

  Lemma closest_step_inv h seen st v :
    commit v <> None -> Inv h seen st -> Inv h (seen ++ [v]) (closest_step h st v).
  Proof.
    intros Hc HI. unfold Select.closest_step.
    destruct (commit v) as [c|] eqn:Ec; [clear Hc|congruence].
    assert (Dv : dist_v h v = get_distance h c) by (unfold SelectSpec.dist_v; now rewrite Ec).
    destruct st as [[s cd]|]; simpl in HI.
    - destruct HI as [-> [Hs Hall]].
      destruct (N.ltb_spec (get_distance h c) (dist_v h s)) as [Hlt|Hge].
      + simpl. repeat split; auto.
        * apply in_or_app. right. now left.
        * intros w Hw. apply in_app_or in Hw as [Hw|[<-|[]]].
          -- specialize (Hall w Hw). unfold SelectSpec.closer in *. lia.
          -- unfold SelectSpec.closer. lia.
      + destruct (N.eqb_spec (get_distance h c) (dist_v h s)) as [Heq|Hne]; simpl.
        * destruct (N.ltb_spec (ts s) (ts v)) as [Ht|Ht]; simpl.
          -- repeat split; [lia | apply in_or_app; right; now left |].
             intros w Hw. apply in_app_or in Hw as [Hw|[<-|[]]].
             ++ specialize (Hall w Hw). unfold SelectSpec.closer in *. lia.
             ++ unfold SelectSpec.closer. lia.
          -- repeat split; [apply in_or_app; now left|].
             intros w Hw. apply in_app_or in Hw as [Hw|[<-|[]]]; auto.
             unfold SelectSpec.closer. lia.
        * repeat split; [apply in_or_app; now left|].
          intros w Hw. apply in_app_or in Hw as [Hw|[<-|[]]]; auto.
          unfold SelectSpec.closer. lia.
    - subst seen. simpl. repeat split; auto.
      intros w [<-|[]]. unfold SelectSpec.closer. lia.
  Qed.

  Lemma closest_fold_inv h l : forall seen st,
    (forall v, In v l -> commit v <> None) -> Inv h seen st ->
    Inv h (seen ++ l) (fold_left (closest_step h) l st).
  Proof.
    induction l as [|v l IH]; intros seen st Hc HI; simpl.
    - now rewrite app_nil_r.
    - replace (seen ++ v :: l) with ((seen ++ [v]) ++ l) by (rewrite <- app_assoc; reflexivity).
      apply IH; [intros x Hx; apply Hc; now right|].
      apply closest_step_inv; auto. apply Hc. now left.
  Qed.

  Lemma anc_filter_commit h vs v : In v (filter (isanc_b h) vs) -> commit v <> None.
  Proof.
    intros H. apply filter_In in H as [_ H]. unfold isanc_b in H. destruct (commit v); congruence.
  Qed.

  Lemma select_unfold h vs :
    select (Head h) vs =
    let ancs := filter (isanc_b h) vs in
    let nulls := filter isnull_b vs in
    if negb (Nat.eqb (length ancs) 0) then option_map fst (fold_left (closest_step h) ancs None)
    else if Nat.eqb (length nulls) (length vs) && negb (Nat.eqb (length nulls) 0) then py_max_ts nulls
    else None.
  Proof. unfold Select.select. rewrite classify_filter. reflexivity. Qed.

  (* ---------- soundness of every result (no hypothesis on the timestamps) ---------- *)
  Lemma select_head_some h vs v :
    select (Head h) vs = Some v -> Best h vs v \/ (AllNull vs /\ Newest vs v).
  Proof.
    rewrite select_unfold. cbv zeta.
    destruct (Nat.eqb_spec (length (filter (isanc_b h) vs)) 0) as [E0|N0]; simpl.
    - destruct (Nat.eqb_spec (length (filter isnull_b vs)) (length vs)) as [El|]; simpl; [|discriminate].
      destruct (Nat.eqb_spec (length (filter isnull_b vs)) 0); simpl; [discriminate|].
      intros H. right.
      pose proof (filter_length_all _ _ El) as Hall.
      rewrite (filter_all_id _ _ Hall) in H.
      split; [|now apply py_max_ts_some].
      intros w Hw. apply isnull_b_spec. auto.
    - intros H. left.
      pose proof (closest_fold_inv h (filter (isanc_b h) vs) [] None (anc_filter_commit h vs) eq_refl) as HI.
      simpl in HI.
      destruct (fold_left (closest_step h) (filter (isanc_b h) vs) None) as [[s cd]|]; simpl in H; [|discriminate].
      injection H as ->. destruct HI as [_ [Hin Hall]].
      apply filter_In in Hin as [Hin Ha].
      repeat split; auto.
      + now apply isanc_b_spec.
      + intros w Hw Haw. apply Hall. apply filter_In. split; auto. now apply isanc_b_spec.
  Qed.

  Lemma select_head_none h vs :
    select (Head h) vs = None -> NoAncestor h vs /\ (vs = [] \/ SomeCommit vs).
  Proof.
    rewrite select_unfold. cbv zeta.
    destruct (Nat.eqb_spec (length (filter (isanc_b h) vs)) 0) as [E0|N0]; simpl.
    - intros H.
      assert (NA : NoAncestor h vs).
      { intros w Hw Ha. apply isanc_b_spec in Ha.
        assert (In w (filter (isanc_b h) vs)) by (apply filter_In; auto).
        destruct (filter (isanc_b h) vs); [auto | discriminate]. }
      split; auto.
      destruct (Nat.eqb_spec (length (filter isnull_b vs)) (length vs)) as [El|Nl]; simpl in H.
      + destruct (Nat.eqb_spec (length (filter isnull_b vs)) 0) as [Z|NZ]; simpl in H.
        * left. rewrite Z in El. destruct vs; [reflexivity|discriminate].
        * apply py_max_ts_none in H. rewrite H in NZ. simpl in NZ. congruence.
      + right. apply filter_length_neq_ex in Nl as [x [Hx Fx]].
        exists x. split; auto. intros Hn. apply isnull_b_spec in Hn. congruence.
    - intros H. exfalso.
      pose proof (closest_fold_inv h (filter (isanc_b h) vs) [] None (anc_filter_commit h vs) eq_refl) as HI.
      simpl in HI.
      destruct (fold_left (closest_step h) (filter (isanc_b h) vs) None) as [[s cd]|]; simpl in H; [discriminate|].
      simpl in HI. rewrite HI in N0. simpl in N0. congruence.
  Qed.

  (* ---------- the documented rule determines at most one version ---------- *)
  Lemma best_unique h vs v w : DistinctTs vs -> Best h vs v -> Best h vs w -> v = w.
  Proof.
    intros ND [Hv [Av Bv]] [Hw [Aw Bw]]. apply (nodup_ts_inj vs); auto.
    specialize (Bv w Hw Aw). specialize (Bw v Hv Av). unfold SelectSpec.closer in *. lia.
  Qed.

  Lemma best_not_allnull h vs v : Best h vs v -> AllNull vs -> False.
  Proof. intros [Hv [[c [Hc _]] _]] Hn. specialize (Hn v Hv). congruence. Qed.

  Definition Chosen (h : cid) (vs : list version) (v : version) : Prop :=
    Best h vs v \/ (AllNull vs /\ Newest vs v).

  Lemma chosen_unique h vs v w : DistinctTs vs -> Chosen h vs v -> Chosen h vs w -> v = w.
  Proof.
    intros ND [Bv|[Nv Mv]] [Bw|[Nw Mw]].
    - eapply best_unique; eauto.
    - exfalso. eapply best_not_allnull; eauto.
    - exfalso. eapply best_not_allnull; eauto.
    - eapply newest_unique; eauto.
  Qed.

  Lemma chosen_excludes_none h vs v :
    Chosen h vs v -> NoAncestor h vs /\ (vs = [] \/ SomeCommit vs) -> False.
  Proof.
    intros [[Hv [Av _]]|[Hn [Hv _]]] [NA Hs].
    - exact (NA v Hv Av).
    - destruct Hs as [->|[w [Hw Hc]]]; [destruct Hv|]. apply Hc. auto.
  Qed.

  (* ---------- C05_select_spec ---------- *)
  Theorem select_spec h vs : DistinctTs vs ->
    (forall v, select (Head h) vs = Some v <-> Best h vs v \/ (AllNull vs /\ Newest vs v))
    /\ (select (Head h) vs = None <-> NoAncestor h vs /\ (vs = [] \/ SomeCommit vs)).
  Proof.
    intros ND. split.
    - intros v. split; [apply select_head_some|].
      intros Hc. destruct (select (Head h) vs) as [w|] eqn:E.
      + f_equal. apply select_head_some in E. eapply chosen_unique; eauto.
      + exfalso. apply select_head_none in E. eapply chosen_excludes_none; eauto.
    - split; [apply select_head_none|].
      intros Hn. destruct (select (Head h) vs) as [w|] eqn:E; [|reflexivity].
      exfalso. apply select_head_some in E. eapply chosen_excludes_none; eauto.
  Qed.

  (* never a version from a non-ancestor commit; a commit-less version only as the fall-back *)
  Theorem select_never_foreign h vs v :
    select (Head h) vs = Some v ->
    match commit v with
    | Some c => is_ancestor h c = true
    | None => AllNull vs /\ vs <> []
    end.
  Proof.
    intros H. apply select_head_some in H as [[Hv [[c [Hc Ha]] _]]|[Hn [Hv _]]].
    - now rewrite Hc.
    - rewrite (Hn v Hv). split; auto. intros ->. destruct Hv.
  Qed.

  (* the fall-back is exactly "newest", and is taken exactly when every commit is null *)
  Theorem select_fallback h vs : AllNull vs -> select (Head h) vs = latest vs.
  Proof.
    intros Hn. rewrite select_unfold. cbv zeta.
    assert (Ea : filter (isanc_b h) vs = []).
    { destruct (filter (isanc_b h) vs) as [|x l] eqn:E; [reflexivity|].
      assert (Hx : In x (filter (isanc_b h) vs)) by (rewrite E; now left).
      apply filter_In in Hx as [Hx Ha]. unfold isanc_b in Ha. rewrite (Hn x Hx) in Ha. discriminate. }
    rewrite Ea. simpl.
    rewrite (filter_all_id isnull_b vs) by (intros x Hx; apply isnull_b_spec; auto).
    rewrite Nat.eqb_refl. simpl. destruct vs; reflexivity.
  Qed.

  (* ---------- no git / no commits ---------- *)
  Theorem select_nogit m vs : (m = NoGit \/ m = NoCommits) -> DistinctTs vs ->
    (forall v, select m vs = Some v <-> Newest vs v) /\ (select m vs = None <-> vs = []).
  Proof. intros [->| ->] ND; simpl; now apply latest_spec. Qed.

  (* ---------- order independence ---------- *)
  Lemma best_perm h vs vs' v : Permutation vs vs' -> Best h vs v -> Best h vs' v.
  Proof.
    intros P [Hv [Av Bv]]. repeat split; auto.
    - eapply Permutation_in; eauto.
    - intros w Hw. apply Bv. eapply Permutation_in; [apply Permutation_sym|]; eauto.
  Qed.
  Lemma newest_perm vs vs' v : Permutation vs vs' -> Newest vs v -> Newest vs' v.
  Proof.
    intros P [Hv Av]. split.
    - eapply Permutation_in; eauto.
    - intros w Hw. apply Av. eapply Permutation_in; [apply Permutation_sym|]; eauto.
  Qed.
  Lemma allnull_perm vs vs' : Permutation vs vs' -> AllNull vs -> AllNull vs'.
  Proof. intros P H w Hw. apply H. eapply Permutation_in; [apply Permutation_sym|]; eauto. Qed.
  Lemma noanc_perm h vs vs' : Permutation vs vs' -> NoAncestor h vs -> NoAncestor h vs'.
  Proof. intros P H w Hw. apply H. eapply Permutation_in; [apply Permutation_sym|]; eauto. Qed.
  Lemma distinct_perm vs vs' : Permutation vs vs' -> DistinctTs vs -> DistinctTs vs'.
  Proof. intros P. apply Permutation_NoDup. now apply Permutation_map. Qed.

  Theorem select_perm m vs vs' :
    Permutation vs vs' -> DistinctTs vs -> select m vs = select m vs'.
  Proof.
    intros P ND. pose proof (distinct_perm _ _ P ND) as ND'.
    destruct m as [| |h].
    - destruct (select_nogit NoGit vs (or_introl eq_refl) ND) as [S1 N1].
      destruct (select_nogit NoGit vs' (or_introl eq_refl) ND') as [S2 N2].
      destruct (select NoGit vs) as [v|] eqn:E.
      + symmetry. apply S2. eapply newest_perm; eauto. now apply S1.
      + symmetry. apply N2. assert (vs = []) by now apply N1. subst. now apply Permutation_nil.
    - destruct (select_nogit NoCommits vs (or_intror eq_refl) ND) as [S1 N1].
      destruct (select_nogit NoCommits vs' (or_intror eq_refl) ND') as [S2 N2].
      destruct (select NoCommits vs) as [v|] eqn:E.
      + symmetry. apply S2. eapply newest_perm; eauto. now apply S1.
      + symmetry. apply N2. assert (vs = []) by now apply N1. subst. now apply Permutation_nil.
    - destruct (select_spec h vs ND) as [S1 N1]. destruct (select_spec h vs' ND') as [S2 N2].
      destruct (select (Head h) vs) as [v|] eqn:E.
      + symmetry. apply S2. destruct (proj1 (S1 v) eq_refl) as [B|[A Nw]].
        * left. eapply best_perm; eauto.
        * right. split; [eapply allnull_perm | eapply newest_perm]; eauto.
      + symmetry. apply N2. destruct (proj1 N1 eq_refl) as [NA Hs]. split.
        * eapply noanc_perm; eauto.
        * destruct Hs as [->|[w [Hw Hc]]].
          -- left. now apply Permutation_nil.
          -- right. exists w. split; auto. eapply Permutation_in; eauto.
  Qed.

  (* the same for the rows of the whole index (other tasks' rows interleaved in any order) *)
  Lemma versions_for_perm t rows rows' :
    Permutation rows rows' -> Permutation (versions_for t rows) (versions_for t rows').
  Proof.
    intros P. unfold versions_for. apply Permutation_map.
    induction P; simpl.
    - constructor.
    - destruct (str_eqb (fst x) t); auto.
    - destruct (str_eqb (fst x) t), (str_eqb (fst y) t); auto. constructor.
    - eapply Permutation_trans; eauto.
  Qed.

  Theorem select_task_perm m t rows rows' :
    Permutation rows rows' -> DistinctTs (versions_for t rows) ->
    select_task is_ancestor get_distance m rows t = select_task is_ancestor get_distance m rows' t.
  Proof. intros P ND. unfold select_task. apply select_perm; auto. now apply versions_for_perm. Qed.

  (* ---------- should_run ---------- *)
  Theorem should_run_at_least C sel : should_run (Some C) sel = true <-> MustRerun C sel.
  Proof.
    unfold Select.should_run, SelectSpec.MustRerun. destruct sel as [v|]; [|split; auto].
    destruct (commit v) as [vc|] eqn:Ec.
    - destruct (N.eqb_spec vc C) as [->|Hne]; split.
      + discriminate.
      + intros [H|[v' [[= <-] [H|[vc' [H1 [H2 _]]]]]]]; congruence.
      + intros H. right. exists v. split; auto. right. exists vc. auto.
      + intros [H|[v' [[= <-] [H|[vc' [H1 [H2 H3]]]]]]]; congruence.
    - split; auto. intros _. right. exists v. auto.
  Qed.

  Theorem should_run_plain sel : should_run None sel = true <-> sel = None.
  Proof. destruct sel; simpl; split; congruence. Qed.

  Theorem executes_spec again at_least m vs :
    executes is_ancestor get_distance again at_least m vs = true <->
    again = true \/
    match at_least with
    | None => select m vs = None
    | Some C => MustRerun C (select m vs)
    end.
  Proof.
    unfold executes. rewrite orb_true_iff. destruct at_least as [C|].
    - now rewrite should_run_at_least.
    - now rewrite should_run_plain.
  Qed.

  (* when the history relation is antisymmetric and the two commits are comparable (always the
     case on a linear history) "not re-run" means "the cached version is at least as new as C" *)
  Theorem at_least_as_new C v vc :
    (forall a b, is_ancestor a b = true -> is_ancestor b a = true -> a = b) ->
    (forall a, is_ancestor a a = true) ->
    commit v = Some vc ->
    is_ancestor C vc = true \/ is_ancestor vc C = true ->
    (should_run (Some C) (Some v) = false <-> is_ancestor vc C = true).
  Proof.
    intros Anti Refl Ec Cmp. simpl. rewrite Ec.
    destruct (N.eqb_spec vc C) as [->|Hne].
    - split; auto.
    - split.
      + intros H. destruct Cmp; congruence.
      + intros H. destruct (is_ancestor C vc) eqn:E; [|reflexivity].
        exfalso. apply Hne. now apply Anti.
  Qed.

  (* ---------- flags ---------- *)
  Theorem flags_accept f m a oc :
    validate_flags f m = Plan a oc <-> Documented f m (Plan a oc).
  Proof.
    destruct f as [ag al tc]. split.
    - unfold Select.validate_flags, validate_args. simpl.
      destruct tc, al as [s|], ag, m as [| |h]; simpl; try discriminate;
        try (intros [= <- <-]; constructor).
      + destruct (rev_parse HEAD_SYM) as [c|] eqn:R; [|discriminate].
        destruct (is_ancestor h c) eqn:A; [|discriminate].
        intros [= <- <-]. now constructor.
      + destruct (rev_parse s) as [c|] eqn:R; [|discriminate].
        destruct (is_ancestor h c) eqn:A; [|discriminate].
        intros [= <- <-]. now constructor.
    - intros D. inversion D as [ag' m' | s h c R A | h c R A]; subst;
        unfold Select.validate_flags, validate_args; simpl.
      + destruct a; reflexivity.
      + rewrite R, A. reflexivity.
      + rewrite R, A. reflexivity.
  Qed.

  Theorem flags_reject f m e : validate_flags f m = Rejected e -> Reason f m e.
  Proof.
    destruct f as [ag al tc].
    unfold Select.validate_flags, validate_args, SelectSpec.Reason, commit_flag, flag_symbol. simpl.
    destruct tc, al as [s|], ag, m as [| |h]; simpl; try discriminate;
      try (intros [= <-]; simpl; repeat split; auto; try (right; discriminate); try discriminate; fail).
    - destruct (rev_parse HEAD_SYM) as [c|] eqn:R.
      + destruct (is_ancestor h c) eqn:A; [discriminate|].
        intros [= <-]. simpl. split; auto. exists h, c. auto.
      + intros [= <-]. simpl. auto.
    - destruct (rev_parse s) as [c|] eqn:R.
      + destruct (is_ancestor h c) eqn:A; [discriminate|].
        intros [= <-]. simpl. split; [right; discriminate|]. exists h, c. auto.
      + intros [= <-]. simpl. split; [right; discriminate|auto].
  Qed.

  (* --this-commit is --at-least=HEAD *)
  Theorem this_commit_is_at_least_head again m :
    validate_flags {| f_again := again; f_at_least := None; f_this_commit := true |} m =
    validate_flags {| f_again := again; f_at_least := Some HEAD_SYM; f_this_commit := false |} m.
  Proof. destruct again, m; reflexivity. Qed.
End Proofs.
