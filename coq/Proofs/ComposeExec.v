(* Task-level, end-to-end consequences of the executor theorems on the composed model
   (Model/RunCase.cond_run): operation paths are exactly the task-graph paths through tasks that
   run, so the skip/fail classification can be read on the TASK graph. *)
From Coq Require Import List Arith Bool Lia NArith.
From Conductor Require Import Model.Loader Model.Planner Model.Exec Model.RunCase
  Proofs.ListFacts Proofs.LoaderProofs Proofs.PlannerInv Proofs.PlannerThm Proofs.PlannerExact Proofs.PlannerOrder
  Proofs.ExecInv Proofs.ExecTheorems Proofs.ExecMain Proofs.Compose.
From Conductor Require Proofs.ExecSteps.
Import ListNotations.

(* ---- without --stop-early the loop is never left early ---- *)
Lemma xstep_not_stopped p jobs orc s s' :
  xstep p jobs false orc s = Some s' -> stopped s = false -> stopped s' = false.
Proof.
  unfold xstep. intros H Hs. rewrite Hs in H.
  destruct (gate_open jobs s).
  - inversion H; subst s'. unfold launch_one. destruct (dequeue s) as [[o rS] rP].
    destruct (negb _); [exact Hs|]. destruct (launch_fails orc o); [exact Hs|].
    destruct (op_sync (opi p o)); exact Hs.
  - destruct (Nat.eqb (inflight s) 0); [discriminate|]. inversion H; subst s'. unfold wait_one.
    destruct (syncs s) as [|o sy]; [|exact Hs].
    destruct (nth _ (procs s) (0, None)) as [o slot]. rewrite andb_false_r. exact Hs.
Qed.

Lemma reachable_not_stopped p jobs orc s : reachable p jobs false orc s -> stopped s = false.
Proof.
  induction 1 as [|s s' _ IH Hx]; [|eapply xstep_not_stopped; eauto].
  unfold xinit. destruct (ExecSteps.fold_enqueue p (p_initial p)
    {| readyS := []; readyP := []; syncs := []; procs := []; avail := seq 0 jobs; runpar := false; completed := [];
       ost := fun _ => QUEUED; waiting := fun o => length (exe_deps p o); dequeued := 0; waits := 0;
       trace := rev (map ECached (p_cached p)); stopped := false |}) as (_ & _ & _ & _ & _ & _ & _ & _ & _ & _ & H).
  exact H.
Qed.

Section TaskLevel.
  Variable tasks : list tdef.
  Variable c : run_cfg.
  Variable fuel : nat.
  Variable loaded : list nat.
  Variable ps : pstate.
  Hypothesis Hload : load_closure (graph_of tasks) fuel (c_root c) = Ok loaded.
  Hypothesis Hplan : plan_for (info_of tasks) (sr_of tasks) (c_again c) fuel (c_root c) = Some ps.

  Let info := info_of tasks.
  Let rn := runs (sr_of tasks) (c_again c).
  Let pl := plan_of ps.
  Let n := length (ops ps).
  Let task (o : nat) := op_task (op_at (ops ps) o).

  (* a non-empty path in the task graph whose nodes after the first all run in this invocation *)
  Inductive RPath : nat -> nat -> Prop :=
  | rp_one x y : In y (t_deps (info x)) -> rn y = true -> RPath x y
  | rp_step x y z : In y (t_deps (info x)) -> rn y = true -> RPath y z -> RPath x z.

  Lemma op_runs o : o < n -> rn (task o) = true.
  Proof.
    intros Ho. destruct (composed_exact tasks (c_root c) fuel loaded Hload (sr_of tasks) (c_again c) fuel ps Hplan) as (Hn & _).
    assert (H : Needed info (sr_of tasks) (c_again c) (c_root c) (task o)) by (apply Hn; exists o; auto).
    now destruct H.
  Qed.

  Lemma exe_deps_pl o : exe_deps pl o = op_exe_deps (op_at (ops ps) o).
  Proof. apply exe_deps_plan_of. Qed.

  Lemma op_path_rpath o d : o < n -> op_path pl o d -> d < n /\ RPath (task o) (task d).
  Proof.
    destruct (composed_edges tasks (c_root c) fuel loaded Hload (sr_of tasks) (c_again c) fuel ps Hplan) as (_ & E2 & _).
    intros Ho H. induction H as [x d Hd | x d e Hd _ IH].
    - rewrite exe_deps_pl in Hd. destruct (E2 x d Ho Hd) as [Hlt Hin]. unfold n in *.
      split; [lia|]. apply rp_one; [exact Hin | apply op_runs; unfold n; lia].
    - rewrite exe_deps_pl in Hd. destruct (E2 x d Ho Hd) as [Hlt Hin]. unfold n in *.
      destruct IH as [He Hp]; [lia|]. split; [exact He|]. eapply rp_step; [exact Hin | apply op_runs; unfold n; lia | exact Hp].
  Qed.

  Lemma rpath_op_path x z : RPath x z -> forall o, o < n -> task o = x -> exists d, d < n /\ task d = z /\ op_path pl o d.
  Proof.
    destruct (composed_edges tasks (c_root c) fuel loaded Hload (sr_of tasks) (c_again c) fuel ps Hplan) as (E1 & _).
    induction 1 as [x y Hy Hr | x y z Hy Hr _ IH]; intros o Ho Et.
    - unfold task in Et. rewrite <- Et in Hy. destruct (E1 o Ho y Hy Hr) as (od & Hod & Hlt & Htask).
      exists od. unfold n in *. split; [lia|]. split; [exact Htask|]. apply path_one. now rewrite exe_deps_pl.
    - unfold task in Et. rewrite <- Et in Hy. destruct (E1 o Ho y Hy Hr) as (od & Hod & Hlt & Htask).
      destruct (IH od) as (d & Hd & Etd & Hp); [unfold n in *; lia | exact Htask|].
      exists d. split; [exact Hd|]. split; [exact Etd|]. eapply path_step; [|exact Hp]. now rewrite exe_deps_pl.
  Qed.

  (* Every needed task has one operation; its final state is determined on the TASK graph:
     skipped iff some task it depends on through tasks that run failed; failed iff all its direct
     dependencies that run succeeded and the oracle fails it; a skipped task is never started. *)
  Theorem task_classification orc s :
    1 <= c_jobs c -> final_state pl (c_jobs c) false orc s ->
    forall o, o < n ->
      (ost s o = SKIPPED <-> exists f, f < n /\ RPath (task o) (task f) /\ ost s f = FAILED) /\
      (ost s o = FAILED <->
         (forall d, d < n -> In (task d) (t_deps (info (task o))) -> ost s d = SUCCEEDED) /\ fails pl orc o = true) /\
      (ost s o = SUCCEEDED <->
         (forall d, d < n -> In (task d) (t_deps (info (task o))) -> ost s d = SUCCEEDED) /\ fails pl orc o = false) /\
      (ost s o = SKIPPED -> forall sl, ~ In (EStart o sl) (trace s)) /\
      (ost s o = SUCCEEDED \/ ost s o = FAILED \/ ost s o = SKIPPED).
  Proof.
    intros Hjobs Hfin o Ho.
    pose proof (composed_wf tasks (c_root c) fuel loaded Hload (sr_of tasks) (c_again c) fuel ps Hplan) as Hwf. fold pl in Hwf.
    pose proof (reachable_not_stopped _ _ _ _ (final_reachable _ _ _ _ _ Hfin)) as Hst.
    destruct (composed_edges tasks (c_root c) fuel loaded Hload (sr_of tasks) (c_again c) fuel ps Hplan) as (E1 & E2 & _).
    destruct (composed_exact tasks (c_root c) fuel loaded Hload (sr_of tasks) (c_again c) fuel ps Hplan) as (_ & Hnd & _).
    assert (Hinj : forall a b, a < n -> b < n -> task a = task b -> a = b).
    { intros a b Ha Hb E. eapply (NoDup_nth (map op_task (ops ps)) 0) in Hnd; [exact Hnd | now rewrite map_length | now rewrite map_length|].
      unfold task, op_at in E. rewrite <- (map_nth op_task (ops ps) dummy_op a), <- (map_nth op_task (ops ps) dummy_op b) in E. exact E. }
    assert (Hdeps : (forall d, In d (exe_deps pl o) -> ost s d = SUCCEEDED) <->
                    (forall d, d < n -> In (task d) (t_deps (info (task o))) -> ost s d = SUCCEEDED)).
    { split.
      - intros H d Hd Hin. destruct (E1 o Ho (task d) Hin (op_runs d Hd)) as (od & Hod & Hlt & Et).
        assert (od = d) by (apply Hinj; [unfold n in *; lia | exact Hd | exact Et]). subst od. apply H. now rewrite exe_deps_pl.
      - intros H d Hd. rewrite exe_deps_pl in Hd. destruct (E2 o d Ho Hd) as [Hlt Hin]. apply H; [unfold n in *; lia | exact Hin]. }
    destruct (main_classification pl (c_jobs c) false orc Hwf Hjobs s o Hfin Hst Ho) as (_ & C2 & C3 & C4 & C5).
    destruct (main_all_completed pl (c_jobs c) false orc Hwf Hjobs s Hfin Hst) as (_ & _ & Hout & _).
    split; [|split; [|split; [|split; [exact C5 | now apply Hout]]]].
    - rewrite C4. split.
      + intros (f & Hp & Hf). destruct (op_path_rpath o f Ho Hp) as [Hfn Hr]. eauto.
      + intros (f & Hfn & Hr & Hf). destruct (rpath_op_path _ _ Hr o Ho eq_refl) as (d & Hd & Et & Hp).
        assert (d = f) by (now apply Hinj). subst d. eauto.
    - rewrite C2, Hdeps. reflexivity.
    - rewrite C3, Hdeps. reflexivity.
  Qed.
End TaskLevel.

Theorem cond_run_task_classification fuel tasks c loaded ps evs :
  cond_run fuel tasks c = ORun loaded ps (Some evs) -> 1 <= c_jobs c -> c_stop c = false ->
  let pl := plan_of ps in let orc := oracle_of pl c in let n := length (ops ps) in
  let task o := op_task (op_at (ops ps) o) in let info := info_of tasks in
  exists s, final_state pl (c_jobs c) false orc s /\ evs = rev (report pl (c_root c) s ++ trace s) /\
  forall o, o < n ->
    (ost s o = SKIPPED <-> exists f, f < n /\ RPath tasks c (task o) (task f) /\ ost s f = FAILED) /\
    (ost s o = FAILED <->
       (forall d, d < n -> In (task d) (t_deps (info (task o))) -> ost s d = SUCCEEDED) /\ fails pl orc o = true) /\
    (ost s o = SUCCEEDED <->
       (forall d, d < n -> In (task d) (t_deps (info (task o))) -> ost s d = SUCCEEDED) /\ fails pl orc o = false) /\
    (ost s o = SKIPPED -> forall sl, ~ In (EStart o sl) evs) /\
    (ost s o = SUCCEEDED \/ ost s o = FAILED \/ ost s o = SKIPPED).
Proof.
  unfold cond_run. destruct (load_closure _ _ _) as [loaded'| | | | |] eqn:Hload; try discriminate.
  destruct (plan_for _ _ _ _ _) as [ps'|] eqn:Hplan; [|discriminate].
  intros H Hjobs Hstop. inversion H; subst loaded' ps'. clear H. rename H3 into Hrun. cbv zeta.
  rewrite Hstop in Hrun. unfold run_plan in Hrun.
  destruct (xiter (plan_of ps) (c_jobs c) false (oracle_of (plan_of ps) c) fuel (xinit (plan_of ps) (c_jobs c))) as [s|] eqn:Hx; [|discriminate].
  assert (Hev : rev (report (plan_of ps) (c_root c) s ++ trace s) = evs) by (inversion Hrun; reflexivity).
  assert (Hfin : final_state (plan_of ps) (c_jobs c) false (oracle_of (plan_of ps) c) s) by (exists fuel; exact Hx).
  exists s. split; [exact Hfin|]. split; [now symmetry|]. intros o Ho.
  destruct (task_classification tasks c fuel loaded ps Hload Hplan (oracle_of (plan_of ps) c) s Hjobs Hfin o Ho) as (A & B & C & D & E).
  split; [exact A|]. split; [exact B|]. split; [exact C|]. split; [|exact E].
  intros Hsk sl Hin. rewrite <- Hev in Hin. apply in_rev in Hin. apply in_app_or in Hin as [Hin|Hin].
  - eapply report_no_start; eauto.
  - eapply D; eauto.
Qed.

(* C04 on the composed model, in terms of the TASK's attributes: at every state the executor loop
   passes through when `cond run` executes an accepted project *)
Theorem cond_run_limits fuel tasks c loaded ps r :
  cond_run fuel tasks c = ORun loaded ps r -> 1 <= c_jobs c ->
  let pl := plan_of ps in let orc := oracle_of pl c in let jobs := c_jobs c in
  let task o := op_task (op_at (ops ps) o) in let par t := par_of (info_of tasks) t in
  forall s, reachable pl jobs (c_stop c) orc s ->
    length (infl s) <= jobs /\
    (forall o, In o (infl s) -> o < length (ops ps)) /\
    (forall o, In o (infl s) -> par (task o) = false -> infl s = [o]) /\
    NoDup (slots_of (procs s)) /\ (forall sl, In sl (slots_of (procs s)) -> sl < jobs) /\
    (forall o sl, In (o, sl) (procs s) -> (sl = None <-> (par (task o) = false \/ jobs <= 1))) /\
    (forall o, In o (infl s) <-> (exists sl, In (EStart o sl) (trace s)) /\ forall rc, ~ In (EFinish o rc) (trace s)).
Proof.
  unfold cond_run. destruct (load_closure _ _ _) as [loaded'| | | | |] eqn:Hload; try discriminate.
  destruct (plan_for _ _ _ _ _) as [ps'|] eqn:Hplan; [|discriminate].
  intros H Hjobs. inversion H; subst loaded' ps'. clear H. cbv zeta. intros s Hreach.
  pose proof (composed_wf tasks (c_root c) fuel loaded Hload (sr_of tasks) (c_again c) fuel ps Hplan) as Hwf.
  destruct (composed_edges tasks (c_root c) fuel loaded Hload (sr_of tasks) (c_again c) fuel ps Hplan) as (_ & _ & _ & _ & Hattr).
  pose proof (reachable_inv _ _ _ _ _ Hwf Hjobs Hreach) as HI.
  destruct (main_limits _ _ _ _ Hwf Hjobs s Hreach) as (L1 & L2 & L3 & L4 & L5 & L6 & _).
  assert (Hlt : forall o, In o (infl s) -> o < length (ops ps)).
  { intros o Ho. apply (c_range _ _ _ _ _ _ _ _ (i_c _ _ _ _ _ HI)). unfold infl, inflP, allqP in *. rewrite !in_app_iff in *. tauto. }
  assert (Hpar : forall o, o < length (ops ps) -> is_par (plan_of ps) o = par_of (info_of tasks) (op_task (op_at (ops ps) o))).
  { intros o Ho. destruct (Hattr o Ho) as [A _]. exact A. }
  split; [exact L1|]. split; [exact Hlt|]. split.
  { intros o Ho Hp. apply L2; [exact Ho|]. rewrite Hpar by (now apply Hlt). exact Hp. }
  split; [exact L3|]. split; [exact L4|]. split; [|exact L6].
  intros o sl Hin. rewrite (L5 o sl Hin). rewrite Hpar; [reflexivity|].
  apply Hlt. unfold infl, inflP. apply in_or_app. right. apply in_map_iff. exists (o, sl). auto.
Qed.
