(* Vocabulary of the documented compatibility rule (website/docs/task-types/run-experiment.md,
   "Versioning and Caching Semantics"; website/docs/cli/run.md), written as predicates over a
   SET of recorded versions -- no loops, no list order.  Props/C05.v relates the model's
   functions to these. *)
From Coq Require Import List NArith Bool.
From Conductor Require Import Lib.Str Model.Select.
Import ListNotations.
Open Scope N_scope.

Section Spec.
  Variable is_ancestor : cid -> cid -> bool.
  Variable get_distance : cid -> cid -> N.
  Variable rev_parse : str -> option cid.

  (* the version carries a commit that is an ancestor of (or equal to) h *)
  Definition anc_v (h : cid) (v : version) : Prop :=
    exists c, commit v = Some c /\ is_ancestor h c = true.

  (* number of commits separating h and the version's commit *)
  Definition dist_v (h : cid) (v : version) : N :=
    match commit v with Some c => get_distance h c | None => 0 end.

  (* v is strictly closer to h than w, or equally close and at least as recent *)
  Definition closer (h : cid) (v w : version) : Prop :=
    dist_v h v < dist_v h w \/ (dist_v h v = dist_v h w /\ ts w <= ts v).

  (* "the version whose commit is both (i) an ancestor of the current commit and (ii) closest
     to the current commit ... If there are multiple closest task versions, Conductor selects
     the most recent one" *)
  Definition Best (h : cid) (vs : list version) (v : version) : Prop :=
    In v vs /\ anc_v h v /\ forall w, In w vs -> anc_v h w -> closer h v w.

  (* "the most recent version of the task's outputs" *)
  Definition Newest (vs : list version) (v : version) : Prop :=
    In v vs /\ forall w, In w vs -> ts w <= ts v.

  Definition AllNull (vs : list version) : Prop := forall w, In w vs -> commit w = None.
  Definition NoAncestor (h : cid) (vs : list version) : Prop := forall w, In w vs -> ~ anc_v h w.
  Definition SomeCommit (vs : list version) : Prop := exists w, In w vs /\ commit w <> None.

  (* the primary key of the version index: within a task, timestamps are pairwise distinct *)
  Definition DistinctTs (vs : list version) : Prop := NoDup (map ts vs).

  (* --at-least C: the selected version is absent, has no commit, or is a strict ancestor of C *)
  Definition MustRerun (C : cid) (sel : option version) : Prop :=
    sel = None \/
    exists v, sel = Some v /\
      (commit v = None \/ exists vc, commit v = Some vc /\ vc <> C /\ is_ancestor C vc = true).

  (* cli/run.md: the accepted flag combinations and what they ask for.
       no commit flag                     -> plain run, --again as given
       --at-least S   (alone)             -> git in use, a current commit h exists, S names a commit
                                             that is an ancestor of h; never together with --again
       --this-commit  (alone)             -> the same with S = HEAD *)
  Inductive Documented : flags -> mode -> outcome -> Prop :=
  | doc_plain : forall again m,
      Documented {| f_again := again; f_at_least := None; f_this_commit := false |} m (Plan again None)
  | doc_at_least : forall s h c,
      rev_parse s = Some c -> is_ancestor h c = true ->
      Documented {| f_again := false; f_at_least := Some s; f_this_commit := false |} (Head h)
                 (Plan false (Some c))
  | doc_this_commit : forall h c,
      rev_parse HEAD_SYM = Some c -> is_ancestor h c = true ->
      Documented {| f_again := false; f_at_least := None; f_this_commit := true |} (Head h)
                 (Plan false (Some c)).

  Definition commit_flag (f : flags) : Prop := f_this_commit f = true \/ f_at_least f <> None.
  Definition flag_symbol (f : flags) : str :=
    match f_at_least f with Some s => s | None => HEAD_SYM end.

  (* the documented reason behind every error *)
  Definition Reason (f : flags) (m : mode) (e : flag_error) : Prop :=
    match e with
    | CannotSetBothCommitFlags => f_this_commit f = true /\ f_at_least f <> None
    | CannotSetAgainAndCommit => f_again f = true /\ commit_flag f
    | CommitFlagUnsupported => commit_flag f /\ current_commit m = None
    | InvalidCommitSymbol => commit_flag f /\ rev_parse (flag_symbol f) = None
    | AtLeastCommitNotAncestor =>
        commit_flag f /\ exists h c, m = Head h /\ rev_parse (flag_symbol f) = Some c /\ is_ancestor h c = false
    end.
End Spec.

(* ---------- well-formed histories (for the facts about the explicit commit graph) ---------- *)
(* every commit is listed once and its parents were created before it *)
Fixpoint wf_dag (d : dag) (earlier : list cid) : Prop :=
  match d with
  | [] => True
  | (c, ps) :: d' => ~ In c earlier /\ (forall p, In p ps -> In p earlier) /\ wf_dag d' (c :: earlier)
  end.
