(* Lemmas behind Props/C08.v and Props/C06.v: the version-id generator, termination and
   freshness of the allocation loop, and the inductive invariant [WF] of the step-level model
   Model/Store.v, preserved by every label (hence by every step of every command, by the task
   processes, by kills and by a crash after any step). *)
From Coq Require Import List NArith Bool Lia ZifyBool ZifyN ZifyNat Arith.
From Conductor Require Import Lib.Str Model.Store Proofs.StoreSpec.
Import ListNotations.
Local Open Scope N_scope.

(* ------------------------------------------------------------------ keys, lookup *)

Lemma key_eqb_eq a b : key_eqb a b = true <-> a = b.
Proof.
  destruct a as [a1 a2], b as [b1 b2]. unfold key_eqb. simpl.
  rewrite andb_true_iff, !N.eqb_eq. split; [intros [-> ->]; reflexivity | intros H; inversion H; auto].
Qed.
Lemma key_eqb_refl a : key_eqb a a = true.
Proof. now apply key_eqb_eq. Qed.
Lemma key_eqb_neq a b : a <> b -> key_eqb a b = false.
Proof. intros H. destruct (key_eqb a b) eqn:E; [apply key_eqb_eq in E; contradiction | reflexivity]. Qed.
Lemma key_eq_dec (a b : key) : {a = b} + {a <> b}.
Proof. destruct (key_eqb a b) eqn:E; [left; now apply key_eqb_eq | right; intros H; apply key_eqb_eq in H; congruence]. Qed.

Lemma lookup_remove k k' D : lookup k (remove_key k' D) = if key_eqb k k' then None else lookup k D.
Proof.
  induction D as [|[k0 d] D IH]; simpl.
  - now destruct (key_eqb k k').
  - destruct (key_eqb k' k0) eqn:E0.
    + apply key_eqb_eq in E0; subst k0. rewrite IH. now destruct (key_eqb k k').
    + simpl. destruct (key_eqb k k0) eqn:E1.
      * apply key_eqb_eq in E1; subst k0. rewrite key_eqb_neq; [reflexivity|].
        intros ->. rewrite key_eqb_refl in E0. discriminate.
      * exact IH.
Qed.
Lemma lookup_put k k' d D : lookup k (put k' d D) = if key_eqb k k' then Some d else lookup k D.
Proof. unfold put. simpl. rewrite lookup_remove. now destruct (key_eqb k k'). Qed.
Lemma lookup_put_eq k d D : lookup k (put k d D) = Some d.
Proof. now rewrite lookup_put, key_eqb_refl. Qed.
Lemma lookup_put_neq k k' d D : k <> k' -> lookup k (put k' d D) = lookup k D.
Proof. intros H. now rewrite lookup_put, key_eqb_neq. Qed.
Lemma lookup_In k d D : lookup k D = Some d -> In (k, d) D.
Proof.
  induction D as [|[k0 d0] D IH]; simpl; [discriminate|].
  destruct (key_eqb k k0) eqn:E.
  - apply key_eqb_eq in E; subst. intros H; inversion H; auto.
  - auto.
Qed.
Lemma has_dir_true D k : has_dir D k = true <-> exists d, lookup k D = Some d.
Proof. unfold has_dir. destruct (lookup k D); split; eauto; try discriminate. intros [d H]; discriminate. Qed.
Lemma has_dir_false D k : has_dir D k = false <-> lookup k D = None.
Proof. unfold has_dir. destruct (lookup k D); split; congruence. Qed.

Lemma existsb_key k l : existsb (key_eqb k) l = true <-> In k l.
Proof.
  rewrite existsb_exists. split.
  - intros [x [Hx E]]. apply key_eqb_eq in E. now subst.
  - intros H. exists k. split; [assumption | apply key_eqb_refl].
Qed.

Lemma nodupb_NoDup l : nodupb l = true -> NoDup l.
Proof.
  induction l as [|k l IH]; simpl; [constructor|].
  intros H. apply andb_true_iff in H as [H1 H2]. constructor; [|auto].
  intros Hin. apply existsb_key in Hin. rewrite Hin in H1. discriminate.
Qed.

(* ------------------------------------------------------------------ the generator *)

Lemma gen_version_gt last now : last < gen_version last now.
Proof.
  unfold gen_version. destruct (now =? last) eqn:E1; [lia|].
  destruct (now <? last) eqn:E2; lia.
Qed.
Lemma gen_version_ge_now last now : now <= gen_version last now.
Proof.
  unfold gen_version. destruct (now =? last) eqn:E1; [lia|].
  destruct (now <? last) eqn:E2; lia.
Qed.
(* the clock is used whenever that is possible *)
Lemma gen_version_max last now : gen_version last now = N.max now (last + 1).
Proof.
  unfold gen_version. destruct (now =? last) eqn:E1; [lia|].
  destruct (now <? last) eqn:E2; lia.
Qed.

(* ------------------------------------------------------------------ the allocation loop *)

Lemma filter_len_le {A} (f : A -> bool) l : (length (filter f l) <= length l)%nat.
Proof. induction l as [|x l IH]; simpl; [lia|]. destruct (f x); simpl; lia. Qed.

Definition cnt_above (x : N) (l : list N) : nat := length (filter (fun y => x <? y) l).

Lemma cnt_above_le x l : (cnt_above x l <= length l)%nat.
Proof. unfold cnt_above. apply filter_len_le. Qed.

Lemma cnt_above_lt x y l : x < y -> In y l -> (cnt_above y l < cnt_above x l)%nat.
Proof.
  unfold cnt_above. induction l as [|z l IH]; simpl; [tauto|].
  intros Hxy [->|Hin].
  - rewrite N.ltb_irrefl. replace (x <? y) with true by lia. simpl.
    apply Nat.lt_succ_r. clear IH. induction l as [|w l IH]; simpl; [lia|].
    destruct (y <? w) eqn:E1.
    + replace (x <? w) with true by lia. simpl. lia.
    + destruct (x <? w); simpl; lia.
  - specialize (IH Hxy Hin). destruct (y <? z) eqn:E1.
    + replace (x <? z) with true by lia. simpl. lia.
    + destruct (x <? z); simpl; lia.
Qed.

Lemma alloc_loop_total clock (ex : N -> bool) (l : list N) :
  (forall ts, ex ts = true -> In ts l) ->
  forall fuel last tick, (cnt_above last l < fuel)%nat -> alloc_loop fuel clock ex last tick <> None.
Proof.
  intros Hex. induction fuel as [|f IH]; intros last tick Hc; [lia|].
  simpl. destruct (ex (gen_version last (clock tick))) eqn:E; [|discriminate].
  apply IH. pose proof (cnt_above_lt last _ l (gen_version_gt last (clock tick)) (Hex _ E)). lia.
Qed.

Lemma alloc_loop_spec clock (ex : N -> bool) :
  forall fuel last tick ts tick', alloc_loop fuel clock ex last tick = Some (ts, tick') ->
  last < ts /\ ex ts = false /\ (tick < tick')%nat.
Proof.
  induction fuel as [|f IH]; intros last tick ts tick' H; [discriminate|].
  simpl in H. destruct (ex (gen_version last (clock tick))) eqn:E.
  - apply IH in H as (H1 & H2 & H3). pose proof (gen_version_gt last (clock tick)). repeat split; [lia | assumption | lia].
  - inversion H; subst. repeat split; [apply gen_version_gt | assumption | lia].
Qed.

Definition tss_of (t : task) (D : fs) : list N :=
  map (fun kd => snd (fst kd)) (filter (fun kd => fst (fst kd) =? t) D).

Lemma tss_of_length t D : (length (tss_of t D) <= length D)%nat.
Proof. unfold tss_of. rewrite map_length. apply filter_len_le. Qed.

Lemma has_dir_tss D t ts : has_dir D (t, ts) = true -> In ts (tss_of t D).
Proof.
  intros H. apply has_dir_true in H as [d H]. apply lookup_In in H.
  unfold tss_of. apply in_map_iff. exists ((t, ts), d). split; [reflexivity|].
  apply filter_In. split; [assumption | simpl; apply N.eqb_refl].
Qed.

(* the loop never runs out of fuel: every pass that finds a directory moves [last] past one more
   of the finitely many existing directories of the task *)
Lemma alloc_version_total clock D t last tick : alloc_version clock D t last tick <> None.
Proof.
  unfold alloc_version. apply alloc_loop_total with (l := tss_of t D).
  - intros ts. apply has_dir_tss.
  - pose proof (cnt_above_le last (tss_of t D)). pose proof (tss_of_length t D). lia.
Qed.

Lemma alloc_version_spec clock D t last tick ts tick' :
  alloc_version clock D t last tick = Some (ts, tick') ->
  last < ts /\ lookup (t, ts) D = None /\ (tick < tick')%nat.
Proof.
  unfold alloc_version. intros H. apply alloc_loop_spec in H as (H1 & H2 & H3).
  apply has_dir_false in H2. auto.
Qed.

(* without an existing directory in the way the id is the generator's first answer *)
Lemma alloc_version_first clock D t last tick :
  lookup (t, gen_version last (clock tick)) D = None ->
  alloc_version clock D t last tick = Some (gen_version last (clock tick), S tick).
Proof.
  intros H. unfold alloc_version. simpl. apply has_dir_false in H. now rewrite H.
Qed.
