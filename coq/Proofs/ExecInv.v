(* Invariants of the executor model (Model/Exec.v) for a well-formed plan, every oracle, every
   jobs >= 1 and both values of stop_on_first_error.  Part 1: bookkeeping (partition of the
   operations, waiting_on counters, queues). *)
From Coq Require Import List Arith Bool Lia Permutation NArith.
From Conductor Require Import Model.Loader Model.Planner Model.Exec Proofs.ListFacts.
Import ListNotations.

(* what the executor assumes about a plan; established for the planner's output in Proofs/PlannerThm.v (plan_wf) and, for every project the loader accepts, in Proofs/Compose.v (composed_wf) *)
Definition wf_plan (p : plan) : Prop :=
  (forall o, o < length (p_ops p) -> forall d, In d (exe_deps p o) -> d < o) /\
  (forall o, o < length (p_ops p) -> NoDup (exe_deps p o)) /\
  NoDup (p_initial p) /\
  (forall o, In o (p_initial p) <-> o < length (p_ops p) /\ exe_deps p o = []) /\
  (forall o, op_sync (opi p o) = true -> is_par p o = false).

Lemma count_filter_split (f : nat -> bool) x l :
  count x (filter f l) + count x (filter (fun d => negb (f d)) l) = count x l.
Proof.
  induction l as [|y l IH]; simpl; [reflexivity|].
  destruct (f y); simpl; destruct (Nat.eqb x y); lia.
Qed.

Lemma count_filter_le (f : nat -> bool) x l : count x (filter f l) <= count x l.
Proof. pose proof (count_filter_split f x l). lia. Qed.

Lemma In_count_pos x l : In x l -> 1 <= count x l.
Proof. intros H. apply count_In in H. lia. Qed.

Definition allqP (rS rP sy : list nat) (pr : list (nat * option nat)) (co X : list nat) : list nat :=
  rS ++ rP ++ sy ++ map fst pr ++ co ++ X.
Definition allq (s : xstate) (X : list nat) : list nat :=
  allqP (readyS s) (readyP s) (syncs s) (procs s) (completed s) X.

Lemma count_allqP x rS rP sy pr co X :
  count x (allqP rS rP sy pr co X) = count x rS + count x rP + count x sy
                       + count x (map fst pr) + count x co + count x X.
Proof. unfold allqP. rewrite !count_app. lia. Qed.
Lemma count_allq x s X :
  count x (allq s X) = count x (readyS s) + count x (readyP s) + count x (syncs s)
                       + count x (map fst (procs s)) + count x (completed s) + count x X.
Proof. unfold allq. apply count_allqP. Qed.


Section Inv.
  Variable p : plan.
  Variable jobs : nat.
  Variable stop : bool.
  Variable orc : oracle.
  Hypothesis wf : wf_plan p.

  Let n := length (p_ops p).


  Definition uncP (co : list nat) (o : nat) : nat :=
    length (filter (fun d => negb (mem d co)) (exe_deps p o)).
  Definition unc (s : xstate) (o : nat) : nat := uncP (completed s) o.

  (* The invariants are predicates over the components of the state they speak about, so that a
     state transformer that leaves those components alone preserves them by conversion. *)
  (* X: operations taken out of a queue / the in-flight set and about to be completed *)
  Record CInvP (rS rP sy : list nat) (pr : list (nat * option nat)) (co : list nat) (wa : nat -> nat)
         (X : list nat) : Prop := {
    c_nodup : NoDup (allqP rS rP sy pr co X);
    c_range : forall o, In o (allqP rS rP sy pr co X) -> o < n;
    c_qS : forall o, In o rS -> is_par p o = false;
    c_qP : forall o, In o rP -> is_par p o = true;
    c_wait : forall o, o < n -> wa o = uncP co o;
    c_act : forall o, o < n -> (In o (allqP rS rP sy pr co X) <-> uncP co o = 0)
  }.
  Definition CInv (s : xstate) (X : list nat) : Prop :=
    CInvP (readyS s) (readyP s) (syncs s) (procs s) (completed s) (waiting s) X.

  Lemma wf_deps_lt o d : o < n -> In d (exe_deps p o) -> d < o.
  Proof. destruct wf as (H & _). intros Ho Hd. exact (H o Ho d Hd). Qed.
  Lemma wf_deps_nodup o : o < n -> NoDup (exe_deps p o).
  Proof. destruct wf as (_ & H & _). intros Ho. exact (H o Ho). Qed.

  Lemma unc_snoc s o x :
    ~ In o (completed s) ->
    length (filter (fun d => negb (mem d (completed s ++ [o]))) (exe_deps p x)) + count o (exe_deps p x) = unc s x.
  Proof. intros H. unfold unc, uncP. now apply filter_uncompleted_snoc. Qed.

  Lemma pf_core s o : CInv s [o] -> CInv (process_finished p s o) [].
  Proof.
    intros I. unfold CInv in I.
    assert (Ho_n : o < n) by (apply (c_range _ _ _ _ _ _ _ I); unfold allqP; rewrite !in_app_iff; simpl; tauto).
    assert (Ho_nc : ~ In o (completed s)).
    { intros Hin. pose proof (NoDup_count o _ (c_nodup _ _ _ _ _ _ _ I)) as Hc. rewrite count_allqP in Hc.
      apply In_count_pos in Hin. simpl in Hc. rewrite Nat.eqb_refl in Hc. lia. }
    set (ds := deps_of p o).
    set (w' := fun x => waiting s x - count x ds).
    set (newly := filter (fun d => Nat.eqb (w' d) 0) ds).
    assert (ErS : readyS (process_finished p s o) = readyS s ++ filter (fun d => negb (is_par p d)) newly) by reflexivity.
    assert (ErP : readyP (process_finished p s o) = readyP s ++ filter (is_par p) newly) by reflexivity.
    assert (Esy : syncs (process_finished p s o) = syncs s) by reflexivity.
    assert (Epr : procs (process_finished p s o) = procs s) by reflexivity.
    assert (Eco : completed (process_finished p s o) = completed s ++ [o]) by reflexivity.
    assert (Ewa : waiting (process_finished p s o) = w') by reflexivity.
    assert (Hds_nodup : NoDup ds) by (apply NoDup_deps_of; intros; now apply wf_deps_nodup).
    assert (Hnewly_count : forall x, count x newly <= 1).
    { intros x. unfold newly. etransitivity; [apply count_filter_le | now apply NoDup_count]. }
    assert (Hw' : forall x, x < n -> w' x = length (filter (fun d => negb (mem d (completed s ++ [o]))) (exe_deps p x))).
    { intros x Hx. unfold w'. rewrite (c_wait _ _ _ _ _ _ _ I x Hx). fold (unc s x). unfold ds. rewrite count_deps_of.
      fold n. replace (x <? n) with true by (symmetry; now apply Nat.ltb_lt).
      pose proof (unc_snoc s o x Ho_nc). lia. }
    assert (Hnewly_in : forall x, In x newly <-> x < n /\ In o (exe_deps p x) /\ w' x = 0).
    { intros x. unfold newly. rewrite filter_In. unfold ds. rewrite In_deps_of, Nat.eqb_eq. fold n. tauto. }
    assert (Hnewly_fresh : forall x, In x newly -> count x (allq s [o]) = 0).
    { intros x Hx. apply Hnewly_in in Hx as (Hxn & Hox & _).
      destruct (count x (allq s [o])) eqn:E; [reflexivity|]. exfalso.
      assert (Hin : In x (allq s [o])) by (apply count_In; lia).
      unfold allq in Hin. apply (c_act _ _ _ _ _ _ _ I x Hxn) in Hin. unfold uncP in Hin.
      rewrite filter_length_zero_all in Hin. specialize (Hin o Hox).
      apply negb_false_iff, mem_In in Hin. contradiction. }
    assert (Hsplit : forall x, count x (filter (fun d => negb (is_par p d)) newly) + count x (filter (is_par p) newly) = count x newly).
    { intros x. pose proof (count_filter_split (is_par p) x newly). lia. }
    unfold CInv. constructor.
    - (* NoDup *)
      apply count_NoDup. intros x. rewrite count_allqP, ErS, ErP, Esy, Epr, Eco, !count_app.
      pose proof (NoDup_count x _ (c_nodup _ _ _ _ _ _ _ I)) as Hold. rewrite count_allqP in Hold.
      specialize (Hsplit x). specialize (Hnewly_count x).
      destruct (count x newly) eqn:En.
      + cbn [count] in *. lia.
      + assert (Hx : In x newly) by (apply count_In; lia).
        pose proof (Hnewly_fresh x Hx) as Hf. rewrite count_allq in Hf. cbn [count] in *. lia.
    - (* range *)
      intros x Hx. rewrite ErS, ErP, Esy, Epr, Eco in Hx. unfold allqP in Hx.
      rewrite !in_app_iff in Hx.
      assert (Hold : In x (allq s [o]) -> x < n) by apply (c_range _ _ _ _ _ _ _ I).
      unfold allq, allqP in Hold. rewrite !in_app_iff in Hold.
      repeat match goal with H : _ \/ _ |- _ => destruct H as [H|H] end;
        first [ apply Hold; tauto
              | apply filter_In in Hx as [Hx _]; now apply Hnewly_in in Hx
              | simpl in Hx; destruct Hx as [<-|[]]; assumption
              | destruct Hx ].
    - (* sequential queue *)
      intros x Hx. rewrite ErS in Hx. apply in_app_or in Hx as [Hx|Hx].
      + now apply (c_qS _ _ _ _ _ _ _ I).
      + apply filter_In in Hx as [_ Hx]. now apply negb_true_iff in Hx.
    - (* parallel queue *)
      intros x Hx. rewrite ErP in Hx. apply in_app_or in Hx as [Hx|Hx].
      + now apply (c_qP _ _ _ _ _ _ _ I).
      + now apply filter_In in Hx as [_ Hx].
    - (* counters *)
      intros x Hx. rewrite Ewa, Eco. unfold uncP. now apply Hw'.
    - (* active <-> no uncompleted dependency *)
      intros x Hx. rewrite ErS, ErP, Esy, Epr, Eco. unfold uncP. rewrite <- (Hw' x Hx).
      rewrite <- count_In, count_allqP, !count_app.
      pose proof (c_act _ _ _ _ _ _ _ I x Hx) as Hact. rewrite <- count_In, count_allqP in Hact. fold (unc s x) in Hact.
      specialize (Hsplit x).
      assert (Hw_le : w' x <= unc s x) by (unfold w'; rewrite (c_wait _ _ _ _ _ _ _ I x Hx); fold (unc s x); lia).
      split.
      + intros Hpos.
        destruct (count x newly) eqn:En.
        * assert (unc s x = 0) by (apply Hact; simpl in *; lia). lia.
        * assert (Hxin : In x newly) by (apply count_In; lia). now apply Hnewly_in in Hxin.
      + intros Hz.
        destruct (Nat.eq_dec (unc s x) 0) as [Hu|Hu].
        * apply Hact in Hu. simpl in *. lia.
        * (* x was waiting and its counter reached 0: it is among the newly enqueued *)
          assert (Hcnt : 0 < count x ds).
          { unfold w' in Hz. rewrite (c_wait _ _ _ _ _ _ _ I x Hx) in Hz. fold (unc s x) in Hz. lia. }
          assert (Hxin : In x newly).
          { apply Hnewly_in. split; [assumption|]. split; [|assumption].
            apply count_In in Hcnt. unfold ds in Hcnt. now apply In_deps_of in Hcnt. }
          apply In_count_pos in Hxin. lia.
  Qed.

  (* ================= Part 2: states, mode/slots, trace ================= *)
  Hypothesis Hjobs : 1 <= jobs.

  Definition inflP (sy : list nat) (pr : list (nat * option nat)) : list nat := sy ++ map fst pr.
  Definition infl (s : xstate) : list nat := inflP (syncs s) (procs s).
  Definition slots_of (pr : list (nat * option nat)) : list nat :=
    flat_map (fun x => match snd x with Some sl => [sl] | None => [] end) pr.
  Definition fails (o : nat) : bool :=
    launch_fails orc o || (negb (op_sync (opi p o)) && negb (N.eqb (rc_of orc o) 0)).

  Fixpoint TraceOK (tr : list event) : Prop :=
    match tr with
    | [] => True
    | e :: tr' =>
      TraceOK tr' /\
      match e with
      | EStart o _ =>
        (forall d, In d (exe_deps p o) -> In (EFinish d 0%N) tr') /\
        (forall sl, ~ In (EStart o sl) tr') /\ ~ In (ESkip o) tr' /\ ~ In (ELaunchFail o) tr'
      | EFinish o _ =>
        (exists sl, In (EStart o sl) tr') /\ (forall rc, ~ In (EFinish o rc) tr')
      | ESkip o | ELaunchFail o =>
        (forall sl, ~ In (EStart o sl) tr') /\ ~ In (ESkip o) tr' /\ ~ In (ELaunchFail o) tr'
      | _ => True
      end
    end.

  Record SInvP (sy : list nat) (pr : list (nat * option nat)) (co : list nat) (st : nat -> ostate) : Prop := {
    s_st : forall o, o < n -> (In o co <-> st o <> QUEUED);
    s_run_deps : forall o, o < n -> (st o = SUCCEEDED \/ st o = FAILED) ->
                 forall d, In d (exe_deps p o) -> st d = SUCCEEDED;
    s_skip_deps : forall o, o < n -> st o = SKIPPED ->
                  exists d, In d (exe_deps p o) /\ (st d = FAILED \/ st d = SKIPPED);
    s_infl_deps : forall o, In o (inflP sy pr) -> forall d, In d (exe_deps p o) -> st d = SUCCEEDED;
    s_failed : forall o, o < n -> st o = FAILED -> fails o = true;
    s_succ : forall o, o < n -> st o = SUCCEEDED -> fails o = false;
    s_sync : forall o, In o sy -> op_sync (opi p o) = true /\ launch_fails orc o = false;
    s_proc : forall o, In o (map fst pr) -> op_sync (opi p o) = false /\ launch_fails orc o = false
  }.
  Definition SInv (s : xstate) : Prop := SInvP (syncs s) (procs s) (completed s) (ost s).

  Record MInvP (sy : list nat) (pr : list (nat * option nat)) (av : list nat) (rp : bool) : Prop := {
    m_mode : forall o, In o (inflP sy pr) -> is_par p o = rp;
    m_alone : forall o, In o (inflP sy pr) -> is_par p o = false -> length (inflP sy pr) = 1;
    m_bound : length (inflP sy pr) <= jobs;
    m_slots : Permutation (av ++ slots_of pr) (seq 0 jobs);
    m_slot_none : forall o sl, In (o, sl) pr -> (sl = None <-> (is_par p o = false \/ jobs <= 1))
  }.
  Definition MInv (s : xstate) : Prop := MInvP (syncs s) (procs s) (avail s) (runpar s).

  Record TInvP (sy : list nat) (pr : list (nat * option nat)) (co : list nat) (st : nat -> ostate)
         (tr : list event) (X : list nat) : Prop := {
    t_ok : TraceOK tr;
    t_start : forall o sl, In (EStart o sl) tr -> In o (inflP sy pr) \/ In o co \/ In o X;
    t_infl : forall o, In o (inflP sy pr) -> exists sl, In (EStart o sl) tr;
    t_done : forall o, (In (ESkip o) tr \/ In (ELaunchFail o) tr \/ exists rc, In (EFinish o rc) tr) -> In o co;
    t_succ : forall o, o < n -> st o = SUCCEEDED -> In (EFinish o 0%N) tr;
    t_fin_state : forall o rc, In (EFinish o rc) tr -> (rc = 0%N <-> st o = SUCCEEDED);
    t_skip : forall o, o < n -> (st o = SKIPPED <-> In (ESkip o) tr);
    t_compl : forall o, In o co -> In (ESkip o) tr \/ In (ELaunchFail o) tr \/ exists rc, In (EFinish o rc) tr
  }.
  Definition TInv (s : xstate) (X : list nat) : Prop :=
    TInvP (syncs s) (procs s) (completed s) (ost s) (trace s) X.

  (* with --stop-early the loop is left at the first failure *)
  Definition NInvP (stp : bool) (tr : list event) : Prop :=
    stop = true -> stp = false ->
    forall e, In e tr -> match e with ELaunchFail _ => False | EFinish _ rc => rc = 0%N | _ => True end.
  Definition NInv (s : xstate) : Prop := NInvP (stopped s) (trace s).

  Record Inv (s : xstate) : Prop := {
    i_c : CInv s [];
    i_s : SInv s;
    i_m : MInv s;
    i_t : TInv s [];
    i_n : NInv s
  }.
End Inv.
