(* Invariants of the planner model (Model/Planner.v), part 1: structural facts that hold for every
   task table (no acyclicity needed): indices in range, one primary LoweringTask per task, one
   operation per lowered task, operations refer only to earlier operations, initial operations. *)
From Coq Require Import List Arith Bool Lia.
From Conductor Require Import Model.Loader Model.Planner Proofs.ListFacts.
Import ListNotations.

(* ---------- list helpers ---------- *)
Lemma length_set_nth {A} i (x : A) l : length (set_nth i x l) = length l.
Proof. revert i. induction l as [|y l IH]; intros [|i]; simpl; auto. Qed.

Lemma nth_set_nth_eq {A} i (x d : A) l : i < length l -> nth i (set_nth i x l) d = x.
Proof. revert i. induction l as [|y l IH]; intros [|i] H; simpl in *; try lia; auto. apply IH. lia. Qed.

Lemma nth_set_nth_neq {A} i j (x d : A) l : i <> j -> nth j (set_nth i x l) d = nth j l d.
Proof.
  revert i j. induction l as [|y l IH]; intros [|i] [|j] H; simpl; auto; try congruence.
Qed.

Lemma nth_app_l {A} i (l l' : list A) d : i < length l -> nth i (l ++ l') d = nth i l d.
Proof. intros H. now apply app_nth1. Qed.

Lemma lookup_In x m v : lookup x m = Some v -> In (x, v) m.
Proof.
  induction m as [|[k w] m IH]; simpl; [discriminate|].
  destruct (Nat.eqb x k) eqn:E.
  - apply Nat.eqb_eq in E. intros H; inversion H; subst. auto.
  - auto.
Qed.

Lemma lookup_None x m : lookup x m = None <-> forall v, ~ In (x, v) m.
Proof.
  induction m as [|[k w] m IH]; simpl.
  - split; [intros _ v [] | reflexivity].
  - destruct (Nat.eqb x k) eqn:E.
    + apply Nat.eqb_eq in E; subst. split; [discriminate|]. intros H. exfalso. apply (H w). auto.
    + apply Nat.eqb_neq in E. rewrite IH. split.
      * intros H v [Hv|Hv]; [inversion Hv; congruence | now apply (H v)].
      * intros H v Hv. apply (H v). auto.
Qed.

Definition keys_nodup (m : list (nat * nat)) : Prop := NoDup (map fst m).

Lemma In_lookup x v m : keys_nodup m -> In (x, v) m -> lookup x m = Some v.
Proof.
  unfold keys_nodup. induction m as [|[k w] m IH]; simpl; [tauto|].
  intros Hn [H|H].
  - inversion H; subst. now rewrite Nat.eqb_refl.
  - inversion Hn as [|? ? Hk Hn']; subst.
    destruct (Nat.eqb x k) eqn:E.
    + apply Nat.eqb_eq in E; subst. exfalso. apply Hk. apply in_map_iff. exists (k, v). auto.
    + auto.
Qed.

Definition lt_at (st : list ltask) (i : nat) : ltask := nth i st dummy_lt.
Definition task_at (st : list ltask) (i : nat) : nat := lt_task (lt_at st i).

(* ---------- push_deps ---------- *)
Lemma push_deps_spec ds vis : forall st stk deps st' stk' deps',
  push_deps ds vis st stk deps = (st', stk', deps') ->
  exists new newidx idxs,
    st' = st ++ new /\ stk' = rev newidx ++ stk /\ deps' = deps ++ idxs /\
    length idxs = length ds /\
    newidx = seq (length st) (length new) /\
    (forall j, In j newidx -> lt_at st' j = {| lt_task := task_at st' j; lt_second := false; lt_deps := []; lt_out := Own [] |}
                             /\ In (task_at st' j) ds /\ lookup (task_at st' j) vis = None /\ In j idxs) /\
    (forall k d, nth_error ds k = Some d ->
       exists j, nth_error idxs k = Some j /\
         ((lookup d vis = Some j) \/ (lookup d vis = None /\ In j newidx /\ task_at st' j = d))).
Proof.
  induction ds as [|d ds IH]; intros st stk deps st' stk' deps' H; simpl in H.
  - inversion H; subst. exists [], [], []. rewrite !app_nil_r. simpl.
    split; [reflexivity|]. split; [reflexivity|]. split; [reflexivity|]. split; [reflexivity|]. split; [reflexivity|].
    split; [intros j []|]. intros k d Hk. destruct k; discriminate.
  - destruct (lookup d vis) as [v|] eqn:El.
    + destruct (IH _ _ _ _ _ _ H) as (new & newidx & idxs & E1 & E2 & E3 & E4 & E5 & E6 & E7).
      exists new, newidx, (v :: idxs). rewrite <- app_assoc in E3. simpl in E3.
      split; [assumption|]. split; [assumption|]. split; [assumption|]. split; [simpl; lia|]. split; [assumption|]. split.
      * intros j Hj. destruct (E6 j Hj) as (A & B & C & D). repeat split; auto; right; assumption.
      * intros [|k] d' Hk; simpl in Hk.
        -- inversion Hk; subst. exists v. split; [reflexivity | left; assumption].
        -- destruct (E7 k d' Hk) as (j & Hj & Hc). exists j. split; [exact Hj | exact Hc].
    + destruct (IH _ _ _ _ _ _ H) as (new & newidx & idxs & E1 & E2 & E3 & E4 & E5 & E6 & E7).
      set (lt0 := {| lt_task := d; lt_second := false; lt_deps := []; lt_out := Own [] |}) in *.
      exists (lt0 :: new), (length st :: newidx), (length st :: idxs).
      rewrite <- app_assoc in E1, E3. simpl in E1, E3.
      assert (Elen : length (st ++ [lt0]) = S (length st)) by (rewrite app_length; simpl; lia).
      split; [assumption|]. split.
      { rewrite E2. simpl. rewrite <- app_assoc. reflexivity. }
      split; [assumption|]. split; [simpl; lia|]. split.
      { simpl. f_equal. rewrite E5, Elen. reflexivity. }
      assert (Hat0 : lt_at st' (length st) = lt0).
      { unfold lt_at. rewrite E1. rewrite app_nth2 by lia. rewrite Nat.sub_diag. reflexivity. }
      split.
      * intros j [<-|Hj].
        -- unfold task_at. rewrite Hat0. simpl. repeat split; auto.
        -- destruct (E6 j Hj) as (A & B & C & D). repeat split; auto; right; assumption.
      * intros [|k] d' Hk; simpl in Hk.
        -- inversion Hk; subst. exists (length st). split; [reflexivity|]. right. split; [assumption|].
           split; [left; reflexivity|]. unfold task_at. now rewrite Hat0.
        -- destruct (E7 k d' Hk) as (j & Hj & Hc). exists j. split; [exact Hj|].
           destruct Hc as [Hc|(Hc1 & Hc2 & Hc3)]; [left; assumption | right; repeat split; auto; right; assumption].
Qed.

Definition dummy_op : opinfo := {| op_task := 0; op_exe_deps := []; op_par := false; op_sync := false |}.
Definition op_at (ops : list opinfo) (o : nat) : opinfo := nth o ops dummy_op.

Lemma NoDup_flat_map_keyed {A} (f : A -> nat) (g : nat -> nat) (R : A -> list nat) (l : list A) :
  NoDup (map f l) ->
  (forall j, In j l -> length (R j) <= 1 /\ forall o, In o (R j) -> g o = f j) ->
  NoDup (flat_map R l).
Proof.
  induction l as [|j l IH]; intros Hn Hr; simpl; [constructor|].
  inversion Hn as [|? ? Hnj Hn']; subst.
  destruct (Hr j (or_introl eq_refl)) as [Hlen Hkey].
  assert (Hrest : NoDup (flat_map R l)) by (apply IH; [assumption | intros j' Hj'; apply Hr; right; assumption]).
  destruct (R j) as [|o [|o' r]] eqn:ER; simpl in *; try lia; [assumption|].
  constructor; [|assumption].
  intros Hin. apply in_flat_map in Hin as (j' & Hj' & Ho).
  destruct (Hr j' (or_intror Hj')) as [_ Hkey'].
  apply Hnj. apply in_map_iff. exists j'. split; [|assumption].
  rewrite <- (Hkey' o Ho). apply Hkey. left; reflexivity.
Qed.

Lemma NoDup_app_intro {A} (a b : list A) :
  NoDup a -> NoDup b -> (forall x, In x a -> In x b -> False) -> NoDup (a ++ b).
Proof.
  induction a as [|x a IH]; intros Ha Hb Hd; simpl; [assumption|].
  inversion Ha; subst. constructor.
  - intros Hin. apply in_app_or in Hin as [Hin|Hin]; [contradiction | eapply Hd; [left; reflexivity | exact Hin]].
  - apply IH; auto. intros y Hy1 Hy2. eapply Hd; [right; exact Hy1 | exact Hy2].
Qed.

Section PInv.
  Variable info : nat -> tinfo.
  Variable sr : nat -> bool.
  Variable again : bool.
  Hypothesis deps_nodup : forall t, NoDup (t_deps (info t)).

  Record PInv (s : pstate) : Prop := {
    v_keys : keys_nodup (visited s);
    v_ok : forall t i, In (t, i) (visited s) -> i < length (store s) /\ task_at (store s) i = t;
    k_ok : forall i, In i (stack s) -> i < length (store s);
    k_nodup : NoDup (stack s);
    o_own : forall i l, i < length (store s) -> lt_out (lt_at (store s) i) = Own l ->
            length l <= 1 /\
            forall o, In o l -> o < length (ops s) /\ op_task (op_at (ops s) o) = task_at (store s) i /\
                                lt_second (lt_at (store s) i) = true;
    o_alias : forall i v, i < length (store s) -> lt_out (lt_at (store s) i) = Alias v ->
              lookup (task_at (store s) i) (visited s) = Some v /\ v <> i /\ lt_second (lt_at (store s) i) = false;
    sec_primary : forall i, i < length (store s) -> lt_second (lt_at (store s) i) = true ->
                  lookup (task_at (store s) i) (visited s) = Some i;
    pend : forall i, In i (stack s) ->
           lt_out (lt_at (store s) i) = Own [] /\
           (lt_second (lt_at (store s) i) = false ->
            lookup (task_at (store s) i) (visited s) <> Some i /\ lt_deps (lt_at (store s) i) = []);
    op_primary : forall o, o < length (ops s) ->
                 exists i, i < length (store s) /\ lt_out (lt_at (store s) i) = Own [o];
    op_deps_lt : forall o d, o < length (ops s) -> In d (op_exe_deps (op_at (ops s) o)) -> d < o;
    op_deps_nodup : forall o, o < length (ops s) -> NoDup (op_exe_deps (op_at (ops s) o));
    op_sync_par : forall o, o < length (ops s) -> op_sync (op_at (ops s) o) = true -> op_par (op_at (ops s) o) = false;
    init_ok : initial s = filter (fun o => match op_exe_deps (op_at (ops s) o) with [] => true | _ => false end)
                                 (seq 0 (length (ops s)));
    d_ok : forall i, i < length (store s) -> lt_second (lt_at (store s) i) = true ->
           map (task_at (store s)) (lt_deps (lt_at (store s) i)) = rev (t_deps (info (task_at (store s) i))) /\
           forall j, In j (lt_deps (lt_at (store s) i)) -> j < length (store s)
  }.

  Lemma lt_at_set_eq st i x : i < length st -> lt_at (set_nth i x st) i = x.
  Proof. intros H. unfold lt_at. now apply nth_set_nth_eq. Qed.
  Lemma lt_at_set_neq st i j x : i <> j -> lt_at (set_nth i x st) j = lt_at st j.
  Proof. intros H. unfold lt_at. now apply nth_set_nth_neq. Qed.

  Lemma init_inv root : PInv (pinit root).
  Proof.
    constructor; cbn [pinit visited store stack ops initial length].
    - constructor.
    - intros t i [].
    - intros i [<-|[]]. simpl. lia.
    - repeat constructor. intros [].
    - intros i l Hi Ho. assert (i = 0) by (simpl in Hi; lia). subst. cbn in Ho. inversion Ho; subst.
      split; [simpl; lia | intros o []].
    - intros i v Hi Ho. assert (i = 0) by (simpl in Hi; lia). subst. cbn in Ho. discriminate.
    - intros i Hi Hs. assert (i = 0) by (simpl in Hi; lia). subst. cbn in Hs. discriminate.
    - intros i [<-|[]]. cbn. split; [reflexivity|]. intros _. split; [discriminate | reflexivity].
    - intros o Ho. simpl in Ho. lia.
    - intros o d Ho. simpl in Ho. lia.
    - intros o Ho. simpl in Ho. lia.
    - intros o Ho. simpl in Ho. lia.
    - reflexivity.
    - intros i Hi Hs. assert (i = 0) by (simpl in Hi; lia). subst. cbn in Hs. discriminate.
  Qed.

  Lemma task_at_set st i x : i < length st -> lt_task x = task_at st i -> forall j, task_at (set_nth i x st) j = task_at st j.
  Proof.
    intros Hi Ht j. unfold task_at. destruct (Nat.eq_dec i j) as [<-|Hne].
    - now rewrite lt_at_set_eq.
    - now rewrite lt_at_set_neq.
  Qed.

  Lemma lookup_cons_other t i V x : x <> t -> lookup x ((t, i) :: V) = lookup x V.
  Proof. intros H. simpl. apply Nat.eqb_neq in H. now rewrite H. Qed.
  Lemma lookup_cons_same t i V : lookup t ((t, i) :: V) = Some i.
  Proof. simpl. now rewrite Nat.eqb_refl. Qed.

  (* ---- branch A: first-visit pop of an identifier that is already visited: share its operations ---- *)
  Lemma alias_inv s i stk v :
    PInv s -> stack s = i :: stk -> lt_second (lt_at (store s) i) = false ->
    lookup (task_at (store s) i) (visited s) = Some v ->
    PInv {| store := set_nth i {| lt_task := task_at (store s) i; lt_second := false;
                                  lt_deps := lt_deps (lt_at (store s) i); lt_out := Alias v |} (store s);
            stack := stk; visited := visited s; ops := ops s; initial := initial s;
            cached := cached s; sr_calls := sr_calls s; nv_calls := nv_calls s; snaps := snaps s |}.
  Proof.
    intros I Es Hsec Hl.
    assert (Hin : In i (stack s)) by (rewrite Es; left; reflexivity).
    pose proof (k_ok _ I i Hin) as Hi.
    destruct (pend _ I i Hin) as [Hout Hp]. destruct (Hp Hsec) as [Hnp Hdeps].
    assert (Hnd : NoDup (i :: stk)) by (rewrite <- Es; apply (k_nodup _ I)).
    inversion Hnd as [|? ? Hni Hnd']; subst.
    set (ltA := {| lt_task := task_at (store s) i; lt_second := false; lt_deps := lt_deps (lt_at (store s) i); lt_out := Alias v |}).
    assert (Htask : forall j, task_at (set_nth i ltA (store s)) j = task_at (store s) j) by (apply task_at_set; auto).
    assert (Hlen : length (set_nth i ltA (store s)) = length (store s)) by apply length_set_nth.
    constructor; cbn [store stack visited ops initial]; rewrite ?Hlen.
    - apply (v_keys _ I).
    - intros t x Hx. rewrite Htask. now apply (v_ok _ I).
    - intros x Hx. apply (k_ok _ I). rewrite Es. right; assumption.
    - assumption.
    - intros x l Hx Ho. rewrite Htask. destruct (Nat.eq_dec x i) as [->|Hne].
      + rewrite lt_at_set_eq in Ho by assumption. discriminate.
      + rewrite lt_at_set_neq in * by auto. now apply (o_own _ I).
    - intros x w Hx Ho. rewrite Htask. destruct (Nat.eq_dec x i) as [->|Hne].
      + rewrite lt_at_set_eq in * by assumption. cbn in Ho. inversion Ho; subst w.
        split; [assumption|]. split; [|reflexivity]. intros ->. contradiction.
      + rewrite lt_at_set_neq in * by auto. now apply (o_alias _ I).
    - intros x Hx Hs. rewrite Htask. destruct (Nat.eq_dec x i) as [->|Hne].
      + rewrite lt_at_set_eq in Hs by assumption. discriminate.
      + rewrite lt_at_set_neq in Hs by auto. now apply (sec_primary _ I).
    - intros x Hx. assert (x <> i) by (intros ->; contradiction).
      rewrite Htask, lt_at_set_neq by auto. apply (pend _ I). rewrite Es. right; assumption.
    - intros o Ho. destruct (op_primary _ I o Ho) as (x & Hx & Hox). exists x. split; [assumption|].
      assert (x <> i) by (intros ->; rewrite Hout in Hox; discriminate).
      now rewrite lt_at_set_neq by auto.
    - apply (op_deps_lt _ I).
    - apply (op_deps_nodup _ I).
    - apply (op_sync_par _ I).
    - apply (init_ok _ I).
    - intros x Hx Hs. destruct (Nat.eq_dec x i) as [->|Hne].
      + rewrite lt_at_set_eq in Hs by assumption. discriminate.
      + rewrite lt_at_set_neq in * by auto. rewrite Htask.
        destruct (d_ok _ I x Hx Hs) as [H1 H2]. split; [|assumption].
        rewrite <- H1. apply map_ext. intros j. apply Htask.
  Qed.

  (* ---- branch B: first visit of a task with a reusable result ---- *)
  Lemma cached_inv s i stk :
    PInv s -> stack s = i :: stk -> lt_second (lt_at (store s) i) = false ->
    lookup (task_at (store s) i) (visited s) = None ->
    PInv {| store := store s; stack := stk; visited := (task_at (store s) i, i) :: visited s; ops := ops s;
            initial := initial s; cached := cached s ++ [task_at (store s) i];
            sr_calls := sr_calls s ++ [task_at (store s) i]; nv_calls := nv_calls s; snaps := snaps s |}.
  Proof.
    intros I Es Hsec Hl.
    assert (Hin : In i (stack s)) by (rewrite Es; left; reflexivity).
    pose proof (k_ok _ I i Hin) as Hi.
    destruct (pend _ I i Hin) as [Hout Hp].
    assert (Hnd : NoDup (i :: stk)) by (rewrite <- Es; apply (k_nodup _ I)).
    inversion Hnd as [|? ? Hni Hnd']; subst.
    set (t := task_at (store s) i) in *.
    assert (Hlk : forall x w, lookup (task_at (store s) x) (visited s) = Some w ->
                              lookup (task_at (store s) x) ((t, i) :: visited s) = Some w).
    { intros x w H. rewrite lookup_cons_other; [assumption|]. intros E. rewrite E in H. congruence. }
    constructor; cbn [store stack visited ops initial].
    - unfold keys_nodup. simpl. constructor; [|apply (v_keys _ I)].
      intros Hk. apply in_map_iff in Hk as ((k & w) & Ek & Hkw). simpl in Ek. subst k.
      apply (proj1 (lookup_None t (visited s)) Hl w). assumption.
    - intros t' x [H|H]; [inversion H; subst; auto | now apply (v_ok _ I)].
    - intros x Hx. apply (k_ok _ I). rewrite Es. right; assumption.
    - assumption.
    - apply (o_own _ I).
    - intros x w Hx Ho. destruct (o_alias _ I x w Hx Ho) as (H1 & H2 & H3). auto.
    - intros x Hx Hs. apply Hlk. now apply (sec_primary _ I).
    - intros x Hx. assert (Hxi : x <> i) by (intros ->; contradiction).
      destruct (pend _ I x) as [H1 H2]; [rewrite Es; right; assumption|]. split; [assumption|].
      intros Hs. destruct (H2 Hs) as [H3 H4]. split; [|assumption].
      destruct (Nat.eq_dec (task_at (store s) x) t) as [E|E].
      + rewrite E, lookup_cons_same. congruence.
      + rewrite lookup_cons_other by assumption. assumption.
    - apply (op_primary _ I).
    - apply (op_deps_lt _ I).
    - apply (op_deps_nodup _ I).
    - apply (op_sync_par _ I).
    - apply (init_ok _ I).
    - apply (d_ok _ I).
  Qed.

  Lemma map_by_nth_error {A B} (f : A -> B) (idxs : list A) (ds : list B) :
    length idxs = length ds ->
    (forall k d, nth_error ds k = Some d -> exists j, nth_error idxs k = Some j /\ f j = d) ->
    map f idxs = ds.
  Proof.
    revert ds. induction idxs as [|j idxs IH]; intros [|d ds] Hlen H; simpl in *; try lia; [reflexivity|].
    destruct (H 0 d eq_refl) as (j' & Hj' & Hf). simpl in Hj'. inversion Hj'; subst j'. f_equal; [assumption|].
    apply IH; [lia|]. intros k d' Hk. apply (H (S k) d' Hk).
  Qed.

  (* ---- branch C: first visit of a task that must run: push its second visit and its dependencies ---- *)
  Lemma expand_inv s i stk st1 stk1 deps1 :
    PInv s -> stack s = i :: stk -> lt_second (lt_at (store s) i) = false ->
    lookup (task_at (store s) i) (visited s) = None ->
    push_deps (rev (t_deps (info (task_at (store s) i)))) ((task_at (store s) i, i) :: visited s) (store s) (i :: stk) []
      = (st1, stk1, deps1) ->
    forall scs nvs sns,
    PInv {| store := set_nth i {| lt_task := task_at (store s) i; lt_second := true; lt_deps := deps1;
                                  lt_out := lt_out (lt_at (store s) i) |} st1;
            stack := stk1; visited := (task_at (store s) i, i) :: visited s; ops := ops s; initial := initial s;
            cached := cached s; sr_calls := scs; nv_calls := nvs; snaps := sns |}.
  Proof.
    intros I Es Hsec Hl Hpd scs nvs sns.
    assert (Hin : In i (stack s)) by (rewrite Es; left; reflexivity).
    pose proof (k_ok _ I i Hin) as Hi.
    destruct (pend _ I i Hin) as [Hout Hp].
    assert (Hnd : NoDup (i :: stk)) by (rewrite <- Es; apply (k_nodup _ I)).
    inversion Hnd as [|? ? Hni Hnd']; subst.
    set (t := task_at (store s) i) in *.
    set (V' := (t, i) :: visited s) in *.
    destruct (push_deps_spec _ _ _ _ _ _ _ _ Hpd) as (new & newidx & idxs & E1 & E2 & E3 & E4 & E5 & E6 & E7).
    simpl in E3. subst deps1.
    set (ltC := {| lt_task := t; lt_second := true; lt_deps := idxs; lt_out := lt_out (lt_at (store s) i) |}).
    set (n0 := length (store s)) in *.
    assert (Hlen1 : length st1 = n0 + length new) by (rewrite E1, app_length; reflexivity).
    assert (Hlen' : length (set_nth i ltC st1) = n0 + length new) by (rewrite length_set_nth; assumption).
    assert (Hi1 : i < length st1) by lia.
    assert (Hold1 : forall x, x < n0 -> lt_at st1 x = lt_at (store s) x).
    { intros x Hx. unfold lt_at. rewrite E1. now apply app_nth1. }
    assert (Hold : forall x, x < n0 -> x <> i -> lt_at (set_nth i ltC st1) x = lt_at (store s) x).
    { intros x Hx Hne. rewrite lt_at_set_neq by auto. now apply Hold1. }
    assert (Hnew : forall x, n0 <= x -> lt_at (set_nth i ltC st1) x = lt_at st1 x).
    { intros x Hx. apply lt_at_set_neq. lia. }
    assert (Hati : lt_at (set_nth i ltC st1) i = ltC) by now apply lt_at_set_eq.
    assert (Htask_old : forall x, x < n0 -> task_at (set_nth i ltC st1) x = task_at (store s) x).
    { intros x Hx. unfold task_at. destruct (Nat.eq_dec x i) as [->|Hne]; [rewrite Hati; reflexivity | now rewrite Hold]. }
    assert (Htask_new : forall x, n0 <= x -> task_at (set_nth i ltC st1) x = task_at st1 x).
    { intros x Hx. unfold task_at. now rewrite Hnew. }
    assert (Hnewidx : forall x, In x newidx <-> n0 <= x < n0 + length new).
    { intros x. rewrite E5. apply in_seq. }
    assert (HV'ok : forall t' x, In (t', x) V' -> x < n0 /\ task_at (store s) x = t').
    { intros t' x [H|H]; [inversion H; subst; auto | now apply (v_ok _ I)]. }
    assert (Hlk : forall x w, lookup (task_at (store s) x) (visited s) = Some w ->
                              lookup (task_at (store s) x) V' = Some w).
    { intros x w H. unfold V'. rewrite lookup_cons_other; [assumption|]. intros E. fold t in Hl. rewrite E in H. congruence. }
    assert (Hkeys' : keys_nodup V').
    { unfold keys_nodup, V'. simpl. constructor; [|apply (v_keys _ I)].
      intros Hk. apply in_map_iff in Hk as ((k & w) & Ek & Hkw). simpl in Ek. subst k.
      apply (proj1 (lookup_None t (visited s)) Hl w). assumption. }
    constructor; cbn [store stack visited ops initial]; rewrite ?Hlen'.
    - exact Hkeys'.
    - intros t' x Hx. destruct (HV'ok t' x Hx) as [H1 H2]. split; [lia|]. now rewrite Htask_old.
    - intros x Hx. rewrite E2 in Hx. apply in_app_or in Hx as [Hx|[<-|Hx]].
      + apply in_rev, Hnewidx in Hx. lia.
      + lia.
      + pose proof (k_ok _ I x). rewrite Es in H. specialize (H (or_intror Hx)). fold n0 in H. lia.
    - rewrite E2. apply NoDup_app_intro.
      + apply NoDup_rev. rewrite E5. apply seq_NoDup.
      + assumption.
      + intros x Hx1 Hx2. apply in_rev, Hnewidx in Hx1.
        assert (x < n0); [|lia].
        destruct Hx2 as [<-|Hx2]; [assumption|]. apply (k_ok _ I). rewrite Es. right; assumption.
    - intros x l Hx Ho. destruct (Nat.lt_ge_cases x n0) as [Hlt|Hge].
      + destruct (Nat.eq_dec x i) as [->|Hne].
        * rewrite Hati in Ho. cbn in Ho. rewrite Hout in Ho. inversion Ho; subst l. split; [simpl; lia | intros o []].
        * rewrite Htask_old by assumption. rewrite Hold in * by assumption. now apply (o_own _ I).
      + rewrite Hnew in Ho by assumption.
        destruct (E6 x) as (A & _); [apply Hnewidx; lia|]. rewrite A in Ho. cbn in Ho. inversion Ho; subst l.
        split; [simpl; lia | intros o []].
    - intros x w Hx Ho. destruct (Nat.lt_ge_cases x n0) as [Hlt|Hge].
      + destruct (Nat.eq_dec x i) as [->|Hne].
        * rewrite Hati in Ho. cbn in Ho. rewrite Hout in Ho. discriminate.
        * rewrite Htask_old by assumption. rewrite Hold in * by assumption.
          destruct (o_alias _ I x w Hlt Ho) as (H1 & H2 & H3). auto.
      + rewrite Hnew in Ho by assumption.
        destruct (E6 x) as (A & _); [apply Hnewidx; lia|]. rewrite A in Ho. discriminate.
    - intros x Hx Hs. destruct (Nat.lt_ge_cases x n0) as [Hlt|Hge].
      + destruct (Nat.eq_dec x i) as [->|Hne].
        * rewrite Htask_old by assumption. fold t. unfold V'. apply lookup_cons_same.
        * rewrite Htask_old by assumption. rewrite Hold in Hs by assumption. apply Hlk. now apply (sec_primary _ I).
      + rewrite Hnew in Hs by assumption.
        destruct (E6 x) as (A & _); [apply Hnewidx; lia|]. rewrite A in Hs. discriminate.
    - intros x Hx. rewrite E2 in Hx. apply in_app_or in Hx as [Hx|[<-|Hx]].
      + apply in_rev in Hx. pose proof (proj1 (Hnewidx x) Hx) as Hr.
        destruct (E6 x Hx) as (A & B & C & D).
        rewrite Hnew by lia. rewrite Htask_new by lia.
        split; [rewrite A; reflexivity|]. intros _.
        split; [rewrite C; discriminate | rewrite A; reflexivity].
      + rewrite Hati. cbn. split; [assumption | discriminate].
      + assert (Hxi : x <> i) by (intros ->; contradiction).
        assert (Hxs : In x (stack s)) by (rewrite Es; right; assumption).
        pose proof (k_ok _ I x Hxs) as Hxn. fold n0 in Hxn.
        rewrite Htask_old by assumption. rewrite Hold by assumption.
        destruct (pend _ I x Hxs) as [H1 H2]. split; [assumption|].
        intros Hs. destruct (H2 Hs) as [H3 H4]. split; [|assumption].
        destruct (Nat.eq_dec (task_at (store s) x) t) as [E|E].
        * rewrite E. unfold V'. rewrite lookup_cons_same. congruence.
        * unfold V'. rewrite lookup_cons_other by assumption. assumption.
    - intros o Ho. destruct (op_primary _ I o Ho) as (x & Hx & Hox). exists x. split; [fold n0 in Hx; lia|].
      assert (x <> i) by (intros ->; rewrite Hout in Hox; discriminate).
      now rewrite Hold.
    - apply (op_deps_lt _ I).
    - apply (op_deps_nodup _ I).
    - apply (op_sync_par _ I).
    - apply (init_ok _ I).
    - intros x Hx Hs.
      assert (Hidx_ok : forall k d, nth_error (rev (t_deps (info t))) k = Some d ->
                exists j, nth_error idxs k = Some j /\ task_at (set_nth i ltC st1) j = d /\ j < n0 + length new).
      { intros k d Hk. destruct (E7 k d Hk) as (j & Hj & [Hc|(Hc1 & Hc2 & Hc3)]).
        - exists j. split; [assumption|]. apply lookup_In in Hc. destruct (HV'ok d j Hc) as [H1 H2].
          split; [now rewrite Htask_old | lia].
        - exists j. split; [assumption|]. pose proof (proj1 (Hnewidx j) Hc2). split; [now rewrite Htask_new by lia | lia]. }
      destruct (Nat.lt_ge_cases x n0) as [Hlt|Hge].
      + destruct (Nat.eq_dec x i) as [->|Hne].
        * rewrite Hati. cbn [lt_deps]. rewrite Htask_old by assumption. fold t. split.
          -- apply map_by_nth_error; [assumption|]. intros k d Hk. destruct (Hidx_ok k d Hk) as (j & Hj & Ht & _). eauto.
          -- intros j Hj. change (lt_deps ltC) with idxs in Hj. apply In_nth_error in Hj as (k & Hk).
             assert (Hk' : k < length (rev (t_deps (info t)))).
             { rewrite <- E4. apply nth_error_Some. rewrite Hk. discriminate. }
             destruct (nth_error (rev (t_deps (info t))) k) as [d|] eqn:Ed; [|apply nth_error_None in Ed; lia].
             destruct (Hidx_ok k d Ed) as (j' & Hj' & _ & Hlt'). rewrite Hk in Hj'. inversion Hj'; subst. exact Hlt'.
        * rewrite Hold in * by assumption. rewrite Htask_old by assumption.
          destruct (d_ok _ I x Hlt Hs) as [H1 H2]. split.
          -- rewrite <- H1. apply map_ext_in. intros j Hj. apply Htask_old. now apply H2.
          -- intros j Hj. specialize (H2 j Hj). fold n0 in H2. lia.
      + rewrite Hnew in Hs by assumption.
        destruct (E6 x) as (A & _); [apply Hnewidx; lia|]. rewrite A in Hs. discriminate.
  Qed.

  Lemma op_at_app_l ops oi o : o < length ops -> op_at (ops ++ [oi]) o = op_at ops o.
  Proof. intros H. unfold op_at. now apply app_nth1. Qed.
  Lemma op_at_app_new ops oi : op_at (ops ++ [oi]) (length ops) = oi.
  Proof. unfold op_at. rewrite app_nth2 by lia. now rewrite Nat.sub_diag. Qed.

  (* what a LoweringTask's output_ops resolve to *)
  Lemma resolve_spec s j :
    PInv s -> j < length (store s) ->
    let R := resolve_out (store s) (lt_out (lt_at (store s) j)) in
    length R <= 1 /\ forall o, In o R -> o < length (ops s) /\ op_task (op_at (ops s) o) = task_at (store s) j.
  Proof.
    intros I Hj R. unfold R, resolve_out.
    destruct (lt_out (lt_at (store s) j)) as [l|v] eqn:Eo.
    - destruct (o_own _ I j l Hj Eo) as [H1 H2]. split; [assumption|]. intros o Ho. destruct (H2 o Ho) as (A & B & _). auto.
    - destruct (o_alias _ I j v Hj Eo) as (Hl & _ & _).
      apply lookup_In in Hl. destruct (v_ok _ I _ _ Hl) as [Hv Htv].
      fold (lt_at (store s) v). destruct (lt_out (lt_at (store s) v)) as [l|w] eqn:Ev.
      + destruct (o_own _ I v l Hv Ev) as [H1 H2]. split; [assumption|]. intros o Ho. destruct (H2 o Ho) as (A & B & _).
        split; [assumption|]. congruence.
      + split; [simpl; lia | intros o []].
  Qed.

  (* ---- branch D: second visit: the operation is created and linked ---- *)
  Lemma second_inv s i stk :
    PInv s -> stack s = i :: stk -> lt_second (lt_at (store s) i) = true ->
    let lt := lt_at (store s) i in
    let t := lt_task lt in
    let o := length (ops s) in
    let edeps := flat_map (fun d => resolve_out (store s) (lt_out (nth d (store s) dummy_lt))) (lt_deps lt) in
    let k := t_kind (info t) in
    let oi := {| op_task := t; op_exe_deps := edeps;
                 op_par := match k with KCommand | KExperiment => t_par (info t) | _ => false end;
                 op_sync := is_sync k |} in
    forall nvs sns,
    PInv {| store := set_nth i {| lt_task := t; lt_second := true; lt_deps := lt_deps lt;
                                  lt_out := match lt_out lt with Own l => Own (l ++ [o]) | a => a end |} (store s);
            stack := stk; visited := visited s; ops := ops s ++ [oi];
            initial := match edeps with [] => initial s ++ [o] | _ => initial s end;
            cached := cached s; sr_calls := sr_calls s; nv_calls := nvs; snaps := sns |}.
  Proof.
    intros I Es Hsec lt t o edeps k oi nvs sns.
    assert (Hin : In i (stack s)) by (rewrite Es; left; reflexivity).
    pose proof (k_ok _ I i Hin) as Hi.
    destruct (pend _ I i Hin) as [Hout _]. fold lt in Hout. rewrite Hout. cbn [app].
    assert (Hnd : NoDup (i :: stk)) by (rewrite <- Es; apply (k_nodup _ I)).
    inversion Hnd as [|? ? Hni Hnd']; subst.
    set (ltD := {| lt_task := t; lt_second := true; lt_deps := lt_deps lt; lt_out := Own [o] |}).
    assert (Htask : forall j, task_at (set_nth i ltD (store s)) j = task_at (store s) j) by (apply task_at_set; auto).
    assert (Hlen : length (set_nth i ltD (store s)) = length (store s)) by apply length_set_nth.
    assert (Hlen_ops : length (ops s ++ [oi]) = S o) by (rewrite app_length; simpl; unfold o; lia).
    destruct (d_ok _ I i Hi Hsec) as [Hdt Hdr]. fold lt in Hdt, Hdr.
    assert (Hedeps : forall d, In d edeps -> d < o).
    { intros d Hd. unfold edeps in Hd. apply in_flat_map in Hd as (j & Hj & Hd).
      destruct (resolve_spec s j I (Hdr j Hj)) as [_ H]. now apply H. }
    assert (Hedeps_nd : NoDup edeps).
    { unfold edeps. apply (NoDup_flat_map_keyed (task_at (store s)) (fun o => op_task (op_at (ops s) o))).
      - rewrite Hdt. apply NoDup_rev, deps_nodup.
      - intros j Hj. destruct (resolve_spec s j I (Hdr j Hj)) as [H1 H2]. split; [exact H1|].
        intros o' Ho'. now apply H2. }
    constructor; cbn [store stack visited ops initial]; rewrite ?Hlen, ?Hlen_ops.
    - apply (v_keys _ I).
    - intros t' x Hx. rewrite Htask. now apply (v_ok _ I).
    - intros x Hx. apply (k_ok _ I). rewrite Es. right; assumption.
    - assumption.
    - intros x l Hx Ho. rewrite Htask. destruct (Nat.eq_dec x i) as [->|Hne].
      + rewrite lt_at_set_eq in * by assumption. cbn in Ho. inversion Ho; subst l. split; [simpl; lia|].
        intros o' [<-|[]]. split; [lia|]. split; [|reflexivity]. now rewrite op_at_app_new.
      + rewrite lt_at_set_neq in * by auto. destruct (o_own _ I x l Hx Ho) as [H1 H2]. split; [assumption|].
        intros o' Ho'. destruct (H2 o' Ho') as (A & B & C). split; [fold o in A; lia|]. split; [|assumption].
        now rewrite op_at_app_l.
    - intros x w Hx Ho. rewrite Htask. destruct (Nat.eq_dec x i) as [->|Hne].
      + rewrite lt_at_set_eq in Ho by assumption. discriminate.
      + rewrite lt_at_set_neq in * by auto. now apply (o_alias _ I).
    - intros x Hx Hs. rewrite Htask. destruct (Nat.eq_dec x i) as [->|Hne].
      + now apply (sec_primary _ I).
      + rewrite lt_at_set_neq in Hs by auto. now apply (sec_primary _ I).
    - intros x Hx. assert (x <> i) by (intros ->; contradiction).
      rewrite Htask, lt_at_set_neq by auto. apply (pend _ I). rewrite Es. right; assumption.
    - intros o' Ho'. destruct (Nat.eq_dec o' o) as [->|Hne].
      + exists i. split; [assumption|]. now rewrite lt_at_set_eq.
      + destruct (op_primary _ I o') as (x & Hx & Hox); [fold o; lia|]. exists x. split; [assumption|].
        assert (x <> i) by (intros ->; fold lt in Hox; rewrite Hout in Hox; discriminate).
        now rewrite lt_at_set_neq by auto.
    - intros o' d Ho' Hd. destruct (Nat.eq_dec o' o) as [->|Hne].
      + unfold o in Hd. rewrite op_at_app_new in Hd. cbn in Hd. now apply Hedeps.
      + assert (o' < o) by lia. rewrite op_at_app_l in Hd by assumption. now apply (op_deps_lt _ I o').
    - intros o' Ho'. destruct (Nat.eq_dec o' o) as [->|Hne].
      + unfold o. rewrite op_at_app_new. cbn. assumption.
      + assert (o' < o) by lia. rewrite op_at_app_l by assumption. now apply (op_deps_nodup _ I).
    - intros o' Ho'. destruct (Nat.eq_dec o' o) as [->|Hne].
      + unfold o. rewrite op_at_app_new. cbn. unfold is_sync. destruct k; congruence.
      + assert (o' < o) by lia. rewrite op_at_app_l by assumption. now apply (op_sync_par _ I).
    - rewrite seq_S, filter_app. cbn [filter seq plus].
      fold o. rewrite op_at_app_new. cbn [op_exe_deps oi].
      assert (Hext : filter (fun o0 => match op_exe_deps (op_at (ops s ++ [oi]) o0) with [] => true | _ => false end) (seq 0 o)
                     = filter (fun o0 => match op_exe_deps (op_at (ops s) o0) with [] => true | _ => false end) (seq 0 o)).
      { apply filter_ext_in. intros a Ha. apply in_seq in Ha. rewrite op_at_app_l by (unfold o in Ha; lia). reflexivity. }
      pose proof (init_ok _ I) as Hio. fold o in Hio. rewrite Hext, <- Hio. destruct edeps; [reflexivity | now rewrite app_nil_r].
    - intros x Hx Hs. rewrite Htask. destruct (Nat.eq_dec x i) as [->|Hne].
      + rewrite lt_at_set_eq by assumption. cbn [lt_deps ltD]. split; [|assumption].
        rewrite <- Hdt. apply map_ext. intros j. apply Htask.
      + rewrite lt_at_set_neq in * by auto.
        destruct (d_ok _ I x Hx Hs) as [H1 H2]. split; [|assumption].
        rewrite <- H1. apply map_ext. intros j. apply Htask.
  Qed.

  (* ---------- one step, all steps ---------- *)
  Theorem pstep_inv s s' : PInv s -> pstep info sr again s = Some s' -> PInv s'.
  Proof.
    intros I. unfold pstep. destruct (stack s) as [|i stk] eqn:Es; [discriminate|].
    fold (lt_at (store s) i). fold (task_at (store s) i).
    destruct (lt_second (lt_at (store s) i)) eqn:Hsec; cbn [negb].
    - intros H. inversion H; subst. clear H. now apply (second_inv s i stk I Es Hsec).
    - destruct (lookup (task_at (store s) i) (visited s)) as [v|] eqn:El.
      + intros H. inversion H; subst. now apply alias_inv.
      + destruct (negb again && negb (sr (task_at (store s) i))).
        * intros H. inversion H; subst. now apply cached_inv.
        * destruct (push_deps _ _ _ _ _) as [[st1 stk1] deps1] eqn:Epd.
          intros H. inversion H; subst. eapply expand_inv; eauto.
  Qed.

  Theorem piter_inv fuel : forall s s', PInv s -> piter info sr again fuel s = Some s' -> PInv s' /\ stack s' = [].
  Proof.
    induction fuel as [|f IH]; intros s s' I; cbn [piter]; [discriminate|].
    destruct (pstep info sr again s) as [s1|] eqn:E.
    - intros H. eapply IH; [|exact H]. eapply pstep_inv; eauto.
    - intros H. inversion H; subst. split; [assumption|].
      unfold pstep in E. destruct (stack s') as [|i stk]; [reflexivity|].
      destruct (negb (lt_second (nth i (store s') dummy_lt))); [|discriminate].
      destruct (lookup _ _); [discriminate|]. destruct (negb again && negb (sr _)); [discriminate|].
      destruct (push_deps _ _ _ _ _) as [[? ?] ?]. discriminate.
  Qed.
End PInv.
