(* Composition: loader -> planner -> executor, for the function the correspondence check evaluates
   (Model/RunCase.cond_run).  The hypotheses the planner and executor theorems carry -- duplicate
   free dependency lists, an acyclic task graph, a well-formed plan -- are discharged here from the
   single fact that the loader accepted the project.  The planner only ever looks at tasks the
   loader visited, so planning with the project restricted to the loaded tasks is the same
   computation (piter_ext). *)
From Coq Require Import List Arith Bool Lia NArith.
From Conductor Require Import Model.Loader Model.Planner Model.Exec Model.RunCase
  Proofs.ListFacts Proofs.LoaderProofs Proofs.PlannerInv Proofs.PlannerThm Proofs.PlannerExact Proofs.PlannerOrder Proofs.PlannerTerm
  Proofs.ExecInv Proofs.ExecTheorems Proofs.ExecMain.
From Conductor Require Proofs.ExecSteps.
Import ListNotations.

(* the step function consults [info] only at the task on top of the stack *)
Lemma pstep_ext info info' sr again s :
  (forall i stk, stack s = i :: stk -> info (task_at (store s) i) = info' (task_at (store s) i)) ->
  pstep info sr again s = pstep info' sr again s.
Proof.
  intros H. unfold pstep. destruct (stack s) as [|i stk]; [reflexivity|].
  specialize (H i stk eq_refl). unfold task_at, lt_at in H. cbv zeta. rewrite H. reflexivity.
Qed.

Section Compose.
  Variable tasks : list tdef.
  Variable root : nat.
  Variable lfuel : nat.
  Variable loaded : list nat.
  Hypothesis Hload : load_closure (graph_of tasks) lfuel root = Ok loaded.

  Let g := graph_of tasks.
  Let info := info_of tasks.

  Definition info_r (x : nat) : tinfo :=
    if mem x loaded then info x else {| t_deps := []; t_kind := t_kind (info x); t_par := t_par (info x) |}.

  Lemma good_deps x ds : g x = Good ds -> ds = t_deps (info x).
  Proof.
    unfold g, graph_of, info, info_of. cbn [t_deps].
    destruct (td_status (tdef_of tasks x)) as [|[|n]]; intros H; try discriminate. now inversion H.
  Qed.

  Lemma loaded_clean x : In x loaded ->
    g x = Good (t_deps (info x)) /\ NoDup (t_deps (info x)) /\ (forall d, In d (t_deps (info x)) -> In d loaded) /\
    ~ Path g x x.
  Proof.
    intros Hx. destruct (ok_means_clean g root lfuel loaded Hload) as (Hr & Hgood & Hacyc).
    apply Hr in Hx. destruct (Hgood x Hx) as (ds & Hg & Hnd). pose proof (good_deps x ds Hg) as E. subst ds.
    split; [assumption|]. split; [assumption|]. split; [|now apply Hacyc].
    intros d Hd. apply Hr. eapply r_step; [exact Hx|]. exists (t_deps (info x)). auto.
  Qed.

  Lemma root_loaded : In root loaded.
  Proof. destruct (ok_means_clean g root lfuel loaded Hload) as (Hr & _). apply Hr. constructor. Qed.

  Lemma info_r_in x : In x loaded -> info_r x = info x.
  Proof. intros H. unfold info_r. apply mem_In in H. now rewrite H. Qed.

  Lemma info_r_deps x d : In d (t_deps (info_r x)) -> In x loaded /\ In d (t_deps (info x)).
  Proof.
    unfold info_r. destruct (mem x loaded) eqn:E; [|intros []]. apply mem_In in E. auto.
  Qed.

  Lemma nodup_r t : NoDup (t_deps (info_r t)).
  Proof.
    unfold info_r. destruct (mem t loaded) eqn:E; [|constructor]. apply mem_In in E.
    now destruct (loaded_clean t E) as (_ & H & _).
  Qed.

  Lemma tpath_path x y : TPath info_r x y -> In x loaded /\ Path g x y.
  Proof.
    induction 1 as [x y Hy | x y z Hy _ [_ IH]].
    - apply info_r_deps in Hy as [Hx Hy]. split; [assumption|]. apply p_one.
      destruct (loaded_clean x Hx) as (Hg & _). exists (t_deps (info x)). auto.
    - apply info_r_deps in Hy as [Hx Hy]. split; [assumption|]. eapply p_step; [|exact IH].
      destruct (loaded_clean x Hx) as (Hg & _). exists (t_deps (info x)). auto.
  Qed.

  Lemma acyclic_r t : ~ TPath info_r t t.
  Proof. intros H. apply tpath_path in H as [Hx Hp]. now destruct (loaded_clean t Hx) as (_ & _ & _ & Hc). Qed.

  Variable sr : nat -> bool.
  Variable again : bool.

  Lemma nreach_loaded t : NReach info_r sr again root t -> In t loaded.
  Proof.
    induction 1 as [|x y _ IH _ Hd]; [apply root_loaded|].
    apply info_r_deps in Hd as [Hx Hd]. now destruct (loaded_clean x Hx) as (_ & _ & H & _); apply H.
  Qed.

  Lemma nreach_iff t : NReach info_r sr again root t <-> NReach info sr again root t.
  Proof.
    split.
    - induction 1 as [|x y Hx IH Hr Hd]; [constructor|]. apply info_r_deps in Hd as [_ Hd]. econstructor; eauto.
    - intros H. assert (G : NReach info_r sr again root t /\ In t loaded); [|tauto].
      induction H as [|x y _ [IH Hx] Hr Hd]; [split; [constructor | apply root_loaded]|].
      split; [econstructor; eauto; now rewrite info_r_in | now destruct (loaded_clean x Hx) as (_ & _ & H & _); apply H].
  Qed.

  Lemma piter_ext fuel : forall s,
    PInv info_r s -> QInv info_r sr again root s ->
    piter info sr again fuel s = piter info_r sr again fuel s.
  Proof.
    induction fuel as [|f IH]; intros s I Q; [reflexivity|]. cbn [piter].
    assert (E : pstep info sr again s = pstep info_r sr again s).
    { apply pstep_ext. intros i stk Es. symmetry. apply info_r_in, nreach_loaded.
      apply (q_reach _ _ _ _ _ Q). apply (k_ok _ _ I). rewrite Es. left. reflexivity. }
    rewrite E. destruct (pstep info_r sr again s) as [s1|] eqn:E1; [|reflexivity].
    apply IH; [eapply pstep_inv; eauto using nodup_r | eapply pstep_qinv; eauto using nodup_r].
  Qed.

  Lemma plan_for_ext fuel : plan_for info sr again fuel root = plan_for info_r sr again fuel root.
  Proof. unfold plan_for. apply piter_ext; [apply init_inv | apply qinit]. Qed.

  (* ---- what holds of every plan the planner produces for an accepted project ---- *)
  Variable pfuel : nat.
  Variable ps : pstate.
  Hypothesis Hplan : plan_for info sr again pfuel root = Some ps.

  Lemma Hplan_r : plan_for info_r sr again pfuel root = Some ps.
  Proof. now rewrite <- plan_for_ext. Qed.

  Theorem composed_wf : wf_plan (plan_of ps).
  Proof. eapply plan_wf; [exact nodup_r | exact Hplan_r]. Qed.

  Lemma op_task_loaded o : o < length (ops ps) -> In (op_task (op_at (ops ps) o)) loaded.
  Proof.
    intros Ho. destruct (plan_exact info_r sr again root nodup_r pfuel ps Hplan_r) as (Hn & _).
    apply nreach_loaded. apply (Hn (op_task (op_at (ops ps) o))). eauto.
  Qed.

  (* the plan contains exactly the tasks that must be executed, each once *)
  Theorem composed_exact :
    (forall t, (exists o, o < length (ops ps) /\ op_task (op_at (ops ps) o) = t) <-> Needed info sr again root t) /\
    NoDup (map op_task (ops ps)) /\
    (forall t, In t (cached ps) <-> Frontier info sr again root t) /\ NoDup (cached ps) /\
    (forall t, In t (cached ps) -> ~ In t (map op_task (ops ps))) /\
    p_num (plan_of ps) = length (ops ps) /\
    NoDup (sr_calls ps) /\ NoDup (nv_calls ps).
  Proof.
    destruct (plan_exact info_r sr again root nodup_r pfuel ps Hplan_r) as (H1 & H2 & H3 & H4 & H5 & H6 & H7 & H8).
    split; [|split; [exact H2|split; [|auto 10]]].
    - intros t. rewrite H1. unfold Needed. now rewrite nreach_iff.
    - intros t. rewrite H3. unfold Frontier. now rewrite nreach_iff.
  Qed.

  (* the operation graph is exactly the task graph between the lowered tasks *)
  Theorem composed_edges :
    (forall o, o < length (ops ps) ->
       forall d, In d (t_deps (info (op_task (op_at (ops ps) o)))) -> runs sr again d = true ->
       exists od, In od (op_exe_deps (op_at (ops ps) o)) /\ od < o /\ op_task (op_at (ops ps) od) = d) /\
    (forall o od, o < length (ops ps) -> In od (op_exe_deps (op_at (ops ps) o)) ->
       od < o /\ In (op_task (op_at (ops ps) od)) (t_deps (info (op_task (op_at (ops ps) o))))) /\
    map fst (snaps ps) = map op_task (ops ps) /\
    (forall x l, In (x, l) (snaps ps) -> l = map (fun d => (d, runs sr again d && is_exp info d)) (t_deps (info x))) /\
    (forall o, o < length (ops ps) ->
       op_par (op_at (ops ps) o) = par_of info (op_task (op_at (ops ps) o)) /\
       op_sync (op_at (ops ps) o) = is_sync (t_kind (info (op_task (op_at (ops ps) o))))).
  Proof.
    destruct (plan_edges info_r sr again root nodup_r (fun t _ => acyclic_r t) pfuel ps Hplan_r) as (H1 & H2 & H3 & H4 & H5).
    split; [|split; [|split; [exact H3|split]]].
    - intros o Ho d Hd. apply H1; [assumption|]. now rewrite info_r_in by (now apply op_task_loaded).
    - intros o od Ho Hod. destruct (H2 o od Ho Hod) as [A B]. split; [assumption|].
      now rewrite info_r_in in B by (now apply op_task_loaded).
    - intros x l Hx. pose proof (H4 x l Hx) as E.
      assert (Hxl : In x loaded).
      { apply (in_map fst) in Hx. rewrite H3 in Hx. apply in_map_iff in Hx as (oi & Eo & Hoi). cbn [fst] in Eo.
        apply In_nth with (d := dummy_op) in Hoi as (o & Ho & Eoi). subst x. rewrite <- Eoi. now apply op_task_loaded. }
      rewrite info_r_in in E by assumption. rewrite E. apply map_ext_in. intros d Hd. f_equal. f_equal.
      unfold is_exp. destruct (loaded_clean x Hxl) as (_ & _ & Hc & _). now rewrite info_r_in by (now apply Hc).
    - intros o Ho. destruct (H5 o Ho) as [A B]. unfold par_of in *.
      now rewrite info_r_in in A, B by (now apply op_task_loaded).
  Qed.
End Compose.

(* ---------- the executor on the composed plan ---------- *)
Lemma split_after_prefix {A} (a b l1 l2 : list A) (x : A) :
  a ++ b = l1 ++ x :: l2 -> ~ In x a -> exists l1', l1 = a ++ l1' /\ b = l1' ++ x :: l2.
Proof.
  revert l1. induction a as [|y a IH]; intros l1 H Hn; [exists l1; auto|].
  destruct l1 as [|z l1]; simpl in H; inversion H; subst.
  - exfalso. apply Hn. left. reflexivity.
  - destruct (IH l1 H2) as (l1' & E1 & E2); [intros Hin; apply Hn; right; exact Hin|].
    exists l1'. subst. auto.
Qed.

Lemma report_no_start p root s x sl : ~ In (EStart x sl) (report p root s).
Proof.
  unfold report. destruct (_ && _); [intros [H|[H|[]]]; discriminate|].
  destruct (filter _ _); intros [H|[H|[]]]; discriminate.
Qed.

Lemma started_lt p jobs stop orc s o sl :
  Inv p jobs stop orc s -> In (EStart o sl) (trace s) -> o < length (p_ops p).
Proof.
  intros HI Hin. pose proof (t_start _ _ _ _ _ _ _ (i_t _ _ _ _ _ HI) o sl Hin) as H.
  apply (c_range _ _ _ _ _ _ _ _ (i_c _ _ _ _ _ HI)). unfold allqP, inflP in *. rewrite !in_app_iff in *. tauto.
Qed.

(* End to end, for the function the correspondence check evaluates: whenever `cond run` gets as far
   as executing (the loader accepted the project), a task's operation is started only after the
   operation of EVERY direct dependency that is executed in this invocation has finished with
   status 0 -- for every project, every root, every oracle, every jobs >= 1, both --again and
   --stop-early settings, with no side condition on the plan. *)
Theorem cond_run_direct_deps_first fuel tasks c loaded ps evs :
  cond_run fuel tasks c = ORun loaded ps (Some evs) -> 1 <= c_jobs c ->
  forall pre ox sl post, evs = pre ++ EStart ox sl :: post ->
  ox < length (ops ps) /\
  forall d, In d (td_deps (tdef_of tasks (op_task (op_at (ops ps) ox)))) ->
            runs (sr_of tasks) (c_again c) d = true ->
  exists od, od < length (ops ps) /\ op_task (op_at (ops ps) od) = d /\
             In (EFinish od 0%N) pre /\ (forall sl', ~ In (EStart od sl') post).
Proof.
  unfold cond_run. destruct (load_closure _ _ _) as [loaded'| | | | |] eqn:Hload; try discriminate.
  destruct (plan_for _ _ _ _ _) as [ps'|] eqn:Hplan; [|discriminate].
  intros H Hjobs. inversion H; subst loaded' ps'. clear H. rename H3 into Hrun.
  pose proof (composed_wf tasks (c_root c) fuel loaded Hload (sr_of tasks) (c_again c) fuel ps Hplan) as Hwf.
  destruct (composed_edges tasks (c_root c) fuel loaded Hload (sr_of tasks) (c_again c) fuel ps Hplan) as (Hedge & _).
  set (pl := plan_of ps) in *. set (orc := oracle_of pl c) in *.
  unfold run_plan in Hrun. destruct (xiter pl (c_jobs c) (c_stop c) orc fuel (xinit pl (c_jobs c))) as [s|] eqn:Hx; [|discriminate].
  assert (Hev : rev (report pl (c_root c) s ++ trace s) = evs) by (inversion Hrun; reflexivity). clear Hrun.
  assert (Hfin : final_state pl (c_jobs c) (c_stop c) orc s) by (exists fuel; exact Hx).
  pose proof (final_reachable _ _ _ _ _ Hfin) as Hreach.
  pose proof (reachable_inv _ _ _ _ _ Hwf Hjobs Hreach) as HI.
  intros pre ox sl post E. rewrite E in Hev.
  apply (f_equal (@rev event)) in Hev. rewrite rev_involutive, rev_app_distr in Hev. cbn [rev] in Hev.
  rewrite <- app_assoc in Hev. cbn [app] in Hev.
  destruct (split_after_prefix _ _ _ _ _ Hev (report_no_start _ _ _ _ _)) as (post' & Epost & Etr).
  assert (Hox : ox < length (ops ps)).
  { apply (started_lt pl (c_jobs c) (c_stop c) orc s ox sl HI). rewrite Etr. apply in_or_app. right. left. reflexivity. }
  split; [exact Hox|]. intros d Hd Hr.
  destruct (Hedge ox Hox d Hd Hr) as (od & Hod & Hlt & Htask).
  destruct (main_op_order pl (c_jobs c) (c_stop c) orc Hwf Hjobs s ox sl post' (rev pre) od Hreach Etr) as (A & _ & C).
  { apply path_one. unfold pl. rewrite exe_deps_plan_of. exact Hod. }
  exists od. split; [lia|]. split; [exact Htask|]. split; [now apply in_rev in A|].
  intros sl' Hin. apply (C sl'). apply in_rev in Hin. rewrite Epost in Hin. apply in_app_or in Hin as [Hin|Hin]; [|exact Hin].
  exfalso. eapply report_no_start; eauto.
Qed.

(* the plan `cond run` executes, whenever the loader accepted the project *)
Theorem cond_run_plan fuel tasks c loaded ps r :
  cond_run fuel tasks c = ORun loaded ps r ->
  let info := info_of tasks in let sr := sr_of tasks in let again := c_again c in let root := c_root c in
  wf_plan (plan_of ps) /\
  (forall t, (exists o, o < length (ops ps) /\ op_task (op_at (ops ps) o) = t) <-> Needed info sr again root t) /\
  NoDup (map op_task (ops ps)) /\
  (forall t, In t (cached ps) <-> Frontier info sr again root t) /\
  (forall o, o < length (ops ps) ->
     forall d, In d (t_deps (info (op_task (op_at (ops ps) o)))) -> runs sr again d = true ->
     exists od, In od (op_exe_deps (op_at (ops ps) o)) /\ od < o /\ op_task (op_at (ops ps) od) = d) /\
  (forall o od, o < length (ops ps) -> In od (op_exe_deps (op_at (ops ps) o)) ->
     od < o /\ In (op_task (op_at (ops ps) od)) (t_deps (info (op_task (op_at (ops ps) o))))) /\
  map fst (snaps ps) = map op_task (ops ps) /\
  (forall x l, In (x, l) (snaps ps) -> l = map (fun d => (d, runs sr again d && is_exp info d)) (t_deps (info x))) /\
  NoDup (nv_calls ps).
Proof.
  unfold cond_run. destruct (load_closure _ _ _) as [loaded'| | | | |] eqn:Hload; try discriminate.
  destruct (plan_for _ _ _ _ _) as [ps'|] eqn:Hplan; [|discriminate].
  intros H. inversion H; subst loaded' ps'. clear H. cbv zeta.
  pose proof (composed_wf tasks (c_root c) fuel loaded Hload (sr_of tasks) (c_again c) fuel ps Hplan) as Hwf.
  destruct (composed_edges tasks (c_root c) fuel loaded Hload (sr_of tasks) (c_again c) fuel ps Hplan) as (E1 & E2 & E3 & E4 & _).
  destruct (composed_exact tasks (c_root c) fuel loaded Hload (sr_of tasks) (c_again c) fuel ps Hplan) as (X1 & X2 & X3 & _ & _ & _ & _ & X8).
  auto 12.
Qed.

(* ---------- termination of the whole pipeline on a finite project ---------- *)
Lemma list_sum_le (f g : nat -> nat) l : (forall x, f x <= g x) -> list_sum (map f l) <= list_sum (map g l).
Proof. intros H. induction l as [|a l IH]; simpl; [lia|]. specialize (H a). lia. Qed.

Definition run_fuel (tasks : list tdef) (V : list nat) : nat :=
  fuel_bound (graph_of tasks) V + (2 + list_sum (map (fun t => 1 + length (td_deps (tdef_of tasks t))) V)) + (2 * length V + 2).

(* With at least [run_fuel] fuel the three loops of the model all end by themselves: the only
   outcomes are a load error that names a defect, or a complete run with its report. *)
Theorem cond_run_terminates tasks c V fuel :
  finite_project (graph_of tasks) (c_root c) V -> 1 <= c_jobs c -> run_fuel tasks V <= fuel ->
  (exists r, cond_run fuel tasks c = OLoadError r /\ r <> OutOfFuel /\ forall v, r <> Ok v) \/
  (exists loaded ps evs, cond_run fuel tasks c = ORun loaded ps (Some evs)).
Proof.
  intros (Vn & Vr & Vc) Hjobs Hfuel. unfold run_fuel in Hfuel. unfold cond_run.
  pose proof (load_closure_terminates_ge (graph_of tasks) (c_root c) V Vn Vr Vc fuel) as Hlt.
  destruct (load_closure (graph_of tasks) fuel (c_root c)) as [loaded| | | | |] eqn:Hload;
    try (left; eexists; split; [reflexivity|]; split; [discriminate | intros v; discriminate]).
  2:{ exfalso. apply Hlt; [lia | reflexivity]. }
  right. clear Hlt.
  set (sr := sr_of tasks). set (again := c_again c). set (root := c_root c) in *.
  pose proof (nodup_r tasks root fuel loaded Hload) as Hnd.
  assert (Vc' : forall x d, In x V -> In d (t_deps (info_r tasks loaded x)) -> In d V).
  { intros x d Hx Hd. apply info_r_deps in Hd as [Hxl Hd].
    destruct (loaded_clean tasks root fuel loaded Hload x Hxl) as (Hg & _). eapply Vc; eauto. }
  destruct (piter_total (info_r tasks loaded) sr again root Hnd V Vn Vr Vc' fuel (pinit root)
              (init_inv _ root) (qinit _ sr again root)) as (ps & Hps).
  { unfold mu, pinit. cbn [visited stack length].
    assert (E : pot (info_r tasks loaded) V [] <= list_sum (map (fun t => 1 + length (td_deps (tdef_of tasks t))) V)).
    { unfold pot. apply list_sum_le. intros x. cbn. unfold cost, info_r. destruct (mem x loaded); cbn; lia. }
    lia. }
  assert (Hplan : plan_for (info_of tasks) sr again fuel root = Some ps).
  { rewrite (plan_for_ext tasks root fuel loaded Hload sr again fuel). exact Hps. }
  rewrite Hplan.
  pose proof (composed_wf tasks root fuel loaded Hload sr again fuel ps Hplan) as Hwf.
  destruct (composed_exact tasks root fuel loaded Hload sr again fuel ps Hplan) as (Hn & Hnd_ops & _).
  assert (Hlen : length (ops ps) <= length V).
  { rewrite <- (map_length op_task). apply NoDup_incl_length; [exact Hnd_ops|].
    intros t Ht. apply in_map_iff in Ht as (oi & <- & Hoi). apply In_nth with (d := dummy_op) in Hoi as (o & Ho & Eo).
    assert (HN : Needed (info_of tasks) sr again root (op_task oi)) by (apply Hn; exists o; unfold op_at; rewrite Eo; auto).
    destruct HN as [HN _]. apply (nreach_iff tasks root fuel loaded Hload sr again) in HN.
    eapply nreach_V; eauto. }
  set (pl := plan_of ps). set (orc := oracle_of pl c).
  destruct (xiter_total pl (c_jobs c) (c_stop c) orc Hwf Hjobs fuel (xinit pl (c_jobs c))) as (s' & Hs').
  { now apply ExecSteps.init_inv. }
  { unfold pl. cbn [plan_of p_ops]. lia. }
  exists loaded, ps. eexists. unfold run_plan. fold pl orc. rewrite Hs'. reflexivity.
Qed.
