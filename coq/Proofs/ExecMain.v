(* Final-form statements about Executor.run_plan (Model/Exec.v), quantified over every well-formed
   plan, every oracle (launch failures, return codes, completion order), every jobs >= 1 and both
   values of --stop-early.  Props/C0x.v restate these. *)
From Coq Require Import List Arith Bool Lia Permutation NArith.
From Conductor Require Import Model.Loader Model.Planner Model.Exec
  Proofs.ListFacts Proofs.ExecInv Proofs.ExecSteps Proofs.ExecTheorems.
Import ListNotations.

Definition final_state (p : plan) (jobs : nat) (stop : bool) (orc : oracle) (s : xstate) : Prop :=
  exists fuel, xiter p jobs stop orc fuel (xinit p jobs) = Some s.

(* reachable states: every state the loop passes through *)
Inductive reachable (p : plan) (jobs : nat) (stop : bool) (orc : oracle) : xstate -> Prop :=
| reach_init : reachable p jobs stop orc (xinit p jobs)
| reach_step s s' : reachable p jobs stop orc s -> xstep p jobs stop orc s = Some s' -> reachable p jobs stop orc s'.

Lemma reachable_inv p jobs stop orc s :
  wf_plan p -> 1 <= jobs -> reachable p jobs stop orc s -> Inv p jobs stop orc s.
Proof.
  intros wf Hj. induction 1 as [|s s' _ IH Hx]; [now apply init_inv | eapply xstep_inv; eauto].
Qed.

Lemma final_reachable p jobs stop orc s : final_state p jobs stop orc s -> reachable p jobs stop orc s.
Proof.
  intros (fuel & H).
  assert (G : forall fuel s0, reachable p jobs stop orc s0 -> xiter p jobs stop orc fuel s0 = Some s -> reachable p jobs stop orc s).
  { clear. induction fuel as [|f IH]; intros s0 Hr; cbn [xiter]; [discriminate|].
    destruct (xstep p jobs stop orc s0) as [s1|] eqn:E.
    - apply IH. econstructor; eauto.
    - intros H; inversion H; subst. exact Hr. }
  eapply G; [constructor | exact H].
Qed.

Lemma final_no_step p jobs stop orc s : final_state p jobs stop orc s -> xstep p jobs stop orc s = None.
Proof.
  intros (fuel & H).
  assert (G : forall fuel s0, xiter p jobs stop orc fuel s0 = Some s -> xstep p jobs stop orc s = None).
  { clear. induction fuel as [|f IH]; intros s0; cbn [xiter]; [discriminate|].
    destruct (xstep p jobs stop orc s0) as [s1|] eqn:E; [apply IH|]. intros H; inversion H; subst. exact E. }
  eapply G; eauto.
Qed.

Section Main.
  Variables (p : plan) (jobs : nat) (stop : bool) (orc : oracle).
  Hypothesis wf : wf_plan p.
  Hypothesis Hjobs : 1 <= jobs.
  Let n := length (p_ops p).

  (* ---- C09 ---- *)
  Lemma main_terminates : exists s, xiter p jobs stop orc (2 * n + 1) (xinit p jobs) = Some s.
  Proof. eapply run_terminates; eauto. Qed.

  Lemma main_all_completed s :
    final_state p jobs stop orc s -> stopped s = false ->
    (forall o, o < n -> In o (completed s)) /\ NoDup (completed s) /\
    (forall o, o < n -> ost s o = SUCCEEDED \/ ost s o = FAILED \/ ost s o = SKIPPED) /\
    infl s = [].
  Proof.
    intros Hf Hst. pose proof (reachable_inv _ _ _ _ _ wf Hjobs (final_reachable _ _ _ _ _ Hf)) as HI.
    pose proof (final_no_step _ _ _ _ _ Hf) as Hx.
    split; [eapply all_completed; eauto|]. split; [eapply completed_nodup; eauto|].
    split.
    - intros o Ho. assert (H : ost s o <> QUEUED) by (eapply all_done_final; eauto).
      destruct (ost s o); auto; congruence.
    - eapply final_quiescent; eauto.
  Qed.

  Lemma main_completed_subset s :
    reachable p jobs stop orc s -> NoDup (completed s) /\ forall o, In o (completed s) -> o < n /\ ost s o <> QUEUED.
  Proof.
    intros Hr. pose proof (reachable_inv _ _ _ _ _ wf Hjobs Hr) as HI.
    split; [eapply completed_nodup; eauto|].
    intros o Ho. destruct HI as [Hc Hs _ _ _].
    assert (Hn : o < n) by (apply (c_range _ _ _ _ _ _ _ _ Hc); unfold allqP; rewrite !in_app_iff; tauto).
    split; [assumption|]. now apply (s_st _ _ _ _ _ _ Hs o Hn).
  Qed.

  (* ---- C03 ---- *)
  Lemma main_classification s o :
    final_state p jobs stop orc s -> stopped s = false -> o < n ->
    (ost s o = SKIPPED <-> exists d, In d (exe_deps p o) /\ ost s d <> SUCCEEDED) /\
    (ost s o = FAILED <-> (forall d, In d (exe_deps p o) -> ost s d = SUCCEEDED) /\ fails p orc o = true) /\
    (ost s o = SUCCEEDED <-> (forall d, In d (exe_deps p o) -> ost s d = SUCCEEDED) /\ fails p orc o = false) /\
    (ost s o = SKIPPED <-> exists f, op_path p o f /\ ost s f = FAILED) /\
    (ost s o = SKIPPED -> forall sl, ~ In (EStart o sl) (trace s)).
  Proof.
    intros Hf Hst Ho. pose proof (reachable_inv _ _ _ _ _ wf Hjobs (final_reachable _ _ _ _ _ Hf)) as HI.
    pose proof (final_no_step _ _ _ _ _ Hf) as Hx.
    assert (Hd : all_done p s) by (eapply all_done_final; eauto).
    assert (Hcl := classification p jobs stop orc s o HI Hd Ho). destruct Hcl as (H1 & H2 & H3).
    split; [assumption|]. split; [assumption|]. split; [assumption|]. split.
    - eapply skipped_iff_reaches_failed; eauto.
    - intros Hsk. eapply skipped_never_started; eauto.
  Qed.

  Lemma main_report s root :
    final_state p jobs stop orc s ->
    match report p root s with
    | [EDone; EKill k] => forallb (succeeded s) (completed s) = true /\ k = map fst (procs s)
    | [EFailed f sk; EKill k] =>
        (forall o, In o f <-> In o (completed s) /\ ost s o = FAILED) /\
        (forall o, In o sk <-> In o (completed s) /\ ost s o = SKIPPED) /\
        f <> [] /\ k = map fst (procs s)
    | [EAssertFail; EKill k] => forallb (succeeded s) (completed s) = true
    | _ => False
    end.
  Proof.
    intros Hf. pose proof (reachable_inv _ _ _ _ _ wf Hjobs (final_reachable _ _ _ _ _ Hf)) as HI.
    eapply report_spec; eauto. now apply final_no_step.
  Qed.

  Lemma main_stop_early s s' :
    reachable p jobs stop orc s -> xstep p jobs stop orc s = Some s' -> stop = true ->
    exists ev, trace s' = ev :: trace s /\ forall e, In e (trace s) -> is_failure e = false.
  Proof.
    intros Hr Hx Hst. eapply (stop_early_last p jobs stop orc s s'); [now apply reachable_inv | exact Hx | exact Hst].
  Qed.

  (* ---- C01 / C02 ---- *)
  Lemma main_op_order s x sl post pre d :
    reachable p jobs stop orc s -> trace s = post ++ EStart x sl :: pre -> op_path p x d ->
    In (EFinish d 0%N) pre /\ (exists sl', In (EStart d sl') pre) /\ (forall sl', ~ In (EStart d sl') post).
  Proof. intros Hr Etr Hp. eapply (op_order p jobs stop orc s); [now apply reachable_inv | exact Etr | exact Hp]. Qed.

  Lemma main_started_once s x sl post pre :
    reachable p jobs stop orc s -> trace s = post ++ EStart x sl :: pre ->
    (forall sl', ~ In (EStart x sl') pre) /\ (forall sl', ~ In (EStart x sl') post).
  Proof. intros Hr Etr. eapply (started_once p jobs stop orc s); [now apply reachable_inv | exact Etr]. Qed.

  Lemma main_all_run_when_nothing_fails :
    (forall o, fails p orc o = false) ->
    forall s, final_state p jobs stop orc s -> stopped s = false ->
    forall o, o < n -> ost s o = SUCCEEDED.
  Proof.
    intros Hnf s Hf Hst o. induction o as [o IH] using lt_wf_ind. intros Ho.
    destruct (main_classification s o Hf Hst Ho) as (_ & _ & H3 & _).
    apply H3. split; [|apply Hnf].
    intros d Hd. destruct wf as (Wlt & _). pose proof (Wlt o Ho d Hd). apply IH; [assumption | unfold n in *; lia].
  Qed.

  (* ---- C04 ---- *)
  Lemma main_limits s :
    reachable p jobs stop orc s ->
    length (infl s) <= jobs /\
    (forall o, In o (infl s) -> is_par p o = false -> infl s = [o]) /\
    NoDup (slots_of (procs s)) /\ (forall sl, In sl (slots_of (procs s)) -> sl < jobs) /\
    (forall o sl, In (o, sl) (procs s) -> (sl = None <-> (is_par p o = false \/ jobs <= 1))) /\
    (forall o, In o (infl s) <-> (exists sl, In (EStart o sl) (trace s)) /\ forall rc, ~ In (EFinish o rc) (trace s)) /\
    (gate_open jobs s = true -> avail s <> []).
  Proof.
    intros Hr. pose proof (reachable_inv _ _ _ _ _ wf Hjobs Hr) as HI.
    assert (Hl := limits p jobs stop orc Hjobs s HI). destruct Hl as (H1 & H2 & H3 & H4 & H5).
    repeat (split; [assumption|]). split.
    - intros o. eapply inflight_is_started_unfinished; eauto.
    - eapply peek_nonempty; eauto.
  Qed.
End Main.
