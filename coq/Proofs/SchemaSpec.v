(* The documented schema of task definitions, written from the reference pages
   website/docs/task-types/{run-command,run-experiment,group,combine}.md and
   website/docs/task-types.md, independently of the source:

     run_command(name, run, parallelizable=False, args=[], options={}, deps=[])
     run_experiment(name, run, parallelizable=False, args=[], options={}, deps=[])
     group(name, deps=[])
     combine(name, deps=[])

   name: String (required), letters, numbers, hyphens, underscores; unique within the COND file.
   run: String (required).  parallelizable: Boolean.  args: list of primitive values (strings,
   Booleans, integers, floating point numbers).  options: dictionary mapping string keys to
   primitive values.  deps: list of task identifiers (":name" or "//path/to:name"), each task
   listed once; for combine() the dependencies must have unique names. *)
From Coq Require Import List NArith ZArith Bool.
From Conductor Require Import Lib.Str Lib.SchemaTypes Model.Ident Model.Schema Proofs.IdentSpec.
Import ListNotations.
Open Scope N_scope.

(* ---------- parameter types ---------- *)
Definition base_type (v : value) (t : sty) : Prop :=
  match t, v with
  | TStr, VStr _ => True
  | TBool, VBool _ => True
  | TList, VList _ => True
  | TDict, VDict _ => True
  | _, _ => False
  end.

(* "v has type t": String / Boolean / List / Dictionary / list of T / optional T *)
Definition has_type (v : value) (t : sty) : Prop :=
  match t with
  | TOpt u => v = VNone \/ base_type v u
  | TListOf u => exists l, v = VList l /\ Forall (fun x => base_type x u) l
  | _ => base_type v t
  end.

(* a set of arguments satisfies a schema: required parameters present, present parameters of
   their type, nothing else *)
Definition SchemaOk (schema : list (str * sty)) (args : assoc) : Prop :=
  (forall p t, In (p, t) schema -> is_optional t = false -> lookup p args <> None) /\
  (forall p t v, In (p, t) schema -> lookup p args = Some v -> has_type v t) /\
  (forall k v, In (k, v) args -> In k (map fst schema)).

(* ---------- the documented table ---------- *)
Definition doc_schema_run : list (str * sty) :=
  [(K_name, TStr); (K_run, TStr); (K_parallelizable, TBool); (K_args, TList); (K_options, TDict);
   (K_deps, TListOf TStr)].
Definition doc_defaults_run : list (str * sdefault) :=
  [(K_parallelizable, DBool false); (K_args, DEmptyList); (K_options, DEmptyDict); (K_deps, DEmptyList)].
Definition doc_schema_deps : list (str * sty) := [(K_name, TStr); (K_deps, TListOf TStr)].
Definition doc_defaults_deps : list (str * sdefault) := [(K_deps, DEmptyList)].


(* (constructor, parameters and types, defaults) as documented *)
Definition doc_table : list (str * list (str * sty) * list (str * sdefault)) :=
  [(C_run_command, doc_schema_run, doc_defaults_run);
   (C_run_experiment, doc_schema_run, doc_defaults_run);
   (C_group, doc_schema_deps, doc_defaults_deps);
   (C_combine, doc_schema_deps, doc_defaults_deps)].

(* the rows of the implementation's table that belong to documented constructors (the class a
   definition is materialised to is not part of the documentation) *)
Definition undocumented (r : task_type_row) : bool := str_eqb (tt_name r) C_environment.
Definition documented_part (table : list task_type_row)
  : list (str * list (str * sty) * list (str * sdefault)) :=
  map (fun r => (tt_name r, tt_schema r, tt_defaults r)) (filter (fun r => negb (undocumented r)) table).

(* the same rows with the class each one is materialised to *)
Definition row_run_command : task_type_row :=
  {| tt_name := C_run_command; tt_schema := doc_schema_run; tt_defaults := doc_defaults_run; tt_full := C_RunCommand |}.
Definition row_run_experiment : task_type_row :=
  {| tt_name := C_run_experiment; tt_schema := doc_schema_run; tt_defaults := doc_defaults_run; tt_full := C_RunExperiment |}.
Definition row_group : task_type_row :=
  {| tt_name := C_group; tt_schema := doc_schema_deps; tt_defaults := doc_defaults_deps; tt_full := C_Group |}.
Definition row_combine : task_type_row :=
  {| tt_name := C_combine; tt_schema := doc_schema_deps; tt_defaults := doc_defaults_deps; tt_full := C_Combine |}.
Definition doc_rows : list task_type_row := [row_run_command; row_run_experiment; row_group; row_combine].

(* ---------- one definition ---------- *)
(* the arguments of a call after the documented defaults are filled in *)
Definition call_args (row : task_type_row) (c : call) : assoc := dict_merge (defaults_of row) (snd c).

(* c is a definition of a documented constructor that obeys its schema and has a valid name;
   r is what it defines *)
Definition DocDef (c : call) (r : raw_task) : Prop :=
  exists row s,
    In row doc_rows /\ fst c = tt_name row /\
    SchemaOk (tt_schema row) (call_args row c) /\
    lookup K_name (call_args row c) = Some (VStr s) /\ DocName s /\
    r = {| rt_name := s; rt_full := tt_full row; rt_args := call_args row c |}.

(* ---------- dependencies, args, options ---------- *)
(* the documented reading of a dependency string listed in a COND file of directory dir *)
Definition DocResolves (dir : list str) (s : str) (i : ident) : Prop :=
  (exists n, s = COLON :: n /\ DocName n /\ i = {| ipath := dir; iname := n |}) \/
  (exists segs last name,
      Forall DocName segs /\ Forall DocName (olist last) /\ DocName name /\
      s = assemble true segs last name /\
      i = {| ipath := segs ++ olist last; iname := name |}).

Definition DocDeps (dir : list str) (v : value) (ids : list ident) : Prop :=
  exists l, v = VList l /\
    Forall2 (fun x i => exists s, x = VStr s /\ DocResolves dir s i) l ids /\
    NoDup ids.

Definition Primitive (v : value) : Prop :=
  match v with VStr _ | VBool _ | VInt _ | VFloat _ _ | VFloatX _ => True | _ => False end.

Definition DocArgs (v : value) : Prop := exists l, v = VList l /\ Forall Primitive l.
Definition DocOptions (v : value) : Prop :=
  exists kv, v = VDict kv /\ Forall (fun p => (exists k, fst p = VStr k) /\ Primitive (snd p)) kv.

(* a definition that obeys its schema is a well-formed task of directory dir *)
Definition DocTask (dir : list str) (r : raw_task) (t : task) : Prop :=
  exists deps ids,
    lookup K_deps (rt_args r) = Some deps /\ DocDeps dir deps ids /\
    (rt_full r = C_RunCommand \/ rt_full r = C_RunExperiment ->
       exists a o, lookup K_args (rt_args r) = Some a /\ DocArgs a /\
                   lookup K_options (rt_args r) = Some o /\ DocOptions o) /\
    (rt_full r = C_Combine -> NoDup (map iname ids)) /\
    t = {| tk_ident := {| ipath := dir; iname := rt_name r |};
           tk_type := rt_full r;
           tk_deps := ids;
           tk_fields := remove_key K_name (remove_key K_deps (rt_args r)) |}.

(* ---------- a file of definitions and the task a command needs ---------- *)
(* every definition of the file obeys its schema and the names are pairwise different *)
Definition DocFile (cs : list call) (ts : tasks) : Prop :=
  Forall2 DocDef cs ts /\ NoDup (map rt_name ts).

Definition DocWellFormed (dir : list str) (cs : list call) (t : str) : Prop :=
  exists ts r tk, DocFile cs ts /\ In r ts /\ rt_name r = t /\ DocTask dir r tk.

(* `cond run --check //dir:t` on a file of plain constructor calls *)
Definition check_calls (dir : list str) (cs : list call) (t : str) : result task :=
  bind (parse_calls cs) (fun ts => load_task dir ts t).
