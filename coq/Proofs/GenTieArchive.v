(* Tie between Model/Archive.v and the ORDER of the steps of `cond restore` TRANSLATED from
   cli/restore.py main in the working tree (Gen/Generated.v, the gen_restore definitions).  Step codes: 1 rmtree(staging),
   2 mkdir(staging), 3 extract, 4 index file present?, 5 load it, 6 copy_entries_to (the row inserts),
   7 get_all_versions, per row 8 staged directory present? 9 copytree 10 destination present?,
   11 commit; on any error 12 rollback; finally 1 rmtree(staging). *)
From Coq Require Import List NArith Bool.
From Conductor Require Import Gen.Generated Model.Archive.
Import ListNotations.
Open Scope N_scope.

Definition instr_steps (i : instr) : list N :=
  match i with
  | IMkdir => [1; 2] | IExtract => [3] | ICheckIndex => [4] | ILoadIndex => [5]
  | IInsert _ => []            (* the inserts are what the ONE call copy_entries_to (code 6) does *)
  | IListVersions => [7]
  | ICheckSrc _ => [8] | ICopy _ => [9] | ICheckDst _ => [10]
  | ICommit => [11]
  end.

Definition without_copy_entries (l : list N) : list N := filter (fun c => negb (c =? 6)) l.

(* the program of the model, step by step, is the translated order: the steps before the loop, the
   loop body once per staged row, the steps after the loop; the row inserts of the model sit where
   the source calls copy_entries_to -- after the index is loaded, before the versions are listed *)
Lemma restore_order_tie : forall x,
  gen_restore_before_loop = [1; 2; 3; 4; 5; 6; 7] /\
  gen_restore_on_error = [12] /\ gen_restore_finally = [1] /\
  flat_map instr_steps (program x) =
    without_copy_entries gen_restore_before_loop
    ++ flat_map (fun _ => gen_restore_loop_body) (staged_rows x) ++ gen_restore_after_loop /\
  program x = [IMkdir; IExtract; ICheckIndex; ILoadIndex] ++ map IInsert (staged_rows x)
              ++ IListVersions :: flat_map (fun r => [ICheckSrc (row_key r); ICopy (row_key r); ICheckDst (row_key r)]) (staged_rows x)
              ++ [ICommit].
Proof.
  intros x. split; [reflexivity|]. split; [reflexivity|]. split; [reflexivity|]. split; [|reflexivity].
  unfold program. rewrite !flat_map_app. cbn [flat_map instr_steps app].
  assert (E1 : flat_map instr_steps (map IInsert (staged_rows x)) = []).
  { induction (staged_rows x) as [|r rows IH]; [reflexivity|]. cbn [map flat_map instr_steps app]. exact IH. }
  rewrite E1. cbn [app].
  assert (E2 : flat_map instr_steps (flat_map (fun r => [ICheckSrc (row_key r); ICopy (row_key r); ICheckDst (row_key r)]) (staged_rows x))
               = flat_map (fun _ => gen_restore_loop_body) (staged_rows x)).
  { induction (staged_rows x) as [|r rows IH]; [reflexivity|]. cbn [flat_map instr_steps app]. now rewrite IH. }
  rewrite E2. reflexivity.
Qed.
