(* Tie between Model/Archive.v and the ORDER of the steps of `cond restore` TRANSLATED from
   cli/restore.py main in the working tree (Gen/Generated.v, the gen_restore definitions).  Step codes: 1 rmtree(staging),
   2 mkdir(staging), 3 extract, 4 index file present?, 5 load it, 6 copy_entries_to (the row inserts),
   7 get_all_versions, per row 8 staged directory present? 9 copytree 10 destination present?,
   11 commit; on any error 12 rollback; finally 1 rmtree(staging). *)
From Coq Require Import List NArith Bool.
From Conductor Require Import Gen.Generated Model.Archive.
Import ListNotations.
Open Scope N_scope.

Definition instr_steps (i : instr) : list N :=
  match i with
  | IMkdir => [1; 2] | IExtract => [3] | ICheckIndex => [4] | ILoadIndex => [5]
  | IInsert _ => []            (* the inserts are what the ONE call copy_entries_to (code 6) does *)
  | IListVersions => [7]
  | ICheckSrc _ => [8] | ICopy _ => [9] | ICheckDst _ => [10]
  | ICommit => [11]
  end.

Definition without_copy_entries (l : list N) : list N := filter (fun c => negb (c =? 6)) l.

(* the program of the model, step by step, is the translated order: the steps before the loop, the
   loop body once per staged row, the steps after the loop; the row inserts of the model sit where
   the source calls copy_entries_to -- after the index is loaded, before the versions are listed *)
Lemma restore_order_tie : forall x,
  gen_restore_before_loop = [1; 2; 3; 4; 5; 6; 7] /\
  gen_restore_on_error = [12] /\ gen_restore_finally = [1] /\
  flat_map instr_steps (program x) =
    without_copy_entries gen_restore_before_loop
    ++ flat_map (fun _ => gen_restore_loop_body) (staged_rows x) ++ gen_restore_after_loop /\
  program x = [IMkdir; IExtract; ICheckIndex; ILoadIndex] ++ map IInsert (staged_rows x)
              ++ IListVersions :: flat_map (fun r => [ICheckSrc (row_key r); ICopy (row_key r); ICheckDst (row_key r)]) (staged_rows x)
              ++ [ICommit].
Proof.
  intros x. split; [reflexivity|]. split; [reflexivity|]. split; [reflexivity|]. split; [|reflexivity].
  unfold program. rewrite !flat_map_app. cbn [flat_map instr_steps app].
  assert (E1 : flat_map instr_steps (map IInsert (staged_rows x)) = []).
  { induction (staged_rows x) as [|r rows IH]; [reflexivity|]. cbn [map flat_map instr_steps app]. exact IH. }
  rewrite E1. cbn [app].
  assert (E2 : flat_map instr_steps (flat_map (fun r => [ICheckSrc (row_key r); ICopy (row_key r); ICheckDst (row_key r)]) (staged_rows x))
               = flat_map (fun _ => gen_restore_loop_body) (staged_rows x)).
  { induction (staged_rows x) as [|r rows IH]; [reflexivity|]. cbn [flat_map instr_steps app]. now rewrite IH. }
  rewrite E2. reflexivity.
Qed.

(* ---------------------------------------------------------------------------------------------
   cond archive: Model/ArchiveOut.v is cli/archive.py of the working tree -- handle_output_path takes the decision
   TRANSLATED from the sources on every answer of the file system, and main enters its steps in the translated order
   (before the try block, inside it, in the bare `except:`, in `finally:`); create_archive has the one shape in which
   `tar czf <output file>` is the only statement that touches the output file. *)
From Conductor Require Import Lib.Str Model.ArchiveOut.

Lemma archive_output_tie : forall p,
  decision_code (handle_output_path p) =
  gen_archive_output_decision (o_given p) (o_exists p) (o_is_dir p) (o_parent_exists p) (o_parent_is_dir p).
Proof.
  intros [g e d pe pd]. unfold handle_output_path, gen_archive_output_decision. cbn [o_given o_exists o_is_dir o_parent_exists o_parent_is_dir].
  destruct g, e, d, pe, pd; reflexivity.
Qed.

Lemma archive_steps_tie :
  steps_before_try = gen_archive_before_try /\ steps_try = gen_archive_try /\
  steps_on_error = gen_archive_on_error /\ steps_finally = gen_archive_finally /\
  gen_archive_tar_is_the_only_writer = true.
Proof. repeat split; reflexivity. Qed.

(* ---------------------------------------------------------------------------------------------
   VersionIndex.copy_entries_to: the batches the model hands to bulk_load are the ones of the TRANSLATED method -- the
   query chosen by the translated test on (tasks is None, latest_only); the whole table in ONE bulk_load, or one query
   and one bulk_load per element of `tasks`, in order (so a task listed twice is queried twice and the second load meets
   the primary key), counts summed; the four SQL texts are the ones the list functions of Model/Archive.v transcribe. *)
Definition query_by_code (c : N) (T : str) (src : table) : list row :=
  match c with
  | 0 => q_all src
  | 1 => q_latest_per_task src
  | 2 => q_for_task T src
  | _ => q_latest_for_task T src
  end.

Lemma copy_batches_tie : forall src tasks latest,
  batches src tasks latest =
  match tasks with
  | None => [query_by_code (gen_copy_query true latest) [] src]
  | Some ts => map (fun T => query_by_code (gen_copy_query false latest) T src) ts
  end /\
  gen_copy_whole_table_is_one_bulk_load = true /\ gen_copy_per_task_in_order_counts_summed = true /\
  gen_sql_texts_are_the_transcribed_ones = true.
Proof.
  intros src tasks latest. split; [|repeat split; reflexivity].
  unfold batches, gen_copy_query. destruct tasks as [ts|]; destruct latest; reflexivity.
Qed.
