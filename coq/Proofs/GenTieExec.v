(* Ties between Model/Exec.v and the executor's decisions TRANSLATED from executor.py / ops/operation.py of the working tree
   (harness/gen_generated.py exec_decisions_item).  Kept apart from Proofs/GenTie.v so that C01 / C03 depend on these
   fragments only (a rewritten launch gate breaks the obligations of C04 / C09, not these). *)
From Coq Require Import List Arith Bool NArith.
From Conductor Require Import Gen.Generated Model.Loader Model.Planner Model.Exec.
Import ListNotations.

(* ---------------------------------------------------------------------------------------------
   The executor's remaining decisions, as TRANSLATED from executor.py / ops/operation.py of the working tree. *)

(* _process_finished_op: the dependents that become ready are exactly those for which the translated test on the
   (already decremented) counter says "enqueue", in deps_of order; the finished operation is appended to the completed
   list; nothing else changes *)
Lemma process_finished_tie : forall p s o,
  let ds := deps_of p o in
  let w' := fun x => (waiting s x - Planner.count x ds)%nat in
  let newly := filter (fun d => gen_enqueue_dependent (w' d)) ds in
  readyS (process_finished p s o) = readyS s ++ filter (fun d => negb (is_par p d)) newly /\
  readyP (process_finished p s o) = readyP s ++ filter (is_par p) newly /\
  completed (process_finished p s o) = completed s ++ [o] /\
  (forall x, waiting (process_finished p s o) x = w' x) /\
  gen_finished_op_steps = [1%N; 2%N; 3%N].
Proof.
  intros p s o ds w' newly. unfold process_finished. cbn [readyS readyP completed waiting].
  assert (E : newly = filter (fun d => Nat.eqb (w' d) 0) ds).
  { unfold newly. apply filter_ext. intro d. unfold gen_enqueue_dependent. destruct (w' d); reflexivity. }
  rewrite E. repeat split; reflexivity.
Qed.

(* the skip test of the launch loop: the dequeued operation is skipped exactly when the translated test holds of
   "all its execution dependencies succeeded" (Operation.exe_deps_succeeded = all(succeeded) over exe_deps;
   succeeded = SUCCEEDED or SUCCEEDED_CACHED, the latter never set by the executor) *)
Lemma skip_tie : forall p jobs stop orc s,
  let o := fst (fst (dequeue s)) in
  gen_skips (forallb (succeeded s) (exe_deps p o)) = true ->
  trace (launch_one p jobs stop orc s) = ESkip o :: trace s /\
  ost (launch_one p jobs stop orc s) o = SKIPPED.
Proof.
  intros p jobs stop orc s. unfold launch_one. destruct (dequeue s) as [[o rS] rP]. cbn [fst].
  unfold gen_skips. intro H. rewrite H. unfold process_finished, mark, take, upd. cbn [trace ost].
  rewrite Nat.eqb_refl. split; reflexivity.
Qed.

Lemma succeeded_tie : forall s o,
  succeeded s o = gen_op_succeeded (ostate_eqb (ost s o) SUCCEEDED) false.
Proof. intros s o. unfold succeeded, gen_op_succeeded. now rewrite orb_false_r. Qed.

(* _wait_for_next_inflight_op returns `error_occurred and stop_on_first_error`: the model stops after a wait exactly
   when the translated expression holds of (the reaped process failed, --stop-early) *)
Lemma wait_stop_tie : forall failed stop, gen_wait_stops failed stop = failed && stop.
Proof. reflexivity. Qed.

(* the verdict of _report_execution_results *)
Lemma verdict_tie : forall a b c, gen_verdict_done a b c = a && (b || c).
Proof. reflexivity. Qed.

Lemma report_tie : forall p root s,
  let all_ok := forallb (succeeded s) (completed s) in
  let main_exec := existsb (fun o => Nat.eqb (op_task (opi p o)) root) (completed s) in
  let main_cached := match completed s with [] => mem root (p_cached p) | _ => false end in
  (gen_verdict_done all_ok main_exec main_cached = true -> report p root s = [EDone; EKill (map fst (procs s))]) /\
  (gen_verdict_done all_ok main_exec main_cached = false -> ~ In EDone (report p root s)).
Proof.
  intros p root s all_ok main_exec main_cached. unfold report. fold all_ok. fold main_exec. fold main_cached.
  rewrite verdict_tie. split; intro H; rewrite H; [reflexivity|].
  destruct (filter _ (completed s)); cbn; intros [E|[E|[]]]; discriminate E.
Qed.

(* the converse: when the translated skip test does not hold the dequeued operation is not skipped -- the event the step
   appends is its start or its failed launch, never a skip *)
Lemma no_skip_tie : forall p jobs stop orc s,
  let o := fst (fst (dequeue s)) in
  gen_skips (forallb (succeeded s) (exe_deps p o)) = false ->
  forall tr', trace (launch_one p jobs stop orc s) <> ESkip o :: tr'.
Proof.
  intros p jobs stop orc s. unfold launch_one. destruct (dequeue s) as [[o rS] rP]. cbn [fst].
  unfold gen_skips. intro H. rewrite H.
  destruct (launch_fails orc o).
  - destruct stop; unfold process_finished, set_stopped, mark, take, upd; cbn [trace]; intros tr' E; discriminate E.
  - destruct (op_sync (opi p o)); unfold start_sync, start_proc, mark, take, upd; cbn [trace]; intros tr' E; discriminate E.
Qed.

(* ... and in the model: after a wait for a process the run is stopped exactly when it was stopped before or the translated
   expression holds of (that process failed, --stop-early) *)
Lemma wait_stop_tie_model : forall p stop orc s,
  syncs s = [] ->
  let k := Nat.modulo (pick orc (waits s)) (length (procs s)) in
  let o := fst (nth k (procs s) (0, None)) in
  stopped (wait_one p stop orc s) = gen_wait_stops (negb (N.eqb (rc_of orc o) 0)) stop || stopped s.
Proof.
  intros p stop orc s Hs k o. unfold wait_one. rewrite Hs. fold k.
  destruct (nth k (procs s) (0, None)) as [o' slot] eqn:E. subst o. cbn [fst].
  unfold gen_wait_stops.
  destruct (negb (N.eqb (rc_of orc o') 0) && stop) eqn:B.
  - reflexivity.
  - unfold process_finished, mark, reap. cbn [stopped]. reflexivity.
Qed.

(* ---------------------------------------------------------------------------------------------
   _ReadyToRunQueue as TRANSLATED from executor.py: the model's two ready lists are its two FIFO queues *)
Lemma queue_tie : forall p s o,
  has_ops s = gen_queue_has_ops (length (readyS s)) (length (readyP s)) /\
  has_par s = gen_queue_has_par (length (readyS s)) (length (readyP s)) /\
  readyP (enqueue p s o) = (if gen_enqueue_to_parallel (is_par p o) then readyP s ++ [o] else readyP s) /\
  readyS (enqueue p s o) = (if gen_enqueue_to_parallel (is_par p o) then readyS s else readyS s ++ [o]) /\
  dequeue s = (if gen_dequeue_from_parallel (has_par s)
               then (hd 0 (readyP s), readyS s, tl (readyP s))
               else (hd 0 (readyS s), tl (readyS s), [])) /\
  gen_queues_are_fifo = true.
Proof.
  intros p s o. unfold has_ops, has_par, gen_queue_has_ops, gen_queue_has_par, enqueue, dequeue, gen_enqueue_to_parallel, gen_dequeue_from_parallel.
  repeat split.
  - destruct (readyS s), (readyP s); reflexivity.
  - destruct (readyP s); reflexivity.
  - destruct (is_par p o); reflexivity.
  - destruct (is_par p o); reflexivity.
  - destruct (readyP s) as [|x rP]; [destruct (readyS s); reflexivity|reflexivity].
Qed.
