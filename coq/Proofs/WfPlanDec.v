(* A boolean test for [wf_plan], so that the example plans of Props/ meet the hypothesis of the
   executor theorems by computation (non-vacuity of `forall p, wf_plan p -> ...`). *)
From Coq Require Import List Arith Bool Lia.
From Conductor Require Import Model.Loader Model.Planner Model.Exec Proofs.ListFacts Proofs.ExecInv.
Import ListNotations.

Fixpoint nodupb (l : list nat) : bool :=
  match l with [] => true | x :: l' => negb (mem x l') && nodupb l' end.

Lemma nodupb_spec l : nodupb l = true -> NoDup l.
Proof.
  induction l as [|x l IH]; intros H; [constructor|]. cbn in H. apply andb_true_iff in H as [H1 H2].
  constructor; [|auto]. intros Hin. apply mem_In in Hin. rewrite Hin in H1. discriminate.
Qed.

Definition no_deps (p : plan) (o : nat) : bool := match exe_deps p o with [] => true | _ => false end.

Definition wf_planb (p : plan) : bool :=
  let n := length (p_ops p) in
  forallb (fun o => forallb (fun d => Nat.ltb d o) (exe_deps p o) && nodupb (exe_deps p o)
                    && (negb (op_sync (opi p o)) || negb (is_par p o))
                    && (negb (no_deps p o) || mem o (p_initial p))) (seq 0 n)
  && nodupb (p_initial p)
  && forallb (fun o => Nat.ltb o n && no_deps p o) (p_initial p).

Lemma wf_planb_spec p : wf_planb p = true -> wf_plan p.
Proof.
  unfold wf_planb. set (n := length (p_ops p)). intros H.
  apply andb_true_iff in H as [H H3]. apply andb_true_iff in H as [H1 H2].
  rewrite forallb_forall in H1, H3.
  assert (Hall : forall o, o < n ->
            forallb (fun d => Nat.ltb d o) (exe_deps p o) = true /\ nodupb (exe_deps p o) = true /\
            (negb (op_sync (opi p o)) || negb (is_par p o)) = true /\ (negb (no_deps p o) || mem o (p_initial p)) = true).
  { intros o Ho. assert (Hin : In o (seq 0 n)) by (apply in_seq; lia). specialize (H1 o Hin).
    apply andb_true_iff in H1 as [H1 D]. apply andb_true_iff in H1 as [H1 C]. apply andb_true_iff in H1 as [A B]. auto. }
  split; [|split; [|split; [|split]]].
  - intros o Ho d Hd. destruct (Hall o Ho) as (A & _). rewrite forallb_forall in A. now apply Nat.ltb_lt, A.
  - intros o Ho. destruct (Hall o Ho) as (_ & B & _). now apply nodupb_spec.
  - now apply nodupb_spec.
  - intros o. split.
    + intros Hin. specialize (H3 o Hin). apply andb_true_iff in H3 as [A B]. apply Nat.ltb_lt in A.
      split; [exact A|]. unfold no_deps in B. destruct (exe_deps p o); [reflexivity | discriminate].
    + intros [Ho He]. destruct (Hall o Ho) as (_ & _ & _ & D). unfold no_deps in D. rewrite He in D. cbn in D. now apply mem_In.
  - intros o Hs. destruct (Nat.lt_ge_cases o n) as [Ho|Ho].
    + destruct (Hall o Ho) as (_ & _ & C & _). rewrite Hs in C. cbn in C. now apply negb_true_iff in C.
    + unfold is_par, opi. rewrite nth_overflow by exact Ho. reflexivity.
Qed.
