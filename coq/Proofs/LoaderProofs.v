(* Soundness of TaskIndex.load_transitive_closure (Model/Loader.v): every error is justified by a
   reachable defect, Ok means no reachable defect, for EVERY graph and every listing order. *)
From Coq Require Import List Arith Bool Lia.
From Conductor Require Import Model.Loader Proofs.ListFacts.
Import ListNotations.

Lemma has_dup_false_NoDup l : has_dup l = false <-> NoDup l.
Proof.
  induction l as [|x l IH]; simpl; [split; [constructor | reflexivity]|].
  rewrite orb_false_iff, IH, mem_false. split.
  - intros [H1 H2]. now constructor.
  - intros H. inversion H; subst. auto.
Qed.

Lemma in_remove x y l : In y (Loader.remove x l) <-> In y l /\ y <> x.
Proof.
  induction l as [|z l IH]; simpl; [tauto|].
  destruct (Nat.eqb x z) eqn:E.
  - apply Nat.eqb_eq in E; subst. rewrite IH. intuition congruence.
  - apply Nat.eqb_neq in E. simpl. rewrite IH. intuition congruence.
Qed.

Lemma in_add x y l : In y (add x l) <-> y = x \/ In y l.
Proof.
  unfold add. destruct (mem x l) eqn:E.
  - apply mem_In in E. intuition congruence.
  - simpl. intuition.
Qed.

Section L.
  Variable g : graph.
  Variable T : nat.

  Definition edge (x y : nat) : Prop := exists ds, g x = Good ds /\ In y ds.

  (* reachable from the root T along dependency edges *)
  Inductive Reach : nat -> Prop :=
  | r_root : Reach T
  | r_step x y : Reach x -> edge x y -> Reach y.

  (* a non-empty dependency path *)
  Inductive Path : nat -> nat -> Prop :=
  | p_one x y : edge x y -> Path x y
  | p_step x y z : edge x y -> Path y z -> Path x z.

  Lemma path_snoc x y z : Path x y -> edge y z -> Path x z.
  Proof. induction 1; intros He; [eapply p_step; eauto; now apply p_one | eapply p_step; eauto]. Qed.

  Lemma path_trans x y z : Path x y -> Path y z -> Path x z.
  Proof. induction 1; intros H2; [eapply p_step; eauto | eapply p_step; eauto]. Qed.

  Lemma reach_path x y : Reach x -> Path x y -> Reach y.
  Proof. intros Hr Hp. induction Hp; [eapply r_step; eauto | apply IHHp; eapply r_step; eauto]. Qed.

  (* finished tasks, most recently finished first: each is well formed and all its dependencies
     finished earlier -- a witness that the finished part of the graph is closed and acyclic *)
  Fixpoint Topo (l : list nat) : Prop :=
    match l with
    | [] => True
    | v :: r => (exists ds, g v = Good ds /\ has_dup ds = false /\ forall d, In d ds -> In d r) /\ Topo r
    end.

  Lemma topo_in l v : Topo l -> In v l -> exists ds, g v = Good ds /\ has_dup ds = false /\ forall d, In d ds -> In d l.
  Proof.
    induction l as [|w l IH]; simpl; [tauto|]. intros [(ds & Hg & Hd & Hin) Ht] [->|Hv].
    - exists ds. repeat split; auto.
    - destruct (IH Ht Hv) as (ds' & A & B & C). exists ds'. repeat split; auto.
  Qed.

  Lemma topo_path_later a x r y : Topo (a ++ x :: r) -> Path x y -> In y r.
  Proof.
    intros Ht Hp. revert a r Ht. induction Hp as [x y He | x y z He _ IH]; intros a r Ht.
    - assert (Ht' : Topo (x :: r)) by (clear -Ht; induction a; simpl in *; [assumption | apply IHa; apply Ht]).
      destruct Ht' as [(ds & Hg & _ & Hin) _]. destruct He as (ds' & Hg' & Hy). rewrite Hg in Hg'. inversion Hg'; subst. auto.
    - assert (Ht' : Topo (x :: r)) by (clear -Ht; induction a; simpl in *; [assumption | apply IHa; apply Ht]).
      destruct Ht' as [(ds & Hg & _ & Hin) Htr]. destruct He as (ds' & Hg' & Hy). rewrite Hg in Hg'. inversion Hg'; subst ds'.
      apply Hin in Hy. apply in_split in Hy as (b & r' & ->).
      specialize (IH (a ++ x :: b) r'). rewrite <- app_assoc in IH. simpl in IH. specialize (IH Ht).
      apply in_or_app. right. right. exact IH.
  Qed.

  Lemma topo_acyclic l x : Topo l -> In x l -> ~ Path x x.
  Proof.
    revert x. induction l as [|v r IH]; intros x Ht Hin Hp; [destruct Hin|].
    destruct Hin as [->|Hin].
    - pose proof (topo_path_later [] x r x Ht Hp) as Hr. apply (IH x (proj2 Ht) Hr Hp).
    - apply (IH x (proj2 Ht) Hin Hp).
  Qed.

  (* ---------- the frame invariant ---------- *)
  Definition status (vis : list nat) (above : list (nat * bool)) (d : nat) : Prop :=
    In d vis \/ In (d, false) above \/ In (d, true) above.

  Fixpoint Frames (vis : list nat) (above stack : list (nat * bool)) : Prop :=
    match stack with
    | [] => True
    | (p, true) :: below =>
      (exists ds, g p = Good ds /\ has_dup ds = false /\ forall d, In d ds -> status vis above d) /\
      (forall x b, In (x, b) above -> Path p x) /\
      Frames vis (above ++ [(p, true)]) below
    | (x, false) :: below => Frames vis (above ++ [(x, false)]) below
    end.

  Lemma frames_transfer vis vis' st : forall a1 a2,
    (forall d, status vis a1 d -> status vis' a2 d) ->
    (forall y b, In (y, b) a2 -> exists x b', In (x, b') a1 /\ (x = y \/ Path x y)) ->
    Frames vis a1 st -> Frames vis' a2 st.
  Proof.
    induction st as [|[p [|]] st IH]; intros a1 a2 Hs Hd Hf; simpl in *; [exact I| |].
    - destruct Hf as ((ds & Hg & Hdup & Hobl) & Hdesc & Hrest). split; [|split].
      + exists ds. repeat split; auto.
      + intros y b Hy. destruct (Hd y b Hy) as (x & b' & Hx & [->|Hp]); [eapply Hdesc; eauto|].
        eapply path_trans; [eapply Hdesc; eauto | exact Hp].
      + apply (IH (a1 ++ [(p, true)])); [| |assumption].
        * intros d [H|[H|H]]; unfold status in *.
          -- destruct (Hs d (or_introl H)) as [H'|[H'|H']]; [auto | right; left; apply in_or_app; auto | right; right; apply in_or_app; auto].
          -- apply in_app_or in H as [H|[H|[]]]; [|discriminate].
             destruct (Hs d (or_intror (or_introl H))) as [H'|[H'|H']]; [auto | right; left; apply in_or_app; auto | right; right; apply in_or_app; auto].
          -- apply in_app_or in H as [H|[H|[]]].
             ++ destruct (Hs d (or_intror (or_intror H))) as [H'|[H'|H']]; [auto | right; left; apply in_or_app; auto | right; right; apply in_or_app; auto].
             ++ inversion H; subst. right; right. apply in_or_app. right. left. reflexivity.
        * intros y b Hy. apply in_app_or in Hy as [Hy|[Hy|[]]].
          -- destruct (Hd y b Hy) as (x & b' & Hx & Hc). exists x, b'. split; [apply in_or_app; auto | assumption].
          -- inversion Hy; subst. exists y, true. split; [apply in_or_app; right; left; reflexivity | auto].
    - apply (IH (a1 ++ [(p, false)])); [| |assumption].
      + intros d [H|[H|H]]; unfold status in *.
        * destruct (Hs d (or_introl H)) as [H'|[H'|H']]; [auto | right; left; apply in_or_app; auto | right; right; apply in_or_app; auto].
        * apply in_app_or in H as [H|[H|[]]].
          -- destruct (Hs d (or_intror (or_introl H))) as [H'|[H'|H']]; [auto | right; left; apply in_or_app; auto | right; right; apply in_or_app; auto].
          -- inversion H; subst. right; left. apply in_or_app. right. left. reflexivity.
        * apply in_app_or in H as [H|[H|[]]]; [|discriminate].
          destruct (Hs d (or_intror (or_intror H))) as [H'|[H'|H']]; [auto | right; left; apply in_or_app; auto | right; right; apply in_or_app; auto].
      + intros y b Hy. apply in_app_or in Hy as [Hy|[Hy|[]]].
        * destruct (Hd y b Hy) as (x & b' & Hx & Hc). exists x, b'. split; [apply in_or_app; auto | assumption].
        * inversion Hy; subst. exists y, false. split; [apply in_or_app; right; left; reflexivity | auto].
  Qed.

  Definition enter (x : nat) : nat * bool := (x, false).
  Definition leaves (st : list (nat * bool)) : list nat := map fst (filter snd st).

  Lemma leaves_app a b : leaves (a ++ b) = leaves a ++ leaves b.
  Proof. unfold leaves. now rewrite filter_app, map_app. Qed.
  Lemma leaves_enters l : leaves (map enter l) = [].
  Proof. induction l; simpl; auto. Qed.
  Lemma leaves_rev_enters l : leaves (rev (map enter l)) = [].
  Proof. rewrite <- map_rev. apply leaves_enters. Qed.
  Lemma in_leaves x st : In x (leaves st) <-> In (x, true) st.
  Proof.
    unfold leaves. rewrite in_map_iff. split.
    - intros ((y & b) & Hy & Hf). apply filter_In in Hf as [Hin Hb]. simpl in *. subst. exact Hin.
    - intros H. exists (x, true). split; [reflexivity|]. apply filter_In. auto.
  Qed.

  Lemma frames_enters vis E : forall a rest,
    (forall f, In f E -> snd f = false) ->
    Frames vis a (E ++ rest) <-> Frames vis (a ++ E) rest.
  Proof.
    induction E as [|[x b] E IH]; intros a rest HE; simpl.
    - now rewrite app_nil_r.
    - assert (b = false) by (apply (HE (x, b)); left; reflexivity). subst b.
      rewrite IH by (intros f Hf; apply HE; right; assumption).
      rewrite <- app_assoc. reflexivity.
  Qed.

  Lemma frames_desc vis st : forall a p, Frames vis a st -> In (p, true) st -> forall y b, In (y, b) a -> Path p y.
  Proof.
    induction st as [|[q [|]] st IH]; intros a p Hf Hin y b Hy; simpl in *; [destruct Hin| |].
    - destruct Hf as (_ & Hdesc & Hrest). destruct Hin as [Hin|Hin].
      + inversion Hin; subst. eapply Hdesc; eauto.
      + eapply IH; [exact Hrest | exact Hin | apply in_or_app; left; exact Hy].
    - destruct Hin as [Hin|Hin]; [discriminate|].
      eapply IH; [exact Hf | exact Hin | apply in_or_app; left; exact Hy].
  Qed.

  Record LInv (stack : list (nat * bool)) (vis path : list nat) : Prop := {
    l_frames : Frames vis [] stack;
    l_topo : Topo vis;
    l_leaves_nodup : NoDup (leaves stack);
    l_path : forall x, In x path <-> In x (leaves stack);
    l_reach_stack : forall x b, In (x, b) stack -> Reach x;
    l_reach_vis : forall x, In x vis -> Reach x;
    l_root : In T vis \/ exists b, In (T, b) stack
  }.

  Definition sound_result (r : result) : Prop :=
    match r with
    | Ok v => Topo v /\ In T v /\ forall x, In x v -> Reach x
    | ErrCycle => exists x, Reach x /\ Path x x
    | ErrNotFound x => Reach x /\ g x = Undefined
    | ErrBad x => Reach x /\ g x = Bad
    | ErrDup x => Reach x /\ exists ds, g x = Good ds /\ has_dup ds = true
    | OutOfFuel => True
    end.

  Lemma linv_leave x st vis path :
    LInv ((x, true) :: st) vis path -> LInv st (add x vis) (Loader.remove x path).
  Proof.
    intros I. pose proof (l_frames _ _ _ I) as Hf. cbn [Frames] in Hf.
    destruct Hf as ((ds & Hg & Hdup & Hobl) & _ & Hrest).
    pose proof (l_leaves_nodup _ _ _ I) as Hnd. change (leaves ((x, true) :: st)) with (x :: leaves st) in Hnd.
    inversion Hnd as [|? ? Hxn Hnd']; subst.
    constructor.
    + eapply frames_transfer; [| |exact Hrest].
      * intros d [H|[[H|[]]|[H|[]]]]; [left; apply in_add; auto | discriminate | inversion H; subst; left; apply in_add; auto].
      * intros y b [].
    + unfold add. destruct (mem x vis) eqn:E; [apply (l_topo _ _ _ I)|].
      simpl. split; [|apply (l_topo _ _ _ I)]. exists ds. repeat split; auto.
      intros d Hd. destruct (Hobl d Hd) as [H|[[]|[]]]. exact H.
    + exact Hnd'.
    + intros y. rewrite in_remove, (l_path _ _ _ I y). change (leaves ((x, true) :: st)) with (x :: leaves st).
      simpl. split; [intros [[H|H] Hne]; [congruence | assumption] | intros H; split; [auto | intros ->; contradiction]].
    + intros y b Hy. apply (l_reach_stack _ _ _ I y b). right; exact Hy.
    + intros y Hy. apply in_add in Hy as [->|Hy]; [apply (l_reach_stack _ _ _ I x true); left; reflexivity | now apply (l_reach_vis _ _ _ I)].
    + destruct (l_root _ _ _ I) as [H|(b & [H|H])].
      * left. apply in_add. auto.
      * inversion H; subst. left. apply in_add. auto.
      * right. eauto.
  Qed.

  Definition pushed (vis : list nat) (ds : list nat) : list (nat * bool) :=
    rev (map (fun d => (d, false)) (filter (fun d => negb (mem d vis)) ds)).

  Lemma linv_enter x st vis path ds :
    LInv ((x, false) :: st) vis path -> mem x path = false -> g x = Good ds -> has_dup ds = false ->
    LInv (pushed vis ds ++ (x, true) :: st) vis (x :: path).
  Proof.
    intros I Epath Hg Hdup.
    pose proof (l_frames _ _ _ I) as Hf. cbn [Frames app] in Hf.
    assert (Hrx : Reach x) by (apply (l_reach_stack _ _ _ I x false); left; reflexivity).
    set (E := pushed vis ds).
    assert (HE : forall fr, In fr E -> snd fr = false /\ In (fst fr) ds /\ ~ In (fst fr) vis).
    { intros fr Hfr. unfold E, pushed in Hfr. apply in_rev, in_map_iff in Hfr as (d & <- & Hd).
      apply filter_In in Hd as [Hd1 Hd2]. apply negb_true_iff, mem_false in Hd2. auto. }
    assert (HEin : forall d, In d ds -> ~ In d vis -> In (d, false) E).
    { intros d Hd Hnv. unfold E, pushed. rewrite <- in_rev. apply in_map_iff. exists d. split; [reflexivity|].
      apply filter_In. split; [assumption|]. apply negb_true_iff, mem_false. assumption. }
    apply mem_false in Epath.
    assert (Hxl : ~ In x (leaves st)).
    { intros H. apply Epath. apply (l_path _ _ _ I). exact H. }
    constructor.
    * apply frames_enters; [intros fr Hfr; now apply HE|]. cbn [app Frames]. split; [|split].
      -- exists ds. repeat split; auto. intros d Hd.
         destruct (mem d vis) eqn:Ev; [left; now apply mem_In | right; left; apply HEin; [assumption | now apply mem_false]].
      -- intros y b Hy. destruct (HE _ Hy) as (_ & Hd & _). simpl in Hd. apply p_one. exists ds. auto.
      -- eapply frames_transfer; [| |exact Hf].
         ++ intros d [H|[[H|[]]|[H|[]]]]; [left; exact H | inversion H; subst; right; right; apply in_or_app; right; left; reflexivity | discriminate].
         ++ intros y b Hy. exists x, false. split; [left; reflexivity|].
            apply in_app_or in Hy as [Hy|[Hy|[]]].
            ** right. destruct (HE _ Hy) as (_ & Hd & _). simpl in Hd. apply p_one. exists ds. auto.
            ** inversion Hy; subst. left; reflexivity.
    * apply (l_topo _ _ _ I).
    * rewrite leaves_app. unfold E, pushed. rewrite leaves_rev_enters. simpl.
      change (leaves ((x, true) :: st)) with (x :: leaves st). constructor; [assumption|].
      pose proof (l_leaves_nodup _ _ _ I) as H. exact H.
    * intros y. rewrite leaves_app. unfold E, pushed. rewrite leaves_rev_enters. simpl.
      change (leaves ((x, true) :: st)) with (x :: leaves st). simpl.
      rewrite (l_path _ _ _ I y). change (leaves ((x, false) :: st)) with (leaves st). intuition.
    * intros y b Hy. apply in_app_or in Hy as [Hy|[Hy|Hy]].
      -- destruct (HE _ Hy) as (_ & Hd & _). simpl in Hd. eapply r_step; [exact Hrx | exists ds; auto].
      -- inversion Hy; subst. exact Hrx.
      -- apply (l_reach_stack _ _ _ I y b). right; exact Hy.
    * apply (l_reach_vis _ _ _ I).
    * destruct (l_root _ _ _ I) as [H|(b & [H|H])]; [left; exact H | |].
      -- inversion H; subst. right. exists true. apply in_or_app. right. left. reflexivity.
      -- right. exists b. apply in_or_app. right. right. exact H.
  Qed.

  Theorem load_sound fuel : forall stack vis path,
    LInv stack vis path -> sound_result (load g fuel stack vis path).
  Proof.
    induction fuel as [|f IH]; intros stack vis path I; [exact Logic.I|].
    cbn [load]. destruct stack as [|[x [|]] st].
    - simpl. split; [apply (l_topo _ _ _ I)|]. split; [|apply (l_reach_vis _ _ _ I)].
      destruct (l_root _ _ _ I) as [H|(b & [])]. exact H.
    - apply IH. now apply linv_leave.
    - pose proof (l_frames _ _ _ I) as Hf. cbn [Frames app] in Hf.
      assert (Hrx : Reach x) by (apply (l_reach_stack _ _ _ I x false); left; reflexivity).
      destruct (mem x path) eqn:Epath.
      + simpl. exists x. split; [assumption|].
        apply mem_In, (l_path _ _ _ I) in Epath. change (leaves ((x, false) :: st)) with (leaves st) in Epath.
        apply in_leaves in Epath. eapply frames_desc; [exact Hf | exact Epath | left; reflexivity].
      + destruct (g x) as [| |ds] eqn:Hg; [simpl; auto | simpl; auto |].
        destruct (has_dup ds) eqn:Hdup; [simpl; split; [assumption | eauto]|].
        apply IH. now apply linv_enter.
  Qed.

  Lemma init_linv : LInv [(T, false)] [] [].
  Proof.
    constructor; simpl; auto.
    - constructor.
    - intros x; tauto.
    - intros x b [H|[]]. inversion H; subst. constructor.
    - intros x [].
    - right. exists false. auto.
  Qed.

  Theorem load_closure_sound fuel : sound_result (load_closure g fuel T).
  Proof. apply load_sound, init_linv. Qed.

  (* what Ok means: everything reachable is loaded, well formed, duplicate free, and no cycle is reachable *)
  Theorem ok_means_clean fuel v :
    load_closure g fuel T = Ok v ->
    (forall x, Reach x <-> In x v) /\
    (forall x, Reach x -> exists ds, g x = Good ds /\ NoDup ds) /\
    (forall x, Reach x -> ~ Path x x).
  Proof.
    intros H. pose proof (load_closure_sound fuel) as Hs. rewrite H in Hs. destruct Hs as (Ht & HT & Hr).
    assert (Hall : forall x, Reach x -> In x v).
    { induction 1 as [|x y _ IHx (ds & Hg & Hy)]; [assumption|].
      destruct (topo_in v x Ht IHx) as (ds' & Hg' & _ & Hcl). rewrite Hg in Hg'. inversion Hg'; subst. auto. }
    split; [intros x; split; auto|]. split.
    - intros x Hx. destruct (topo_in v x Ht (Hall x Hx)) as (ds & Hg & Hd & _). exists ds. split; [assumption|].
      now apply has_dup_false_NoDup.
    - intros x Hx. apply (topo_acyclic v x Ht (Hall x Hx)).
  Qed.

  (* ---------- termination on a finite project ---------- *)
  Section Term.
    Variable V : list nat.
    Hypothesis V_nodup : NoDup V.
    Hypothesis V_root : In T V.
    Hypothesis V_closed : forall x ds, In x V -> g x = Good ds -> forall d, In d ds -> In d V.

    Lemma reach_in_V x : Reach x -> In x V.
    Proof. induction 1 as [|x y _ IH (ds & Hg & Hy)]; [assumption | eapply V_closed; eauto]. Qed.

    Definition w (x : nat) : nat := 2 * length (deps_of_kind (g x)) + 2.
    Definition potf (ind : nat -> bool) : nat := list_sum (map (fun x => if ind x then 0 else w x) V).
    Definition cost (st : list (nat * bool)) : nat := list_sum (map (fun f : nat * bool => if snd f then 1 else 2) st).
    Definition ind (vis path : list nat) (y : nat) : bool := mem y vis || mem y path.
    Definition phi (st : list (nat * bool)) (vis path : list nat) : nat := cost st + potf (ind vis path).

    Lemma potf_ext i1 i2 : (forall y, In y V -> i1 y = i2 y) -> potf i1 = potf i2.
    Proof.
      unfold potf. intros H. f_equal. apply map_ext_in. intros y Hy. now rewrite H.
    Qed.

    Lemma potf_flip_gen (l : list nat) i1 i2 x :
      NoDup l -> In x l -> i1 x = false -> i2 x = true -> (forall y, y <> x -> i2 y = i1 y) ->
      list_sum (map (fun y => if i2 y then 0 else w y) l) + w x = list_sum (map (fun y => if i1 y then 0 else w y) l).
    Proof.
      induction l as [|a l IH]; intros Hn Hin H1 H2 Ho; [destruct Hin|].
      inversion Hn as [|? ? Ha Hn']; subst. simpl. destruct Hin as [->|Hin].
      - rewrite H1, H2.
        assert (E : map (fun y => if i2 y then 0 else w y) l = map (fun y => if i1 y then 0 else w y) l).
        { apply map_ext_in. intros y Hy. rewrite Ho; [reflexivity | intros ->; contradiction]. }
        rewrite E. lia.
      - assert (a <> x) by (intros ->; contradiction). rewrite (Ho a H). specialize (IH Hn' Hin H1 H2 Ho). lia.
    Qed.

    Lemma cost_cons f st : cost (f :: st) = (if snd f then 1 else 2) + cost st.
    Proof. reflexivity. Qed.

    Lemma cost_app a b : cost (a ++ b) = cost a + cost b.
    Proof. unfold cost. rewrite map_app. induction (map _ a); simpl; lia. Qed.

    Lemma cost_pushed vis ds : cost (pushed vis ds) <= 2 * length ds.
    Proof.
      unfold pushed, cost. rewrite <- map_rev, map_map. simpl.
      assert (H : forall l : list nat, list_sum (map (fun _ : nat => 2) l) = 2 * length l) by (induction l; simpl; lia).
      rewrite H, rev_length.
      assert (Hle : length (filter (fun d => negb (mem d vis)) ds) <= length ds).
      { clear. induction ds as [|d ds IH]; simpl; [lia|]. destruct (negb (mem d vis)); simpl; lia. }
      lia.
    Qed.

    Lemma pushed_nil_of_closed vis ds : (forall d, In d ds -> In d vis) -> pushed vis ds = [].
    Proof.
      intros H. unfold pushed.
      assert (E : filter (fun d => negb (mem d vis)) ds = []).
      { induction ds as [|d ds IH]; [reflexivity|]. simpl.
        assert (Hd : mem d vis = true) by (apply mem_In, H; left; reflexivity). rewrite Hd. simpl.
        apply IH. intros d' Hd'. apply H. right; assumption. }
      now rewrite E.
    Qed.

    Theorem load_terminates fuel : forall stack vis path,
      LInv stack vis path -> phi stack vis path < fuel -> load g fuel stack vis path <> OutOfFuel.
    Proof.
      induction fuel as [|f IH]; intros stack vis path I Hphi; [lia|].
      cbn [load]. destruct stack as [|[x [|]] st]; [discriminate| |].
      - (* Leave x: the indicator does not change *)
        apply IH; [now apply linv_leave|].
        assert (Hxp : In x path) by (apply (l_path _ _ _ I); left; reflexivity).
        assert (E : potf (ind (add x vis) (Loader.remove x path)) = potf (ind vis path)).
        { apply potf_ext. intros y _. unfold ind. destruct (Nat.eq_dec y x) as [->|Hne].
          - assert (H1 : mem x (add x vis) = true) by (apply mem_In, in_add; auto).
            assert (H2 : mem x path = true) by now apply mem_In.
            rewrite H1, H2. now rewrite orb_true_r.
          - assert (H1 : mem y (add x vis) = mem y vis).
            { destruct (mem y vis) eqn:E; [apply mem_In, in_add; right; now apply mem_In|].
              apply mem_false. intros H. apply in_add in H as [H|H]; [contradiction | apply mem_false in E; contradiction]. }
            assert (H2 : mem y (Loader.remove x path) = mem y path).
            { destruct (mem y path) eqn:E; [apply mem_In, in_remove; split; [now apply mem_In | assumption]|].
              apply mem_false. intros H. apply in_remove in H as [H _]. apply mem_false in E. contradiction. }
            now rewrite H1, H2. }
        unfold phi in *. rewrite E. rewrite cost_cons in Hphi. cbn [snd] in Hphi. lia.
      - destruct (mem x path) eqn:Epath; [discriminate|].
        destruct (g x) as [| |ds] eqn:Hg; [discriminate | discriminate|].
        destruct (has_dup ds) eqn:Hdup; [discriminate|].
        change (rev (map (fun d => (d, false)) (filter (fun d => negb (mem d vis)) ds))) with (pushed vis ds).
        apply IH; [now apply linv_enter|].
        assert (HxV : In x V) by (apply reach_in_V, (l_reach_stack _ _ _ I x false); left; reflexivity).
        unfold phi in *. rewrite cost_app, cost_cons. rewrite cost_cons in Hphi. cbn [snd] in *.
        destruct (mem x vis) eqn:Evis.
        + (* stale entry: nothing is pushed *)
          apply mem_In in Evis. destruct (topo_in vis x (l_topo _ _ _ I) Evis) as (ds' & Hg' & _ & Hcl).
          rewrite Hg in Hg'. inversion Hg'; subst ds'. rewrite (pushed_nil_of_closed vis ds Hcl).
          assert (E : potf (ind vis (x :: path)) = potf (ind vis path)).
          { apply potf_ext. intros y _. unfold ind. simpl. destruct (Nat.eqb y x) eqn:Eyx; [|reflexivity].
            apply Nat.eqb_eq in Eyx; subst. assert (H : mem x vis = true) by now apply mem_In. now rewrite H. }
          rewrite E. change (cost []) with 0. lia.
        + pose proof (cost_pushed vis ds) as Hc.
          assert (Hflip : potf (ind vis (x :: path)) + w x = potf (ind vis path)).
          { unfold potf. apply potf_flip_gen; auto.
            - unfold ind. now rewrite Evis, Epath.
            - unfold ind. simpl. rewrite Nat.eqb_refl. now rewrite orb_true_r.
            - intros y Hne. unfold ind. simpl. apply Nat.eqb_neq in Hne. now rewrite Hne. }
          unfold w in Hflip. rewrite Hg in Hflip. simpl in Hflip. lia.
    Qed.

    Definition fuel_bound : nat := 3 + list_sum (map w V).

    Theorem load_closure_terminates : load_closure g fuel_bound T <> OutOfFuel.
    Proof.
      apply load_terminates; [apply init_linv|]. unfold phi, fuel_bound. rewrite cost_cons. change (cost []) with 0.
      assert (E : potf (ind [] []) = list_sum (map w V)) by (unfold potf; f_equal).
      rewrite E. simpl. lia.
    Qed.

    Theorem load_closure_terminates_ge fuel : fuel_bound <= fuel -> load_closure g fuel T <> OutOfFuel.
    Proof.
      intros Hf. apply load_terminates; [apply init_linv|]. unfold phi, fuel_bound in *. rewrite cost_cons. change (cost []) with 0.
      assert (E : potf (ind [] []) = list_sum (map w V)) by (unfold potf; f_equal).
      rewrite E. simpl. lia.
    Qed.
  End Term.
End L.

(* ---------- acceptance <-> no reachable defect; independence of the listing order ---------- *)
Definition Defect (g : graph) (T : nat) : Prop :=
  (exists x, Reach g T x /\ Path g x x) \/
  (exists x, Reach g T x /\ g x = Undefined) \/
  (exists x, Reach g T x /\ g x = Bad) \/
  (exists x ds, Reach g T x /\ g x = Good ds /\ has_dup ds = true).

Definition finite_project (g : graph) (T : nat) (V : list nat) : Prop :=
  NoDup V /\ In T V /\ forall x ds, In x V -> g x = Good ds -> forall d, In d ds -> In d V.

Theorem accept_iff g T V :
  finite_project g T V ->
  ((exists v, load_closure g (fuel_bound g V) T = Ok v) <-> ~ Defect g T).
Proof.
  intros (Hn & HT & Hc). split.
  - intros (v & Hv) Hd. destruct (ok_means_clean g T _ v Hv) as (_ & Hgood & Hacyc).
    destruct Hd as [(x & Hr & Hp)|[(x & Hr & Hu)|[(x & Hr & Hb)|(x & ds & Hr & Hg & Hd)]]].
    + now apply (Hacyc x Hr).
    + destruct (Hgood x Hr) as (ds & Hg & _). congruence.
    + destruct (Hgood x Hr) as (ds & Hg & _). congruence.
    + destruct (Hgood x Hr) as (ds' & Hg' & Hnd). rewrite Hg in Hg'. inversion Hg'; subst.
      apply has_dup_false_NoDup in Hnd. congruence.
  - intros Hnd. pose proof (load_closure_sound g T (fuel_bound g V)) as Hs.
    pose proof (load_closure_terminates g T V Hn HT Hc) as Ht.
    destruct (load_closure g (fuel_bound g V) T) as [v| |x|x|x|] eqn:E; simpl in Hs.
    + eauto.
    + exfalso. apply Hnd. left. exact Hs.
    + exfalso. apply Hnd. right; left. eauto.
    + exfalso. apply Hnd. right; right; left. eauto.
    + exfalso. apply Hnd. right; right; right. destruct Hs as (Hr & ds & Hg & Hd). eauto.
    + congruence.
Qed.

(* two projects that differ only in the order in which dependencies are listed *)
Definition same_up_to_order (g g' : graph) : Prop :=
  forall x, match g x, g' x with
            | Undefined, Undefined => True
            | Bad, Bad => True
            | Good ds, Good ds' => Permutation.Permutation ds ds'
            | _, _ => False
            end.

Lemma same_sym g g' : same_up_to_order g g' -> same_up_to_order g' g.
Proof.
  intros H x. specialize (H x). destruct (g x), (g' x); auto. now apply Permutation.Permutation_sym.
Qed.

Lemma same_edge g g' x y : same_up_to_order g g' -> edge g x y -> edge g' x y.
Proof.
  intros H (ds & Hg & Hy). specialize (H x). rewrite Hg in H. destruct (g' x) as [| |ds'] eqn:E; try contradiction.
  exists ds'. split; [exact E|]. eapply Permutation.Permutation_in; eauto.
Qed.
Lemma same_reach g g' T x : same_up_to_order g g' -> Reach g T x -> Reach g' T x.
Proof. intros H. induction 1; [constructor | econstructor; eauto using same_edge]. Qed.
Lemma same_path g g' x y : same_up_to_order g g' -> Path g x y -> Path g' x y.
Proof. intros H. induction 1; [apply p_one; eauto using same_edge | eapply p_step; eauto using same_edge]. Qed.

Lemma same_defect g g' T : same_up_to_order g g' -> Defect g T -> Defect g' T.
Proof.
  intros H [(x & Hr & Hp)|[(x & Hr & Hu)|[(x & Hr & Hb)|(x & ds & Hr & Hg & Hd)]]].
  - left. exists x. split; [eapply same_reach; eauto | eapply same_path; eauto].
  - right; left. exists x. split; [eapply same_reach; eauto|]. specialize (H x). rewrite Hu in H. destruct (g' x); tauto.
  - right; right; left. exists x. split; [eapply same_reach; eauto|]. specialize (H x). rewrite Hb in H. destruct (g' x); tauto.
  - right; right; right. pose proof (H x) as Hx. rewrite Hg in Hx. destruct (g' x) as [| |ds'] eqn:E; try contradiction.
    exists x, ds'. split; [eapply same_reach; eauto|]. split; [exact E|].
    destruct (has_dup ds') eqn:E'; [reflexivity|]. exfalso.
    apply has_dup_false_NoDup in E'. apply (Permutation.Permutation_NoDup (Permutation.Permutation_sym Hx)) in E'.
    apply has_dup_false_NoDup in E'. congruence.
Qed.

Lemma same_finite g g' T V : same_up_to_order g g' -> finite_project g T V -> finite_project g' T V.
Proof.
  intros H (Hn & HT & Hc). split; [assumption|]. split; [assumption|].
  intros x ds' Hx Hg' d Hd. specialize (H x). rewrite Hg' in H. destruct (g x) as [| |ds] eqn:E; try contradiction.
  apply (Hc x ds Hx E). eapply Permutation.Permutation_in; [apply Permutation.Permutation_sym; exact H | exact Hd].
Qed.

Theorem order_independent g g' T V :
  same_up_to_order g g' -> finite_project g T V ->
  ((exists v, load_closure g (fuel_bound g V) T = Ok v) <-> (exists v, load_closure g' (fuel_bound g' V) T = Ok v)).
Proof.
  intros Hs Hf. rewrite (accept_iff g T V Hf), (accept_iff g' T V (same_finite _ _ _ _ Hs Hf)).
  split; intros Hn Hd; apply Hn; eapply same_defect; eauto using same_sym.
Qed.
