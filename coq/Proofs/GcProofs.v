(* Lemmas behind Props/C13.v.
   Part 1: the documented shape of task output directory names as regular expressions and as
           sets of strings, with the hand proof that the two agree; the named groups.
   Part 2: file-system lemmas (listing, rmtree, existence of paths).
   Part 3: the walk -- a pure reference traversal [order] of the INITIAL tree, its exact
           characterisation, and the simulation lemma: the imperative loop, which lists
           directories in the tree as mutated so far, visits the same directories in the same
           order and deletes/prints exactly what the reference says. *)
From Coq Require Import List NArith Bool Lia ZifyBool ZifyN Decimal DecimalN DecimalFacts.
From Conductor Require Import Lib.Regex Lib.RegexBisim Lib.PyRegex Lib.Str
  Gen.Generated Model.Ident Proofs.IdentSpec Proofs.IdentProofs Model.Gc.
Import ListNotations.
Open Scope N_scope.

(* ====================================================================== *)
(* Part 1: directory names                                                 *)
(* ====================================================================== *)
Definition DOT_TASK : str := [46; 116; 97; 115; 107].        (* ".task" *)

Fixpoint lit (s : str) : re :=
  match s with
  | [] => Eps
  | c :: s' => Cat (Chr c) (lit s')
  end.

Lemma L_lit s w : L (lit s) w <-> w = s.
Proof.
  revert w. induction s as [|c s IH]; intros w; simpl.
  - apply L_eps_iff.
  - rewrite L_cat_iff. split.
    + intros (a & b & -> & Ha & Hb). apply L_chr_iff in Ha. apply IH in Hb. subst. reflexivity.
    + intros ->. exists [c], s. split; [reflexivity|]. split; [now apply L_chr_iff | now apply IH].
Qed.

(* [1-9][0-9]* *)
Definition pos_dec_re : re := Cat (Cls [(49, 57)]) (Star (Cls [(48, 57)])).
(* <name>.task.<positive decimal>  and  <name>.task  (website/docs: task outputs) *)
Definition doc_exp_re : re := Cat doc_name_re (Cat (lit (DOT_TASK ++ [DOT])) pos_dec_re).
Definition doc_reg_re : re := Cat doc_name_re (lit DOT_TASK).

Definition exp_dir_name (name : str) (t : N) : str := name ++ DOT_TASK ++ [DOT] ++ dec t.
Definition ExpDirName (s : str) : Prop :=
  exists name t, DocName name /\ 0 < t /\ s = exp_dir_name name t.
Definition RegDirName (s : str) : Prop := exists name, DocName name /\ s = name ++ DOT_TASK.

Lemma digit_cases c : is_digit c = true ->
  c = 48 \/ c = 49 \/ c = 50 \/ c = 51 \/ c = 52 \/ c = 53 \/ c = 54 \/ c = 55 \/ c = 56 \/ c = 57.
Proof. unfold is_digit. lia. Qed.

Lemma codes_roundtrip s : Forall (fun c => is_digit c = true) s -> uint_codes (uint_of_codes s) = s.
Proof.
  induction 1 as [|c s Hc _ IH]; [reflexivity|].
  apply digit_cases in Hc.
  repeat (destruct Hc as [->|Hc]; [cbn; f_equal; exact IH|]). subst. cbn. f_equal. exact IH.
Qed.

Lemma uint_of_codes_codes u : uint_of_codes (uint_codes u) = u.
Proof. induction u; cbn; f_equal; auto. Qed.

Lemma int_of_dec t : int_of (dec t) = t.
Proof. unfold int_of, dec. rewrite uint_of_codes_codes. apply DecimalN.Unsigned.of_to. Qed.

Lemma to_uint_unorm t : unorm (N.to_uint t) = N.to_uint t.
Proof.
  rewrite <- (DecimalN.Unsigned.of_to t) at 2. now rewrite DecimalN.Unsigned.to_of.
Qed.

Definition head_nonzero (u : Decimal.uint) : Prop :=
  match u with Nil | D0 _ => False | _ => True end.

Lemma to_uint_head t : 0 < t -> head_nonzero (N.to_uint t).
Proof.
  intros Ht. pose proof (to_uint_unorm t) as Hu.
  pose proof (DecimalN.Unsigned.of_to t) as Hof.
  destruct (N.to_uint t) as [|u| | | | | | | | | ] eqn:E; simpl; auto.
  - cbn in Hu. discriminate.
  - rewrite unorm_D0 in Hu. unfold unorm in Hu.
    destruct (nzhead u) eqn:En; try (exfalso; eapply nzhead_nonzero; rewrite En; eauto; fail);
      try discriminate.
    + inversion Hu; subst. cbn in Ht. lia.
Qed.

Lemma head_nonzero_unorm u : head_nonzero u -> unorm u = u.
Proof. destruct u; simpl; intros H; try contradiction; reflexivity. Qed.

Lemma head_nonzero_codes u :
  head_nonzero u -> exists d r, uint_codes u = d :: r /\ in_cls d [(49, 57)] = true.
Proof.
  destruct u; simpl; intros H; try contradiction; eexists _, _; (split; [reflexivity|]);
    vm_compute; reflexivity.
Qed.

Lemma in_cls_digit c : in_cls c [(48, 57)] = is_digit c.
Proof. unfold in_cls, in_rng, is_digit. simpl. lia. Qed.

Lemma pos_dec_spec w : L pos_dec_re w <-> exists t, 0 < t /\ w = dec t.
Proof.
  unfold pos_dec_re. rewrite L_cat_iff. split.
  - intros (a & b & -> & Ha & Hb). inversion Ha as [|c d Hd| | | | |]; subst.
    apply L_star_cls in Hb.
    assert (Hall : Forall (fun c => is_digit c = true) (d :: b)).
    { constructor.
      - unfold in_cls, in_rng in Hd. unfold is_digit. simpl in Hd. lia.
      - eapply Forall_impl; [|exact Hb]. intros c Hc. now rewrite <- in_cls_digit. }
    set (u := uint_of_codes (d :: b)).
    assert (Hu : head_nonzero u).
    { unfold u. assert (Hd' : d = 49 \/ d = 50 \/ d = 51 \/ d = 52 \/ d = 53 \/ d = 54 \/ d = 55 \/ d = 56 \/ d = 57).
      { unfold in_cls, in_rng in Hd. simpl in Hd. lia. }
      repeat (destruct Hd' as [->|Hd']; [cbn; exact I|]). subst. cbn. exact I. }
    exists (N.of_uint u). split.
    + destruct (N.of_uint u) eqn:E; [|lia]. exfalso.
      pose proof (DecimalN.Unsigned.to_of u) as Hto. rewrite E, (head_nonzero_unorm u Hu) in Hto.
      change (D0 Nil = u) in Hto. clearbody u. subst u. exact Hu.
    + simpl. unfold dec. rewrite DecimalN.Unsigned.to_of, (head_nonzero_unorm u Hu).
      unfold u. now rewrite codes_roundtrip.
  - intros (t & Ht & ->). unfold dec.
    destruct (head_nonzero_codes _ (to_uint_head t Ht)) as (d & r & E & Hd).
    exists [d], r. split; [exact E|]. split; [now constructor|].
    apply L_star_cls. pose proof (uint_codes_digits (N.to_uint t)) as Hall. rewrite E in Hall.
    inversion Hall; subst. eapply Forall_impl; [|eassumption]. intros c Hc. now rewrite in_cls_digit.
Qed.

Lemma doc_exp_re_spec s : L doc_exp_re s <-> ExpDirName s.
Proof.
  unfold doc_exp_re, ExpDirName, exp_dir_name. rewrite L_cat_iff. split.
  - intros (n & r & -> & Hn & Hr). apply L_cat_iff in Hr as (l & d & -> & Hl & Hd).
    apply L_lit in Hl. apply pos_dec_spec in Hd as (t & Ht & ->). apply doc_name_re_spec in Hn.
    subst l. exists n, t. rewrite <- !app_assoc. auto.
  - intros (n & t & Hn & Ht & ->). exists n, (DOT_TASK ++ [DOT] ++ dec t).
    split; [reflexivity|]. split; [now apply doc_name_re_spec|].
    apply L_cat_iff. exists (DOT_TASK ++ [DOT]), (dec t). rewrite <- app_assoc.
    split; [reflexivity|]. split; [now apply L_lit | apply pos_dec_spec; eauto].
Qed.

Lemma doc_reg_re_spec s : L doc_reg_re s <-> RegDirName s.
Proof.
  unfold doc_reg_re, RegDirName. rewrite L_cat_iff. split.
  - intros (n & r & -> & Hn & Hr). apply L_lit in Hr. apply doc_name_re_spec in Hn. subst. eauto.
  - intros (n & Hn & ->). exists n, DOT_TASK.
    split; [reflexivity|]. split; [now apply doc_name_re_spec | now apply L_lit].
Qed.

Lemma take_until_app c a b : ~ In c a -> take_until c (a ++ c :: b) = a.
Proof.
  induction a as [|x a IH]; simpl; intros H.
  - now rewrite N.eqb_refl.
  - destruct (x =? c) eqn:E; [apply N.eqb_eq in E; subst; tauto|]. rewrite IH by tauto. reflexivity.
Qed.
Lemma skip_until_app c a b : ~ In c a -> skip_until c (a ++ c :: b) = b.
Proof.
  induction a as [|x a IH]; simpl; intros H.
  - now rewrite N.eqb_refl.
  - destruct (x =? c) eqn:E; [apply N.eqb_eq in E; subst; tauto|]. apply IH. tauto.
Qed.

Lemma exp_dir_name_inj n1 t1 n2 t2 :
  DocName n1 -> DocName n2 -> exp_dir_name n1 t1 = exp_dir_name n2 t2 -> n1 = n2 /\ t1 = t2.
Proof.
  intros H1 H2 E. unfold exp_dir_name, DOT_TASK in E. cbn [app] in E.
  apply name_dot_split in E as [-> E]; auto. split; [reflexivity|].
  inversion E as [E']. now apply dec_inj.
Qed.

Lemma exp_not_reg s : ExpDirName s -> ~ RegDirName s.
Proof.
  intros (n1 & t & H1 & _ & ->) (n2 & H2 & E). unfold exp_dir_name, DOT_TASK in E. cbn [app] in E.
  apply name_dot_split in E as [_ E]; auto. discriminate.
Qed.

(* "x.task.007" is not the directory of any version: int("007") = 7 but str(7) <> "007" *)
Lemma no_leading_zero name ds : DocName name -> ~ ExpDirName (name ++ DOT_TASK ++ [DOT] ++ 48 :: ds).
Proof.
  intros Hn (n2 & t & H2 & Ht & E). unfold exp_dir_name, DOT_TASK in E. cbn [app] in E.
  apply name_dot_split in E as [_ E]; auto. inversion E as [E'].
  destruct (head_nonzero_codes _ (to_uint_head t Ht)) as (d & r & Hd & Hc).
  unfold dec in E'. rewrite Hd in E'. inversion E'; subst d. vm_compute in Hc. discriminate.
Qed.

Lemma ExpDirName_dot s : ExpDirName s -> In DOT s.
Proof. intros (n & t & _ & _ & ->). unfold exp_dir_name. apply in_or_app. right. left. reflexivity. Qed.
Lemma RegDirName_dot s : RegDirName s -> In DOT s.
Proof. intros (n & _ & ->). apply in_or_app. right. left. reflexivity. Qed.

Definition looks_like_task (c : str) : bool :=
  py_match gc_experiment_task_regex c || py_match gc_regular_task_regex c.

Section WithGcTie.
  Hypothesis Hexp : tie_ok gc_experiment_task_regex doc_exp_re = true.
  Hypothesis Hreg : tie_ok gc_regular_task_regex doc_reg_re = true.
  Hypothesis Hsuffix : cfg_TASK_OUTPUT_DIR_SUFFIX = DOT_TASK.

  Lemma exp_match_spec s : py_match gc_experiment_task_regex s = true <-> ExpDirName s.
  Proof. rewrite (tie_ok_spec _ _ s Hexp). apply doc_exp_re_spec. Qed.
  Lemma reg_match_spec s : py_match gc_regular_task_regex s = true <-> RegDirName s.
  Proof. rewrite (tie_ok_spec _ _ s Hreg). apply doc_reg_re_spec. Qed.

  Lemma looks_like_task_spec c : looks_like_task c = true <-> ExpDirName c \/ RegDirName c.
  Proof. unfold looks_like_task. now rewrite orb_true_iff, exp_match_spec, reg_match_spec. Qed.

  Lemma DocName_not_task c : DocName c -> looks_like_task c = false.
  Proof.
    intros H. destruct (looks_like_task c) eqn:E; [|reflexivity]. exfalso.
    apply looks_like_task_spec in E.
    eapply (DocName_no DOT c H); [auto|]. destruct E; [now apply ExpDirName_dot | now apply RegDirName_dot].
  Qed.

  Lemma task_output_dir_exp i t : task_output_dir i (Some t) = exp_dir_name (iname i) t.
  Proof. unfold task_output_dir, exp_dir_name. now rewrite Hsuffix. Qed.
  Lemma task_output_dir_reg i : task_output_dir i None = iname i ++ DOT_TASK.
  Proof. unfold task_output_dir. now rewrite Hsuffix, List.app_nil_r. Qed.

  (* the two named groups of a matching directory name *)
  Lemma exp_groups name t :
    DocName name -> 0 < t ->
    exp_name (exp_dir_name name t) = name /\ exp_ts (exp_dir_name name t) = t.
  Proof.
    intros Hn Ht.
    assert (Hm : py_match gc_experiment_task_regex (exp_dir_name name t) = true)
      by (apply exp_match_spec; exists name, t; auto).
    unfold exp_name, exp_ts. rewrite (tie_ok_matched_text _ _ _ Hexp Hm).
    assert (Hnd : ~ In DOT name) by (eapply DocName_no; eauto).
    unfold exp_dir_name, DOT_TASK, DOT in *.
    change (name ++ [46; 116; 97; 115; 107] ++ [46] ++ dec t)
      with (name ++ 46 :: [116; 97; 115; 107] ++ 46 :: dec t). split.
    - now apply take_until_app.
    - rewrite skip_until_app by assumption.
      rewrite (skip_until_app 46 [116; 97; 115; 107]) by (cbn; intuition discriminate).
      apply int_of_dec.
  Qed.
End WithGcTie.

(* ====================================================================== *)
(* Part 2: paths and the file system                                       *)
(* ====================================================================== *)
Definition is_prefix (a b : path) : Prop := exists c, b = a ++ c.

Lemma is_prefix_refl a : is_prefix a a.
Proof. exists []. now rewrite List.app_nil_r. Qed.
Lemma is_prefix_nil a : is_prefix [] a.
Proof. exists a. reflexivity. Qed.
Lemma is_prefix_cons x a y b : is_prefix (x :: a) (y :: b) <-> x = y /\ is_prefix a b.
Proof.
  split.
  - intros [c E]. inversion E; subst. split; [reflexivity | now exists c].
  - intros [-> [c ->]]. now exists c.
Qed.
Lemma is_prefix_cons_nil x a : ~ is_prefix (x :: a) [].
Proof. intros [c E]. discriminate. Qed.
Lemma is_prefix_trans a b c : is_prefix a b -> is_prefix b c -> is_prefix a c.
Proof. intros [x ->] [y ->]. exists (x ++ y). now rewrite app_assoc. Qed.
Lemma is_prefix_app a c : is_prefix a (a ++ c).
Proof. now exists c. Qed.
Lemma is_prefix_snoc_l p n x : is_prefix (p ++ [n]) x -> is_prefix p x.
Proof. apply is_prefix_trans, is_prefix_app. Qed.

Lemma is_prefix_comparable a : forall b x, is_prefix a x -> is_prefix b x -> is_prefix a b \/ is_prefix b a.
Proof.
  induction a as [|u a IH]; intros b x Ha Hb.
  - left. apply is_prefix_nil.
  - destruct b as [|v b]; [right; apply is_prefix_nil|].
    destruct x as [|w x]; [now apply is_prefix_cons_nil in Ha|].
    apply is_prefix_cons in Ha as [-> Ha]. apply is_prefix_cons in Hb as [-> Hb].
    destruct (IH b x Ha Hb); [left | right]; now apply is_prefix_cons.
Qed.

Lemma is_prefix_snoc_r r : forall p n, is_prefix r (p ++ [n]) -> r = p ++ [n] \/ is_prefix r p.
Proof.
  induction r as [|u r IH]; intros p n H.
  - right. apply is_prefix_nil.
  - destruct p as [|v p]; simpl in H.
    + apply is_prefix_cons in H as [-> H]. destruct r; [now left | now apply is_prefix_cons_nil in H].
    + apply is_prefix_cons in H as [-> H]. destruct (IH p n H) as [->|H'].
      * now left.
      * right. now apply is_prefix_cons.
Qed.

Lemma is_prefix_antisym a b : is_prefix a b -> is_prefix b a -> a = b.
Proof.
  intros [c ->] [d E]. rewrite <- app_assoc in E. rewrite <- (List.app_nil_r a) in E at 1.
  apply app_inv_head in E. symmetry in E. apply app_eq_nil in E as [-> _]. now rewrite List.app_nil_r.
Qed.

Lemma is_prefix_snoc_in p n x : is_prefix (p ++ [n]) x -> In n x.
Proof. intros [c ->]. apply in_or_app. left. apply in_or_app. right. now left. Qed.

Lemma snoc_prefix_same p n m c : is_prefix (p ++ [n]) (p ++ m :: c) -> n = m.
Proof.
  intros [d E]. rewrite <- app_assoc in E. apply app_inv_head in E. simpl in E. now inversion E.
Qed.

Lemma snoc_neq (p : path) n : p ++ [n] <> p.
Proof.
  intros E. assert (H : length (p ++ [n]) = length p) by now rewrite E.
  rewrite app_length in H. simpl in H. lia.
Qed.

(* ---------- entries ---------- *)
Lemma find_entry_some n cs x : find_entry n cs = Some x -> node_name x = n /\ In x cs.
Proof.
  induction cs as [|y cs IH]; simpl; [discriminate|].
  destruct (str_eqb (node_name y) n) eqn:E.
  - intros H; inversion H; subst. apply str_eqb_spec in E. auto.
  - intros H. destruct (IH H). auto.
Qed.

Lemma find_entry_nodup n cs x :
  NoDup (map node_name cs) -> In x cs -> node_name x = n -> find_entry n cs = Some x.
Proof.
  induction cs as [|y cs IH]; simpl; intros Hnd Hin Hn; [contradiction|].
  inversion Hnd as [|? ? Hnotin Hnd']; subst.
  destruct Hin as [->|Hin].
  - now rewrite str_eqb_refl.
  - destruct (str_eqb (node_name y) (node_name x)) eqn:E.
    + apply str_eqb_spec in E. exfalso. apply Hnotin. rewrite E. now apply in_map.
    + now apply IH.
Qed.

Lemma find_entry_filter_other n m cs :
  m <> n -> find_entry m (filter (fun x => negb (str_eqb (node_name x) n)) cs) = find_entry m cs.
Proof.
  intros Hne. induction cs as [|y cs IH]; simpl; [reflexivity|].
  destruct (str_eqb (node_name y) n) eqn:E; simpl.
  - apply str_eqb_spec in E. destruct (str_eqb (node_name y) m) eqn:E2.
    + apply str_eqb_spec in E2. congruence.
    + exact IH.
  - destruct (str_eqb (node_name y) m); [reflexivity | exact IH].
Qed.

Lemma find_entry_filter_same n cs :
  find_entry n (filter (fun x => negb (str_eqb (node_name x) n)) cs) = None.
Proof.
  induction cs as [|y cs IH]; simpl; [reflexivity|].
  destruct (str_eqb (node_name y) n) eqn:E; simpl; [exact IH|]. now rewrite E.
Qed.

Lemma rm_in_name n f x : node_name (rm_in n f x) = node_name x.
Proof. destruct x as [m|m k]; simpl; [reflexivity|]. now destruct (str_eqb m n). Qed.
Lemma rm_in_shallow n f x : shallow (rm_in n f x) = shallow x.
Proof. destruct x as [m|m k]; simpl; [reflexivity|]. now destruct (str_eqb m n). Qed.

Lemma find_entry_map_rm n f m cs :
  find_entry m (map (rm_in n f) cs) =
  match find_entry m cs with Some x => Some (rm_in n f x) | None => None end.
Proof.
  induction cs as [|y cs IH]; simpl; [reflexivity|].
  rewrite rm_in_name. destruct (str_eqb (node_name y) m); [reflexivity | exact IH].
Qed.

Lemma iterdir_nil t : iterdir [] t = Some (map shallow t).
Proof. reflexivity. Qed.
Lemma iterdir_cons n p t :
  iterdir (n :: p) t = match find_entry n t with Some (Dir _ k) => iterdir p k | _ => None end.
Proof. unfold iterdir. simpl. destruct (find_entry n t) as [[m|m k]|]; reflexivity. Qed.

Lemma rmtree_one n cs : rmtree [n] cs = filter (fun x => negb (str_eqb (node_name x) n)) cs.
Proof. reflexivity. Qed.
Lemma rmtree_deep n m q cs : rmtree (n :: m :: q) cs = map (rm_in n (rmtree (m :: q))) cs.
Proof. reflexivity. Qed.

Lemma snoc_cons (p : path) n : exists b q, p ++ [n] = b :: q.
Proof. destruct p; simpl; eauto. Qed.

(* deleting p'/n does not change the listing of any directory other than p' that is not at or
   below p'/n *)
Lemma iterdir_rmtree p' n : forall p t,
  p' <> p -> ~ is_prefix (p' ++ [n]) p -> iterdir p (rmtree (p' ++ [n]) t) = iterdir p t.
Proof.
  induction p' as [|a p' IH]; intros p t Hne Hnp.
  - change ([] ++ [n]) with [n] in *. rewrite rmtree_one. destruct p as [|m r]; [congruence|].
    rewrite !iterdir_cons, find_entry_filter_other; [reflexivity|].
    intros ->. apply Hnp. apply is_prefix_cons. split; [reflexivity | apply is_prefix_nil].
  - change ((a :: p') ++ [n]) with (a :: (p' ++ [n])) in *.
    destruct (snoc_cons p' n) as (b & q & E). rewrite E, rmtree_deep, <- E.
    destruct p as [|m r].
    + rewrite !iterdir_nil, map_map. f_equal. apply map_ext. intros x. apply rm_in_shallow.
    + rewrite !iterdir_cons, find_entry_map_rm.
      destruct (find_entry m t) as [[m'|m' k]|] eqn:F; [reflexivity| |reflexivity].
      apply find_entry_some in F as [Hm _]. simpl in Hm. subst m'. simpl.
      destruct (str_eqb m a) eqn:Ea; [|reflexivity].
      apply str_eqb_spec in Ea. subst m. apply IH.
      * congruence.
      * intros H. apply Hnp. apply is_prefix_cons. auto.
Qed.

Lemma exists_at_rmtree d : forall q t, d <> [] ->
  (exists_at q (rmtree d t) = true <-> exists_at q t = true /\ ~ is_prefix d q).
Proof.
  induction d as [|a d IH]; intros q t Hd; [congruence|]. clear Hd.
  destruct d as [|b d'].
  - rewrite rmtree_one. destruct q as [|m q'].
    + simpl. split; [intros _; split; [reflexivity | apply is_prefix_cons_nil] | reflexivity].
    + simpl. destruct (str_eq_dec m a) as [->|Hne].
      * rewrite find_entry_filter_same. split; [discriminate|].
        intros [_ H]. exfalso. apply H. apply is_prefix_cons. split; [reflexivity | apply is_prefix_nil].
      * rewrite find_entry_filter_other by assumption. split.
        -- intros H. split; [exact H|]. intros Hp. apply is_prefix_cons in Hp as [E _]. congruence.
        -- intros [H _]. exact H.
  - rewrite rmtree_deep. destruct q as [|m q'].
    + simpl. split; [intros _; split; [reflexivity | apply is_prefix_cons_nil] | reflexivity].
    + cbn [exists_at]. rewrite find_entry_map_rm.
      destruct (find_entry m t) as [[m'|m' k]|] eqn:F.
      * cbn [rm_in]. destruct q' as [|x q''].
        -- split; [|reflexivity]. intros _. split; [reflexivity|].
           intros Hp. apply is_prefix_cons in Hp as [_ Hp]. now apply is_prefix_cons_nil in Hp.
        -- split; [discriminate | intros [H _]; discriminate].
      * apply find_entry_some in F as [Hm _]. simpl in Hm. subst m'. unfold rm_in.
        destruct (str_eqb m a) eqn:Ea; cbv beta iota.
        -- apply str_eqb_spec in Ea. subst m. rewrite IH by discriminate.
           rewrite is_prefix_cons. intuition.
        -- apply str_eqb_false in Ea. split.
           ++ intros H. split; [exact H|]. intros Hp. apply is_prefix_cons in Hp as [E _]. congruence.
           ++ intros [H _]. exact H.
      * split; [discriminate | intros [H _]; discriminate].
Qed.

Definition rm_all (ds : list path) (t : fs) : fs := fold_left (fun t q => rmtree q t) ds t.

Lemma rm_all_app a b t : rm_all (a ++ b) t = rm_all b (rm_all a t).
Proof. apply fold_left_app. Qed.

Definition Safe (d x : path) : Prop :=
  exists pd n, d = pd ++ [n] /\ pd <> x /\ ~ is_prefix d x.

Lemma iterdir_rm_all ds : forall x t,
  (forall d, In d ds -> Safe d x) -> iterdir x (rm_all ds t) = iterdir x t.
Proof.
  induction ds as [|d ds IH]; intros x t H; [reflexivity|].
  simpl. rewrite IH by (intros; apply H; now right).
  destruct (H d (or_introl eq_refl)) as (pd & n & -> & H1 & H2). now apply iterdir_rmtree.
Qed.

Lemma exists_at_rm_all ds : forall q t,
  (forall d, In d ds -> d <> []) ->
  (exists_at q (rm_all ds t) = true <->
   exists_at q t = true /\ forall d, In d ds -> ~ is_prefix d q).
Proof.
  induction ds as [|d ds IH]; intros q t H.
  - simpl. intuition.
  - simpl. rewrite IH by (intros; apply H; now right).
    rewrite exists_at_rmtree by (apply H; now left). split.
    + intros [[H1 H2] H3]. split; [exact H1|]. intros d' [<-|Hin]; auto.
    + intros [H1 H2]. split; [split|]; auto.
Qed.

Lemma subdir_app p : forall q t,
  subdir (p ++ q) t = match subdir p t with Some k => subdir q k | None => None end.
Proof.
  induction p as [|n p IH]; intros q t; simpl; [reflexivity|].
  destruct (find_entry n t) as [[m|m k]|]; auto.
Qed.

Lemma iterdir_subdir p t es :
  iterdir p t = Some es <-> exists k, subdir p t = Some k /\ es = map shallow k.
Proof.
  unfold iterdir. destruct (subdir p t) as [k|].
  - split; [intros H; inversion H; eauto | intros (k' & H & ->); inversion H; reflexivity].
  - split; [discriminate | intros (k' & H & _); discriminate].
Qed.

Lemma subdir_in_all p : forall t k, subdir p t = Some k -> In p (all_dir_paths t).
Proof.
  unfold all_dir_paths. induction p as [|n p IH]; intros t k H; [now left|]. right.
  simpl in H. destruct (find_entry n t) as [[m|m kk]|] eqn:F; try discriminate.
  apply find_entry_some in F as [Hm Hin]. simpl in Hm. subst m.
  apply in_flat_map. exists (Dir n kk). split; [assumption|]. simpl.
  destruct (IH kk k H) as [<-|Hp]; [now left|]. right. now apply in_map.
Qed.

(* ---------- one directory: what is pushed, what is to be deleted ---------- *)
Definition is_push (e : str * bool) : bool := snd e && negb (looks_like_task (fst e)).
Definition is_del (rec : list (ident * N)) (p : path) (e : str * bool) : bool :=
  snd e && py_match gc_experiment_task_regex (fst e)
  && negb (recorded rec {| ipath := p; iname := exp_name (fst e) |} (exp_ts (fst e))).
Definition child (p : path) (e : str * bool) : path := p ++ [fst e].
Definition pushes_of (p : path) (es : list (str * bool)) : list path := map (child p) (filter is_push es).
Definition dels_of rec (p : path) (es : list (str * bool)) : list path :=
  map (child p) (filter (is_del rec p) es).

Lemma scan_spec rec p es : forall stk td,
  scan rec p es stk td = (List.rev (pushes_of p es) ++ stk, td ++ dels_of rec p es).
Proof.
  unfold pushes_of, dels_of. induction es as [|[n d] es IH]; intros stk td; simpl.
  - now rewrite List.app_nil_r.
  - unfold is_push, is_del, looks_like_task. simpl. destruct d; simpl; [|apply IH].
    destruct (py_match gc_experiment_task_regex n); simpl.
    + destruct (recorded rec _ _); simpl; rewrite IH; [reflexivity|].
      unfold child at 3. simpl. now rewrite <- app_assoc.
    + destruct (py_match gc_regular_task_regex n); simpl; rewrite IH; [reflexivity|].
      rewrite <- app_assoc. reflexivity.
Qed.

Lemma delete_all_spec v ds : forall s,
  delete_all v ds s =
  {| stack := stack s; tree := rm_all ds (tree s);
     out := out s ++ (if v then map deleting_line ds else []);
     removed := removed s ++ ds |}.
Proof.
  induction ds as [|q ds IH]; intros [stk tr o rm]; simpl.
  - rewrite !List.app_nil_r. now destruct v; rewrite ?List.app_nil_r.
  - rewrite IH. simpl. f_equal.
    + destruct v; [now rewrite <- app_assoc | reflexivity].
    + now rewrite <- app_assoc.
Qed.

(* ====================================================================== *)
(* Part 3: the walk                                                        *)
(* ====================================================================== *)
From Coq Require Import FinFun.

Lemma NoDup_map_filter {A B} (g : A -> B) (f : A -> bool) (l : list A) :
  NoDup (map g l) -> NoDup (map g (filter f l)).
Proof.
  induction l as [|x l IH]; simpl; intros H; [constructor|].
  inversion H as [|? ? Hn Hd]; subst. destruct (f x); simpl; [|auto].
  constructor; [|auto]. intros Hin. apply Hn.
  apply in_map_iff in Hin as (y & E & Hy). apply filter_In in Hy as [Hy _].
  rewrite <- E. now apply in_map.
Qed.

Lemma NoDup_app_intro {A} (a b : list A) :
  NoDup a -> NoDup b -> (forall x, In x a -> ~ In x b) -> NoDup (a ++ b).
Proof.
  induction a as [|x a IH]; simpl; intros Ha Hb H; [assumption|].
  inversion Ha; subst. constructor.
  - intros Hin. apply in_app_or in Hin as [Hin|Hin]; [contradiction|]. apply (H x); auto.
  - apply IH; auto.
Qed.

Definition nontasky (p : path) : Prop := Forall (fun c => looks_like_task c = false) p.

Lemma nontasky_snoc p n : nontasky (p ++ [n]) <-> nontasky p /\ looks_like_task n = false.
Proof.
  unfold nontasky. rewrite Forall_app. split.
  - intros [H1 H2]. inversion H2; auto.
  - intros [H1 H2]. auto.
Qed.
Lemma nontasky_in p n : nontasky p -> In n p -> looks_like_task n = false.
Proof. unfold nontasky. rewrite Forall_forall. auto. Qed.
Lemma nontasky_prefix a b : is_prefix a b -> nontasky b -> nontasky a.
Proof. intros [c ->] H. apply Forall_app in H. tauto. Qed.

Section Walk.
  Variable rec : list (ident * N).
  Variable t0 : fs.
  (* names are unique within every directory of the initial tree *)
  Hypothesis wf : forall p k, subdir p t0 = Some k -> NoDup (map node_name k).

  Definition IsDir (q : path) : Prop := exists k, subdir q t0 = Some k.
  Definition NTDir (p : path) : Prop := nontasky p /\ IsDir p.

  (* reference traversal of the initial tree: the order in which directories are listed *)
  Fixpoint order (fuel : nat) (stk : list path) : option (list path) :=
    match stk with
    | [] => Some []
    | p :: rest =>
      match fuel with
      | O => None
      | S f =>
        match iterdir p t0 with
        | None => None
        | Some es =>
          match order f (List.rev (pushes_of p es) ++ rest) with
          | Some l => Some (p :: l)
          | None => None
          end
        end
      end
    end.

  Definition dels (p : path) : list path :=
    match iterdir p t0 with Some es => dels_of rec p es | None => [] end.

  Definition StackInv (stk : list path) : Prop :=
    NoDup stk /\
    (forall a b, In a stk -> In b stk -> is_prefix a b -> a = b) /\
    (forall r, In r stk -> NTDir r).

  (* a directory entry of p is a sub-directory p/m *)
  Lemma entry_is_subdir p k m :
    subdir p t0 = Some k -> In (m, true) (map shallow k) -> IsDir (p ++ [m]).
  Proof.
    intros Hk Hin. apply in_map_iff in Hin as (x & E & Hx).
    destruct x as [n|n kk]; [discriminate|]. inversion E; subst n.
    exists kk. rewrite subdir_app, Hk. simpl.
    now rewrite (find_entry_nodup m k (Dir m kk) (wf p k Hk) Hx eq_refl).
  Qed.

  Lemma subdir_is_entry p m :
    IsDir (p ++ [m]) -> exists k, subdir p t0 = Some k /\ In (m, true) (map shallow k).
  Proof.
    intros [kk H]. rewrite subdir_app in H. destruct (subdir p t0) as [k|]; [|discriminate].
    exists k. split; [reflexivity|]. simpl in H.
    destruct (find_entry m k) as [[n|n k']|] eqn:F; try discriminate.
    apply find_entry_some in F as [Hn Hin]. simpl in Hn. subst n.
    apply in_map_iff. exists (Dir m k'). auto.
  Qed.

  Lemma IsDir_prefix a b : is_prefix a b -> IsDir b -> IsDir a.
  Proof.
    intros [c ->] [k H]. rewrite subdir_app in H. destruct (subdir a t0) as [ka|] eqn:E; [|discriminate].
    now exists ka.
  Qed.

  Lemma in_pushes p es c :
    In c (pushes_of p es) <-> exists m, c = p ++ [m] /\ In (m, true) es /\ looks_like_task m = false.
  Proof.
    unfold pushes_of. rewrite in_map_iff. split.
    - intros ([m d] & <- & H). apply filter_In in H as [H1 H2]. unfold is_push in H2. simpl in H2.
      apply andb_true_iff in H2 as [-> H2]. apply negb_true_iff in H2. exists m. auto.
    - intros (m & -> & H1 & H2). exists (m, true). split; [reflexivity|].
      apply filter_In. split; [assumption|]. unfold is_push. simpl. now rewrite H2.
  Qed.

  Lemma in_dels_of p es q :
    In q (dels_of rec p es) <->
    exists n, q = p ++ [n] /\ In (n, true) es /\ py_match gc_experiment_task_regex n = true /\
              recorded rec {| ipath := p; iname := exp_name n |} (exp_ts n) = false.
  Proof.
    unfold dels_of. rewrite in_map_iff. split.
    - intros ([n d] & <- & H). apply filter_In in H as [H1 H2]. unfold is_del in H2. simpl in H2.
      apply andb_true_iff in H2 as [H2 H3]. apply andb_true_iff in H2 as [-> H2].
      apply negb_true_iff in H3. exists n. auto.
    - intros (n & -> & H1 & H2 & H3). exists (n, true). split; [reflexivity|].
      apply filter_In. split; [assumption|]. unfold is_del. simpl. now rewrite H2, H3.
  Qed.

  Lemma pushes_nodup p k : subdir p t0 = Some k -> NoDup (pushes_of p (map shallow k)).
  Proof.
    intros Hk. unfold pushes_of.
    assert (E : map (child p) (filter is_push (map shallow k)) =
                map (fun n => p ++ [n]) (map fst (filter is_push (map shallow k)))).
    { rewrite map_map. reflexivity. }
    rewrite E. apply Injective_map_NoDup.
    - intros a b Hab. apply app_inv_head in Hab. now inversion Hab.
    - apply NoDup_map_filter. rewrite map_map.
      assert (E2 : map (fun x => fst (shallow x)) k = map node_name k) by (apply map_ext; reflexivity).
      rewrite E2. now apply (wf p).
  Qed.

  Lemma stack_inv_step p rest es :
    StackInv (p :: rest) -> iterdir p t0 = Some es -> StackInv (List.rev (pushes_of p es) ++ rest).
  Proof.
    intros (Hnd & Hmin & Hnt) Hes. apply iterdir_subdir in Hes as (k & Hk & ->).
    inversion Hnd as [|? ? Hnotin Hnd']; subst.
    assert (Hp : NTDir p) by (apply Hnt; now left).
    assert (Hpr : forall r, In r rest -> ~ is_prefix p r /\ ~ is_prefix r p).
    { intros r Hr. split; intros H.
      - apply (Hmin p r) in H; [subst; contradiction | now left | now right].
      - apply (Hmin r p) in H; [subst; contradiction | now right | now left]. }
    assert (Hch : forall c, In c (List.rev (pushes_of p (map shallow k))) ->
              exists m, c = p ++ [m] /\ In (m, true) (map shallow k) /\ looks_like_task m = false).
    { intros c Hc. apply in_rev in Hc. now apply in_pushes. }
    split; [|split].
    - apply NoDup_app_intro; [apply NoDup_rev; now apply pushes_nodup | assumption|].
      intros c Hc Hr. apply Hch in Hc as (m & -> & _). apply (proj1 (Hpr _ Hr)). apply is_prefix_app.
    - intros a b Ha Hb Hab. apply in_app_or in Ha, Hb.
      destruct Ha as [Ha|Ha], Hb as [Hb|Hb].
      + apply Hch in Ha as (m1 & -> & _). apply Hch in Hb as (m2 & -> & _).
        apply snoc_prefix_same in Hab. now subst.
      + apply Hch in Ha as (m1 & -> & _). exfalso. apply (proj1 (Hpr _ Hb)).
        eapply is_prefix_trans; [apply is_prefix_app | exact Hab].
      + apply Hch in Hb as (m2 & -> & _). apply is_prefix_snoc_r in Hab as [->|Hab].
        * exfalso. apply (proj1 (Hpr _ Ha)). apply is_prefix_app.
        * exfalso. now apply (proj2 (Hpr _ Ha)).
      + apply Hmin; auto; now right.
    - intros r Hr. apply in_app_or in Hr as [Hr|Hr]; [|apply Hnt; now right].
      apply Hch in Hr as (m & -> & Hm & Hl). destruct Hp as [Hp1 Hp2]. split.
      + apply nontasky_snoc. auto.
      + eapply entry_is_subdir; eauto.
  Qed.

  (* ---------- the reference traversal lists exactly the directories that have no task-like
                component, each once ---------- *)
  Lemma order_spec : forall fuel stk done,
    StackInv stk -> NoDup done -> (forall x, In x done -> In x (all_dir_paths t0)) ->
    (forall r x, In r stk -> In x done -> ~ is_prefix r x) ->
    (length done + fuel > length (all_dir_paths t0))%nat ->
    exists l, order fuel stk = Some l /\
              forall x, In x l <-> NTDir x /\ exists r, In r stk /\ is_prefix r x.
  Proof.
    induction fuel as [|f IH]; intros stk done Hinv Hnd Hall HJ Hlen;
      destruct stk as [|p rest].
    - exists []. split; [reflexivity|]. intros x. split; [contradiction|]. intros [_ (r & [] & _)].
    - exfalso. pose proof (NoDup_incl_length Hnd Hall). lia.
    - exists []. split; [reflexivity|]. intros x. split; [contradiction|]. intros [_ (r & [] & _)].
    - destruct Hinv as (Hs1 & Hs2 & Hs3).
      assert (Hp : NTDir p) by (apply Hs3; now left).
      destruct Hp as [Hp1 [k Hk]].
      assert (Hes : iterdir p t0 = Some (map shallow k)) by (apply iterdir_subdir; eauto).
      assert (Hinv' := stack_inv_step p rest _ (conj Hs1 (conj Hs2 Hs3)) Hes).
      assert (Hpnd : ~ In p done).
      { intros Hin. apply (HJ p p); [now left | assumption | apply is_prefix_refl]. }
      destruct (IH (List.rev (pushes_of p (map shallow k)) ++ rest) (p :: done)) as (l & Hl & Hspec).
      + exact Hinv'.
      + now constructor.
      + intros x [<-|Hx]; [eapply subdir_in_all; eauto | auto].
      + intros r x Hr [<-|Hx].
        * apply in_app_or in Hr as [Hr|Hr].
          -- apply in_rev, in_pushes in Hr as (m & -> & _). intros H.
             apply (snoc_neq p m). apply is_prefix_antisym; [exact H | apply is_prefix_app].
          -- intros H. apply (Hs2 r p) in H; [|now right|now left]. subst r.
             inversion Hs1; contradiction.
        * apply in_app_or in Hr as [Hr|Hr].
          -- apply in_rev, in_pushes in Hr as (m & -> & _). intros H.
             apply (HJ p x); [now left | assumption | now apply is_prefix_snoc_l in H].
          -- apply HJ; [now right | assumption].
      + cbn [length]. lia.
      + exists (p :: l). split; [simpl; now rewrite Hes, Hl|].
        intros x. simpl. rewrite Hspec. split.
        * intros [<-|[Hx (r & Hr & Hrx)]].
          -- split; [split; [assumption | now exists k]|]. exists p. split; [now left | apply is_prefix_refl].
          -- split; [assumption|]. apply in_app_or in Hr as [Hr|Hr].
             ++ apply in_rev, in_pushes in Hr as (m & -> & _). exists p. split; [now left|].
                now apply is_prefix_snoc_l in Hrx.
             ++ exists r. split; [now right | assumption].
        * intros [Hx (r & [<-|Hr] & Hrx)].
          -- destruct Hrx as [c ->]. destruct c as [|m c]; [left; now rewrite List.app_nil_r|].
             right. split; [assumption|]. exists (p ++ [m]). split.
             ++ apply in_or_app. left. apply in_rev. rewrite rev_involutive. apply in_pushes.
                exists m. split; [reflexivity|]. destruct Hx as [Hx1 Hx2]. split.
                ** assert (Hd : IsDir (p ++ [m])).
                   { eapply IsDir_prefix; [|exact Hx2]. exists c. now rewrite <- app_assoc. }
                   apply subdir_is_entry in Hd as (k' & Hk' & Hin). rewrite Hk in Hk'. now inversion Hk'; subst.
                ** eapply nontasky_in; [exact Hx1|]. apply in_or_app. right. now left.
             ++ exists c. now rewrite <- app_assoc.
          -- right. split; [assumption|]. exists r. split; [|assumption]. apply in_or_app. now right.
  Qed.

  Lemma stack_inv_init : StackInv [[]].
  Proof.
    split; [|split].
    - constructor; [intros [] | constructor].
    - intros a b [<-|[]] [<-|[]] _. reflexivity.
    - intros r [<-|[]]. split; [constructor | now exists t0].
  Qed.

  Definition full_fuel : nat := S (length (all_dir_paths t0)).

  Lemma order_total :
    exists l, order full_fuel [[]] = Some l /\ forall x, In x l <-> NTDir x.
  Proof.
    destruct (order_spec full_fuel [[]] []) as (l & Hl & Hspec).
    - apply stack_inv_init.
    - constructor.
    - intros x [].
    - intros r x _ [].
    - unfold full_fuel. simpl. lia.
    - exists l. split; [assumption|]. intros x. rewrite Hspec. split; [tauto|].
      intros H. split; [assumption|]. exists []. split; [now left | apply is_prefix_nil].
  Qed.

  (* ---------- the imperative loop follows the reference traversal ---------- *)
  (* everything at or below a pending directory still lists as in the initial tree *)
  Definition Untouched (stk : list path) (tr : fs) : Prop :=
    forall r x, In r stk -> is_prefix r x -> iterdir x tr = iterdir x t0.

  Lemma dels_safe p rest es d r x :
    StackInv (p :: rest) -> iterdir p t0 = Some es -> In d (dels_of rec p es) ->
    In r (List.rev (pushes_of p es) ++ rest) -> is_prefix r x -> Safe d x.
  Proof.
    intros (Hs1 & Hs2 & Hs3) Hes Hd Hr Hrx.
    apply in_dels_of in Hd as (n & -> & Hn & Hmatch & _).
    assert (Htask : looks_like_task n = true) by (unfold looks_like_task; now rewrite Hmatch).
    exists p, n. split; [reflexivity|].
    inversion Hs1 as [|? ? Hnotin _]; subst.
    apply in_app_or in Hr as [Hr|Hr].
    - apply in_rev, in_pushes in Hr as (m & -> & _ & Hm). split.
      + intros E. subst x. apply (snoc_neq p m). apply is_prefix_antisym; [exact Hrx | apply is_prefix_app].
      + intros H. destruct Hrx as [c ->]. rewrite <- app_assoc in H. simpl in H.
        apply snoc_prefix_same in H. congruence.
    - assert (Hpr : ~ is_prefix r p /\ ~ is_prefix p r).
      { split; intros H.
        - apply (Hs2 r p) in H; [subst; contradiction | now right | now left].
        - apply (Hs2 p r) in H; [subst; contradiction | now left | now right]. }
      split.
      + intros ->. tauto.
      + intros H. destruct (is_prefix_comparable _ _ _ Hrx H) as [H'|H'].
        * apply is_prefix_snoc_r in H' as [->|H']; [|tauto].
          assert (Hnt : nontasky (p ++ [n])) by (apply Hs3; now right).
          apply nontasky_snoc in Hnt as [_ Hnt]. congruence.
        * apply is_prefix_snoc_l in H'. tauto.
  Qed.

  Lemma untouched_children p rest es tr :
    Untouched (p :: rest) tr -> Untouched (List.rev (pushes_of p es) ++ rest) tr.
  Proof.
    intros H r x Hr Hrx. apply in_app_or in Hr as [Hr|Hr].
    - apply in_rev, in_pushes in Hr as (m & -> & _). apply (H p); [now left|].
      now apply is_prefix_snoc_l in Hrx.
    - apply (H r); [now right | assumption].
  Qed.

  Lemma loop_real v : forall fuel s l,
    order fuel (stack s) = Some l -> StackInv (stack s) -> Untouched (stack s) (tree s) ->
    gc_loop fuel false v rec s =
    Done {| stack := [];
            tree := rm_all (flat_map dels l) (tree s);
            out := out s ++ (if v then map deleting_line (flat_map dels l) else []);
            removed := removed s ++ flat_map dels l |}.
  Proof.
    induction fuel as [|f IH]; intros [stk tr o rm] l; simpl; intros Hord Hinv Hun;
      destruct stk as [|p rest]; simpl in *.
    - inversion Hord; subst. simpl. rewrite !List.app_nil_r. now destruct v; rewrite ?List.app_nil_r.
    - discriminate.
    - inversion Hord; subst. simpl. rewrite !List.app_nil_r. now destruct v; rewrite ?List.app_nil_r.
    - destruct (iterdir p t0) as [es|] eqn:Hes; [|discriminate].
      destruct (order f (List.rev (pushes_of p es) ++ rest)) as [l'|] eqn:Hl'; [|discriminate].
      inversion Hord; subst l. clear Hord.
      rewrite (Hun p p (or_introl eq_refl) (is_prefix_refl p)), Hes.
      rewrite scan_spec. change ([] ++ dels_of rec p es) with (dels_of rec p es).
      rewrite delete_all_spec. cbn [stack tree out removed].
      assert (Hd : dels p = dels_of rec p es) by (unfold dels; now rewrite Hes).
      rewrite (IH _ l'); cbn [stack tree out removed].
      + cbn [flat_map]. rewrite Hd. f_equal. f_equal.
        * now rewrite rm_all_app.
        * rewrite <- app_assoc. f_equal. destruct v; [now rewrite map_app | reflexivity].
        * now rewrite <- app_assoc.
      + exact Hl'.
      + now apply stack_inv_step.
      + intros r x Hr Hrx. rewrite iterdir_rm_all.
        * eapply untouched_children; eauto.
        * intros d Hd0. eapply dels_safe; eauto.
  Qed.

  Lemma loop_dry v : forall fuel s l,
    order fuel (stack s) = Some l -> Untouched (stack s) (tree s) ->
    gc_loop fuel true v rec s =
    Done {| stack := [];
            tree := tree s;
            out := out s ++ map would_line (flat_map dels l);
            removed := removed s |}.
  Proof.
    induction fuel as [|f IH]; intros [stk tr o rm] l; simpl; intros Hord Hun;
      destruct stk as [|p rest]; simpl in *.
    - inversion Hord; subst. simpl. now rewrite List.app_nil_r.
    - discriminate.
    - inversion Hord; subst. simpl. now rewrite List.app_nil_r.
    - destruct (iterdir p t0) as [es|] eqn:Hes; [|discriminate].
      destruct (order f (List.rev (pushes_of p es) ++ rest)) as [l'|] eqn:Hl'; [|discriminate].
      inversion Hord; subst l. clear Hord.
      rewrite (Hun p p (or_introl eq_refl) (is_prefix_refl p)), Hes.
      rewrite scan_spec. change ([] ++ dels_of rec p es) with (dels_of rec p es).
      assert (Hd : dels p = dels_of rec p es) by (unfold dels; now rewrite Hes).
      rewrite (IH _ l'); cbn [stack tree out removed].
      + cbn [flat_map]. rewrite Hd. f_equal. f_equal.
        rewrite <- app_assoc. f_equal. now rewrite map_app.
      + exact Hl'.
      + eapply untouched_children; eauto.
  Qed.

  (* ---------- what is deleted, stated without the traversal ---------- *)
  Definition Deletable (q : path) : Prop :=
    exists p n, q = p ++ [n] /\ nontasky p /\ IsDir q /\
                py_match gc_experiment_task_regex n = true /\
                recorded rec {| ipath := p; iname := exp_name n |} (exp_ts n) = false.

  Lemma in_all_dels l q :
    (forall x, In x l <-> NTDir x) -> (In q (flat_map dels l) <-> Deletable q).
  Proof.
    intros Hl. rewrite in_flat_map. split.
    - intros (p & Hp & Hq). apply Hl in Hp as [Hp1 [k Hk]]. unfold dels in Hq.
      assert (Hes : iterdir p t0 = Some (map shallow k)) by (apply iterdir_subdir; eauto).
      rewrite Hes in Hq. apply in_dels_of in Hq as (n & -> & Hn & Hm & Hr).
      exists p, n. split; [reflexivity|]. split; [assumption|]. split; [|auto].
      eapply entry_is_subdir; eauto.
    - intros (p & n & -> & Hp & Hd & Hm & Hr).
      destruct (subdir_is_entry p n Hd) as (k & Hk & Hin).
      exists p. split; [apply Hl; split; [assumption | now exists k]|].
      unfold dels. assert (Hes : iterdir p t0 = Some (map shallow k)) by (apply iterdir_subdir; eauto).
      rewrite Hes. apply in_dels_of. exists n. auto.
  Qed.

  Lemma Deletable_nonempty q : Deletable q -> q <> [].
  Proof. intros (p & n & -> & _). destruct p; discriminate. Qed.

  Definition init (t : fs) : st := {| stack := [[]]; tree := t; out := []; removed := [] |}.

  Theorem gc_spec v :
    exists D,
      (forall q, In q D <-> Deletable q) /\
      gc false v rec t0 =
        Done {| stack := []; tree := rm_all D t0;
                out := if v then map deleting_line D else []; removed := D |} /\
      gc true v rec t0 =
        Done {| stack := []; tree := t0; out := map would_line D; removed := [] |}.
  Proof.
    destruct order_total as (l & Hl & Hspec).
    exists (flat_map dels l). split; [intros q; now apply in_all_dels|].
    assert (Hun : Untouched [[]] t0) by (intros r x _ _; reflexivity).
    unfold gc. split.
    - rewrite (loop_real v _ _ l); [reflexivity | exact Hl | apply stack_inv_init | exact Hun].
    - rewrite (loop_dry v _ _ l); [reflexivity | exact Hl | exact Hun].
  Qed.
End Walk.

(* ====================================================================== *)
(* Part 4: the statement in terms of documented names, and what survives   *)
(* ====================================================================== *)
Lemma path_eqb_spec (p : list str) : forall q,
  (fix go (p q : list str) :=
     match p, q with
     | [], [] => true
     | x :: p', y :: q' => str_eqb x y && go p' q'
     | _, _ => false
     end) p q = true <-> p = q.
Proof.
  induction p as [|x p IH]; destruct q as [|y q]; try (split; [discriminate | congruence]).
  - split; reflexivity.
  - rewrite andb_true_iff, IH, str_eqb_spec. split; [intros [-> ->]; reflexivity | intros E; inversion E; auto].
Qed.

Lemma ident_eqb_spec a b : ident_eqb a b = true <-> a = b.
Proof.
  unfold ident_eqb. rewrite andb_true_iff, str_eqb_spec, path_eqb_spec.
  destruct a, b; simpl. split; [intros [-> ->]; reflexivity | intros E; inversion E; auto].
Qed.

Lemma recorded_spec rec i t : recorded rec i t = true <-> In (i, t) rec.
Proof.
  unfold recorded. rewrite existsb_exists. split.
  - intros ([j u] & Hin & H). simpl in H. apply andb_true_iff in H as [H1 H2].
    apply ident_eqb_spec in H1. apply N.eqb_eq in H2. now subst.
  - intros Hin. exists (i, t). split; [assumption|]. simpl.
    rewrite N.eqb_refl, andb_true_r. now apply ident_eqb_spec.
Qed.

Lemma recorded_false rec i t : recorded rec i t = false <-> ~ In (i, t) rec.
Proof.
  rewrite <- recorded_spec. destruct (recorded rec i t); split; try congruence; tauto.
Qed.

Definition wf_tree (t0 : fs) : Prop := forall p k, subdir p t0 = Some k -> NoDup (map node_name k).

(* the directory of version t of task //p:name, relative to cond-out *)
Definition version_dir (p : path) (name : str) (t : N) : path :=
  p ++ [task_output_dir {| ipath := p; iname := name |} (Some t)].

(* an experiment output directory with no recorded version, not inside a task directory *)
Definition GcTarget (rec : list (ident * N)) (t0 : fs) (q : path) : Prop :=
  exists p name t,
    q = version_dir p name t /\ DocName name /\ 0 < t /\ nontasky p /\ IsDir t0 q /\
    ~ In ({| ipath := p; iname := name |}, t) rec.

(* a decision procedure for [wf_tree] (used for concrete trees) *)
Fixpoint nodupb (l : list str) : bool :=
  match l with
  | [] => true
  | x :: r => negb (existsb (str_eqb x) r) && nodupb r
  end.
Fixpoint wf_nodeb (x : node) : bool :=
  match x with
  | File _ => true
  | Dir _ cs => nodupb (map node_name cs) && forallb wf_nodeb cs
  end.
Definition wf_treeb (t : fs) : bool := nodupb (map node_name t) && forallb wf_nodeb t.

Lemma nodupb_sound l : nodupb l = true -> NoDup l.
Proof.
  induction l as [|x r IH]; simpl; intros H; [constructor|].
  apply andb_true_iff in H as [H1 H2]. constructor; [|auto].
  intros Hin. apply negb_true_iff in H1.
  assert (existsb (str_eqb x) r = true) by (apply existsb_exists; exists x; split; [assumption | apply str_eqb_refl]).
  congruence.
Qed.

Lemma wf_treeb_sound t : wf_treeb t = true -> wf_tree t.
Proof.
  intros H p. revert t H. induction p as [|n p IH]; intros t H k Hk.
  - inversion Hk; subst. apply andb_true_iff in H as [H _]. now apply nodupb_sound.
  - simpl in Hk. destruct (find_entry n t) as [[m|m kk]|] eqn:F; try discriminate.
    apply find_entry_some in F as [_ Hin]. apply andb_true_iff in H as [_ H].
    rewrite forallb_forall in H. apply H in Hin. exact (IH kk Hin k Hk).
Qed.

Section GcFinal.
  Hypothesis Hexp : tie_ok gc_experiment_task_regex doc_exp_re = true.
  Hypothesis Hreg : tie_ok gc_regular_task_regex doc_reg_re = true.
  Hypothesis Hsuffix : cfg_TASK_OUTPUT_DIR_SUFFIX = DOT_TASK.
  Hypothesis Hident : tie_ok task_identifier_regex doc_ident_re = true.

  Lemma Deletable_iff rec t0 q : Deletable rec t0 q <-> GcTarget rec t0 q.
  Proof.
    unfold Deletable, GcTarget, version_dir. split.
    - intros (p & n & -> & Hp & Hd & Hm & Hr).
      apply (exp_match_spec Hexp) in Hm as (name & t & Hn & Ht & ->).
      destruct (exp_groups Hexp name t Hn Ht) as [E1 E2]. rewrite E1, E2 in Hr.
      exists p, name, t. rewrite (task_output_dir_exp Hsuffix). simpl.
      repeat (split; [assumption || reflexivity|]). now apply recorded_false.
    - intros (p & name & t & -> & Hn & Ht & Hp & Hd & Hr).
      rewrite (task_output_dir_exp Hsuffix) in *. simpl in *.
      destruct (exp_groups Hexp name t Hn Ht) as [E1 E2].
      exists p, (exp_dir_name name t). rewrite E1, E2.
      split; [reflexivity|]. split; [assumption|]. split; [assumption|].
      split; [apply (exp_match_spec Hexp); exists name, t; auto | now apply recorded_false].
  Qed.

  Theorem gc_exact rec t0 v :
    wf_tree t0 ->
    exists D,
      (forall q, In q D <-> GcTarget rec t0 q) /\
      gc false v rec t0 =
        Done {| stack := []; tree := rm_all D t0;
                out := if v then map deleting_line D else []; removed := D |} /\
      gc true v rec t0 =
        Done {| stack := []; tree := t0; out := map would_line D; removed := [] |}.
  Proof.
    intros Hwf. destruct (gc_spec rec t0 Hwf v) as (D & HD & H1 & H2).
    exists D. split; [|auto]. intros q. rewrite HD. apply Deletable_iff.
  Qed.

  (* what exists afterwards: whatever existed and is not at or below a collected directory *)
  Lemma survivors rec t0 D q :
    (forall d, In d D <-> GcTarget rec t0 d) ->
    (exists_at q (rm_all D t0) = true <->
     exists_at q t0 = true /\ forall d, GcTarget rec t0 d -> ~ is_prefix d q).
  Proof.
    intros HD. rewrite exists_at_rm_all.
    - split; intros [H1 H2]; (split; [assumption|]); intros d Hd; apply H2; now apply HD.
    - intros d Hd. apply HD in Hd as (p & n & t & -> & _). unfold version_dir. destruct p; discriminate.
  Qed.

  Lemma version_dir_exp p name t : version_dir p name t = p ++ [exp_dir_name name t].
  Proof. unfold version_dir. now rewrite (task_output_dir_exp Hsuffix). Qed.

  Lemma target_last_is_task name t :
    DocName name -> 0 < t -> looks_like_task (exp_dir_name name t) = true.
  Proof.
    intros Hn Ht. apply (looks_like_task_spec Hexp Hreg). left. exists name, t. auto.
  Qed.

  (* a recorded version and everything below it survives *)
  Lemma keeps_recorded rec t0 D i t rest :
    (forall d, In d D <-> GcTarget rec t0 d) ->
    WfIdent i -> 0 < t -> In (i, t) rec ->
    let q := version_dir (ipath i) (iname i) t ++ rest in
    exists_at q t0 = true -> exists_at q (rm_all D t0) = true.
  Proof.
    intros HD [Hwp Hwn] Ht Hrec q Hq. apply (survivors rec t0 D q HD). split; [assumption|].
    intros d (p & name & t' & -> & Hn & Ht' & Hp & _ & Hnr) Hpre.
    unfold q in Hpre. rewrite !version_dir_exp in Hpre.
    assert (Hcmp := is_prefix_comparable _ _ _ Hpre (is_prefix_app (ipath i ++ [exp_dir_name (iname i) t]) rest)).
    assert (Hsame : p ++ [exp_dir_name name t'] = ipath i ++ [exp_dir_name (iname i) t] -> False).
    { intros E. apply app_inj_tail in E as [-> E]. apply exp_dir_name_inj in E as [-> ->]; auto.
      apply Hnr. destruct i; exact Hrec. }
    destruct Hcmp as [H|H]; apply is_prefix_snoc_r in H as [H|H]; auto.
    - apply is_prefix_snoc_in in H. rewrite Forall_forall in Hwp. apply Hwp in H.
      apply (DocName_not_task Hexp Hreg) in H. rewrite target_last_is_task in H by assumption. discriminate.
    - apply is_prefix_snoc_in in H. apply (nontasky_in _ _ Hp) in H.
      rewrite target_last_is_task in H by assumption. discriminate.
  Qed.

  (* the output directory of a run_command / combine task (<name>.task) that is not inside a
     task directory survives with everything below it *)
  Lemma keeps_regular rec t0 D a c rest :
    (forall d, In d D <-> GcTarget rec t0 d) ->
    nontasky a -> RegDirName c ->
    let q := a ++ [c] ++ rest in
    exists_at q t0 = true -> exists_at q (rm_all D t0) = true.
  Proof.
    intros HD Ha Hc q Hq. apply (survivors rec t0 D q HD). split; [assumption|].
    intros d (p & name & t' & -> & Hn & Ht' & Hp & _ & _) Hpre.
    unfold q in Hpre. rewrite version_dir_exp, app_assoc in Hpre.
    assert (Hct : looks_like_task c = true) by (apply (looks_like_task_spec Hexp Hreg); now right).
    assert (Hcmp := is_prefix_comparable _ _ _ Hpre (is_prefix_app (a ++ [c]) rest)).
    destruct Hcmp as [H|H]; apply is_prefix_snoc_r in H as [H|H].
    - apply app_inj_tail in H as [_ E]. apply (exp_not_reg c); [|assumption]. exists name, t'. auto.
    - apply is_prefix_snoc_in in H. apply (nontasky_in _ _ Ha) in H.
      rewrite target_last_is_task in H by assumption. discriminate.
    - apply app_inj_tail in H as [_ E]. apply (exp_not_reg c); [|assumption]. exists name, t'. auto.
    - apply is_prefix_snoc_in in H. apply (nontasky_in _ _ Hp) in H. congruence.
  Qed.

  (* every file survives unless it lies inside a collected directory; files are never the
     argument of rmtree: targets are directories *)
  Lemma target_is_dir rec t0 q : GcTarget rec t0 q -> IsDir t0 q.
  Proof. intros (p & name & t & _ & _ & _ & _ & H & _). exact H. Qed.

  (* ---------- the index rows ---------- *)
  Lemma load_recorded_spec rows : forall rec,
    load_recorded rows = Some rec ->
    forall i t, In (i, t) rec <-> exists s, In (s, t) rows /\ from_str true s = Some i.
  Proof.
    induction rows as [|[s ts] rows IH]; simpl; intros rec H i t.
    - inversion H; subst. split; [contradiction | intros (s & [] & _)].
    - destruct (from_str true s) as [j|] eqn:Fs; [|discriminate].
      destruct (load_recorded rows) as [l|]; [|discriminate]. inversion H; subst. simpl.
      rewrite (IH l eq_refl). split.
      + intros [E|(s' & H1 & H2)]; [inversion E; subst; eauto | eauto].
      + intros (s' & [E|H1] & H2); [inversion E; subst; left; congruence | right; eauto].
  Qed.

  Lemma load_recorded_none rows :
    load_recorded rows = None <-> exists s t, In (s, t) rows /\ from_str true s = None.
  Proof.
    induction rows as [|[s ts] rows IH]; simpl.
    - split; [discriminate | intros (s & t & [] & _)].
    - destruct (from_str true s) as [j|] eqn:Fs.
      + destruct (load_recorded rows) as [l|].
        * split; [discriminate|]. intros (s' & t' & [E|H1] & H2); [inversion E; subst; congruence|].
          destruct IH as [_ IH]. discriminate IH. eauto.
        * split; [|reflexivity]. intros _. destruct IH as [IH _].
          destruct (IH eq_refl) as (s' & t' & H1 & H2). eauto.
      + split; [|reflexivity]. intros _. exists s, ts. auto.
  Qed.

  Lemma gc_main_keeps_recorded rows t0 v s i t rest fin :
    wf_tree t0 -> In (s, t) rows -> from_str true s = Some i -> 0 < t ->
    gc_main false v rows t0 = Done fin ->
    let q := version_dir (ipath i) (iname i) t ++ rest in
    exists_at q t0 = true -> exists_at q (tree fin) = true.
  Proof.
    intros Hwf Hin Hs Ht Hrun q Hq. unfold gc_main in Hrun.
    destruct (load_recorded rows) as [rec|] eqn:Hl; [|discriminate].
    destruct (gc_exact rec t0 v Hwf) as (D & HD & H1 & _). rewrite H1 in Hrun.
    inversion Hrun; subst fin. simpl.
    apply (keeps_recorded rec t0 D i t rest HD); auto.
    - eapply (from_str_wf Hident); eauto.
    - apply (load_recorded_spec rows rec Hl). eauto.
  Qed.
End GcFinal.
