(* Lemmas behind Props/C19.v.
   Part 1 (no hypothesis): for EVERY handler h bound to run_experiment/combine, group_impl is
   "issue the calls of group_doc in order, then raise its diagnostic" (C19_equal).
   Part 2 (Section WithTable, hypotheses about the generated table discharged in Props/C19.v):
   with the real shim, the group form and the documented expansion are accepted together and
   then define the same tasks, in any file (C19_reject). *)
From Coq Require Import List NArith ZArith Bool Lia.
From Conductor Require Import Lib.Regex Lib.RegexBisim Lib.PyRegex Lib.Str Lib.SchemaTypes
  Gen.Generated Model.Ident Model.Schema Model.Group
  Proofs.IdentSpec Proofs.IdentProofs Proofs.SchemaSpec Proofs.SchemaProofs.
Import ListNotations.
Open Scope N_scope.

(* ---------- generic facts ---------- *)
Lemma run_calls_app {S} (h : call -> S -> result S) a b st :
  run_calls h (a ++ b) st = bind (run_calls h a st) (run_calls h b).
Proof.
  revert st. induction a as [|c a IH]; intros st; simpl; [reflexivity|].
  destruct (h c st); simpl; auto.
Qed.

Definition last_opt {A} (l : list A) : option A :=
  match rev l with x :: _ => Some x | [] => None end.

Lemma last_opt_snoc {A} (l : list A) x : last_opt (l ++ [x]) = Some x.
Proof. unfold last_opt. rewrite rev_app_distr. reflexivity. Qed.

Lemma last_opt_nil {A} : @last_opt A [] = None.
Proof. reflexivity. Qed.

Lemma last_opt_cons_some {A} (a : A) l : exists x, last_opt (a :: l) = Some x.
Proof.
  destruct (@exists_last _ (a :: l)) as (l' & x & E); [discriminate|]. rewrite E, last_opt_snoc. eauto.
Qed.

Lemma last_opt_In {A} (l : list A) x : last_opt l = Some x -> In x l.
Proof.
  unfold last_opt. destruct (rev l) as [|y r] eqn:E; [discriminate|]. intros H; inversion H; subst.
  apply in_rev. rewrite E. left. reflexivity.
Qed.

Lemma doc_experiments_cons d prev x xs :
  doc_experiments d prev (x :: xs) = doc_experiment d prev x :: doc_experiments d (Some x) xs.
Proof. reflexivity. Qed.

Lemma doc_experiments_app d xs : forall prev ys,
  doc_experiments d prev (xs ++ ys) =
  doc_experiments d prev xs ++
  doc_experiments d (match last_opt xs with Some x => Some x | None => prev end) ys.
Proof.
  induction xs as [|x xs IH]; intros prev ys.
  - reflexivity.
  - simpl app. rewrite !doc_experiments_cons, IH. simpl. f_equal. f_equal.
    destruct xs as [|y xs'].
    + reflexivity.
    + destruct (last_opt_cons_some y xs') as (z & Ez).
      assert (Ez' : last_opt (x :: y :: xs') = Some z).
      { unfold last_opt in *. simpl in *. destruct (rev xs' ++ [y]) as [|w r] eqn:E.
        - destruct (rev xs'); discriminate.
        - simpl. exact Ez. }
      rewrite Ez, Ez'. reflexivity.
Qed.

(* the accumulator prev_experiment_identifier after the instances `earlier` *)
Definition prev_of (earlier : list instance) : option str :=
  match last_opt earlier with
  | Some p => match i_name p with VStr s => Some (COLON :: s) | _ => None end
  | None => None
  end.

Definition name_is_str (x : instance) : Prop := exists s, i_name x = VStr s.

(* ---------- Part 1: the loop against the documented trace, for every handler ---------- *)
Lemma split_good_other d earlier v ms :
  split_good d earlier (MOther v :: ms) = ([], Some ([], EGroupInvalidInstance)).
Proof. reflexivity. Qed.

Lemma split_good_problem d earlier x ms issued e :
  member_problem d earlier (MInst x) = Some (issued, e) ->
  split_good d earlier (MInst x :: ms) = ([], Some (if issued then [x] else [], e)).
Proof. intros H. cbn [split_good]. rewrite H. reflexivity. Qed.

Lemma split_good_ok d earlier x ms :
  member_problem d earlier (MInst x) = None ->
  split_good d earlier (MInst x :: ms) =
  (x :: fst (split_good d (earlier ++ [x]) ms), snd (split_good d (earlier ++ [x]) ms)).
Proof. intros H. cbn [split_good]. rewrite H. reflexivity. Qed.

(* what the loop hands to run_experiment as deps, None = TypeError *)
Definition deps_for (d : gdef) (earlier : list instance) : option value :=
  match g_chain d, prev_of earlier with
  | true, Some p =>
    match spread (task_deps_of d) with
    | Some l => Some (VList (l ++ [VStr p]))
    | None => None
    end
  | _, _ => Some (task_deps_of d)
  end.

Lemma prev_of_nonempty e0 er :
  Forall name_is_str (e0 :: er) ->
  exists p s, last_opt (e0 :: er) = Some p /\ i_name p = VStr s /\ prev_of (e0 :: er) = Some (COLON :: s).
Proof.
  intros Hstr. destruct (last_opt_cons_some e0 er) as (p & Ep).
  pose proof (last_opt_In _ _ Ep) as Hin. rewrite Forall_forall in Hstr.
  destruct (Hstr p Hin) as (s & Es). exists p, s. unfold prev_of. rewrite Ep, Es. auto.
Qed.

(* the loop's deps and the documented deps are the same value; the loop fails to build them
   exactly in the case member_problem lists *)
Lemma deps_for_doc d earlier x :
  Forall name_is_str earlier ->
  match deps_for d earlier with
  | Some v =>
    doc_experiment d (last_opt earlier) x = experiment_call x (g_run d) v /\
    (match g_chain d, earlier, spread (task_deps_of d) with
     | true, _ :: _, None => true | _, _, _ => false end) = false
  | None =>
    (match g_chain d, earlier, spread (task_deps_of d) with
     | true, _ :: _, None => true | _, _, _ => false end) = true
  end.
Proof.
  intros Hstr. unfold deps_for, doc_experiment. destruct (g_chain d).
  - destruct earlier as [|e0 er].
    + simpl. auto.
    + destruct (prev_of_nonempty e0 er Hstr) as (p & s & Ep & Es & Epr). rewrite Ep, Epr.
      unfold append_dep. rewrite Es. simpl rel_id.
      destruct (spread (task_deps_of d)); auto.
  - destruct (prev_of earlier), (last_opt earlier); destruct earlier; auto.
Qed.

Section AnyHandler.
  Context {S : Type} (h : call -> S -> result S).

  Definition doc_tail (r : list instance * option (list instance * err)) : list instance :=
    fst r ++ match snd r with Some (extra, _) => extra | None => [] end.

  Lemma group_loop_doc d ms : forall earlier rel st,
    Forall name_is_str earlier ->
    group_loop h (g_run d) (g_chain d) (task_deps_of d) ms (map i_name earlier) (prev_of earlier) rel st =
    bind (run_calls h (doc_experiments d (last_opt earlier) (doc_tail (split_good d earlier ms))) st)
         (fun st' =>
            match snd (split_good d earlier ms) with
            | None => Ok (rel ++ map (fun x => rel_id (i_name x)) (fst (split_good d earlier ms)), st')
            | Some (_, e) => Err e
            end).
  Proof.
    induction ms as [|m ms IH]; intros earlier rel st Hstr.
    - simpl. rewrite app_nil_r. reflexivity.
    - destruct m as [x|v]; [|reflexivity].
      cbn [group_loop].
      pose proof (deps_for_doc d earlier x Hstr) as Hdeps. unfold deps_for in Hdeps.
      destruct (py_in (i_name x) (map i_name earlier)) as [[|]|] eqn:Ein.
      + rewrite (split_good_problem d earlier x ms false EGroupDuplicateName);
          [reflexivity | cbn [member_problem]; rewrite Ein; reflexivity].
      + (* not seen before *)
        destruct (match g_chain d, prev_of earlier with
                  | true, Some p => match spread (task_deps_of d) with
                                    | Some l => Some (VList (l ++ [VStr p])) | None => None end
                  | _, _ => Some (task_deps_of d) end) as [deps|] eqn:Ed.
        * destruct Hdeps as [Hcall Hno].
          destruct (i_name x) as [s| | | | | | | |] eqn:En.
          (* a hashable name that is not a string: the call is issued, then ":" + name raises *)
          2-9: (assert (Hp : member_problem d earlier (MInst x) = Some (true, EGroupInvalidInstance));
                [ cbn [member_problem]; rewrite En, Ein; destruct (g_chain d); [|reflexivity];
                  destruct earlier; [reflexivity|];
                  destruct (spread (task_deps_of d)); [reflexivity | discriminate Hno]
                | rewrite (split_good_problem d earlier x ms true EGroupInvalidInstance Hp);
                  unfold doc_tail; cbn [fst snd app]; rewrite doc_experiments_cons;
                  cbn [run_calls]; rewrite Hcall;
                  destruct (h (experiment_call x (g_run d) deps) st); reflexivity ]).
          (* a good member *)
             assert (Hp : member_problem d earlier (MInst x) = None).
             { cbn [member_problem]. rewrite En, Ein.
               destruct (g_chain d); [|reflexivity]. destruct earlier; [reflexivity|].
               destruct (spread (task_deps_of d)); [reflexivity | discriminate Hno]. }
             rewrite (split_good_ok d earlier x ms Hp). unfold doc_tail. cbn [fst snd].
             rewrite <- app_comm_cons, doc_experiments_cons. cbn [run_calls]. rewrite Hcall.
             destruct (h (experiment_call x (g_run d) deps) st) as [st'|e]; [|reflexivity]. cbn [bind].
             assert (Hstr' : Forall name_is_str (earlier ++ [x])).
             { apply Forall_app. split; [assumption|]. constructor; [|constructor]. exists s. exact En. }
             specialize (IH (earlier ++ [x]) (rel ++ [VStr (COLON :: s)]) st' Hstr').
             rewrite map_app in IH. cbn [map] in IH. rewrite En in IH.
             assert (Epr : prev_of (earlier ++ [x]) = Some (COLON :: s)).
             { unfold prev_of. rewrite last_opt_snoc, En. reflexivity. }
             rewrite Epr, last_opt_snoc in IH. unfold doc_tail in IH. rewrite IH.
             destruct (run_calls h _ st'); [|reflexivity]. cbn [bind].
             destruct (snd (split_good d (earlier ++ [x]) ms)) as [[extra e]|]; [reflexivity|].
             cbn [map]. rewrite En. cbn [rel_id]. rewrite <- app_assoc. reflexivity.
        * (* [*task_deps, prev] raises *)
          rewrite (split_good_problem d earlier x ms false EGroupInvalidInstance); [reflexivity|].
          cbn [member_problem]. rewrite Ein.
          destruct (g_chain d); [|discriminate Hdeps]. destruct earlier; [discriminate Hdeps|].
          destruct (spread (task_deps_of d)); [discriminate Hdeps | reflexivity].
      + rewrite (split_good_problem d earlier x ms false EGroupInvalidInstance);
          [reflexivity | cbn [member_problem]; rewrite Ein; reflexivity].
  Qed.
End AnyHandler.

Lemma bind_ret {A} (r : result A) : bind r (fun a => Ok a) = r.
Proof. destruct r; reflexivity. Qed.

(* C19_equal: for every handler, the function is its documented trace *)
Lemma group_impl_doc {S} (h : call -> S -> result S) d st :
  group_impl h d st = run_trace h (group_doc d) st.
Proof.
  unfold group_impl, group_doc, run_trace. destruct (g_experiments d) as [ms|]; [|reflexivity].
  pose proof (group_loop_doc h d ms [] [] st (Forall_nil _)) as H. simpl map in H.
  change (prev_of []) with (@None str) in H. change (@last_opt instance []) with (@None instance) in H.
  rewrite H. clear H. unfold doc_tail.
  destruct (split_good d [] ms) as [xs [[extra e]|]]; cbn [fst snd].
  - destruct (run_calls h (doc_experiments d None (xs ++ extra)) st); reflexivity.
  - rewrite app_nil_r. unfold expansion. rewrite run_calls_app.
    destruct (run_calls h (doc_experiments d None xs) st) as [st'|e]; [|reflexivity].
    cbn [bind fst snd app run_calls]. rewrite bind_ret, bind_ret. reflexivity.
Qed.

(* ---------- split_good against instances_of ---------- *)
Lemma instances_of_app xs : forall rest all,
  instances_of (map MInst xs ++ rest) = Some all ->
  exists rest', instances_of rest = Some rest' /\ all = xs ++ rest'.
Proof.
  induction xs as [|x xs IH]; intros rest all; simpl.
  - intros H. eauto.
  - destruct (instances_of (map MInst xs ++ rest)) as [a|] eqn:E; [|intros H; discriminate H].
    simpl. intros H. inversion H; subst. destruct (IH _ _ E) as (rest' & Hr & ->). eauto.
Qed.

Lemma split_good_shape d ms : forall earlier,
  match snd (split_good d earlier ms) with
  | None => instances_of ms = Some (fst (split_good d earlier ms))
  | Some (extra, e) =>
    exists m rest issued,
      ms = map MInst (fst (split_good d earlier ms)) ++ m :: rest /\
      member_problem d (earlier ++ fst (split_good d earlier ms)) m = Some (issued, e)
  end.
Proof.
  induction ms as [|m ms IH]; intros earlier.
  - reflexivity.
  - destruct m as [x|v].
    + destruct (member_problem d earlier (MInst x)) as [[issued e]|] eqn:Ep.
      * rewrite (split_good_problem d earlier x ms issued e Ep). cbn [fst snd].
        exists (MInst x), ms, issued. rewrite app_nil_r. auto.
      * rewrite (split_good_ok d earlier x ms Ep). cbn [fst snd]. specialize (IH (earlier ++ [x])).
        destruct (snd (split_good d (earlier ++ [x]) ms)) as [[extra e]|].
        -- destruct IH as (m & rest & issued & Hms & Hp). exists m, rest, issued.
           rewrite <- app_assoc in Hp. split; [|exact Hp]. simpl. rewrite <- Hms. reflexivity.
        -- simpl. rewrite IH. reflexivity.
    + rewrite split_good_other. cbn [fst snd]. exists (MOther v), ms, false. rewrite app_nil_r. auto.
Qed.

Lemma py_eqb_str s v : py_eqb (VStr s) v = true -> v = VStr s.
Proof.
  unfold py_eqb. simpl. destruct v; simpl; try (intros H; discriminate H).
  intros H. apply str_eqb_spec in H. congruence.
Qed.

(* ---------- Part 2: the real shim ---------- *)
Section WithTable.
  Hypothesis Hname : tie_ok name_regex doc_name_re = true.
  Hypothesis H_rc : find_row task_type_table C_run_command = Some row_run_command.
  Hypothesis H_re : find_row task_type_table C_run_experiment = Some row_run_experiment.
  Hypothesis H_gr : find_row task_type_table C_group = Some row_group.
  Hypothesis H_co : find_row task_type_table C_combine = Some row_combine.
  Hypothesis H_names :
    map tt_name task_type_table = [C_run_command; C_run_experiment; C_group; C_combine; C_environment].

  Lemma re_not_env : C_run_experiment <> C_environment.
  Proof. intros H. discriminate H. Qed.

  (* an accepted run_experiment call: its name is a fresh string, its deps a list *)
  Lemma shim_experiment_ok x run deps ts ts' :
    shim (experiment_call x run deps) ts = Ok ts' ->
    exists s r l, i_name x = VStr s /\ deps = VList l /\ ~ In s (map rt_name ts) /\
                  ts' = ts ++ [r] /\ rt_name r = s.
  Proof.
    intros H.
    apply (shim_spec Hname H_rc H_re H_gr H_co H_names (experiment_call x run deps) ts ts' re_not_env) in H
      as (r & (row & s & Hrow & Hc & Hs & El & Hd & ->) & Hfresh & ->).
    simpl in Hc.
    assert (row = row_run_experiment).
    { destruct Hrow as [<-|[<-|[<-|[<-|[]]]]]; try reflexivity; discriminate Hc. }
    subst row.
    destruct (schema_lookup _ _ K_deps (TListOf TStr) Hs) as (vd & Ed & (l & -> & _));
      [simpl; auto 8 | reflexivity |].
    unfold call_args in El, Ed. rewrite lookup_merge in El, Ed.
    cbn in El, Ed. inversion El. inversion Ed. subst.
    exists s. eexists. exists l. simpl. repeat split; auto.
  Qed.

  (* after the run_experiment tasks of xs were accepted, their names are taken *)
  Lemma experiments_accepted d xs : forall prev ts ts1,
    run_calls shim (doc_experiments d prev xs) ts = Ok ts1 ->
    (forall s, In s (map rt_name ts) -> In s (map rt_name ts1)) /\
    (forall x, In x xs -> exists s, i_name x = VStr s /\ In s (map rt_name ts1)).
  Proof.
    induction xs as [|x xs IH]; intros prev ts ts1 H.
    - simpl in H. inversion H; subst. split; [auto | intros ? []].
    - rewrite doc_experiments_cons in H. cbn [run_calls] in H.
      apply bind_ok in H as (ts' & Hs & Hr). unfold doc_experiment in Hs.
      apply shim_experiment_ok in Hs as (s & r & l & En & _ & _ & -> & Hrn).
      destruct (IH _ _ _ Hr) as [Hsub Hall]. split.
      + intros s' Hin. apply Hsub. rewrite map_app. apply in_or_app. auto.
      + intros x' [<-|Hin]; [|auto]. exists s. split; [assumption|]. apply Hsub.
        rewrite map_app. apply in_or_app. right. simpl. auto.
  Qed.

  (* the first call of a non-empty expansion carries the group's deps unchanged *)
  Lemma first_experiment_deps d x xs ts ts1 :
    run_calls shim (doc_experiments d None (x :: xs)) ts = Ok ts1 -> exists l, task_deps_of d = VList l.
  Proof.
    rewrite doc_experiments_cons. cbn [run_calls]. intros H.
    apply bind_ok in H as (ts' & Hs & _). unfold doc_experiment in Hs.
    assert (E : match g_chain d, @None instance with
                | true, Some p => append_dep (task_deps_of d) (rel_id (i_name p))
                | _, _ => task_deps_of d end = task_deps_of d) by (destruct (g_chain d); reflexivity).
    rewrite E in Hs. apply shim_experiment_ok in Hs as (s & r & l & _ & Hd & _). eauto.
  Qed.

  (* the member that split_good stops at is rejected by the shim as well *)
  Lemma problem_rejected d xs x issued e ts ts1 :
    member_problem d xs (MInst x) = Some (issued, e) ->
    run_calls shim (doc_experiments d None xs) ts = Ok ts1 ->
    is_ok (shim (doc_experiment d (last_opt xs) x) ts1) = false.
  Proof.
    intros Hp Hrun. destruct (shim (doc_experiment d (last_opt xs) x) ts1) as [ts2|] eqn:Es; [|reflexivity].
    exfalso. unfold doc_experiment in Es.
    apply shim_experiment_ok in Es as (s & r & l & En & _ & Hfresh & _ & _).
    destruct (experiments_accepted d xs None ts ts1 Hrun) as [_ Hall].
    cbn [member_problem] in Hp. rewrite En in Hp. unfold py_in in Hp. cbn [hashable] in Hp.
    destruct (existsb (py_eqb (VStr s)) (map i_name xs)) eqn:Ee.
    - (* the name repeats an earlier instance: it is taken *)
      apply existsb_exists in Ee as (v & Hv & Heq). apply py_eqb_str in Heq. subst v.
      apply in_map_iff in Hv as (x' & Hx' & Hin).
      destruct (Hall x' Hin) as (s' & Es' & Htaken). rewrite Hx' in Es'. inversion Es'; subst s'.
      contradiction.
    - destruct (g_chain d); [|discriminate Hp]. destruct xs as [|x0 xs']; [discriminate Hp|].
      destruct (first_experiment_deps d x0 xs' ts ts1 Hrun) as (l0 & El0). rewrite El0 in Hp.
      discriminate Hp.
  Qed.

  Definition res_agree {A} (r1 r2 : result A) : Prop :=
    match r1, r2 with
    | Ok a, Ok b => a = b
    | Err _, Err _ => True
    | _, _ => False
    end.

  Lemma res_agree_refl {A} (r : result A) : res_agree r r.
  Proof. destruct r; simpl; auto. Qed.

  (* one group statement against its documented expansion, from any state of the file *)
  Lemma group_vs_expansion d ts :
    match doc_calls d with
    | None => is_ok (group_impl shim d ts) = false
    | Some cs => res_agree (group_impl shim d ts) (run_calls shim cs ts)
    end.
  Proof.
    rewrite group_impl_doc. unfold doc_calls, group_doc, run_trace.
    destruct (g_experiments d) as [ms|]; [|reflexivity].
    pose proof (split_good_shape d ms []) as Hshape.
    destruct (split_good d [] ms) as [xs [[extra e]|]]; cbn [fst snd] in *.
    - (* a member has a problem: the group form is rejected ... *)
      assert (Hr : is_ok (bind (run_calls shim (doc_experiments d None (xs ++ extra)) ts)
                               (fun st' : tasks => @Err tasks e)) = false)
        by (destruct (run_calls shim (doc_experiments d None (xs ++ extra)) ts); reflexivity).
      destruct Hshape as (m & rest & issued & -> & Hp).
      destruct (instances_of (map MInst xs ++ m :: rest)) as [all|] eqn:Ei; simpl; [|exact Hr].
      (* ... and so is the expansion *)
      apply instances_of_app in Ei as (rest' & Hrest & ->).
      destruct m as [x|v]; [|simpl in Hrest; discriminate Hrest].
      simpl in Hrest. destruct (instances_of rest) as [r'|]; [|discriminate Hrest].
      simpl in Hrest. inversion Hrest; subst rest'. clear Hrest.
      destruct (bind (run_calls shim (doc_experiments d None (xs ++ extra)) ts)
                     (fun st' : tasks => @Err tasks e)) as [a0|e0] eqn:E1; [discriminate Hr|]. clear Hr E1.
      unfold expansion. rewrite run_calls_app, doc_experiments_app, run_calls_app.
      destruct (run_calls shim (doc_experiments d None xs) ts) as [ts1|e1] eqn:E2; [|exact I].
      cbn [bind]. rewrite doc_experiments_cons. cbn [run_calls].
      assert (Hl : match last_opt xs with Some x0 => Some x0 | None => @None instance end = last_opt xs)
        by (destruct (last_opt xs); reflexivity).
      rewrite Hl. pose proof (problem_rejected d xs x issued e ts ts1 Hp E2) as Hrej.
      destruct (shim (doc_experiment d (last_opt xs) x) ts1); [discriminate Hrej | exact I].
    - rewrite Hshape. simpl. rewrite bind_ret. apply res_agree_refl.
  Qed.

  (* C19_reject: a whole file, group statements anywhere in it *)
  Lemma file_vs_expansion ss : forall ts,
    match expand_file ss with
    | None => is_ok (exec_stmts ss ts) = false
    | Some cs => res_agree (exec_stmts ss ts) (run_calls shim cs ts)
    end.
  Proof.
    induction ss as [|s ss IH]; intros ts.
    - simpl. reflexivity.
    - destruct s as [c|d]; cbn [expand_file exec_stmts exec_stmt].
      + destruct (shim c ts) as [ts1|e1] eqn:Es.
        * specialize (IH ts1). destruct (expand_file ss) as [cs|]; simpl.
          -- rewrite Es. exact IH.
          -- exact IH.
        * destruct (expand_file ss) as [cs|]; simpl; [rewrite Es; exact I | reflexivity].
      + pose proof (group_vs_expansion d ts) as Hg.
        destruct (doc_calls d) as [cs|].
        * destruct (group_impl shim d ts) as [ts1|e1] eqn:Eg.
          -- destruct (run_calls shim cs ts) as [ts2|e2] eqn:Er; [|contradiction]. simpl in Hg. subst ts2.
             specialize (IH ts1). cbn [bind]. destruct (expand_file ss) as [cs'|].
             ++ rewrite run_calls_app, Er. exact IH.
             ++ exact IH.
          -- destruct (run_calls shim cs ts) as [ts2|e2] eqn:Er; [contradiction|].
             cbn [bind]. destruct (expand_file ss) as [cs'|]; [|reflexivity].
             rewrite run_calls_app, Er. exact I.
        * destruct (group_impl shim d ts); [discriminate Hg | reflexivity].
  Qed.
End WithTable.

(* ---------- definitions of the documented form ---------- *)
(* every member is an ExperimentInstance, the instance names are pairwise different strings and
   deps (when given) is a list: then nothing is diagnosed and group_doc is the plain expansion *)
Definition GroupDocForm (d : gdef) (xs : list instance) : Prop :=
  g_experiments d = Some (map MInst xs) /\
  (exists names, map i_name xs = map VStr names /\ NoDup names) /\
  (exists l, task_deps_of d = VList l).

Lemma py_in_strs s names :
  py_in (VStr s) (map VStr names) = Some (mem_str s names).
Proof.
  unfold py_in. simpl. f_equal. unfold mem_str. induction names as [|n names IH]; simpl; [reflexivity|].
  rewrite IH. reflexivity.
Qed.

Lemma split_good_docform d l xs : forall earlier names_e names,
  task_deps_of d = VList l ->
  map i_name earlier = map VStr names_e -> map i_name xs = map VStr names ->
  NoDup (names_e ++ names) ->
  split_good d earlier (map MInst xs) = (xs, None).
Proof.
  intros earlier names_e names Hl. revert earlier names_e names.
  induction xs as [|x xs IH]; intros earlier names_e names He Hx Hnd.
  - reflexivity.
  - destruct names as [|n names]; [discriminate Hx|]. simpl in Hx. inversion Hx as [[Hn Hx']].
    assert (Hp : member_problem d earlier (MInst x) = None).
    { cbn [member_problem]. rewrite Hn, He, py_in_strs.
      assert (Hm : mem_str n names_e = false).
      { apply mem_str_false. intros Hin. apply NoDup_remove_2 in Hnd. apply Hnd.
        apply in_or_app. auto. }
      rewrite Hm, Hl. destruct (g_chain d); [|reflexivity]. destruct earlier; reflexivity. }
    simpl map. rewrite (split_good_ok d earlier x (map MInst xs) Hp).
    rewrite (IH (earlier ++ [x]) (names_e ++ [n]) names).
    + reflexivity.
    + rewrite !map_app, He. simpl. rewrite Hn. reflexivity.
    + exact Hx'.
    + rewrite <- app_assoc. exact Hnd.
Qed.

Lemma group_doc_docform d xs : GroupDocForm d xs -> group_doc d = (expansion d xs, None).
Proof.
  intros (He & (names & Hn & Hnd) & (l & Hl)). unfold group_doc. rewrite He.
  rewrite (split_good_docform d l xs [] [] names Hl eq_refl Hn Hnd). reflexivity.
Qed.
