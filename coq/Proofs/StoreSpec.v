(* Vocabulary of the theorems in Props/C06.v and Props/C08.v (definitions only). *)
From Coq Require Import List NArith Bool.
From Conductor Require Import Lib.Str Model.Store.
Import ListNotations.
Open Scope N_scope.

(* a recorded version's directory is what the property demands: completely there (no copy in
   progress), produced by an execution whose task process is gone with exit status 0, written by
   that execution only, planned under the HEAD the row carries, and holding args.json /
   options.json whenever the task has arguments / options *)
Definition good (r : row) (d : dir) : Prop :=
  d_partial d = false /\ d_rc d = Some 0 /\ incl (d_started d) [d_owner d] /\ d_head d = r_head r /\
  (fst (d_need d) = true -> d_args d = true) /\ (snd (d_need d) = true -> d_opts d = true).

Definition rows_good (D : fs) (R : list row) : Prop :=
  forall r, In r R -> exists d, lookup (row_key r) D = Some d /\ good r d.

(* the invariant of C06: every committed row has its directory, and the directory is good *)
Definition Inv (s : state) : Prop := rows_good (s_dirs s) (s_rows s).

(* an archive handed to `cond restore` was produced by `cond archive` from a project in which
   Inv held (see [archive_of] / C06_archive_ok); members may be missing *)
Definition archive_ok (a : archive) : Prop := forall r d, In (r, Some d) a -> good r d.

Definition label_ok (l : label) : Prop :=
  match l with LBegin (CRestore a) => archive_ok a | _ => True end.

(* what `cond archive` packs: the selected committed rows with their directories *)
Definition archive_of (sel : row -> bool) (s : state) : archive :=
  map (fun r => (r, lookup (row_key r) (s_dirs s))) (filter sel (s_rows s)).

(* committed and uncommitted rows *)
Definition txn_of (s : state) : list row :=
  match s_proc s with
  | Some (PRun _ _ _ txn) => txn
  | Some (PRestore _ txn _) => txn
  | _ => []
  end.
Definition all_rows (s : state) : list row := s_rows s ++ txn_of s.

Definition ops_of (s : state) : list op :=
  match s_proc s with Some (PRun _ _ ops _) => ops | _ => [] end.

(* states reachable from the empty project by any sequence of steps of any commands, task
   processes, kills and crashes, under any clock *)
Definition reachable (clock : nat -> N) (s : state) : Prop :=
  exists ls, Forall label_ok ls /\ s = run clock ls init.

Definition is_clean (l : label) : bool := match l with LCleanAll | LCleanIndex | LCleanDir _ => true | _ => false end.
