(* The verdict of `cond run`, end to end on the composed model (Model/RunCase.cond_run): the run ends
   with "Done!" exactly when nothing failed and nothing was skipped -- and then every planned
   operation ran and finished with status 0 -- and with a failure report naming at least one failed
   operation otherwise; the `assert len(failed_task_ops) > 0` of _report_execution_results cannot
   fire for any project the loader accepts. *)
From Coq Require Import List Arith Bool Lia NArith.
From Conductor Require Import Model.Loader Model.Planner Model.Exec Model.RunCase
  Proofs.ListFacts Proofs.LoaderProofs Proofs.PlannerInv Proofs.PlannerThm Proofs.PlannerExact
  Proofs.ExecInv Proofs.ExecTheorems Proofs.ExecMain Proofs.ExecStatus Proofs.Compose Proofs.ComposeRun.
Import ListNotations.

Lemma nreach_root_cached info sr again root t :
  NReach info sr again root t -> runs sr again root = false -> t = root.
Proof. induction 1 as [|x y _ IH Hr _]; intros Hc; [reflexivity|]. rewrite (IH Hc) in Hr. congruence. Qed.

Lemma composed_root fuel tasks c loaded ps :
  load_closure (graph_of tasks) fuel (c_root c) = Ok loaded ->
  plan_for (info_of tasks) (sr_of tasks) (c_again c) fuel (c_root c) = Some ps ->
  (exists o, o < length (p_ops (plan_of ps)) /\ op_task (opi (plan_of ps) o) = c_root c) \/
  (length (p_ops (plan_of ps)) = 0 /\ In (c_root c) (p_cached (plan_of ps))).
Proof.
  intros Hload Hplan.
  destruct (composed_exact tasks (c_root c) fuel loaded Hload (sr_of tasks) (c_again c) fuel ps Hplan) as (H1 & _ & H3 & _).
  destruct (runs (sr_of tasks) (c_again c) (c_root c)) eqn:Er.
  - left. apply (H1 (c_root c)). split; [constructor | exact Er].
  - right. split.
    + cbn [plan_of p_ops]. destruct (length (ops ps)) as [|k] eqn:El; [reflexivity|]. exfalso.
      assert (Hn : Needed (info_of tasks) (sr_of tasks) (c_again c) (c_root c) (op_task (op_at (ops ps) 0)))
        by (apply H1; exists 0; split; [lia | reflexivity]).
      destruct Hn as [Hr Hrun]. rewrite (nreach_root_cached _ _ _ _ _ Hr Er) in Hrun. congruence.
    + cbn [plan_of p_cached]. apply H3. split; [constructor | exact Er].
Qed.

Theorem cond_run_verdict fuel tasks c loaded ps evs :
  cond_run fuel tasks c = ORun loaded ps (Some evs) -> 1 <= c_jobs c ->
  ~ In EAssertFail evs /\
  (In EDone evs <-> forall e, In e evs -> is_failure e = false /\ is_skip e = false) /\
  (In EDone evs -> forall o, o < length (ops ps) -> In (EFinish o 0%N) evs) /\
  (~ In EDone evs -> exists f sk, In (EFailed f sk) evs /\ f <> []).
Proof.
  intros H Hjobs.
  destruct (cond_run_unfold _ _ _ _ _ _ H) as (Hload & Hplan & s & Hfin & Hev).
  pose proof (composed_wf tasks (c_root c) fuel loaded Hload (sr_of tasks) (c_again c) fuel ps Hplan) as Hwf.
  pose proof (composed_root fuel tasks c loaded ps Hload Hplan) as Hroot.
  set (p := plan_of ps) in *. set (orc := oracle_of p c) in *.
  pose proof (final_reachable _ _ _ _ _ Hfin) as Hreach.
  pose proof (reachable_inv _ _ _ _ _ Hwf Hjobs Hreach) as HI.
  destruct (reachable_events p (c_jobs c) (c_stop c) orc s Hreach) as [Hloop _].
  destruct (verdict p (c_jobs c) (c_stop c) orc Hwf Hjobs (c_root c) Hroot s Hfin) as [Vt Vf].
  assert (Hin : forall e, In e evs <-> In e (report p (c_root c) s) \/ In e (trace s)).
  { intros e. rewrite Hev, <- in_rev, in_app_iff. reflexivity. }
  assert (Hnt : forall e, In e (trace s) -> e <> EDone /\ e <> EAssertFail).
  { intros e He. specialize (Hloop e He). split; intros ->; exact Hloop. }
  destruct (forallb (succeeded s) (completed s)) eqn:Hall.
  - destruct (Vt eq_refl) as (Erep & Hst & Hcomp). clear Vt Vf.
    assert (Hdone : In EDone evs) by (apply Hin; left; rewrite Erep; left; reflexivity).
    split; [|split; [|split]].
    + intros Ha. apply Hin in Ha as [Ha|Ha].
      * rewrite Erep in Ha. destruct Ha as [Ha|[Ha|[]]]; discriminate.
      * now destruct (Hnt _ Ha).
    + split; [|intros _; exact Hdone]. intros _ e He. apply Hin in He as [He|He].
      * rewrite Erep in He. destruct He as [<-|[<-|[]]]; split; reflexivity.
      * exact (all_ok_no_bad_event p (c_jobs c) (c_stop c) orc s HI Hall e He).
    + intros _ o Ho. apply Hin. right. apply (all_ok_all_finished p (c_jobs c) (c_stop c) orc s HI Hall). now apply Hcomp.
    + intros Hn. contradiction.
  - destruct (Vf eq_refl) as (f & sk & Erep & Hne). clear Vt Vf.
    assert (Hnd : ~ In EDone evs).
    { intros Hd. apply Hin in Hd as [Hd|Hd].
      - rewrite Erep in Hd. destruct Hd as [Hd|[Hd|[]]]; discriminate.
      - now destruct (Hnt _ Hd). }
    split; [|split; [|split]].
    + intros Ha. apply Hin in Ha as [Ha|Ha].
      * rewrite Erep in Ha. destruct Ha as [Ha|[Ha|[]]]; discriminate.
      * now destruct (Hnt _ Ha).
    + split; [intros Hd; contradiction|]. intros Hno. exfalso.
      destruct (not_all_ok_bad_event p (c_jobs c) (c_stop c) orc s HI Hall) as (e & He & Hbad).
      assert (Hie : In e evs) by (apply Hin; right; exact He).
      destruct (Hno e Hie) as [A B]. destruct Hbad; congruence.
    + intros Hd. contradiction.
    + intros _. exists f, sk. split; [|exact Hne]. apply Hin. left. rewrite Erep. left. reflexivity.
Qed.
