(* Facts about the explicit commit graph of Model/Select.v (the functions the harness compares
   with `git merge-base --is-ancestor` and `git rev-list --count`): on a well-formed history
   "ancestor-or-equal" is a partial order, a commit is at distance 0 from itself and every other
   ancestor is at distance >= 1.  Consequence for the selection: a version recorded at the
   current commit always wins, so a task that has just run is not run again by --this-commit. *)
From Coq Require Import List Arith NArith Bool Lia ZifyBool ZifyN ZifyNat.
From Conductor Require Import Lib.Str Model.Select Proofs.SelectSpec Proofs.SelectProofs.
Import ListNotations.
Open Scope N_scope.

Definition keys (t : list (cid * list cid)) : list cid := map fst t.

Lemma mem_In c l : mem c l = true <-> In c l.
Proof.
  unfold mem. rewrite existsb_exists. split.
  - intros [x [Hx E]]. apply N.eqb_eq in E. now subst.
  - intros H. exists c. split; auto. apply N.eqb_refl.
Qed.

Lemma dedup_In x l : In x (dedup l) <-> In x l.
Proof.
  induction l as [|a l IH]; simpl; [tauto|].
  destruct (mem a l) eqn:E.
  - rewrite IH. split; auto. intros [<-|H]; auto. now apply mem_In.
  - simpl. rewrite IH. tauto.
Qed.

Lemma lookup_head c l t : lookup c ((c, l) :: t) = l.
Proof. simpl. now rewrite N.eqb_refl. Qed.

Lemma lookup_tail c k l t : k <> c -> lookup c ((k, l) :: t) = lookup c t.
Proof. intros H. simpl. destruct (N.eqb_spec k c); congruence. Qed.

Lemma lookup_nonempty_key c t x : In x (lookup c t) -> In c (keys t).
Proof.
  induction t as [|[k l] t IH]; simpl; [tauto|].
  destruct (N.eqb_spec k c); auto.
Qed.

(* newest first: everything reachable from a commit is the commit itself or an earlier one *)
Fixpoint ordered (t : list (cid * list cid)) : Prop :=
  match t with
  | [] => True
  | (k, l) :: t' => (forall x, In x l -> x = k \/ In x (keys t')) /\ ordered t'
  end.

Lemma lookup_in_keys t : ordered t -> forall k x, In x (lookup k t) -> In x (keys t).
Proof.
  induction t as [|[k0 l0] t IH]; simpl; [tauto|].
  intros [H0 Ho] k x. destruct (N.eqb_spec k0 k).
  - intros Hx. destruct (H0 x Hx); auto.
  - intros Hx. right. eapply IH; eauto.
Qed.

Record TInv (t : list (cid * list cid)) : Prop := {
  ti_nodup : NoDup (keys t);
  ti_ordered : ordered t;
  ti_refl : forall k, In k (keys t) -> In k (lookup k t);
  ti_trans : forall k x, In x (lookup k t) -> incl (lookup x t) (lookup k t)
}.

Lemma tinv_step t c ps :
  TInv t -> ~ In c (keys t) -> (forall p, In p ps -> In p (keys t)) ->
  TInv ((c, dedup (c :: flat_map (fun p => lookup p t) ps)) :: t).
Proof.
  intros [ND OR RF TR] Hc Hps.
  set (L := dedup (c :: flat_map (fun p => lookup p t) ps)).
  assert (HL : forall x, In x L -> x = c \/ (In x (keys t) /\ exists p, In p ps /\ In x (lookup p t))).
  { intros x Hx. apply dedup_In in Hx as [<-|Hx]; auto.
    right. apply in_flat_map in Hx as [p [Hp Hx]]. split; eauto. eapply lookup_in_keys; eauto. }
  assert (Hne : forall x, In x (keys t) -> c <> x) by (intros x Hx ->; auto).
  constructor.
  - simpl. constructor; auto.
  - simpl. split; auto. intros x Hx. destruct (HL x Hx) as [->|[H _]]; auto.
  - intros k [<-|Hk]; simpl keys in *.
    + rewrite lookup_head. apply dedup_In. now left.
    + rewrite lookup_tail by (simpl; auto). auto.
  - intros k x. destruct (N.eq_dec c k) as [<-|Hck].
    + rewrite lookup_head. intros Hx. destruct (HL x Hx) as [->|[Hk [p [Hp Hxp]]]].
      * rewrite lookup_head. apply incl_refl.
      * rewrite lookup_tail by (simpl; auto).
        intros y Hy. apply dedup_In. right. apply in_flat_map. exists p. split; auto.
        eapply TR; eauto.
    + rewrite (lookup_tail k c) by auto. intros Hx.
      assert (In x (keys t)) by (eapply lookup_in_keys; eauto).
      rewrite lookup_tail by (simpl; auto). now apply TR.
Qed.

Lemma reach_table_inv d : forall acc,
  wf_dag d (keys acc) -> TInv acc -> TInv (reach_table d acc).
Proof.
  induction d as [|[c ps] d IH]; intros acc W I; simpl; auto.
  destruct W as [Hc [Hps W]]. apply IH.
  - exact W.
  - now apply tinv_step.
Qed.

Lemma reach_table_keys d : forall acc, keys (reach_table d acc) = rev (map fst d) ++ keys acc.
Proof.
  induction d as [|[c ps] d IH]; intros acc; simpl; auto.
  rewrite IH. simpl. rewrite <- app_assoc. reflexivity.
Qed.

Lemma tinv_nil : TInv [].
Proof. constructor; simpl; try tauto. constructor. Qed.

Lemma known_In d c : known d c = true <-> In c (map fst d).
Proof.
  unfold known. rewrite existsb_exists. split.
  - intros [e [He E]]. apply N.eqb_eq in E. subst. now apply in_map.
  - intros H. apply in_map_iff in H as [e [<- He]]. exists e. split; auto. apply N.eqb_refl.
Qed.

Lemma tinv_antisym t : NoDup (keys t) -> ordered t ->
  forall a b, In b (lookup a t) -> In a (lookup b t) -> a = b.
Proof.
  induction t as [|[k l] t IH]; simpl; [tauto|].
  intros ND [H0 Ho] a b. inversion ND as [|x l' Hn ND']; subst.
  destruct (N.eqb_spec k a) as [Eka|Hka]; destruct (N.eqb_spec k b) as [Ekb|Hkb].
  - intros; congruence.
  - subst a. intros Hb Ha. exfalso. destruct (H0 b Hb) as [->|Hbk]; [congruence|].
    apply Hn. eapply lookup_in_keys; eauto.
  - subst b. intros Hb Ha. exfalso. apply Hn. eapply lookup_in_keys; eauto.
  - apply IH; auto.
Qed.

Lemma filter_mem_incl l : forall l', incl l' l -> filter (fun x => negb (mem x l)) l' = [].
Proof.
  induction l' as [|y l' IH]; simpl; auto. intros Hi.
  assert (My : mem y l = true) by (apply mem_In; apply Hi; now left).
  rewrite My. simpl. apply IH. intros z Hz. apply Hi. now right.
Qed.

Section Dag.
  Variable d : dag.
  Hypothesis WF : wf_dag d [].

  Let T := reach_table d [].
  Lemma T_inv : TInv T.
  Proof. apply reach_table_inv; [exact WF | exact tinv_nil]. Qed.

  Theorem dag_anc_refl c : known d c = true -> dag_is_ancestor d c c = true.
  Proof.
    intros K. unfold dag_is_ancestor. apply mem_In. apply (ti_refl _ T_inv).
    unfold T. rewrite reach_table_keys. simpl. rewrite app_nil_r. apply in_rev.
    rewrite rev_involutive. now apply known_In.
  Qed.

  Theorem dag_anc_trans a b c :
    dag_is_ancestor d a b = true -> dag_is_ancestor d b c = true -> dag_is_ancestor d a c = true.
  Proof.
    unfold dag_is_ancestor. rewrite !mem_In. intros H1 H2. eapply (ti_trans _ T_inv); eauto.
  Qed.

  Theorem dag_anc_antisym a b :
    dag_is_ancestor d a b = true -> dag_is_ancestor d b a = true -> a = b.
  Proof.
    unfold dag_is_ancestor. rewrite !mem_In.
    apply tinv_antisym; [apply (ti_nodup _ T_inv) | apply (ti_ordered _ T_inv)].
  Qed.

  (* an unknown object is neither an ancestor nor has ancestors *)
  Theorem dag_anc_known a b : dag_is_ancestor d a b = true -> known d a = true /\ known d b = true.
  Proof.
    unfold dag_is_ancestor. rewrite mem_In. intros H.
    assert (Ka : In a (keys T)) by (eapply lookup_nonempty_key; eauto).
    assert (Kb : In b (keys T)) by (eapply lookup_in_keys; [apply (ti_ordered _ T_inv)|]; eauto).
    unfold T in Ka, Kb. rewrite reach_table_keys in Ka, Kb. simpl in Ka, Kb. rewrite app_nil_r in Ka, Kb.
    apply in_rev in Ka, Kb. rewrite !known_In. auto.
  Qed.

  Theorem dag_distance_self h : dag_distance d h h = 0.
  Proof.
    unfold dag_distance. fold T.
    assert (E : filter (fun x => negb (mem x (lookup h T))) (lookup h T) = [])
      by (apply filter_mem_incl, incl_refl).
    rewrite E. reflexivity.
  Qed.

  Theorem dag_distance_pos h c :
    dag_is_ancestor d h c = true -> c <> h -> 0 < dag_distance d h c.
  Proof.
    intros A Hne. unfold dag_distance. fold T.
    destruct (dag_anc_known _ _ A) as [Kh _].
    assert (Hh : In h (lookup h T)) by (apply mem_In; now apply dag_anc_refl).
    assert (Hn : mem h (lookup c T) = false).
    { destruct (mem h (lookup c T)) eqn:E; auto. exfalso. apply Hne.
      symmetry. apply dag_anc_antisym; auto. }
    assert (In h (filter (fun x => negb (mem x (lookup c T))) (lookup h T))).
    { apply filter_In. split; auto. now rewrite Hn. }
    destruct (filter (fun x => negb (mem x (lookup c T))) (lookup h T)); [contradiction|]. simpl. lia.
  Qed.

  (* a version recorded at the current commit is preferred to every version of another commit *)
  Theorem dag_head_version_wins h vs v w :
    known d h = true -> In w vs -> commit w = Some h ->
    dag_select d (Head h) vs = Some v -> commit v = Some h.
  Proof.
    intros K Hw Cw S. unfold dag_select in S. apply select_head_some in S as [[Hv [Av B]]|[Hn _]].
    - assert (Aw : anc_v (dag_is_ancestor d) h w) by (exists h; split; auto; now apply dag_anc_refl).
      specialize (B w Hw Aw). destruct Av as [c [Cv Ac]].
      unfold closer, dist_v in B. rewrite Cv, Cw, dag_distance_self in B.
      destruct (N.eq_dec c h) as [->|Hne]; auto.
      pose proof (dag_distance_pos h c Ac Hne). lia.
    - specialize (Hn w Hw). congruence.
  Qed.

  (* ... hence --this-commit (= --at-least HEAD) does not run a task again once it has a
     version recorded at HEAD *)
  Theorem dag_this_commit_idempotent h vs w :
    known d h = true -> In w vs -> commit w = Some h ->
    executes (dag_is_ancestor d) (dag_distance d) false (Some h) (Head h) vs = false.
  Proof.
    intros K Hw Cw. unfold executes. cbn [orb].
    destruct (select (dag_is_ancestor d) (dag_distance d) (Head h) vs) as [v|] eqn:S.
    - pose proof (dag_head_version_wins h vs v w K Hw Cw S) as Cv.
      unfold should_run. rewrite Cv, N.eqb_refl. reflexivity.
    - exfalso. apply select_head_none in S as [NA _]. apply (NA w Hw).
      exists h. split; auto. now apply dag_anc_refl.
  Qed.
End Dag.
