(* C01 at task level, transitively, end to end: when `cond run` starts the operation of a task,
   EVERY task it reaches in the task graph through tasks that are executed in this invocation has
   already finished with status 0, was started before, and is never started again.  (The remaining
   case of the literal property -- a path through a cached experiment -- is the known finding F1,
   refuted in Props/C01.v.) *)
From Coq Require Import List Arith Bool Lia NArith.
From Conductor Require Import Model.Loader Model.Planner Model.Exec Model.RunCase
  Proofs.ListFacts Proofs.LoaderProofs Proofs.PlannerInv Proofs.PlannerThm Proofs.PlannerExact Proofs.PlannerOrder
  Proofs.ExecInv Proofs.ExecTheorems Proofs.ExecMain Proofs.Compose Proofs.ComposeExec Proofs.ComposeRun.
Import ListNotations.

Theorem cond_run_transitive_deps_first fuel tasks c loaded ps evs :
  cond_run fuel tasks c = ORun loaded ps (Some evs) -> 1 <= c_jobs c ->
  forall pre ox sl post, evs = pre ++ EStart ox sl :: post ->
  ox < length (ops ps) /\
  forall d, RPath tasks c (op_task (op_at (ops ps) ox)) d ->
  exists od, od < length (ops ps) /\ op_task (op_at (ops ps) od) = d /\
             In (EFinish od 0%N) pre /\ (exists sl', In (EStart od sl') pre) /\ (forall sl', ~ In (EStart od sl') post).
Proof.
  intros H Hjobs pre ox sl post E.
  destruct (cond_run_unfold _ _ _ _ _ _ H) as (Hload & Hplan & s & Hfin & Hev).
  pose proof (composed_wf tasks (c_root c) fuel loaded Hload (sr_of tasks) (c_again c) fuel ps Hplan) as Hwf.
  pose proof (final_reachable _ _ _ _ _ Hfin) as Hreach.
  pose proof (reachable_inv _ _ _ _ _ Hwf Hjobs Hreach) as HI.
  destruct (evs_split_trace _ _ _ _ _ _ _ _ Hev E) as (post' & Epost & Etr).
  assert (Hox : ox < length (ops ps)).
  { apply (started_lt (plan_of ps) (c_jobs c) (c_stop c) (oracle_of (plan_of ps) c) s ox sl HI). rewrite Etr. apply in_or_app. right. left. reflexivity. }
  split; [exact Hox|]. intros d Hd.
  destruct (rpath_op_path tasks c fuel loaded ps Hload Hplan _ _ Hd ox Hox eq_refl) as (od & Hodn & Et & Hp).
  destruct (main_op_order (plan_of ps) (c_jobs c) (c_stop c) (oracle_of (plan_of ps) c) Hwf Hjobs s ox sl post' (rev pre) od Hreach Etr Hp) as (A & (sl0 & B) & C).
  exists od. split; [exact Hodn|]. split; [exact Et|]. split; [now apply in_rev in A|]. split.
  - exists sl0. now apply in_rev in B.
  - intros sl' Hin. apply (C sl'). apply in_rev in Hin. rewrite Epost in Hin. apply in_app_or in Hin as [Hin|Hin]; [|exact Hin].
    exfalso. eapply report_no_start; eauto.
Qed.
