(* Tie between Model/Gc.v and the per-entry decision TRANSLATED from cli/gc.py main in the working
   tree (Gen/Generated.v gen_gc_decision): what the scan does with one directory entry. *)
From Coq Require Import List NArith Bool.
From Conductor Require Import Lib.Str Lib.PyRegex Gen.Generated Model.Ident Model.Gc.
Import ListNotations.
Open Scope N_scope.

Lemma scan_takes_the_sources_decision rec p n is_dir es stack to_delete :
  scan rec p ((n, is_dir) :: es) stack to_delete =
  match gen_gc_decision is_dir (py_match gc_experiment_task_regex n) (py_match gc_regular_task_regex n)
                        (recorded rec {| ipath := p; iname := exp_name n |} (exp_ts n)) with
  | 0 => scan rec p es stack to_delete
  | 1 => scan rec p es ((p ++ [n]) :: stack) to_delete
  | _ => scan rec p es stack (to_delete ++ [p ++ [n]])
  end.
Proof.
  cbn [scan]. unfold gen_gc_decision.
  destruct is_dir; [|reflexivity]. cbn [negb].
  destruct (py_match gc_experiment_task_regex n); cbn [negb].
  - destruct (recorded rec _ _); reflexivity.
  - destruct (py_match gc_regular_task_regex n); reflexivity.
Qed.
