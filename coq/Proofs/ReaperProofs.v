(* The child-reaping protocol (Model/Reaper.v): no lost wake-up, conservation of exits, inevitable
   return of wait() -- for every interleaving of child exits, signal deliveries, handler runs and
   steps of wait(); and the machine-checked record of the lost wake-up of the old protocol (D17). *)
From Coq Require Import List Arith Bool Lia Permutation.
From Conductor Require Import Model.Reaper.
Import ListNotations.

(* the events of the environment (a child exits; a child is stopped or continued): everything else is a step of the program *)
Definition isExit (e : revent) : bool := match e with EvExit _ _ | EvStop => true | _ => false end.

Record RInv (s : rstate) : Prop := {
  j_cover : zombies s <> [] -> kpending s = true \/ tripped s = true;
  j_read_empty : pc s = PRead -> rcs s = [];
  j_read_byte : pc s = PRead -> tripped s = true -> 1 <= pipe s
}.

Lemma rinv_init : RInv rinit.
Proof. constructor; cbn; intros; try discriminate; congruence. Qed.

Lemma pc_eqb_true a b : pc_eqb a b = true <-> a = b.
Proof. destruct a, b; cbn; split; intros; try discriminate; try reflexivity. Qed.

Lemma rev_nil_inv {A} (l : list A) : rev l = [] -> l = [].
Proof. intros H. apply (f_equal (@rev A)) in H. now rewrite rev_involutive in H. Qed.

Lemma rstep_inv s e s' : RInv s -> rstep false s e = Some s' -> RInv s'.
Proof.
  intros [J1 J2 J3] H. destruct e; cbn [rstep] in H.
  - inversion H; subst s'. constructor; cbn; auto.
  - destruct (kpending s); [|discriminate]. inversion H; subst s'. constructor; cbn; auto. intros; lia.
  - destruct (tripped s && negb (pc_eqb (pc s) PRead)) eqn:E; [|discriminate]. inversion H; subst s'.
    apply andb_true_iff in E as [_ E]. apply negb_true_iff in E.
    constructor; cbn; [congruence | |]; intros Hp; rewrite Hp in E; discriminate.
  - destruct (pc_eqb (pc s) PIdle); [|discriminate]. inversion H; subst s'. constructor; cbn; auto; discriminate.
  - destruct (pc_eqb (pc s) PTest && negb (tripped s)) eqn:E; [|discriminate].
    apply andb_true_iff in E as [_ E]. apply negb_true_iff in E.
    destruct (rev (rcs s)) as [|last rest] eqn:Er; inversion H; subst s'; constructor; cbn; auto; try discriminate.
    + intros _. now apply rev_nil_inv.
    + intros _ Ht. congruence.
  - destruct (pc_eqb (pc s) PRead); [|discriminate]. destruct (pipe s); [discriminate|].
    inversion H; subst s'. constructor; cbn; auto; discriminate.
  - inversion H; subst s'. constructor; cbn; auto.
Qed.

Lemma rrun_inv tr : forall s s', RInv s -> rrun false s tr = Some s' -> RInv s'.
Proof.
  induction tr as [|e tr IH]; intros s s' I H; cbn in H; [inversion H; subst; exact I|].
  destruct (rstep false s e) as [s1|] eqn:E; [|discriminate]. eapply IH; [eapply rstep_inv; eauto | exact H].
Qed.

(* no lost wake-up: whenever the main thread sleeps in read() with nothing left to wake it, there is
   nothing to wait for -- no unreaped child and no unconsumed return code *)
Theorem no_lost_wakeup s : RInv s -> blocked s = true -> zombies s = [] /\ rcs s = [].
Proof.
  intros [J1 J2 J3] B. unfold blocked in B. apply andb_true_iff in B as [B Bk]. apply andb_true_iff in B as [Bp Bn].
  apply pc_eqb_true in Bp. apply Nat.eqb_eq in Bn. apply negb_true_iff in Bk.
  assert (Ht : tripped s = false).
  { destruct (tripped s) eqn:E; [|reflexivity]. specialize (J3 Bp eq_refl). lia. }
  split; [|now apply J2].
  destruct (zombies s) as [|z zs] eqn:Ez; [reflexivity|]. destruct J1 as [H|H]; [discriminate | congruence | congruence].
Qed.

(* ---------- conservation: every exit is handed out exactly once, with its own status ---------- *)
Definition exits_of (tr : list revent) : list (nat * nat) :=
  flat_map (fun e => match e with EvExit p r => [(p, r)] | _ => [] end) tr.
Definition accounted (s : rstate) : list (nat * nat) := returned s ++ rcs s ++ zombies s.

Lemma rstep_conserves b s e s' :
  rstep b s e = Some s' -> Permutation (accounted s ++ exits_of [e]) (accounted s').
Proof.
  intros H. unfold accounted. destruct e; cbn [rstep exits_of flat_map app] in *.
  - inversion H; subst s'. cbn. rewrite ?app_nil_r, <- ?app_assoc. reflexivity.
  - destruct (kpending s); [|discriminate]. inversion H; subst s'. cbn. now rewrite ?app_nil_r.
  - destruct (_ && _); [|discriminate]. inversion H; subst s'. cbn. now rewrite ?app_nil_r, <- ?app_assoc.
  - destruct (pc_eqb _ _); [|discriminate]. inversion H; subst s'. cbn. now rewrite ?app_nil_r.
  - destruct (_ && _); [|discriminate]. destruct (rev (rcs s)) as [|last rest] eqn:Er; inversion H; subst s'; cbn; rewrite app_nil_r; [reflexivity|].
    assert (E : rcs s = rev rest ++ [last]).
    { apply (f_equal (@rev _)) in Er. rewrite rev_involutive in Er. rewrite Er. reflexivity. }
    rewrite E, <- !app_assoc. apply Permutation_app_head. cbn.
    symmetry. apply Permutation_middle.
  - destruct (pc_eqb _ _); [|discriminate]. destruct (pipe s); [discriminate|]. inversion H; subst s'. cbn. now rewrite app_nil_r.
  - inversion H; subst s'. cbn. now rewrite ?app_nil_r.
Qed.

Theorem exits_conserved b tr : forall s s',
  rrun b s tr = Some s' -> Permutation (accounted s ++ exits_of tr) (accounted s').
Proof.
  induction tr as [|e tr IH]; intros s s' H; cbn in H.
  - inversion H; subst. cbn. now rewrite app_nil_r.
  - destruct (rstep b s e) as [s1|] eqn:E; [|discriminate].
    assert (Ec : exits_of (e :: tr) = exits_of [e] ++ exits_of tr) by (unfold exits_of; cbn [flat_map]; now rewrite app_nil_r).
    rewrite Ec, app_assoc.
    etransitivity; [apply Permutation_app_tail; eapply rstep_conserves; eauto | now apply IH].
Qed.

Corollary exits_accounted tr s :
  rrun false rinit tr = Some s -> Permutation (exits_of tr) (returned s ++ rcs s ++ zombies s).
Proof. intros H. apply (exits_conserved false tr rinit s H). Qed.

(* ---------- wait() inevitably returns when there is something to return ---------- *)
Definition b2n (b : bool) : nat := if b then 1 else 0.
Definition mu (s : rstate) : nat :=
  4 * b2n (kpending s) + 2 * pipe s + b2n (tripped s) + match pc s with PTest => 1 | _ => 0 end.

Lemma rstep_mu s e s' : rstep false s e = Some s' -> isExit e = false -> e <> EvCall -> mu s' < mu s.
Proof.
  intros H He Hc. unfold mu. destruct e; cbn [rstep isExit] in *; try discriminate; try congruence.
  - destruct (kpending s); [|discriminate]. inversion H; subst s'. cbn. destruct (tripped s); cbn; lia.
  - destruct (tripped s) eqn:Et; cbn in H; [|discriminate]. destruct (negb _); [|discriminate]. inversion H; subst s'. cbn. lia.
  - destruct (pc_eqb (pc s) PTest) eqn:Ep; cbn in H; [|discriminate]. apply pc_eqb_true in Ep.
    destruct (negb (tripped s)); [|discriminate]. destruct (rev (rcs s)); inversion H; subst s'; cbn; rewrite Ep; lia.
  - destruct (pc_eqb (pc s) PRead) eqn:Ep; [|discriminate]. apply pc_eqb_true in Ep.
    destruct (pipe s) eqn:En; [discriminate|]. inversion H; subst s'. cbn. rewrite Ep. lia.
Qed.

Definition waiting (s : rstate) : Prop := zombies s <> [] \/ rcs s <> [].

(* on every continuation without further exits wait() returns: some step is always possible, and
   whatever step is taken leads to a state from which the return is again inevitable *)
Inductive Inev : rstate -> Prop :=
| inev_done s : pc s = PIdle -> Inev s
| inev_step s :
    (exists e s', isExit e = false /\ rstep false s e = Some s') ->
    (forall e s', isExit e = false -> rstep false s e = Some s' -> Inev s') ->
    Inev s.

Lemma can_step s : RInv s -> pc s <> PIdle -> waiting s -> exists e s', isExit e = false /\ rstep false s e = Some s'.
Proof.
  intros I Hp Hw. destruct (pc s) eqn:Ep; [congruence| |].
  - destruct (tripped s) eqn:Et.
    + exists EvHandler. eexists. split; [reflexivity|]. cbn [rstep]. rewrite Et, Ep. reflexivity.
    + exists EvTest. cbn [rstep isExit]. rewrite Et, Ep. cbn [pc_eqb negb andb]. destruct (rev (rcs s)); eexists; split; reflexivity.
  - destruct (pipe s) eqn:En.
    + destruct (kpending s) eqn:Ek.
      * exists EvDeliver. eexists. split; [reflexivity|]. cbn [rstep]. rewrite Ek. reflexivity.
      * exfalso. assert (B : blocked s = true) by (unfold blocked; rewrite Ep, En, Ek; reflexivity).
        destruct (no_lost_wakeup s I B) as [Hz Hr]. destruct Hw; contradiction.
    + exists EvRead. eexists. split; [reflexivity|]. cbn [rstep]. rewrite Ep, En. reflexivity.
Qed.

Lemma waiting_step s e s' : rstep false s e = Some s' -> isExit e = false -> waiting s -> pc s' <> PIdle -> waiting s'.
Proof.
  intros H He Hw Hp. unfold waiting in *. destruct e; cbn [rstep isExit] in *; try discriminate.
  - destruct (kpending s); [|discriminate]. inversion H; subst s'. exact Hw.
  - destruct (_ && _); [|discriminate]. inversion H; subst s'. cbn. right.
    destruct Hw as [Hz|Hr]; [destruct (zombies s); [congruence|]; destruct (rcs s); discriminate | destruct (rcs s); [congruence | discriminate]].
  - destruct (pc_eqb _ _); [|discriminate]. inversion H; subst s'. exact Hw.
  - destruct (_ && _); [|discriminate]. destruct (rev (rcs s)); inversion H; subst s'; cbn in *; [exact Hw | congruence].
  - destruct (pc_eqb _ _); [|discriminate]. destruct (pipe s); [discriminate|]. inversion H; subst s'. exact Hw.
Qed.

Theorem wait_inevitably_returns s : RInv s -> waiting s -> Inev s.
Proof.
  remember (mu s) as m eqn:Em. revert s Em. induction m as [m IH] using lt_wf_ind. intros s Em I Hw.
  destruct (pc s) eqn:Ep; [now apply inev_done| |].
  - apply inev_step; [apply can_step; [assumption | congruence | assumption]|].
    intros e s' He Hs. assert (Hc : e <> EvCall) by (intros ->; cbn in Hs; rewrite Ep in Hs; discriminate).
    destruct (pc s') eqn:Ep'; [now apply inev_done| |];
      (eapply IH; [|reflexivity | eapply rstep_inv; eauto | eapply waiting_step; eauto; congruence]; subst m; eapply rstep_mu; eauto).
  - apply inev_step; [apply can_step; [assumption | congruence | assumption]|].
    intros e s' He Hs. assert (Hc : e <> EvCall) by (intros ->; cbn in Hs; rewrite Ep in Hs; discriminate).
    destruct (pc s') eqn:Ep'; [now apply inev_done| |];
      (eapply IH; [|reflexivity | eapply rstep_inv; eauto | eapply waiting_step; eauto; congruence]; subst m; eapply rstep_mu; eauto).
Qed.

(* ---------- the old protocol loses a wake-up (D17, repaired by /repo 2ba821d) ---------- *)
Theorem old_protocol_refuted :
  exists tr s, rrun true rinit tr = Some s /\ blocked s = true /\ zombies s <> [].
Proof.
  exists [EvCall; EvTest; EvExit 7 0; EvDeliver]. eexists. split; [vm_compute; reflexivity|]. split; [reflexivity | discriminate].
Qed.

Lemma NoDup_app_l {A} (a b : list A) : NoDup (a ++ b) -> NoDup a.
Proof.
  induction a as [|x a IH]; intros H; [constructor|]. cbn in H. inversion H as [|? ? Hx Hr]; subst.
  constructor; [|auto]. intros Hin. apply Hx. apply in_or_app. now left.
Qed.

(* ---------- what the executor sees: the results of wait() are an admissible completion oracle ----------
   Model/Exec.v lets an arbitrary oracle choose which in-flight process "exits next" and reads its
   status from [rc_of].  This is what justifies it: along ANY run of the protocol in which every
   child exits once, the values wait() has handed out are pairwise distinct children, each with the
   status it exited with, and nothing that has not exited. *)
Theorem wait_results_admissible tr s :
  rrun false rinit tr = Some s -> NoDup (map fst (exits_of tr)) ->
  NoDup (map fst (returned s)) /\
  (forall p rc, In (p, rc) (returned s) -> In (p, rc) (exits_of tr)) /\
  (forall p rc rc', In (p, rc) (returned s) -> In (p, rc') (exits_of tr) -> rc = rc').
Proof.
  intros H Hnd. pose proof (exits_accounted tr s H) as Hp.
  assert (Hnd' : NoDup (map fst (returned s ++ rcs s ++ zombies s))).
  { eapply Permutation_NoDup; [apply Permutation_map; exact Hp | exact Hnd]. }
  split; [|split].
  - rewrite map_app in Hnd'. now apply NoDup_app_l in Hnd'.
  - intros p rc Hin. eapply Permutation_in; [symmetry; exact Hp|]. apply in_or_app. left. exact Hin.
  - intros p rc rc' Hin Hex.
    assert (Hin' : In (p, rc) (exits_of tr)) by (eapply Permutation_in; [symmetry; exact Hp | apply in_or_app; left; exact Hin]).
    clear - Hnd Hin' Hex. induction (exits_of tr) as [|[q r] l IH]; [destruct Hex|]. cbn in Hnd. inversion Hnd as [|? ? Hq Hl]; subst.
    destruct Hin' as [E1|H1], Hex as [E2|H2].
    + congruence.
    + inversion E1; subst. exfalso. apply Hq. apply (in_map fst) in H2. exact H2.
    + inversion E2; subst. exfalso. apply Hq. apply (in_map fst) in H1. exact H1.
    + now apply IH.
Qed.
