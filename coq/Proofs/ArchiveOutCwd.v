(* The two models of archive.handle_output_path agree: Model/Cwd.v (C17: WHERE the answer lies, for a path typed by the
   user and located from the working directory) takes, on every file system, the decision of Model/ArchiveOut.v (C11:
   WHICH of the five outcomes), which is the one translated from the sources (Proofs/GenTieArchive.v). *)
From Coq Require Import List NArith Bool.
From Conductor Require Import Lib.Str Lib.Path Gen.Generated Model.Cwd Model.ArchiveOut Proofs.GenTieArchiveOut.
Import ListNotations.
Local Open Scope N_scope.

Definition probe_of (ex isdir : path -> bool) (cwd root : path) (name : str) (raw : option user_path) : out_probe :=
  match raw with
  | None => {| o_given := false; o_exists := false; o_is_dir := false; o_parent_exists := false; o_parent_is_dir := false;
               o_gen_exists := ex (locate cwd (UAbs (output_path root ++ [name]))) |}
  | Some u => {| o_given := true; o_exists := ex (locate cwd u); o_is_dir := isdir (locate cwd u);
                 o_parent_exists := ex (locate cwd (u_parent u)); o_parent_is_dir := isdir (locate cwd (u_parent u));
                 o_gen_exists := ex (locate cwd (u_child u name)) |}
  end.

Definition choice_matches (c : out_choice) (d : out_decision) (root : path) (name : str) (raw : option user_path) : Prop :=
  match d, c with
  | OGenInOut, OutOk u => raw = None /\ u = UAbs (output_path root ++ [name])
  | OGenInDir, OutOk u => exists g, raw = Some g /\ u = u_child g name
  | OGiven, OutOk u => raw = Some u
  | OErrExists, OutputFileExists => True
  | OErrNoPath, OutputPathDoesNotExist => True
  | _, _ => False
  end.

Lemma cwd_model_takes_the_decision : forall ex isdir cwd root name raw,
  choice_matches (Cwd.handle_output_path ex isdir cwd root name raw)
                 (ArchiveOut.handle_output_path (probe_of ex isdir cwd root name raw)) root name raw.
Proof.
  intros ex isdir cwd root name raw. unfold Cwd.handle_output_path, ArchiveOut.handle_output_path, probe_of.
  destruct raw as [u|]; cbn [o_given o_exists o_is_dir o_parent_exists o_parent_is_dir o_gen_exists negb].
  - destruct (ex (locate cwd u)).
    + destruct (isdir (locate cwd u)); [|exact I].
      destruct (ex (locate cwd (u_child u name))); cbn; [exact I|exists u; split; reflexivity].
    + destruct (ex (locate cwd (u_parent u)) && isdir (locate cwd (u_parent u))); cbn; [reflexivity|exact I].
  - destruct (ex (locate cwd (UAbs (output_path root ++ [name])))); cbn; [exact I|split; reflexivity].
Qed.

Lemma cwd_model_decision_is_the_sources : forall ex isdir cwd root name raw,
  decision_code (ArchiveOut.handle_output_path (probe_of ex isdir cwd root name raw)) =
  let p := probe_of ex isdir cwd root name raw in
  gen_archive_output_decision (o_given p) (o_exists p) (o_is_dir p) (o_parent_exists p) (o_parent_is_dir p) (o_gen_exists p).
Proof. intros. apply archive_output_tie. Qed.
