(* Which error load_transitive_closure reports (C14, "if and only if" per kind of defect).
   Several defects can be reachable at once and only the first one met is reported, so the per-kind
   equivalence of the property text holds in this form: the reported error is always real
   (C14_sound); some error is reported as soon as any defect is reachable (C14_accept_iff); and when
   the reachable defects are all of ONE kind, the error reported is of that kind. *)
From Coq Require Import List Arith Bool.
From Conductor Require Import Model.Loader Proofs.LoaderProofs.
Import ListNotations.

Definition DCycle (g : graph) (T : nat) : Prop := exists x, Reach g T x /\ Path g x x.
Definition DUndef (g : graph) (T : nat) : Prop := exists x, Reach g T x /\ g x = Undefined.
Definition DBad (g : graph) (T : nat) : Prop := exists x, Reach g T x /\ g x = Bad.
Definition DDup (g : graph) (T : nat) : Prop := exists x ds, Reach g T x /\ g x = Good ds /\ has_dup ds = true.

Lemma defect_split g T : Defect g T <-> DCycle g T \/ DUndef g T \/ DBad g T \/ DDup g T.
Proof. unfold Defect, DCycle, DUndef, DBad, DDup. tauto. Qed.

Section Kinds.
  Variables (g : graph) (T : nat) (V : list nat).
  Hypothesis Hfin : finite_project g T V.
  Let r := load_closure g (fuel_bound g V) T.

  Lemma r_not_out_of_fuel : r <> OutOfFuel.
  Proof. destruct Hfin as (Hn & HT & Hc). apply load_closure_terminates; assumption. Qed.

  Lemma r_sound : sound_result g T r.
  Proof. apply load_closure_sound. Qed.

  Lemma defect_not_ok : Defect g T -> forall v, r <> Ok v.
  Proof. intros Hd v Hv. apply (proj1 (accept_iff g T V Hfin)); [exists v; exact Hv | exact Hd]. Qed.

  (* a reachable defect is always reported, as an error whose own kind of defect is reachable *)
  Theorem some_real_error_reported :
    Defect g T ->
    (r = ErrCycle /\ DCycle g T) \/ (exists x, r = ErrNotFound x /\ Reach g T x /\ g x = Undefined) \/
    (exists x, r = ErrBad x /\ Reach g T x /\ g x = Bad) \/
    (exists x, r = ErrDup x /\ Reach g T x /\ exists ds, g x = Good ds /\ has_dup ds = true).
  Proof.
    intros Hd. pose proof r_sound as Hs. pose proof r_not_out_of_fuel as Hf. pose proof (defect_not_ok Hd) as Hok.
    destruct r as [v| |x|x|x|] eqn:E; cbn [sound_result] in Hs.
    - exfalso. apply (Hok v). reflexivity.
    - left. split; [reflexivity|exact Hs].
    - right; left. exists x. split; [reflexivity|exact Hs].
    - right; right; left. exists x. split; [reflexivity|exact Hs].
    - right; right; right. exists x. split; [reflexivity|exact Hs].
    - exfalso. apply Hf. reflexivity.
  Qed.

  Theorem only_cycles_cycle_error : DCycle g T -> ~ DUndef g T -> ~ DBad g T -> ~ DDup g T -> r = ErrCycle.
  Proof.
    intros Hc Hu Hb Hdd. destruct (some_real_error_reported (proj2 (defect_split g T) (or_introl Hc))) as [[E _]|[(x & _ & H)|[(x & _ & H)|(x & _ & Hr & ds & H)]]].
    - exact E.
    - exfalso. apply Hu. exists x. exact H.
    - exfalso. apply Hb. exists x. exact H.
    - exfalso. apply Hdd. exists x, ds. split; [exact Hr|exact H].
  Qed.

  Theorem only_undefined_not_found_error : DUndef g T -> ~ DCycle g T -> ~ DBad g T -> ~ DDup g T ->
    exists x, r = ErrNotFound x /\ Reach g T x /\ g x = Undefined.
  Proof.
    intros Hu Hc Hb Hdd. destruct (some_real_error_reported (proj2 (defect_split g T) (or_intror (or_introl Hu)))) as [[_ H]|[H|[(x & _ & H)|(x & _ & Hr & ds & H)]]].
    - exfalso. exact (Hc H).
    - exact H.
    - exfalso. apply Hb. exists x. exact H.
    - exfalso. apply Hdd. exists x, ds. split; [exact Hr|exact H].
  Qed.

  Theorem only_duplicates_dup_error : DDup g T -> ~ DCycle g T -> ~ DUndef g T -> ~ DBad g T ->
    exists x, r = ErrDup x /\ Reach g T x /\ exists ds, g x = Good ds /\ has_dup ds = true.
  Proof.
    intros Hdd Hc Hu Hb. destruct (some_real_error_reported (proj2 (defect_split g T) (or_intror (or_intror (or_intror Hdd))))) as [[_ H]|[(x & _ & H)|[(x & _ & H)|H]]].
    - exfalso. exact (Hc H).
    - exfalso. apply Hu. exists x. exact H.
    - exfalso. apply Hb. exists x. exact H.
    - exact H.
  Qed.

  (* per kind, both directions at once: the error of a kind is reported ONLY IF that kind of defect is
     reachable (unconditionally) and IF it is the only kind reachable *)
  Theorem error_kinds :
    (r = ErrCycle -> DCycle g T) /\ ((exists x, r = ErrNotFound x) -> DUndef g T) /\ ((exists x, r = ErrDup x) -> DDup g T) /\
    ((exists x, r = ErrBad x) -> DBad g T) /\
    (DCycle g T -> ~ DUndef g T -> ~ DBad g T -> ~ DDup g T -> r = ErrCycle) /\
    (DUndef g T -> ~ DCycle g T -> ~ DBad g T -> ~ DDup g T -> exists x, r = ErrNotFound x) /\
    (DDup g T -> ~ DCycle g T -> ~ DUndef g T -> ~ DBad g T -> exists x, r = ErrDup x).
  Proof.
    pose proof r_sound as Hs.
    split; [intros E; rewrite E in Hs; exact Hs|].
    split; [intros (x & E); rewrite E in Hs; exists x; exact Hs|].
    split; [intros (x & E); rewrite E in Hs; destruct Hs as (Hr & ds & H); exists x, ds; split; [exact Hr|exact H]|].
    split; [intros (x & E); rewrite E in Hs; exists x; exact Hs|].
    split; [exact only_cycles_cycle_error|].
    split.
    - intros A B C D. destruct (only_undefined_not_found_error A B C D) as (x & E & _). exists x. exact E.
    - intros A B C D. destruct (only_duplicates_dup_error A B C D) as (x & E & _). exists x. exact E.
  Qed.
End Kinds.
