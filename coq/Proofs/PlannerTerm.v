(* Termination of ExecutionPlanner.create_plan_for (Model/Planner.v) on a finite project: the
   number of loop iterations is bounded by 1 + sum over the project's tasks of (1 + |deps|).
   Potential: every task not visited yet may still be expanded once (costing 1 + one stack entry
   per dependency); every stack entry costs one pop. *)
From Coq Require Import List Arith Bool Lia.
From Conductor Require Import Model.Loader Model.Planner Proofs.ListFacts Proofs.PlannerInv Proofs.PlannerExact.
Import ListNotations.

Lemma sum_flip (w : nat -> nat) (l : list nat) (i1 i2 : nat -> bool) x :
  NoDup l -> In x l -> i1 x = false -> i2 x = true -> (forall y, y <> x -> i2 y = i1 y) ->
  list_sum (map (fun y => if i2 y then 0 else w y) l) + w x = list_sum (map (fun y => if i1 y then 0 else w y) l).
Proof.
  induction l as [|a l IH]; intros Hn Hin H1 H2 Ho; [destruct Hin|].
  inversion Hn as [|? ? Ha Hn']; subst. simpl. destruct Hin as [->|Hin].
  - rewrite H1, H2.
    assert (E : map (fun y => if i2 y then 0 else w y) l = map (fun y => if i1 y then 0 else w y) l).
    { apply map_ext_in. intros y Hy. rewrite Ho; [reflexivity | intros ->; contradiction]. }
    rewrite E. lia.
  - assert (a <> x) by (intros ->; contradiction). rewrite (Ho a H). specialize (IH Hn' Hin H1 H2 Ho). lia.
Qed.

Section Term.
  Variable info : nat -> tinfo.
  Variable sr : nat -> bool.
  Variable again : bool.
  Variable root : nat.
  Hypothesis deps_nodup : forall t, NoDup (t_deps (info t)).

  Variable V : list nat.
  Hypothesis V_nodup : NoDup V.
  Hypothesis V_root : In root V.
  Hypothesis V_closed : forall x d, In x V -> In d (t_deps (info x)) -> In d V.

  Lemma nreach_V t : NReach info sr again root t -> In t V.
  Proof. induction 1 as [|x y _ IH _ Hd]; [exact V_root | eapply V_closed; eauto]. Qed.

  Definition seen (vis : list (nat * nat)) (t : nat) : bool := match lookup t vis with Some _ => true | None => false end.
  Definition cost (t : nat) : nat := 1 + length (t_deps (info t)).
  Definition pot (vis : list (nat * nat)) : nat := list_sum (map (fun t => if seen vis t then 0 else cost t) V).
  Definition mu (s : pstate) : nat := pot (visited s) + length (stack s).

  Lemma pot_visit vis t i : In t V -> lookup t vis = None -> pot ((t, i) :: vis) + cost t = pot vis.
  Proof.
    intros Ht Hl. unfold pot. apply sum_flip; auto.
    - unfold seen. now rewrite Hl.
    - unfold seen. cbn [lookup]. now rewrite Nat.eqb_refl.
    - intros y Hy. unfold seen. cbn [lookup]. apply Nat.eqb_neq in Hy. now rewrite Hy.
  Qed.

  Lemma pstep_mu s s' :
    PInv info s -> QInv info sr again root s -> pstep info sr again s = Some s' -> mu s' < mu s.
  Proof.
    intros I Q Hstep. unfold pstep in Hstep.
    destruct (stack s) as [|i stk] eqn:Es; [discriminate|].
    assert (Hin : In i (stack s)) by (rewrite Es; left; reflexivity).
    pose proof (k_ok _ _ I i Hin) as Hi.
    assert (HtV : In (task_at (store s) i) V) by (apply nreach_V, (q_reach _ _ _ _ _ Q); exact Hi).
    fold (lt_at (store s) i) in Hstep. fold (task_at (store s) i) in Hstep.
    set (t := task_at (store s) i) in *.
    unfold mu. rewrite Es. cbn [length].
    destruct (lt_second (lt_at (store s) i)); cbn [negb] in Hstep.
    - inversion Hstep; subst s'. cbn [visited stack]. lia.
    - destruct (lookup t (visited s)) as [v|] eqn:El.
      + inversion Hstep; subst s'. cbn [visited stack]. lia.
      + pose proof (pot_visit (visited s) t i HtV El) as Hpot. unfold cost in Hpot.
        destruct (negb again && negb (sr t)).
        * inversion Hstep; subst s'. cbn [visited stack]. lia.
        * destruct (push_deps _ _ _ _ _) as [[st1 stk1] deps1] eqn:Epd.
          inversion Hstep; subst s'. cbn [visited stack].
          destruct (push_deps_spec _ _ _ _ _ _ _ _ Epd) as (new & newidx & idxs & _ & E2 & _ & E4 & E5 & E6 & _).
          assert (Hle : length newidx <= length idxs).
          { apply NoDup_incl_length; [rewrite E5; apply seq_NoDup|]. intros j Hj. now destruct (E6 j Hj) as (_ & _ & _ & H). }
          rewrite E2, app_length, rev_length. cbn [length]. rewrite rev_length in E4. lia.
  Qed.

  Lemma piter_total fuel : forall s,
    PInv info s -> QInv info sr again root s -> mu s < fuel -> exists s', piter info sr again fuel s = Some s'.
  Proof.
    induction fuel as [|f IH]; intros s I Q Hf; [lia|]. cbn [piter].
    destruct (pstep info sr again s) as [s1|] eqn:E; [|eauto].
    apply IH; [eapply pstep_inv; eauto | eapply pstep_qinv; eauto|].
    pose proof (pstep_mu s s1 I Q E). lia.
  Qed.

  Definition plan_fuel : nat := 2 + list_sum (map cost V).

  Theorem plan_terminates : exists ps, plan_for info sr again plan_fuel root = Some ps.
  Proof.
    unfold plan_for. apply piter_total; [apply init_inv | apply qinit|].
    assert (E : pot [] = list_sum (map cost V)) by reflexivity.
    unfold mu, plan_fuel, pinit. cbn [visited stack length]. rewrite E. lia.
  Qed.

  (* more fuel never changes the result *)
  Lemma piter_more fuel : forall s s', piter info sr again fuel s = Some s' -> forall k, piter info sr again (fuel + k) s = Some s'.
  Proof.
    induction fuel as [|f IH]; intros s s' H k; [discriminate|]. cbn [piter plus] in *.
    destruct (pstep info sr again s) as [s1|]; [now apply IH | exact H].
  Qed.
End Term.
