(* Facts about Model/ArchiveOut.v: a refused archive touches no file; the output file is removed only
   when this invocation was going to write it and the path did not exist when the command started
   (or carries a generated name); the temporary index never outlives the command. *)
From Coq Require Import List NArith Bool Arith Lia.
From Conductor Require Import Model.ArchiveOut.
Import ListNotations.
Local Open Scope N_scope.

Lemma refused_trace : forall p f, refused (handle_output_path p) = true -> archive_main p f = [1].
Proof. intros p f H. unfold archive_main. rewrite H. reflexivity. Qed.

(* the trace when the failing step is one of the three before the try block: nothing was touched *)
Lemma early_failure_touches_nothing : forall p k, (k < 3)%nat ->
  existsb touches_files (archive_main p (Some k)) = false.
Proof.
  intros p k Hk. unfold archive_main. destruct (refused (handle_output_path p)); [reflexivity|].
  destruct k as [|[|[|k]]]; [reflexivity|reflexivity|reflexivity|lia].
Qed.

Lemma refused_touches_nothing : forall p f, refused (handle_output_path p) = true ->
  existsb touches_files (archive_main p f) = false.
Proof. intros p f H. rewrite (refused_trace p f H). reflexivity. Qed.

Lemma firstn_try_cases : forall n, exists l, firstn n steps_try = l /\
  (l = [] \/ l = [4] \/ l = [4;5] \/ l = [4;5;6] \/ l = [4;5;6;7] \/ l = [4;5;6;7;8] \/ l = [4;5;6;7;8;9] \/ l = steps_try).
Proof.
  intro n. eexists; split; [reflexivity|].
  destruct n as [|[|[|[|[|[|[|n]]]]]]]; cbn; auto 10.
  right; right; right; right; right; right; right. destruct n; reflexivity.
Qed.

(* whenever the output file is removed (step 11) or written (step 9), the file did NOT exist when the command looked: the handler's
   unlink only ever removes what this invocation created *)
Lemma accepted_means_absent : forall p, refused (handle_output_path p) = false -> target_existed p = false.
Proof.
  intros p R. unfold handle_output_path in R. unfold target_existed.
  destruct (o_given p); cbn [negb] in *.
  - destruct (o_exists p); [|reflexivity].
    destruct (o_is_dir p); [|discriminate R]. destruct (o_gen_exists p); [discriminate R|reflexivity].
  - destruct (o_gen_exists p); [discriminate R|reflexivity].
Qed.

Lemma unlink_only_what_was_absent : forall p f,
  existsb removes_output (archive_main p f) = true -> target_existed p = false.
Proof.
  intros p f H. apply accepted_means_absent. unfold archive_main in H.
  destruct (refused (handle_output_path p)); [discriminate H|reflexivity].
Qed.

Lemma write_only_what_was_absent : forall p f,
  existsb writes_output (archive_main p f) = true -> target_existed p = false.
Proof.
  intros p f H. apply accepted_means_absent. unfold archive_main in H.
  destruct (refused (handle_output_path p)); [discriminate H|reflexivity].
Qed.

(* ... and conversely whatever existed is refused *)
Lemma existing_target_is_refused : forall p f, target_existed p = true -> archive_main p f = [1].
Proof.
  intros p f E. unfold archive_main.
  destruct (refused (handle_output_path p)) eqn:R; [reflexivity|]. rewrite (accepted_means_absent p R) in E. discriminate E.
Qed.

(* an existing regular file named by -o is never written and never removed *)
Lemma existing_file_is_safe : forall p f,
  o_given p = true -> o_exists p = true -> o_is_dir p = false ->
  existsb writes_output (archive_main p f) = false /\ existsb removes_output (archive_main p f) = false.
Proof.
  intros p f G E D.
  assert (R : refused (handle_output_path p) = true) by (unfold handle_output_path; rewrite G, E, D; reflexivity).
  rewrite (refused_trace p f R). split; reflexivity.
Qed.

(* the temporary archive index: once step 4 or 5 has been entered inside the try block, the last step of the
   command is its removal; and the handler's unlink of the output file comes after every write of it *)
Lemma temp_index_removed : forall p f,
  existsb (fun c => c =? 5) (archive_main p f) = true -> last (archive_main p f) 0 = 4.
Proof.
  intros p f. unfold archive_main.
  destruct (refused (handle_output_path p)); [intro H; discriminate H|].
  destruct f as [k|]; [|reflexivity].
  unfold run_steps. cbn [steps_before_try length].
  destruct (Nat.ltb k 3) eqn:L.
  - destruct k as [|[|[|k]]]; cbn; intro H; discriminate H.
  - intros _. rewrite !app_assoc. apply last_last.
Qed.

Lemma success_trace : forall p, refused (handle_output_path p) = false ->
  archive_main p None = [1;2;3;4;5;6;7;8;9;10;4].
Proof. intros p R. unfold archive_main. rewrite R. reflexivity. Qed.

(* a failure inside the try block: the handler removes the output file, re-raises, and the index is removed *)
Lemma failure_in_try_cleans_up : forall p k, refused (handle_output_path p) = false -> (3 <= k)%nat ->
  exists pre, archive_main p (Some k) = [1;2;3] ++ pre ++ [11; 12; 4] /\ firstn (S (k - 3)) steps_try = pre.
Proof.
  intros p k R Hk. unfold archive_main. rewrite R. unfold run_steps. cbn [steps_before_try length].
  assert (L : Nat.ltb k 3 = false) by (apply Nat.ltb_ge; exact Hk). rewrite L.
  exists (firstn (S (k - 3)) steps_try). split; [|reflexivity].
  destruct (firstn_try_cases (S (k - 3))) as [l [El _]]. rewrite El.
  (* the failing step was reached only after the three steps before the try block had completed *)
  reflexivity.
Qed.
