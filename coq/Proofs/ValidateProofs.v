(* Soundness, completeness and termination of TaskIndex.validate_all_loaded_tasks
   (Model/Loader.v validate_all): whole-project validation as used by the explorer.
   For EVERY graph and EVERY order of the loaded tasks. *)
From Coq Require Import List Arith Bool Lia.
From Conductor Require Import Model.Loader Proofs.ListFacts Proofs.LoaderProofs.
Import ListNotations.

Lemma nodup_snoc {A} (l : list A) x : NoDup l -> ~ In x l -> NoDup (l ++ [x]).
Proof.
  induction l as [|a l IH]; simpl; intros Hn Hx; [repeat constructor; intros []|].
  inversion Hn as [|? ? Ha Hn']; subst. constructor.
  - rewrite in_app_iff. intros [H|[H|[]]]; [contradiction | subst; apply Hx; left; reflexivity].
  - apply IH; [assumption | intros H; apply Hx; right; exact H].
Qed.

Lemma nodup_map_filter {A B} (f : A -> B) (p : A -> bool) l : NoDup (map f l) -> NoDup (map f (filter p l)).
Proof.
  induction l as [|a l IH]; simpl; intros Hn; [constructor|]. inversion Hn as [|? ? Ha Hn']; subst.
  destruct (p a); simpl; [constructor; [|now apply IH] | now apply IH].
  intros H. apply Ha. apply in_map_iff in H as (y & Ey & Hy). apply filter_In in Hy as [Hy _]. apply in_map_iff. eauto.
Qed.

Section V.
  Variable g : graph.
  Variable keys : list nat.

  Notation deps x := (deps_of_kind (g x)).
  Notation Path := (Path g).
  Definition ldd (x : nat) : Prop := loaded g keys x = true.

  Lemma ldd_good x : ldd x -> In x keys /\ g x = Good (deps x).
  Proof.
    unfold ldd, loaded. intros H. apply andb_true_iff in H as [H1 H2]. apply mem_In in H1.
    split; [assumption|]. destruct (g x); try discriminate. reflexivity.
  Qed.

  Lemma ldd_edge x d : ldd x -> In d (deps x) -> edge g x d.
  Proof. intros H Hd. destruct (ldd_good x H) as [_ Hg]. exists (deps x). auto. Qed.

  Lemma edge_deps x d : edge g x d -> In d (deps x).
  Proof. intros (ds & Hg & Hd). rewrite Hg. exact Hd. Qed.

  (* finished tasks, most recently finished first: every dependency of an element is further down *)
  Fixpoint TopoV (l : list nat) : Prop :=
    match l with
    | [] => True
    | v :: r => (forall d, In d (deps v) -> In d r) /\ TopoV r
    end.

  Lemma topoV_closed l v d : TopoV l -> In v l -> In d (deps v) -> In d l.
  Proof.
    induction l as [|w l IH]; simpl; [tauto|]. intros [Hw Ht] [->|Hv] Hd; [right; auto | right; eapply IH; eauto].
  Qed.

  Lemma topoV_tail a x r : TopoV (a ++ x :: r) -> TopoV (x :: r).
  Proof. induction a as [|y a IH]; simpl; [auto | intros [_ H]; apply IH; exact H]. Qed.

  Lemma topoV_path_later a x r y : TopoV (a ++ x :: r) -> Path x y -> In y r.
  Proof.
    intros Ht Hp. revert a r Ht. induction Hp as [x y He | x y z He _ IH]; intros a r Ht.
    - apply topoV_tail in Ht. destruct Ht as [Hin _]. apply Hin. now apply edge_deps.
    - pose proof (topoV_tail _ _ _ Ht) as [Hin _]. apply edge_deps, Hin in He.
      apply in_split in He as (b & r' & ->).
      specialize (IH (a ++ x :: b) r'). rewrite <- app_assoc in IH. simpl in IH. specialize (IH Ht).
      apply in_or_app. right. right. exact IH.
  Qed.

  Lemma topoV_acyclic l x : TopoV l -> In x l -> ~ Path x x.
  Proof.
    revert x. induction l as [|v r IH]; intros x Ht Hin Hp; [destruct Hin|].
    destruct Hin as [->|Hin].
    - pose proof (topoV_path_later [] x r x Ht Hp) as Hr. apply (IH x (proj2 Ht) Hr Hp).
    - apply (IH x (proj2 Ht) Hin Hp).
  Qed.

  (* ---------- frames ---------- *)
  Definition statusV (fin : list nat) (above : list (nat * bool)) (d : nat) : Prop :=
    In d fin \/ In (d, false) above \/ In (d, true) above.

  Fixpoint FramesV (fin : list nat) (above stack : list (nat * bool)) : Prop :=
    match stack with
    | [] => True
    | (p, true) :: below =>
      (forall d, In d (deps p) -> statusV fin above d) /\
      (forall x b, In (x, b) above -> Path p x) /\
      FramesV fin (above ++ [(p, true)]) below
    | (x, false) :: below => FramesV fin (above ++ [(x, false)]) below
    end.

  Lemma status_snoc fin fin' a1 a2 fr d :
    (forall d, statusV fin a1 d -> statusV fin' a2 d) ->
    statusV fin (a1 ++ [fr]) d -> statusV fin' (a2 ++ [fr]) d.
  Proof.
    intros Hs [H|[H|H]]; unfold statusV in *.
    - destruct (Hs d (or_introl H)) as [H'|[H'|H']]; [auto | right; left; apply in_or_app; auto | right; right; apply in_or_app; auto].
    - apply in_app_or in H as [H|[H|[]]].
      + destruct (Hs d (or_intror (or_introl H))) as [H'|[H'|H']]; [auto | right; left; apply in_or_app; auto | right; right; apply in_or_app; auto].
      + subst fr. right; left. apply in_or_app. right. left. reflexivity.
    - apply in_app_or in H as [H|[H|[]]].
      + destruct (Hs d (or_intror (or_intror H))) as [H'|[H'|H']]; [auto | right; left; apply in_or_app; auto | right; right; apply in_or_app; auto].
      + subst fr. right; right. apply in_or_app. right. left. reflexivity.
  Qed.

  Lemma framesV_transfer fin fin' st : forall a1 a2,
    (forall d, statusV fin a1 d -> statusV fin' a2 d) ->
    (forall y b, In (y, b) a2 -> exists x b', In (x, b') a1 /\ (x = y \/ Path x y)) ->
    FramesV fin a1 st -> FramesV fin' a2 st.
  Proof.
    induction st as [|[p [|]] st IH]; intros a1 a2 Hs Hd Hf; simpl in *; [exact I| |].
    - destruct Hf as (Hobl & Hdesc & Hrest). split; [|split].
      + intros d Hdd. apply Hs. now apply Hobl.
      + intros y b Hy. destruct (Hd y b Hy) as (x & b' & Hx & [->|Hp]); [eapply Hdesc; eauto|].
        eapply path_trans; [eapply Hdesc; eauto | exact Hp].
      + apply (IH (a1 ++ [(p, true)])); [| |assumption].
        * intros d. now apply status_snoc.
        * intros y b Hy. apply in_app_or in Hy as [Hy|[Hy|[]]].
          -- destruct (Hd y b Hy) as (x & b' & Hx & Hc). exists x, b'. split; [apply in_or_app; auto | assumption].
          -- inversion Hy; subst. exists y, true. split; [apply in_or_app; right; left; reflexivity | auto].
    - apply (IH (a1 ++ [(p, false)])); [| |assumption].
      + intros d. now apply status_snoc.
      + intros y b Hy. apply in_app_or in Hy as [Hy|[Hy|[]]].
        * destruct (Hd y b Hy) as (x & b' & Hx & Hc). exists x, b'. split; [apply in_or_app; auto | assumption].
        * inversion Hy; subst. exists y, false. split; [apply in_or_app; right; left; reflexivity | auto].
  Qed.

  Lemma framesV_enters fin E : forall a rest,
    (forall f, In f E -> snd f = false) ->
    FramesV fin a (E ++ rest) <-> FramesV fin (a ++ E) rest.
  Proof.
    induction E as [|[x b] E IH]; intros a rest HE; simpl.
    - now rewrite app_nil_r.
    - assert (b = false) by (apply (HE (x, b)); left; reflexivity). subst b.
      rewrite IH by (intros f Hf; apply HE; right; assumption).
      rewrite <- app_assoc. reflexivity.
  Qed.

  Lemma framesV_desc fin st : forall a p, FramesV fin a st -> In (p, true) st -> forall y b, In (y, b) a -> Path p y.
  Proof.
    induction st as [|[q [|]] st IH]; intros a p Hf Hin y b Hy; simpl in *; [destruct Hin| |].
    - destruct Hf as (_ & Hdesc & Hrest). destruct Hin as [Hin|Hin].
      + inversion Hin; subst. eapply Hdesc; eauto.
      + eapply IH; [exact Hrest | exact Hin | apply in_or_app; left; exact Hy].
    - destruct Hin as [Hin|Hin]; [discriminate|].
      eapply IH; [exact Hf | exact Hin | apply in_or_app; left; exact Hy].
  Qed.

  (* ---------- dependee counters ---------- *)
  Fixpoint occ (t : nat) (l : list nat) : nat :=
    match l with [] => 0 | y :: l' => (if Nat.eqb t y then 1 else 0) + occ t l' end.

  Lemma occ_zero t l : occ t l = 0 <-> ~ In t l.
  Proof.
    induction l as [|y l IH]; simpl; [tauto|]. destruct (Nat.eqb t y) eqn:E.
    - apply Nat.eqb_eq in E. subst. split; [discriminate | intros H; exfalso; apply H; auto].
    - apply Nat.eqb_neq in E. rewrite IH. simpl. intuition congruence.
  Qed.

  Lemma bump_fst d rc : map fst (bump d rc) = map fst rc.
  Proof.
    induction rc as [|[y c] rc IH]; simpl; [reflexivity|]. destruct (Nat.eqb d y); simpl; [reflexivity | now rewrite IH].
  Qed.

  Lemma bump_in d rc t c' :
    NoDup (map fst rc) -> In (t, c') (bump d rc) -> exists c, In (t, c) rc /\ c' = c + (if Nat.eqb t d then 1 else 0).
  Proof.
    induction rc as [|[y c0] rc IH]; simpl; intros Hn Hin; [destruct Hin|].
    inversion Hn as [|? ? Hy Hn']; subst.
    destruct (Nat.eqb d y) eqn:E.
    - apply Nat.eqb_eq in E. subst y. destruct Hin as [Hin|Hin].
      + inversion Hin; subst. exists c0. rewrite Nat.eqb_refl. split; [auto | lia].
      + assert (t <> d) by (intros ->; apply Hy; apply (in_map fst) in Hin; exact Hin).
        apply Nat.eqb_neq in H. rewrite H. exists c'. split; [auto | lia].
    - destruct Hin as [Hin|Hin].
      + inversion Hin; subst. exists c'. rewrite Nat.eqb_sym, E. split; [auto | lia].
      + destruct (IH Hn' Hin) as (c & Hc & Ec). exists c. auto.
  Qed.

  Lemma bumps_fst ds : forall rc, map fst (fold_left (fun acc d => bump d acc) ds rc) = map fst rc.
  Proof. induction ds as [|d ds IH]; intros rc; simpl; [reflexivity|]. now rewrite IH, bump_fst. Qed.

  Lemma bumps_in ds : forall rc t c',
    NoDup (map fst rc) -> In (t, c') (fold_left (fun acc d => bump d acc) ds rc) -> exists c, In (t, c) rc /\ c' = c + occ t ds.
  Proof.
    induction ds as [|d ds IH]; intros rc t c' Hn Hin; simpl in *; [exists c'; split; [assumption | lia]|].
    destruct (IH (bump d rc) t c') as (c1 & Hc1 & E1); [now rewrite bump_fst | assumption|].
    destruct (bump_in d rc t c1 Hn Hc1) as (c & Hc & E). exists c. split; [assumption | lia].
  Qed.

  (* ---------- the invariant of one do_traversal ---------- *)
  Record TInv (t0 : nat) (stack : list (nat * bool)) (visited path : list nat) (rc : list (nat * nat)) (fin : list nat) : Prop := {
    t_frames : FramesV fin [] stack;
    t_topo : TopoV fin;
    t_fin : forall x, In x fin <-> In x visited /\ ~ In x path;
    t_leaves_nodup : NoDup (leaves stack);
    t_path : forall x, In x path <-> In x (leaves stack);
    t_path_vis : forall x, In x path -> In x visited;
    t_loaded : forall x, In x visited -> ldd x;
    t_reach : forall x b, In (x, b) stack -> x = t0 \/ Path t0 x;
    t_t0 : In t0 keys;
    t_rc_nodup : NoDup (map fst rc);
    t_rc_keys : forall t, In t (map fst rc) -> In t keys;
    t_rc_vis : forall t, In t (map fst rc) -> In t visited \/ In (t, false) stack;
    t_rc_cnt : forall t c, In (t, c) rc -> (c = 0 <-> forall x, In x visited -> ~ In t (deps x));
    t_pending : forall x, In (x, false) stack -> In x (map fst rc) \/ exists p, In p visited /\ In x (deps p);
    t_acct : forall x, In x visited -> In x (map fst rc) \/ exists p, In p visited /\ In x (deps p)
  }.

  Lemma tinv_leave t0 x st visited path rc fin :
    TInv t0 ((x, true) :: st) visited path rc fin -> TInv t0 st visited (Loader.remove x path) rc (x :: fin).
  Proof.
    intros I. pose proof (t_frames _ _ _ _ _ _ I) as Hf. cbn [FramesV app] in Hf. destruct Hf as (Hobl & _ & Hrest).
    pose proof (t_leaves_nodup _ _ _ _ _ _ I) as Hnd. change (leaves ((x, true) :: st)) with (x :: leaves st) in Hnd.
    inversion Hnd as [|? ? Hxn Hnd']; subst.
    assert (Hxp : In x path) by (apply (t_path _ _ _ _ _ _ I); left; reflexivity).
    constructor.
    - eapply framesV_transfer; [| |exact Hrest].
      + intros d [H|[[H|[]]|[H|[]]]]; [left; right; exact H | discriminate | inversion H; subst; left; left; reflexivity].
      + intros y b [].
    - simpl. split; [|apply (t_topo _ _ _ _ _ _ I)]. intros d Hd. destruct (Hobl d Hd) as [H|[[]|[]]]. exact H.
    - intros y. rewrite in_remove. simpl. rewrite (t_fin _ _ _ _ _ _ I y). split.
      + intros [<-|[Hv Hp]]; [split; [now apply (t_path_vis _ _ _ _ _ _ I) | intros [_ H]; congruence] | split; [assumption | tauto]].
      + intros [Hv Hp]. destruct (Nat.eq_dec x y) as [->|Hne]; [left; reflexivity | right; split; [assumption|]].
        intros H. apply Hp. split; [assumption | congruence].
    - exact Hnd'.
    - intros y. rewrite in_remove, (t_path _ _ _ _ _ _ I y). change (leaves ((x, true) :: st)) with (x :: leaves st).
      simpl. split; [intros [[H|H] Hne]; [congruence | assumption] | intros H; split; [auto | intros ->; contradiction]].
    - intros y Hy. apply in_remove in Hy as [Hy _]. now apply (t_path_vis _ _ _ _ _ _ I).
    - apply (t_loaded _ _ _ _ _ _ I).
    - intros y b Hy. apply (t_reach _ _ _ _ _ _ I y b). right; exact Hy.
    - apply (t_t0 _ _ _ _ _ _ I).
    - apply (t_rc_nodup _ _ _ _ _ _ I).
    - apply (t_rc_keys _ _ _ _ _ _ I).
    - intros t Ht. destruct (t_rc_vis _ _ _ _ _ _ I t Ht) as [H|[H|H]]; [auto | discriminate | auto].
    - apply (t_rc_cnt _ _ _ _ _ _ I).
    - intros y Hy. apply (t_pending _ _ _ _ _ _ I). right; exact Hy.
    - apply (t_acct _ _ _ _ _ _ I).
  Qed.

  Lemma tinv_skip t0 x st visited path rc fin :
    TInv t0 ((x, false) :: st) visited path rc fin -> ~ In x path -> In x visited -> TInv t0 st visited path rc fin.
  Proof.
    intros I Hp Hv. pose proof (t_frames _ _ _ _ _ _ I) as Hf. cbn [FramesV app] in Hf.
    constructor.
    - eapply framesV_transfer; [| |exact Hf].
      + intros d [H|[[H|[]]|[H|[]]]]; [left; exact H | inversion H; subst; left; apply (t_fin _ _ _ _ _ _ I); auto | discriminate].
      + intros y b [].
    - apply (t_topo _ _ _ _ _ _ I).
    - apply (t_fin _ _ _ _ _ _ I).
    - apply (t_leaves_nodup _ _ _ _ _ _ I).
    - apply (t_path _ _ _ _ _ _ I).
    - apply (t_path_vis _ _ _ _ _ _ I).
    - apply (t_loaded _ _ _ _ _ _ I).
    - intros y b Hy. apply (t_reach _ _ _ _ _ _ I y b). right; exact Hy.
    - apply (t_t0 _ _ _ _ _ _ I).
    - apply (t_rc_nodup _ _ _ _ _ _ I).
    - apply (t_rc_keys _ _ _ _ _ _ I).
    - intros t Ht. destruct (t_rc_vis _ _ _ _ _ _ I t Ht) as [H|[H|H]]; [auto | inversion H; subst; auto | auto].
    - apply (t_rc_cnt _ _ _ _ _ _ I).
    - intros y Hy. apply (t_pending _ _ _ _ _ _ I). right; exact Hy.
    - apply (t_acct _ _ _ _ _ _ I).
  Qed.

  Lemma tinv_enter t0 x st visited path rc fin :
    TInv t0 ((x, false) :: st) visited path rc fin -> ~ In x path -> ~ In x visited -> ldd x ->
    TInv t0 (rev (map enter (deps x)) ++ (x, true) :: st) (x :: visited) (x :: path)
         (fold_left (fun acc d => bump d acc) (deps x) rc) fin.
  Proof.
    intros I Hp Hv Hl. pose proof (t_frames _ _ _ _ _ _ I) as Hf. cbn [FramesV app] in Hf.
    set (E := rev (map enter (deps x))).
    assert (HE : forall fr, In fr E -> snd fr = false /\ In (fst fr) (deps x)).
    { intros fr Hfr. unfold E in Hfr. apply in_rev, in_map_iff in Hfr as (d & <- & Hd). auto. }
    assert (HEin : forall d, In d (deps x) -> In (d, false) E).
    { intros d Hd. unfold E. rewrite <- in_rev. apply in_map_iff. exists d. auto. }
    assert (Hxl : ~ In x (leaves st)).
    { intros H. apply Hp. apply (t_path _ _ _ _ _ _ I). exact H. }
    assert (Hlv : leaves (E ++ (x, true) :: st) = x :: leaves st).
    { rewrite leaves_app. unfold E. rewrite leaves_rev_enters. reflexivity. }
    assert (Hrx : x = t0 \/ Path t0 x) by (apply (t_reach _ _ _ _ _ _ I x false); left; reflexivity).
    constructor.
    - apply framesV_enters; [intros fr Hfr; now apply HE|]. cbn [app FramesV]. split; [|split].
      + intros d Hd. right; left. now apply HEin.
      + intros y b Hy. destruct (HE _ Hy) as (_ & Hd). simpl in Hd. apply p_one. now apply ldd_edge.
      + eapply framesV_transfer; [| |exact Hf].
        * intros d [H|[[H|[]]|[H|[]]]]; [left; exact H | inversion H; subst; right; right; apply in_or_app; right; left; reflexivity | discriminate].
        * intros y b Hy. exists x, false. split; [left; reflexivity|].
          apply in_app_or in Hy as [Hy|[Hy|[]]].
          -- right. destruct (HE _ Hy) as (_ & Hd). simpl in Hd. apply p_one. now apply ldd_edge.
          -- inversion Hy; subst. left; reflexivity.
    - apply (t_topo _ _ _ _ _ _ I).
    - intros y. rewrite (t_fin _ _ _ _ _ _ I y). simpl. split.
      + intros [Hy Hyp]. split; [right; assumption|]. intros [<-|H]; contradiction.
      + intros [[<-|Hy] Hyp]; [exfalso; apply Hyp; left; reflexivity|]. split; [assumption | intros H; apply Hyp; right; exact H].
    - rewrite Hlv. constructor; [assumption | apply (t_leaves_nodup _ _ _ _ _ _ I)].
    - intros y. rewrite Hlv. simpl. rewrite (t_path _ _ _ _ _ _ I y). change (leaves ((x, false) :: st)) with (leaves st). tauto.
    - intros y [<-|Hy]; [left; reflexivity | right; now apply (t_path_vis _ _ _ _ _ _ I)].
    - intros y [<-|Hy]; [assumption | now apply (t_loaded _ _ _ _ _ _ I)].
    - intros y b Hy. apply in_app_or in Hy as [Hy|[Hy|Hy]].
      + destruct (HE _ Hy) as (_ & Hd). simpl in Hd. right.
        destruct Hrx as [->|Hr]; [apply p_one; now apply ldd_edge | eapply path_snoc; [exact Hr | now apply ldd_edge]].
      + inversion Hy; subst. exact Hrx.
      + apply (t_reach _ _ _ _ _ _ I y b). right; exact Hy.
    - apply (t_t0 _ _ _ _ _ _ I).
    - rewrite bumps_fst. apply (t_rc_nodup _ _ _ _ _ _ I).
    - intros t Ht. rewrite bumps_fst in Ht. now apply (t_rc_keys _ _ _ _ _ _ I).
    - intros t Ht. rewrite bumps_fst in Ht. destruct (t_rc_vis _ _ _ _ _ _ I t Ht) as [H|[H|H]].
      + left; right; exact H.
      + inversion H; subst. left; left; reflexivity.
      + right. apply in_or_app. right. right. exact H.
    - intros t c' Hin. destruct (bumps_in _ _ _ _ (t_rc_nodup _ _ _ _ _ _ I) Hin) as (c & Hc & ->).
      pose proof (t_rc_cnt _ _ _ _ _ _ I t c Hc) as Hcnt. split.
      + intros Hz. assert (c = 0) by lia. assert (Ho : occ t (deps x) = 0) by lia.
        intros y [<-|Hy]; [now apply occ_zero | apply Hcnt; assumption].
      + intros Hall. assert (c = 0) by (apply Hcnt; intros y Hy; apply Hall; right; exact Hy).
        assert (occ t (deps x) = 0) by (apply occ_zero; apply Hall; left; reflexivity). lia.
    - intros y Hy. rewrite bumps_fst. apply in_app_or in Hy as [Hy|[Hy|Hy]].
      + destruct (HE _ Hy) as (_ & Hd). simpl in Hd. right. exists x. split; [left; reflexivity | exact Hd].
      + discriminate.
      + destruct (t_pending _ _ _ _ _ _ I y) as [H|(p0 & Hp0 & Hd)]; [right; exact Hy | left; exact H | right; exists p0; split; [right; assumption | assumption]].
    - intros y Hy. rewrite bumps_fst.
      assert (Hold : In y (map fst rc) \/ exists p0, In p0 visited /\ In y (deps p0)).
      { destruct Hy as [<-|Hy]; [apply (t_pending _ _ _ _ _ _ I); left; reflexivity | now apply (t_acct _ _ _ _ _ _ I)]. }
      destruct Hold as [H|(p0 & Hp0 & Hd)]; [left; exact H | right; exists p0; split; [right; assumption | assumption]].
  Qed.

  (* ---------- between traversals ---------- *)
  Record GInv (visited : list nat) (rc : list (nat * nat)) : Prop := {
    g_fin : exists fin, TopoV fin /\ forall x, In x fin <-> In x visited;
    g_loaded : forall x, In x visited -> ldd x;
    g_rc_nodup : NoDup (map fst rc);
    g_rc_keys : forall t, In t (map fst rc) -> In t keys;
    g_rc_vis : forall t, In t (map fst rc) -> In t visited;
    g_rc_cnt : forall t c, In (t, c) rc -> (c = 0 <-> forall x, In x visited -> ~ In t (deps x));
    g_acct : forall x, In x visited -> In x (map fst rc) \/ exists p, In p visited /\ In x (deps p)
  }.

  Lemma ginv_closed visited rc x d : GInv visited rc -> In x visited -> In d (deps x) -> In d visited.
  Proof.
    intros G Hx Hd. destruct (g_fin _ _ G) as (fin & Ht & Hf). apply Hf. eapply topoV_closed; [exact Ht | apply Hf; exact Hx | exact Hd].
  Qed.

  Definition tsound (t0 : nat) (visited : list nat) (rc : list (nat * nat))
             (r : option (list nat * list (nat * nat)) + vresult) : Prop :=
    match r with
    | inl (Some (v', rc')) => GInv v' rc' /\ (forall x, In x visited -> In x v') /\ map fst rc' = map fst rc
    | inl None => False
    | inr VCycle => exists y, (y = t0 \/ Path t0 y) /\ Path y y
    | inr (VNotFound x) => (x = t0 \/ Path t0 x) /\ loaded g keys x = false
    | inr VOutOfFuel => True
    | inr (VOk _) => False
    end.

  Lemma traverse_sound t0 fuel : forall stack visited path rc fin,
    TInv t0 stack visited path rc fin -> tsound t0 visited rc (traverse g fuel keys stack visited path rc).
  Proof.
    induction fuel as [|f IH]; intros stack visited path rc fin I; [exact Logic.I|].
    cbn [traverse]. destruct stack as [|[x [|]] st].
    - (* the traversal is over *)
      simpl. split; [|split; [auto | reflexivity]].
      assert (Hpe : forall y, ~ In y path) by (intros y Hy; apply (t_path _ _ _ _ _ _ I) in Hy; exact Hy).
      constructor.
      + exists fin. split; [apply (t_topo _ _ _ _ _ _ I)|]. intros y. rewrite (t_fin _ _ _ _ _ _ I y). split; [tauto | intros H; split; [assumption | apply Hpe]].
      + apply (t_loaded _ _ _ _ _ _ I).
      + apply (t_rc_nodup _ _ _ _ _ _ I).
      + apply (t_rc_keys _ _ _ _ _ _ I).
      + intros t Ht. destruct (t_rc_vis _ _ _ _ _ _ I t Ht) as [H|[]]. exact H.
      + apply (t_rc_cnt _ _ _ _ _ _ I).
      + apply (t_acct _ _ _ _ _ _ I).
    - specialize (IH st visited (Loader.remove x path) rc (x :: fin) (tinv_leave _ _ _ _ _ _ _ I)).
      destruct (traverse g f keys st visited (Loader.remove x path) rc) as [[[v' rc']|]|[]]; exact IH.
    - pose proof (t_frames _ _ _ _ _ _ I) as Hf. cbn [FramesV app] in Hf.
      assert (Hrx : x = t0 \/ Path t0 x) by (apply (t_reach _ _ _ _ _ _ I x false); left; reflexivity).
      destruct (mem x path) eqn:Epath.
      + simpl. exists x. split; [assumption|].
        apply mem_In, (t_path _ _ _ _ _ _ I) in Epath. change (leaves ((x, false) :: st)) with (leaves st) in Epath.
        apply in_leaves in Epath. eapply framesV_desc; [exact Hf | exact Epath | left; reflexivity].
      + apply mem_false in Epath. destruct (mem x visited) eqn:Evis.
        * apply mem_In in Evis. apply (IH st visited path rc fin). eapply tinv_skip; eauto.
        * apply mem_false in Evis. destruct (loaded g keys x) eqn:El; cbn [negb].
          -- pose proof (tinv_enter _ _ _ _ _ _ _ I Epath Evis El) as I'. specialize (IH _ _ _ _ _ I').
             unfold enter in IH.
             destruct (traverse g f keys _ (x :: visited) (x :: path) _) as [[[v' rc']|]|[]]; try exact IH.
             destruct IH as (G & Hsub & Hfst). split; [exact G|]. split; [intros y Hy; apply Hsub; right; exact Hy|].
             now rewrite Hfst, bumps_fst.
          -- simpl. auto.
  Qed.

  (* ---------- the loop over the loaded tasks ---------- *)
  Lemma tinv_start t visited rc :
    GInv visited rc -> In t keys -> ~ In t visited ->
    exists fin, TInv t [(t, false)] visited [] (rc ++ [(t, 0)]) fin.
  Proof.
    intros G Hk Hv. destruct (g_fin _ _ G) as (fin & Ht & Hf). exists fin.
    assert (Htrc : ~ In t (map fst rc)) by (intros H; apply Hv; now apply (g_rc_vis _ _ G)).
    constructor.
    - cbn. exact Logic.I.
    - exact Ht.
    - intros x. rewrite Hf. simpl. tauto.
    - cbn. constructor.
    - intros x. cbn. tauto.
    - intros x [].
    - apply (g_loaded _ _ G).
    - intros x b [H|[]]. inversion H; subst. left; reflexivity.
    - exact Hk.
    - rewrite map_app. cbn [map fst]. apply nodup_snoc; [apply (g_rc_nodup _ _ G) | exact Htrc].
    - intros x Hx. rewrite map_app in Hx. apply in_app_or in Hx as [Hx|[<-|[]]]; [now apply (g_rc_keys _ _ G) | exact Hk].
    - intros x Hx. rewrite map_app in Hx. apply in_app_or in Hx as [Hx|[<-|[]]]; [left; now apply (g_rc_vis _ _ G) | right; left; reflexivity].
    - intros x c Hin. apply in_app_or in Hin as [Hin|[Hin|[]]]; [now apply (g_rc_cnt _ _ G)|].
      inversion Hin; subst. split; [|reflexivity]. intros _ y Hy Hd. apply Hv. eapply ginv_closed; eauto.
    - intros x [H|[]]. inversion H; subst. left. rewrite map_app. apply in_or_app. right. left. reflexivity.
    - intros x Hx. destruct (g_acct _ _ G x Hx) as [H|H]; [left; rewrite map_app; apply in_or_app; auto | right; exact H].
  Qed.

  Definition vsound (r : vresult) : Prop :=
    match r with
    | VOk roots =>
        (forall x, In x keys -> ldd x) /\
        (forall x d, In x keys -> In d (deps x) -> In d keys) /\
        (forall x, In x keys -> ~ Path x x) /\
        (forall t, In t roots <-> In t keys /\ forall x, In x keys -> ~ In t (deps x)) /\
        NoDup roots
    | VCycle => exists t y, In t keys /\ (y = t \/ Path t y) /\ Path y y
    | VNotFound x => exists t, In t keys /\ (x = t \/ Path t x) /\ loaded g keys x = false
    | VOutOfFuel => True
    end.

  Lemma validate_loop_sound fuel : forall todo visited rc,
    GInv visited rc -> (forall x, In x todo -> In x keys) -> (forall x, In x keys -> In x visited \/ In x todo) ->
    vsound (validate_loop g fuel keys todo visited rc).
  Proof.
    induction todo as [|t todo IH]; intros visited rc G Htodo Hall; cbn [validate_loop].
    - assert (Hkv : forall x, In x keys -> In x visited) by (intros x Hx; destruct (Hall x Hx) as [H|[]]; exact H).
      assert (Hvk : forall x, In x visited -> In x keys) by (intros x Hx; now destruct (ldd_good x (g_loaded _ _ G x Hx))).
      destruct (g_fin _ _ G) as (fin & Ht & Hf).
      simpl. split; [intros x Hx; apply (g_loaded _ _ G), Hkv, Hx|]. split; [|split; [|split]].
      + intros x d Hx Hd. apply Hvk. eapply ginv_closed; eauto.
      + intros x Hx. eapply topoV_acyclic; [exact Ht | apply Hf, Hkv, Hx].
      + intros t. rewrite in_map_iff. split.
        * intros ((t' & c) & Et & Hin). cbn [fst] in Et. subst t'. apply filter_In in Hin as [Hin Hc]. cbn [snd] in Hc.
          apply Nat.eqb_eq in Hc. subst c. split.
          -- apply (g_rc_keys _ _ G). apply in_map_iff. exists (t, 0). auto.
          -- intros x Hx. apply (g_rc_cnt _ _ G t 0 Hin); [reflexivity | now apply Hkv].
        * intros [Hk Hno]. destruct (g_acct _ _ G t (Hkv t Hk)) as [H|(p0 & Hp0 & Hd)].
          -- apply in_map_iff in H as ((t' & c) & Et & Hin). cbn [fst] in Et. subst t'.
             assert (c = 0) by (apply (g_rc_cnt _ _ G t c Hin); intros x Hx; apply Hno, Hvk, Hx). subst c.
             exists (t, 0). split; [reflexivity|]. apply filter_In. split; [assumption | reflexivity].
          -- exfalso. apply (Hno p0); [now apply Hvk | exact Hd].
      + apply nodup_map_filter. apply (g_rc_nodup _ _ G).
    - destruct (mem t visited) eqn:Ev.
      + apply mem_In in Ev. apply IH; [exact G | intros x Hx; apply Htodo; right; exact Hx|].
        intros x Hx. destruct (Hall x Hx) as [H|[<-|H]]; auto.
      + apply mem_false in Ev.
        assert (Hk : In t keys) by (apply Htodo; left; reflexivity).
        destruct (tinv_start t visited rc G Hk Ev) as (fin & I).
        pose proof (traverse_sound t fuel _ _ _ _ _ I) as Hs.
        destruct (traverse g fuel keys [(t, false)] visited [] (rc ++ [(t, 0)])) as [[[v' rc']|]|r]; simpl in Hs.
        * destruct Hs as (G' & Hsub & Hfst). apply IH; [exact G' | intros x Hx; apply Htodo; right; exact Hx|].
          intros x Hx. destruct (Hall x Hx) as [H|[<-|H]]; [left; now apply Hsub | left | right; exact H].
          apply (g_rc_vis _ _ G'). rewrite Hfst, map_app. apply in_or_app. right. left. reflexivity.
        * destruct Hs.
        * destruct r as [roots| |x|]; simpl in *.
          -- destruct Hs.
          -- destruct Hs as (y & Hy & Hc). exists t, y. auto.
          -- destruct Hs as (Hr & Hl). exists t. auto.
          -- exact Logic.I.
  Qed.

  Lemma ginv_init : GInv [] [].
  Proof.
    constructor; simpl.
    - exists []. split; [exact Logic.I | intros x; tauto].
    - intros x [].
    - constructor.
    - intros t [].
    - intros t [].
    - intros t c [].
    - intros x [].
  Qed.

  Theorem validate_all_sound fuel : vsound (validate_all g fuel keys).
  Proof. unfold validate_all. apply validate_loop_sound; [apply ginv_init | auto | auto]. Qed.

  (* ---------- termination ---------- *)
  Let K := nodup Nat.eq_dec keys.
  Definition wv (x : nat) : nat := length (deps x) + 1.
  Definition potv (visited : list nat) : nat := list_sum (map (fun x => if mem x visited then 0 else wv x) K).
  Definition vfuel : nat := 2 + list_sum (map wv K).

  Lemma potv_le visited : potv visited <= list_sum (map wv K).
  Proof. unfold potv. induction K as [|a l IH]; simpl; [lia|]. destruct (mem a visited); lia. Qed.

  Lemma potv_visit visited x : In x keys -> ~ In x visited -> potv (x :: visited) + wv x = potv visited.
  Proof.
    intros Hk Hv. unfold potv.
    assert (G : forall l, NoDup l -> In x l ->
              list_sum (map (fun y => if mem y (x :: visited) then 0 else wv y) l) + wv x =
              list_sum (map (fun y => if mem y visited then 0 else wv y) l)).
    { induction l as [|a l IH]; intros Hn Hin; [destruct Hin|].
      inversion Hn as [|? ? Ha Hn']; subst. cbn [map list_sum fold_right]. destruct Hin as [->|Hin].
      - replace (mem x (x :: visited)) with true by (cbn [mem]; now rewrite Nat.eqb_refl).
        apply mem_false in Hv. rewrite Hv.
        assert (E : map (fun y => if mem y (x :: visited) then 0 else wv y) l = map (fun y => if mem y visited then 0 else wv y) l).
        { apply map_ext_in. intros y Hy. cbn [mem]. assert (y <> x) by (intros ->; contradiction).
          apply Nat.eqb_neq in H. now rewrite H. }
        rewrite E. cbv iota. lia.
      - assert (Hax : a <> x) by (intros ->; contradiction). apply Nat.eqb_neq in Hax.
        replace (mem a (x :: visited)) with (mem a visited) by (cbn [mem]; now rewrite Hax).
        specialize (IH Hn' Hin). unfold list_sum in *. lia. }
    apply G; [apply NoDup_nodup | now apply nodup_In].
  Qed.

  Lemma traverse_terminates fuel : forall stack visited path rc,
    length stack + potv visited < fuel ->
    match traverse g fuel keys stack visited path rc with
    | inl (Some _) => True | inl None => False | inr VOutOfFuel => False | inr _ => True
    end.
  Proof.
    induction fuel as [|f IH]; intros stack visited path rc Hf; [lia|].
    cbn [traverse]. destruct stack as [|[x [|]] st]; [exact Logic.I| |].
    - apply IH. simpl in Hf. lia.
    - destruct (mem x path); [exact Logic.I|].
      destruct (mem x visited) eqn:Ev; [apply IH; simpl in Hf; lia|].
      destruct (loaded g keys x) eqn:El; cbn [negb]; [|exact Logic.I].
      apply IH. apply mem_false in Ev. destruct (ldd_good x El) as [Hk _].
      pose proof (potv_visit visited x Hk Ev) as Hp. unfold wv in Hp.
      rewrite app_length, rev_length, map_length. simpl in *. lia.
  Qed.

  Lemma validate_loop_terminates fuel : vfuel <= fuel -> forall todo visited rc,
    validate_loop g fuel keys todo visited rc <> VOutOfFuel.
  Proof.
    intros Hf. induction todo as [|t todo IH]; intros visited rc; cbn [validate_loop]; [discriminate|].
    destruct (mem t visited); [apply IH|].
    pose proof (traverse_terminates fuel [(t, false)] visited [] (rc ++ [(t, 0)])) as Ht.
    destruct (traverse g fuel keys [(t, false)] visited [] (rc ++ [(t, 0)])) as [[[v' rc']|]|r].
    - apply IH.
    - exfalso. apply Ht. pose proof (potv_le visited). unfold vfuel in Hf. simpl. lia.
    - destruct r; try discriminate. exfalso. apply Ht. pose proof (potv_le visited). unfold vfuel in Hf. simpl. lia.
  Qed.

  Theorem validate_all_terminates fuel : vfuel <= fuel -> validate_all g fuel keys <> VOutOfFuel.
  Proof. intros Hf. unfold validate_all. now apply validate_loop_terminates. Qed.

  (* whole-project validation rejects exactly the projects with a defect *)
  Definition VDefect : Prop :=
    (exists t y, In t keys /\ (y = t \/ Path t y) /\ Path y y) \/
    (exists t x, In t keys /\ (x = t \/ Path t x) /\ loaded g keys x = false).

  Theorem validate_all_decides fuel : vfuel <= fuel ->
    ((exists roots, validate_all g fuel keys = VOk roots) <-> ~ VDefect) /\
    (forall roots, validate_all g fuel keys = VOk roots ->
       (forall t, In t roots <-> In t keys /\ forall x, In x keys -> ~ In t (deps x)) /\ NoDup roots).
  Proof.
    intros Hf. pose proof (validate_all_sound fuel) as Hs. pose proof (validate_all_terminates fuel Hf) as Ht.
    split.
    - split.
      + intros (roots & E). rewrite E in Hs. simpl in Hs. destruct Hs as (Hl & Hc & Ha & _).
        assert (Hin : forall t y, In t keys -> Path t y -> In y keys).
        { intros t y Hk Hp. induction Hp as [a b He | a b c He _ IH]; [eapply Hc; [exact Hk | now apply edge_deps]|].
          apply IH. eapply Hc; [exact Hk | now apply edge_deps]. }
        intros [(t & y & Hk & Hr & Hcy)|(t & x & Hk & Hr & Hnl)].
        * assert (Hyk : In y keys) by (destruct Hr as [->|Hp]; [assumption | eapply Hin; eauto]). now apply (Ha y Hyk).
        * assert (Hxk : In x keys) by (destruct Hr as [->|Hp]; [assumption | eapply Hin; eauto]).
          pose proof (Hl x Hxk) as H. unfold ldd in H. congruence.
      + intros Hnd. destruct (validate_all g fuel keys) as [roots| |x|] eqn:E; [eauto | | |congruence]; exfalso; apply Hnd; simpl in Hs.
        * left. exact Hs.
        * right. destruct Hs as (t & Hk & Hr & Hl). eauto.
    - intros roots E. rewrite E in Hs. simpl in Hs. destruct Hs as (_ & _ & _ & Hr & Hn). auto.
  Qed.
End V.
