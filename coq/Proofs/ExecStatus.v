(* The verdict of a run (Executor._report_execution_results): "Done!" exactly when no operation failed
   or was skipped, a failure report naming at least one failed operation otherwise -- and the
   `assert len(failed_task_ops) > 0` cannot fire when the root task is part of the plan. *)
From Coq Require Import List Arith Bool Lia Permutation NArith.
From Conductor Require Import Model.Loader Model.Planner Model.Exec
  Proofs.ListFacts Proofs.ExecInv Proofs.ExecSteps Proofs.ExecTheorems Proofs.ExecMain.
Import ListNotations.

Definition is_skip (e : event) : bool := match e with ESkip _ => true | _ => false end.
Definition loop_event (e : event) : Prop :=
  match e with ECached _ | EStart _ _ | ESkip _ | ELaunchFail _ | EFinish _ _ => True | _ => False end.

Section Status.
  Variables (p : plan) (jobs : nat) (stop : bool) (orc : oracle).
  Hypothesis wf : wf_plan p.
  Hypothesis Hjobs : 1 <= jobs.
  Let n := length (p_ops p).

  (* the event one step of the loop appends; when the step leaves the loop early it is a failure *)
  Lemma xstep_event s s' :
    xstep p jobs stop orc s = Some s' ->
    exists ev, trace s' = ev :: trace s /\ loop_event ev /\ (stopped s' = true -> is_failure ev = true).
  Proof.
    unfold xstep. destruct (stopped s) eqn:Hs; [discriminate|].
    destruct (gate_open jobs s).
    - intros H; inversion H; subst s'. unfold launch_one. destruct (dequeue s) as [[o rS] rP].
      destruct (negb (forallb (succeeded s) (exe_deps p o))).
      { eexists. split; [reflexivity|]. split; [exact I|]. cbn. rewrite Hs. discriminate. }
      destruct (launch_fails orc o).
      { destruct stop; (eexists; split; [reflexivity|]; split; [exact I|]); [reflexivity|]. cbn. rewrite Hs. discriminate. }
      destruct (op_sync (opi p o)); (eexists; split; [reflexivity|]; split; [exact I|]); cbn; rewrite Hs; discriminate.
    - destruct (Nat.eqb (inflight s) 0); [discriminate|].
      intros H; inversion H; subst s'. unfold wait_one. destruct (syncs s) as [|o sy].
      + destruct (nth _ (procs s) (0, None)) as [o slot].
        destruct (N.eqb (rc_of orc o) 0) eqn:Erc; cbn [negb andb].
        * eexists. split; [reflexivity|]. split; [exact I|]. cbn. rewrite Hs. discriminate.
        * destruct stop; (eexists; split; [reflexivity|]; split; [exact I|]).
          -- intros _. cbn. rewrite Erc. reflexivity.
          -- cbn. rewrite Hs. discriminate.
      + eexists. split; [reflexivity|]. split; [exact I|]. cbn. rewrite Hs. discriminate.
  Qed.

  Lemma xinit_facts : trace (xinit p jobs) = rev (map ECached (p_cached p)) /\ stopped (xinit p jobs) = false.
  Proof.
    unfold xinit. destruct (ExecSteps.fold_enqueue p (p_initial p)
      {| readyS := []; readyP := []; syncs := []; procs := []; avail := seq 0 jobs; runpar := false; completed := [];
         ost := fun _ => QUEUED; waiting := fun o => length (exe_deps p o); dequeued := 0; waits := 0;
         trace := rev (map ECached (p_cached p)); stopped := false |}) as (_ & _ & _ & _ & _ & _ & _ & _ & _ & Htr & Hst).
    cbv zeta in Htr, Hst. split; [exact Htr | exact Hst].
  Qed.

  Lemma reachable_events s :
    reachable p jobs stop orc s ->
    (forall e, In e (trace s) -> loop_event e) /\
    (stopped s = true -> exists e, In e (trace s) /\ is_failure e = true).
  Proof.
    induction 1 as [|s s' _ [IH1 IH2] Hx].
    - destruct xinit_facts as [Etr Est]. split.
      + intros e He. rewrite Etr in He. apply in_rev, in_map_iff in He as (t & <- & _). exact I.
      + rewrite Est. discriminate.
    - destruct (xstep_event s s' Hx) as (ev & Etr & Hl & Hf). split.
      + intros e He. rewrite Etr in He. destruct He as [<-|He]; auto.
      + intros Hst. exists ev. split; [rewrite Etr; left; reflexivity | auto].
  Qed.

  (* an operation whose launch failed was never started *)
  Lemma launchfail_not_started tr o sl : TraceOK p tr -> In (ELaunchFail o) tr -> In (EStart o sl) tr -> False.
  Proof.
    intros Hok Hl Hs. apply in_split in Hs as (a & b & E). rewrite E in Hl, Hok.
    apply in_app_or in Hl as [Hl|[Hl|Hl]]; [|discriminate|].
    - apply in_split in Hl as (a1 & a2 & ->). rewrite <- app_assoc in Hok.
      apply TraceOK_suffix in Hok. cbn [app ExecInv.TraceOK] in Hok. destruct Hok as (_ & H & _).
      apply (H sl). apply in_or_app. right. left. reflexivity.
    - apply TraceOK_suffix in Hok. cbn [ExecInv.TraceOK] in Hok. destruct Hok as (_ & _ & _ & _ & H). contradiction.
  Qed.

  (* a failure or skip event in the trace names a completed operation that did not succeed *)
  Lemma bad_event_not_succeeded s e :
    Inv p jobs stop orc s -> In e (trace s) -> is_failure e = true \/ is_skip e = true ->
    exists o, In o (completed s) /\ succeeded s o = false.
  Proof.
    intros [Hc Hs _ Ht _] He Hbad.
    assert (Hrange : forall o, In o (completed s) -> o < n).
    { intros o Ho. apply (c_range _ _ _ _ _ _ _ _ Hc). unfold allqP. rewrite !in_app_iff. tauto. }
    pose proof (t_ok _ _ _ _ _ _ _ Ht) as Hok.
    destruct e as [t|o sl|o|o|o rc|k| |f sk|]; destruct Hbad as [Hb|Hb]; try discriminate.
    - (* ESkip *)
      assert (Hin : In o (completed s)) by (apply (t_done _ _ _ _ _ _ _ Ht); auto).
      exists o. split; [assumption|]. apply (t_skip _ _ _ _ _ _ _ Ht o (Hrange o Hin)) in He.
      unfold succeeded. rewrite He. reflexivity.
    - (* ELaunchFail *)
      assert (Hin : In o (completed s)) by (apply (t_done _ _ _ _ _ _ _ Ht); auto).
      exists o. split; [assumption|]. unfold succeeded. destruct (ost s o) eqn:Est; try reflexivity. exfalso.
      apply (t_succ _ _ _ _ _ _ _ Ht o (Hrange o Hin)) in Est.
      destruct (finish_has_start p (trace s) o 0%N Hok Est) as (sl & Hst).
      eapply launchfail_not_started; eauto.
    - (* EFinish with a non-zero status *)
      assert (Hin : In o (completed s)) by (apply (t_done _ _ _ _ _ _ _ Ht); eauto).
      exists o. split; [assumption|]. unfold succeeded. destruct (ost s o) eqn:Est; try reflexivity. exfalso.
      apply (t_fin_state _ _ _ _ _ _ _ Ht o rc He) in Est. subst rc. discriminate.
  Qed.

  Lemma all_ok_no_bad_event s :
    Inv p jobs stop orc s -> forallb (succeeded s) (completed s) = true ->
    forall e, In e (trace s) -> is_failure e = false /\ is_skip e = false.
  Proof.
    intros HI Hall e He.
    destruct (is_failure e) eqn:Ef; [exfalso|destruct (is_skip e) eqn:Es; [exfalso|auto]].
    - destruct (bad_event_not_succeeded s e HI He (or_introl Ef)) as (o & Ho & Hns).
      rewrite forallb_forall in Hall. rewrite (Hall o Ho) in Hns. discriminate.
    - destruct (bad_event_not_succeeded s e HI He (or_intror Es)) as (o & Ho & Hns).
      rewrite forallb_forall in Hall. rewrite (Hall o Ho) in Hns. discriminate.
  Qed.

  Lemma not_all_ok_bad_event s :
    Inv p jobs stop orc s -> forallb (succeeded s) (completed s) = false ->
    exists e, In e (trace s) /\ (is_failure e = true \/ is_skip e = true).
  Proof.
    intros [_ _ _ Ht _] Hall.
    assert (Hex : exists o, In o (completed s) /\ succeeded s o = false).
    { induction (completed s) as [|x l IHl]; [discriminate|]. cbn [forallb] in Hall.
      apply andb_false_iff in Hall as [E|E].
      - exists x. split; [left; reflexivity | exact E].
      - destruct (IHl E) as (o & Ho & Hs). exists o. split; [right; assumption | assumption]. }
    destruct Hex as (o & Ho & Hns).
    destruct (t_compl _ _ _ _ _ _ _ Ht o Ho) as [H|[H|(rc & H)]].
    - exists (ESkip o). split; [assumption | right; reflexivity].
    - exists (ELaunchFail o). split; [assumption | left; reflexivity].
    - exists (EFinish o rc). split; [assumption | left]. cbn. apply negb_true_iff. destruct (N.eqb rc 0) eqn:E; [|reflexivity].
      apply N.eqb_eq in E. apply (t_fin_state _ _ _ _ _ _ _ Ht o rc H) in E. unfold succeeded in Hns. rewrite E in Hns. discriminate.
  Qed.

  Lemma all_ok_all_finished s :
    Inv p jobs stop orc s -> forallb (succeeded s) (completed s) = true ->
    forall o, In o (completed s) -> In (EFinish o 0%N) (trace s).
  Proof.
    intros HI Hall o Ho. pose proof HI as [_ _ _ Ht _].
    destruct (t_compl _ _ _ _ _ _ _ Ht o Ho) as [H|[H|(rc & H)]].
    - destruct (all_ok_no_bad_event s HI Hall _ H) as [_ E]. discriminate.
    - destruct (all_ok_no_bad_event s HI Hall _ H) as [E _]. discriminate.
    - destruct (all_ok_no_bad_event s HI Hall _ H) as [E _]. cbn in E. apply negb_false_iff, N.eqb_eq in E. now subst rc.
  Qed.

  (* the root task is part of the plan: lowered to an operation, or the plan is empty and it is cached *)
  Variable root : nat.
  Hypothesis Hroot : (exists o, o < n /\ op_task (opi p o) = root) \/ (n = 0 /\ In root (p_cached p)).

  Theorem verdict s :
    final_state p jobs stop orc s ->
    let all_ok := forallb (succeeded s) (completed s) in
    (all_ok = true -> report p root s = [EDone; EKill (map fst (procs s))] /\ stopped s = false /\ forall o, o < n -> In o (completed s)) /\
    (all_ok = false -> exists f sk, report p root s = [EFailed f sk; EKill (map fst (procs s))] /\ f <> []).
  Proof.
    intros Hfin all_ok.
    pose proof (final_reachable _ _ _ _ _ Hfin) as Hreach.
    pose proof (reachable_inv _ _ _ _ _ wf Hjobs Hreach) as HI.
    pose proof (final_no_step _ _ _ _ _ Hfin) as Hx.
    pose proof (main_report p jobs stop orc wf Hjobs s root Hfin) as Hrep.
    split; intros Hall; subst all_ok.
    - assert (Hst : stopped s = false).
      { destruct (stopped s) eqn:Hst; [exfalso|reflexivity].
        destruct (reachable_events s Hreach) as [_ Hf]. destruct (Hf Hst) as (e & He & Hfe).
        destruct (all_ok_no_bad_event s HI Hall e He) as [Hnf _]. congruence. }
      pose proof (all_completed p jobs stop orc wf Hjobs s HI Hx Hst) as Hcomp.
      split; [|split; [exact Hst | exact Hcomp]].
      unfold report. rewrite Hall. cbn [andb].
      assert (Hm : existsb (fun o => Nat.eqb (op_task (opi p o)) root) (completed s)
                   || match completed s with [] => mem root (p_cached p) | _ => false end = true).
      { destruct Hroot as [(o & Ho & Et)|(Hn0 & Hc)].
        - apply orb_true_iff. left. apply existsb_exists. exists o. split; [now apply Hcomp | now apply Nat.eqb_eq].
        - apply orb_true_iff. right. destruct (completed s) as [|x l] eqn:Ec; [now apply mem_In|]. exfalso.
          destruct HI as [Hcv _ _ _ _].
          assert (x < n) by (apply (c_range _ _ _ _ _ _ _ _ Hcv); unfold allqP; rewrite Ec, !in_app_iff; simpl; tauto).
          lia. }
      rewrite Hm. reflexivity.
    - unfold report in *. rewrite Hall in *. cbn [andb] in *.
      destruct (filter (fun o => ostate_eqb (ost s o) FAILED) (completed s)) as [|f0 fl] eqn:Ef.
      + discriminate Hrep.
      + eexists. eexists. split; [reflexivity | discriminate].
  Qed.
End Status.
