(* Tie between Model/Planner.v push_deps (the dependency loop of the first visit of create_plan_for) and the loop body
   TRANSLATED from planner.py of the working tree (Gen/Generated.v gen_push_dep). *)
From Coq Require Import List NArith Bool.
From Conductor Require Import Gen.Generated Model.Planner.
Import ListNotations.
Local Open Scope N_scope.

Lemma push_deps_step_tie : forall d ds vis st stk deps,
  push_deps (d :: ds) vis st stk deps =
  match gen_push_dep (match lookup d vis with Some _ => true | None => false end), lookup d vis with
  | 0, Some v => push_deps ds vis st stk (deps ++ [v])
  | _, _ =>
    let j := length st in
    push_deps ds vis (st ++ [{| lt_task := d; lt_second := false; lt_deps := []; lt_out := Own [] |}]) (j :: stk) (deps ++ [j])
  end.
Proof.
  intros d ds vis st stk deps. cbn [push_deps]. destruct (lookup d vis) as [v|]; reflexivity.
Qed.
