(* Ties between hand-written models and definitions TRANSLATED from the source on every run
   (Gen/Generated.v, harness/gen_generated.py): if the launch conditions of the executor or the
   timestamp rule of the version index change in /repo, these equalities stop being provable and
   every property whose theorems rest on the model reports a broken obligation. *)
From Coq Require Import List Arith Bool NArith.
From Conductor Require Import Gen.Generated Model.Loader Model.Planner Model.Exec Model.Store.
Import ListNotations.

(* Executor._launch_ops_if_able: the loop goes on exactly when the model's gate is open *)
Lemma gate_tie : forall jobs s,
  gate_open jobs s = gen_gate_open (has_ops s) (has_par s) (runpar s) (inflight s) jobs.
Proof.
  intros jobs s. unfold gate_open, gen_gate_open. cbv zeta.
  rewrite negb_andb, !negb_involutive. reflexivity.
Qed.

(* VersionIndex.generate_new_output_version: the timestamp rule of Model/Store.v *)
Lemma gen_version_tie : forall last now, gen_version last now = gen_new_version last now.
Proof. intros last now. unfold gen_version, gen_new_version. reflexivity. Qed.
