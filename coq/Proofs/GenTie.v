(* Ties between hand-written models and definitions TRANSLATED from the source on every run
   (Gen/Generated.v, harness/gen_generated.py): if the launch conditions of the executor or the
   timestamp rule of the version index change in /repo, these equalities stop being provable and
   every property whose theorems rest on the model reports a broken obligation. *)
From Coq Require Import List Arith Bool NArith.
From Conductor Require Import Gen.Generated Model.Loader Model.Planner Model.Exec Model.Store Proofs.ExecNested.
Import ListNotations.

(* Executor._launch_ops_if_able: the loop goes on exactly when the model's gate is open *)
Lemma gate_tie : forall jobs s,
  gate_open jobs s = gen_gate_open (has_ops s) (has_par s) (runpar s) (inflight s) jobs.
Proof.
  intros jobs s. unfold gate_open, gen_gate_open. cbv zeta.
  rewrite negb_andb, !negb_involutive. reflexivity.
Qed.

(* VersionIndex.generate_new_output_version: the timestamp rule of Model/Store.v *)
Lemma gen_version_tie : forall last now, gen_version last now = gen_new_version last now.
Proof. intros last now. unfold gen_version, gen_new_version. reflexivity. Qed.

(* Executor.run_plan: with the launch gate closed (the launch loop has just ended), the source's loop
   condition `has_ops or len(inflight) > 0` holds exactly when the model goes on to wait, and the
   source's `if len(inflight) == 0: continue` is the model's test *)
Lemma loop_tie : forall jobs s, gate_open jobs s = false ->
  gen_loop_goes_on (has_ops s) (inflight s) = negb (Nat.eqb (inflight s) 0) /\
  gen_skip_wait (inflight s) = Nat.eqb (inflight s) 0.
Proof.
  intros jobs s Hg. split; [|reflexivity]. unfold gen_loop_goes_on. unfold gate_open in Hg.
  apply orb_false_iff in Hg as [Hg _]. destruct (inflight s) as [|n] eqn:E.
  - cbn in *. rewrite andb_true_r in Hg. rewrite Hg. reflexivity.
  - cbn. apply orb_true_r.
Qed.

(* a launched operation is given a slot exactly when it is parallelizable and there are at least two slots *)
Lemma slot_tie : forall par jobs, gen_wants_slot par jobs = par && Nat.ltb 1 jobs.
Proof. reflexivity. Qed.

(* the planner reports a first-visited task as cached (and does not traverse it) exactly when the model does *)
Lemma prune_tie : forall again b, gen_prune again b = negb again && negb b.
Proof. reflexivity. Qed.

(* ... and that is the slot the model's launch step records: when the dequeued operation is launched
   (its dependencies succeeded, the launch does not fail) the start event carries the top of the
   free-slot stack exactly when the TRANSLATED condition holds of the operation just dequeued *)
Lemma slot_tie_launch : forall p jobs stop orc s,
  let o := fst (fst (dequeue s)) in
  forallb (succeeded s) (exe_deps p o) = true -> launch_fails orc o = false ->
  trace (launch_one p jobs stop orc s) =
  EStart o (if gen_wants_slot (is_par p o) jobs then hd_error (avail s) else None) :: trace s.
Proof.
  intros p jobs stop orc s. unfold launch_one. destruct (dequeue s) as [[o rS] rP]. cbn [fst].
  intros Hd Hl. rewrite Hd, Hl. cbn [negb]. unfold gen_wants_slot.
  destruct (op_sync (opi p o)); reflexivity.
Qed.

(* ... and that is the branch the model's planner step takes: a task visited for the first time is
   recorded as cached, and its dependencies are not pushed, exactly when the TRANSLATED condition
   holds of (--again, should_run t) *)
Lemma prune_tie_pstep : forall info sr again s i stk,
  stack s = i :: stk ->
  let t := lt_task (nth i (store s) dummy_lt) in
  lt_second (nth i (store s) dummy_lt) = false -> Planner.lookup t (visited s) = None ->
  match pstep info sr again s with
  | Some s' => if gen_prune again (sr t) then cached s' = cached s ++ [t] /\ stack s' = stk
               else cached s' = cached s
  | None => False
  end.
Proof.
  intros info sr again s i stk Es t H2 Hl. unfold pstep. rewrite Es. fold t. rewrite H2. cbn [negb]. rewrite Hl.
  unfold gen_prune. destruct (negb again && negb (sr t)).
  - split; reflexivity.
  - destruct (push_deps _ _ _ _ _) as [[st1 stk1] deps1]. reflexivity.
Qed.

(* the three tests of the NESTED loops (Proofs/ExecNested.v: Run / Launch) are the translated ones, at
   every state, with no side condition: `while has_ops or len(inflight) > 0`, the break test of
   _launch_ops_if_able, and `if len(inflight) == 0: continue` *)
Lemma nested_tie : forall jobs s,
  loop_cond s = gen_loop_goes_on (has_ops s) (inflight s) /\
  gate_open jobs s = gen_gate_open (has_ops s) (has_par s) (runpar s) (inflight s) jobs /\
  Nat.eqb (inflight s) 0 = gen_skip_wait (inflight s).
Proof.
  intros jobs s. split; [|split; [apply gate_tie | reflexivity]].
  unfold loop_cond, gen_loop_goes_on. destruct (inflight s); reflexivity.
Qed.
