(* Ties between hand-written models and definitions TRANSLATED from the source on every run
   (Gen/Generated.v, harness/gen_generated.py): if the launch conditions of the executor or the
   timestamp rule of the version index change in /repo, these equalities stop being provable and
   every property whose theorems rest on the model reports a broken obligation. *)
From Coq Require Import List Arith Bool NArith.
From Conductor Require Import Gen.Generated Model.Loader Model.Planner Model.Exec Model.Store.
Import ListNotations.

(* Executor._launch_ops_if_able: the loop goes on exactly when the model's gate is open *)
Lemma gate_tie : forall jobs s,
  gate_open jobs s = gen_gate_open (has_ops s) (has_par s) (runpar s) (inflight s) jobs.
Proof.
  intros jobs s. unfold gate_open, gen_gate_open. cbv zeta.
  rewrite negb_andb, !negb_involutive. reflexivity.
Qed.

(* VersionIndex.generate_new_output_version: the timestamp rule of Model/Store.v *)
Lemma gen_version_tie : forall last now, gen_version last now = gen_new_version last now.
Proof. intros last now. unfold gen_version, gen_new_version. reflexivity. Qed.

(* Executor.run_plan: with the launch gate closed (the launch loop has just ended), the source's loop
   condition `has_ops or len(inflight) > 0` holds exactly when the model goes on to wait, and the
   source's `if len(inflight) == 0: continue` is the model's test *)
Lemma loop_tie : forall jobs s, gate_open jobs s = false ->
  gen_loop_goes_on (has_ops s) (inflight s) = negb (Nat.eqb (inflight s) 0) /\
  gen_skip_wait (inflight s) = Nat.eqb (inflight s) 0.
Proof.
  intros jobs s Hg. split; [|reflexivity]. unfold gen_loop_goes_on. unfold gate_open in Hg.
  apply orb_false_iff in Hg as [Hg _]. destruct (inflight s) as [|n] eqn:E.
  - cbn in *. rewrite andb_true_r in Hg. rewrite Hg. reflexivity.
  - cbn. apply orb_true_r.
Qed.

(* a launched operation is given a slot exactly when it is parallelizable and there are at least two slots *)
Lemma slot_tie : forall par jobs, gen_wants_slot par jobs = par && Nat.ltb 1 jobs.
Proof. reflexivity. Qed.

(* the planner reports a first-visited task as cached (and does not traverse it) exactly when the model does *)
Lemma prune_tie : forall again b, gen_prune again b = negb again && negb b.
Proof. reflexivity. Qed.
