(* --stop-early, end to end on the event list of the composed model: once a failure has been observed
   nothing is started any more. *)
From Coq Require Import List Arith Bool Lia NArith.
From Conductor Require Import Model.Loader Model.Planner Model.Exec Model.RunCase
  Proofs.ListFacts Proofs.PlannerInv Proofs.PlannerExact
  Proofs.ExecInv Proofs.ExecTheorems Proofs.ExecMain Proofs.Compose Proofs.ComposeExec Proofs.ComposeRun.
Import ListNotations.

Lemma failure_is_last p jobs orc s :
  wf_plan p -> 1 <= jobs -> reachable p jobs true orc s ->
  forall post e pre, trace s = post ++ e :: pre -> is_failure e = true -> post = [].
Proof.
  intros Hwf Hjobs Hr. induction Hr as [|s s' Hr IH Hx]; intros post e pre Et He.
  - exfalso. unfold xinit in Et.
    destruct (ExecSteps.fold_enqueue p (p_initial p)
      {| readyS := []; readyP := []; syncs := []; procs := []; avail := seq 0 jobs; runpar := false; completed := [];
         ost := fun _ => QUEUED; waiting := fun o => length (exe_deps p o); dequeued := 0; waits := 0;
         trace := rev (map ECached (p_cached p)); stopped := false |}) as (_ & _ & _ & _ & _ & _ & _ & _ & _ & Htr & _).
    cbv zeta in Htr. rewrite Htr in Et. cbn [trace] in Et.
    assert (Hin : In e (rev (map ECached (p_cached p)))) by (rewrite Et; apply in_or_app; right; left; reflexivity).
    apply in_rev, in_map_iff in Hin as (t & <- & _). discriminate.
  - destruct (main_stop_early p jobs true orc Hwf Hjobs s s' Hr Hx eq_refl) as (ev & Etr & Hnf).
    rewrite Etr in Et. destruct post as [|x post]; [reflexivity|]. exfalso.
    cbn [app] in Et. inversion Et as [[Ex Erest]].
    assert (Hin : In e (trace s)) by (rewrite Erest; apply in_or_app; right; left; reflexivity).
    rewrite (Hnf e Hin) in He. discriminate.
Qed.

Lemma report_no_failure p root s e : In e (report p root s) -> is_failure e = false.
Proof.
  unfold report. destruct (_ && _); [intros [<-|[<-|[]]]; reflexivity|].
  destruct (filter _ _); intros [<-|[<-|[]]]; reflexivity.
Qed.

Theorem cond_run_stop_early fuel tasks c loaded ps evs :
  cond_run fuel tasks c = ORun loaded ps (Some evs) -> 1 <= c_jobs c -> c_stop c = true ->
  forall pre e post, evs = pre ++ e :: post -> is_failure e = true ->
  (forall x sl, ~ In (EStart x sl) post) /\ (forall e', In e' pre -> is_failure e' = false).
Proof.
  intros H Hjobs Hstop pre e post E He.
  destruct (cond_run_unfold _ _ _ _ _ _ H) as (Hload & Hplan & s & Hfin & Hev).
  pose proof (composed_wf tasks (c_root c) fuel loaded Hload (sr_of tasks) (c_again c) fuel ps Hplan) as Hwf.
  rewrite Hstop in Hfin. pose proof (final_reachable _ _ _ _ _ Hfin) as Hreach.
  (* e lies in the trace part of the event list *)
  rewrite E in Hev. apply (f_equal (@rev event)) in Hev. rewrite rev_involutive, rev_app_distr in Hev. cbn [rev] in Hev.
  rewrite <- app_assoc in Hev. cbn [app] in Hev. symmetry in Hev.
  assert (Hnr : ~ In e (report (plan_of ps) (c_root c) s)) by (intros Hin; rewrite (report_no_failure _ _ _ _ Hin) in He; discriminate).
  destruct (split_after_prefix _ _ _ _ _ Hev Hnr) as (post' & E1 & E2).
  pose proof (failure_is_last _ _ _ _ Hwf Hjobs Hreach post' e (rev pre) E2 He) as Hp. subst post'.
  rewrite app_nil_r in E1. split.
  - intros x sl Hin. apply in_rev in Hin. rewrite E1 in Hin. eapply report_no_start; eauto.
  - intros e' Hin. destruct (is_failure e') eqn:Ef; [|reflexivity]. exfalso.
    apply in_rev in Hin. apply in_split in Hin as (a & b & Eab).
    cbn [app] in E2. rewrite Eab in E2.
    assert (E3 : trace s = (e :: a) ++ e' :: b) by (rewrite E2; reflexivity).
    pose proof (failure_is_last _ _ _ _ Hwf Hjobs Hreach (e :: a) e' b E3 Ef). discriminate.
Qed.
