(* Lemmas behind Props/C18.v, about Model/Combine.v. *)
From Coq Require Import List Arith NArith Bool Lia.
From Conductor Require Import Lib.Str Lib.Path Gen.Generated Model.Ident Model.Combine
  Proofs.PathProofs Proofs.IdentSpec.
Import ListNotations.
Local Open Scope N_scope.

(* ---------- the directory map ---------- *)
Lemma str_eqb_neq a b : a <> b -> str_eqb a b = false.
Proof. apply str_eqb_false. Qed.

Lemma lookup_add_same n e d : lookup n (add n e d) = Some e.
Proof. unfold add. simpl. now rewrite str_eqb_refl. Qed.

Lemma lookup_add_other n m e d : n <> m -> lookup n (add m e d) = lookup n d.
Proof. intros H. unfold add. simpl. now rewrite (str_eqb_neq _ _ H). Qed.

Lemma lookup_remove_same n d : lookup n (remove n d) = None.
Proof.
  induction d as [|[m e] d IH]; simpl; [reflexivity|].
  destruct (str_eqb n m) eqn:E; [assumption|]. simpl. now rewrite E.
Qed.

Lemma lookup_remove_other n m d : n <> m -> lookup n (remove m d) = lookup n d.
Proof.
  intros H. induction d as [|[k e] d IH]; simpl; [reflexivity|].
  destruct (str_eqb m k) eqn:E.
  - apply str_eqb_spec in E; subst k. now rewrite (str_eqb_neq _ _ H).
  - simpl. now rewrite IH.
Qed.

Lemma lookup_relink_same n e d : lookup n (add n e (remove n d)) = Some e.
Proof. apply lookup_add_same. Qed.

Lemma lookup_relink_other n m e d : n <> m -> lookup n (add m e (remove m d)) = lookup n d.
Proof. intros H. rewrite lookup_add_other by assumption. now apply lookup_remove_other. Qed.

(* ---------- the loop ---------- *)
Definition dep_name (dp : ident * path) : str := iname (fst dp).
Definition names (deps : list (ident * path)) : list str := map dep_name deps.
Definition wanted (f : fs) (dp : ident * path) : bool :=
  fs_is_dir f (snd dp) && fs_nonempty f (snd dp).

(* an entry the loop can deal with: none, or a link Conductor made (dangling or not) *)
Definition entry_ok (co out : path) (n : str) (o : option entry) : Prop :=
  match o with
  | None => True
  | Some e => replaceable co out n e = true
  end.

Lemma skip_test f dp :
  negb (fs_is_dir f (snd dp)) || negb (fs_nonempty f (snd dp)) = negb (wanted f dp).
Proof. unfold wanted. now rewrite negb_andb. Qed.

Lemma in_names dp deps : In dp deps -> In (dep_name dp) (names deps).
Proof. apply in_map. Qed.

Lemma nodup_names_cons id dir rest :
  NoDup (names ((id, dir) :: rest)) -> ~ In (iname id) (names rest) /\ NoDup (names rest).
Proof. intros H. inversion H; subst. auto. Qed.

Section Loop.
  Variable f : fs.
  Variable co : path.
  Variable out : path.

  (* one unfolding of the loop, by cases *)
  Lemma loop_cons id dir rest d :
    combine_loop f co out ((id, dir) :: rest) d =
    if negb (wanted f (id, dir)) then combine_loop f co out rest d
    else match lookup (iname id) d with
         | Some e =>
           if replaceable co out (iname id) e then
             combine_loop f co out rest (add (iname id) (Link (relpath out dir)) (remove (iname id) d))
           else (ConflictAt (iname id), d)
         | None => combine_loop f co out rest (add (iname id) (Link (relpath out dir)) d)
         end.
  Proof. cbn [combine_loop]. unfold wanted. cbn [snd]. rewrite negb_andb. reflexivity. Qed.

  (* names that are not dependency names are never touched, whatever the outcome *)
  Lemma loop_frame n deps : forall d,
    ~ In n (names deps) -> lookup n (snd (combine_loop f co out deps d)) = lookup n d.
  Proof.
    induction deps as [|[id dir] rest IH]; intros d Hn; [reflexivity|].
    rewrite loop_cons. simpl in Hn.
    assert (Hne : n <> iname id) by (intros ->; apply Hn; left; reflexivity).
    assert (Hrest : ~ In n (names rest)) by (intros H; apply Hn; right; exact H).
    destruct (negb (wanted f (id, dir))); [now apply IH|].
    destruct (lookup (iname id) d) as [e|] eqn:El.
    - destruct (replaceable co out (iname id) e); [|reflexivity].
      rewrite IH by assumption. now apply lookup_relink_other.
    - rewrite IH by assumption. now apply lookup_add_other.
  Qed.

  (* an entry the loop may not replace -- a non-link, or somebody else's link -- is never
     changed, whatever the outcome *)
  Lemma loop_kept n e deps : forall d,
    lookup n d = Some e -> replaceable co out n e = false ->
    lookup n (snd (combine_loop f co out deps d)) = Some e.
  Proof.
    induction deps as [|[id dir] rest IH]; intros d Hn Hr; [exact Hn|].
    rewrite loop_cons.
    destruct (negb (wanted f (id, dir))); [now apply IH|].
    destruct (str_eq_dec n (iname id)) as [->|Hne].
    - rewrite Hn, Hr. exact Hn.
    - destruct (lookup (iname id) d) as [e0|] eqn:El.
      + destruct (replaceable co out (iname id) e0); [|exact Hn].
        apply IH; [|exact Hr]. now rewrite lookup_relink_other.
      + apply IH; [|exact Hr]. now rewrite lookup_add_other.
  Qed.

  (* after a successful pass every wanted dependency is linked with the relpath text *)
  Lemma loop_links deps : forall d d',
    NoDup (names deps) ->
    combine_loop f co out deps d = (Done, d') ->
    forall id dir, In (id, dir) deps -> wanted f (id, dir) = true ->
    lookup (iname id) d' = Some (Link (relpath out dir)).
  Proof.
    induction deps as [|[id0 dir0] rest IH]; intros d d' Hnd Hrun id dir Hin Hw; [destruct Hin|].
    destruct (nodup_names_cons _ _ _ Hnd) as [Hnotin Hnd'].
    rewrite loop_cons in Hrun.
    destruct (wanted f (id0, dir0)) eqn:Hw0; simpl in Hrun.
    - assert (Hhead : forall d1,
                combine_loop f co out rest (add (iname id0) (Link (relpath out dir0)) d1) = (Done, d') ->
                lookup (iname id) d' = Some (Link (relpath out dir))).
      { intros d1 Hrun1. destruct Hin as [Heq|Hin].
        - inversion Heq; subst id0 dir0.
          pose proof (loop_frame (iname id) rest (add (iname id) (Link (relpath out dir)) d1) Hnotin) as Hf.
          rewrite Hrun1 in Hf. simpl in Hf. rewrite Hf. apply lookup_add_same.
        - eapply IH; eauto. }
      destruct (lookup (iname id0) d) as [e|] eqn:El.
      + destruct (replaceable co out (iname id0) e); [|discriminate].
        eapply Hhead; exact Hrun.
      + eapply Hhead; exact Hrun.
    - destruct Hin as [Heq|Hin].
      + inversion Heq; subst. congruence.
      + eapply IH; eauto.
  Qed.

  (* if every wanted dependency finds its name free or held by a link Conductor made, the pass succeeds *)
  Lemma loop_done deps : forall d,
    NoDup (names deps) ->
    (forall dp, In dp deps -> wanted f dp = true -> entry_ok co out (dep_name dp) (lookup (dep_name dp) d)) ->
    fst (combine_loop f co out deps d) = Done.
  Proof.
    induction deps as [|[id0 dir0] rest IH]; intros d Hnd Hok; [reflexivity|].
    destruct (nodup_names_cons _ _ _ Hnd) as [Hnotin Hnd'].
    rewrite loop_cons.
    assert (Hrest : forall d1,
              (forall n, n <> iname id0 -> lookup n d1 = lookup n d) ->
              fst (combine_loop f co out rest d1) = Done).
    { intros d1 Hsame. apply IH; [assumption|]. intros dp Hin Hw.
      rewrite Hsame; [apply Hok; [right; exact Hin | exact Hw]|].
      intros E. apply Hnotin. rewrite <- E. now apply in_names. }
    destruct (wanted f (id0, dir0)) eqn:Hw0; simpl.
    - specialize (Hok (id0, dir0) (or_introl eq_refl) Hw0). unfold dep_name in Hok. simpl in Hok.
      destruct (lookup (iname id0) d) as [e|] eqn:El.
      + simpl in Hok. rewrite Hok.
        apply Hrest. intros n Hn. now apply lookup_relink_other.
      + apply Hrest. intros n Hn. now apply lookup_add_other.
    - apply Hrest. reflexivity.
  Qed.

  (* an entry that may not be replaced under a wanted dependency's name makes the pass fail *)
  Lemma loop_conflict deps : forall d id dir e,
    In (id, dir) deps -> wanted f (id, dir) = true ->
    lookup (iname id) d = Some e -> replaceable co out (iname id) e = false ->
    fst (combine_loop f co out deps d) <> Done.
  Proof.
    induction deps as [|[id0 dir0] rest IH]; intros d id dir e Hin Hw Hl Hr; [destruct Hin|].
    rewrite loop_cons.
    destruct (wanted f (id0, dir0)) eqn:Hw0; simpl.
    - destruct (str_eq_dec (iname id) (iname id0)) as [E|Hne].
      + rewrite <- E, Hl, Hr. simpl. discriminate.
      + destruct Hin as [Heq|Hin]; [inversion Heq; subst; congruence|].
        destruct (lookup (iname id0) d) as [e0|] eqn:El.
        * destruct (replaceable co out (iname id0) e0); [|simpl; discriminate].
          eapply IH; eauto. now rewrite lookup_relink_other.
        * eapply IH; eauto. now rewrite lookup_add_other.
    - destruct Hin as [Heq|Hin]; [inversion Heq; subst; congruence|].
      eapply IH; eauto.
  Qed.

  (* ... and when it is the only obstacle, the error names exactly that entry *)
  Lemma loop_conflict_exact deps : forall d id dir e,
    NoDup (names deps) ->
    In (id, dir) deps -> wanted f (id, dir) = true ->
    lookup (iname id) d = Some e -> replaceable co out (iname id) e = false ->
    (forall dp, In dp deps -> wanted f dp = true -> dep_name dp <> iname id ->
                entry_ok co out (dep_name dp) (lookup (dep_name dp) d)) ->
    fst (combine_loop f co out deps d) = ConflictAt (iname id).
  Proof.
    induction deps as [|[id0 dir0] rest IH]; intros d id dir e Hnd Hin Hw Hl Hr Hok; [destruct Hin|].
    destruct (nodup_names_cons _ _ _ Hnd) as [Hnotin Hnd'].
    rewrite loop_cons.
    assert (Hrest : forall d1,
              In (id, dir) rest ->
              (forall n, n <> iname id0 -> lookup n d1 = lookup n d) ->
              iname id <> iname id0 ->
              fst (combine_loop f co out rest d1) = ConflictAt (iname id)).
    { intros d1 Hin1 Hsame Hne. eapply IH; eauto.
      - now rewrite Hsame.
      - intros dp Hdp Hwdp Hnedp. rewrite Hsame.
        + apply Hok; [right; exact Hdp | exact Hwdp | exact Hnedp].
        + intros E. apply Hnotin. rewrite <- E. now apply in_names. }
    assert (Hname_rest : In (id, dir) rest -> iname id <> iname id0).
    { intros Hin1 E. apply Hnotin. rewrite <- E. exact (in_names (id, dir) rest Hin1). }
    destruct (wanted f (id0, dir0)) eqn:Hw0; simpl.
    - destruct (str_eq_dec (iname id) (iname id0)) as [E|Hne].
      + rewrite <- E, Hl, Hr. reflexivity.
      + destruct Hin as [Heq|Hin]; [inversion Heq; subst; congruence|].
        assert (Hok0 := Hok (id0, dir0) (or_introl eq_refl) Hw0).
        unfold dep_name in Hok0. simpl in Hok0.
        specialize (Hok0 (fun E => Hne (eq_sym E))).
        destruct (lookup (iname id0) d) as [e0|] eqn:El.
        * simpl in Hok0. rewrite Hok0.
          apply Hrest; auto. intros n Hn. now apply lookup_relink_other.
        * apply Hrest; auto. intros n Hn. now apply lookup_add_other.
    - destruct Hin as [Heq|Hin]; [inversion Heq; subst; congruence|].
      apply Hrest; auto.
  Qed.
End Loop.

(* ---------- constructor check and planner filter ---------- *)
Lemma mem_str_spec n l : mem_str n l = true <-> In n l.
Proof.
  induction l as [|m l IH]; simpl; [split; [discriminate | tauto]|].
  rewrite orb_true_iff, str_eqb_spec, IH. split; intros [H|H]; auto.
Qed.

Lemma ctor_check_nodup deps : forall seen,
  ctor_check seen deps = None ->
  NoDup (map iname deps) /\ (forall n, In n (map iname deps) -> ~ In n seen).
Proof.
  induction deps as [|dep rest IH]; intros seen H; simpl in *.
  - split; [constructor | tauto].
  - destruct (mem_str (iname dep) seen) eqn:E; [discriminate|].
    apply IH in H as [Hnd Hdis]. split.
    + constructor; [|assumption]. intros Hin. apply (Hdis _ Hin). left; reflexivity.
    + intros n [<-|Hin].
      * intros Hs. apply mem_str_spec in Hs. congruence.
      * intros Hs. apply (Hdis _ Hin). right; exact Hs.
Qed.

Lemma ctor_check_dup deps : forall seen n,
  ctor_check seen deps = Some n -> In n (map iname deps).
Proof.
  induction deps as [|dep rest IH]; intros seen n H; simpl in *; [discriminate|].
  destruct (mem_str (iname dep) seen); [inversion H; auto|]. right. eapply IH; eauto.
Qed.

Lemma plan_in deps i p : In (i, p) (plan_dep_paths deps) <-> In (i, Some p) deps.
Proof.
  induction deps as [|[j [q|]] rest IH]; simpl; [tauto| |].
  - rewrite IH. split; intros [H|H]; auto; left; congruence.
  - rewrite IH. split; [auto|]. intros [H|H]; [discriminate | assumption].
Qed.

Lemma plan_names_incl deps n :
  In n (names (plan_dep_paths deps)) -> In n (map iname (map fst deps)).
Proof.
  induction deps as [|[j [q|]] rest IH]; simpl; [tauto| |].
  - intros [H|H]; auto.
  - auto.
Qed.

Lemma plan_nodup deps :
  NoDup (map iname (map fst deps)) -> NoDup (names (plan_dep_paths deps)).
Proof.
  induction deps as [|[j [q|]] rest IH]; simpl; intros H; [constructor| |];
    inversion H as [|x l Hnotin Hnd]; subst.
  - constructor; [|now apply IH]. intros Hin. apply Hnotin. now apply plan_names_incl.
  - now apply IH.
Qed.

(* ---------- the whole task ---------- *)
Lemma run_ran f co out deps d o d' :
  run_combine f co out deps d = Ran o d' ->
  NoDup (names (plan_dep_paths deps)) /\
  combine_loop f co out (plan_dep_paths deps) (match d with Some d0 => d0 | None => [] end) = (o, d').
Proof.
  unfold run_combine, combine_step. intros H.
  destruct (ctor_check [] (map fst deps)) eqn:E; [discriminate|].
  apply ctor_check_nodup in E as [Hnd _].
  destruct (combine_loop _ _ _ _ _) as [o1 d1] eqn:El. inversion H; subst.
  split; [now apply plan_nodup | reflexivity].
Qed.

Definition start_dir (d : option dirmap) : dirmap := match d with Some d0 => d0 | None => [] end.

Lemma run_links f co out deps d d' :
  clean out = true ->
  (forall i p, In (i, Some p) deps -> clean p = true) ->
  run_combine f co out deps d = Ran Done d' ->
  forall id dir, In (id, Some dir) deps ->
    fs_is_dir f dir = true -> fs_nonempty f dir = true ->
    exists t, lookup (iname id) d' = Some (Link t) /\ link_dest out t = dir.
Proof.
  intros Hout Hclean Hrun id dir Hin Hd Hn.
  apply run_ran in Hrun as [Hnd Hloop].
  exists (relpath out dir). split.
  - eapply loop_links; eauto.
    + now apply plan_in.
    + unfold wanted. simpl. now rewrite Hd, Hn.
  - unfold link_dest. apply relpath_resolves; [assumption | eauto].
Qed.

Lemma run_dup f co out deps d n :
  run_combine f co out deps d = DuplicateDepName n <->
  ctor_check [] (map fst deps) = Some n.
Proof.
  unfold run_combine. destruct (ctor_check [] (map fst deps)) eqn:E.
  - split; congruence.
  - destruct (combine_step f co out (plan_dep_paths deps) d). split; discriminate.
Qed.

Lemma run_distinct f co out deps d o d' :
  run_combine f co out deps d = Ran o d' -> NoDup (map iname (map fst deps)).
Proof.
  unfold run_combine. destruct (ctor_check [] (map fst deps)) eqn:E; [discriminate|].
  intros _. now apply ctor_check_nodup in E as [H _].
Qed.

Lemma run_update f co out deps d :
  ctor_check [] (map fst deps) = None ->
  (forall i p, In (i, Some p) deps -> fs_is_dir f p = true -> fs_nonempty f p = true ->
               entry_ok co out (iname i) (lookup (iname i) (start_dir d))) ->
  exists d', run_combine f co out deps d = Ran Done d' /\
    forall id dir, In (id, Some dir) deps ->
      fs_is_dir f dir = true -> fs_nonempty f dir = true ->
      lookup (iname id) d' = Some (Link (relpath out dir)).
Proof.
  intros Hc Hok. unfold run_combine, combine_step. rewrite Hc.
  pose proof (ctor_check_nodup _ _ Hc) as [Hnd _]. apply plan_nodup in Hnd.
  fold (start_dir d).
  destruct (combine_loop f co out (plan_dep_paths deps) (start_dir d)) as [o d'] eqn:El.
  assert (Ho : o = Done).
  { change o with (fst (o, d')). rewrite <- El. apply loop_done; [assumption|].
    intros [i p] Hin Hw. unfold dep_name. simpl. unfold wanted in Hw. simpl in Hw.
    apply andb_true_iff in Hw as [H1 H2]. apply plan_in in Hin. eauto. }
  subst o. exists d'. split; [reflexivity|].
  intros id dir Hin Hd Hn. eapply loop_links; eauto.
  - now apply plan_in.
  - unfold wanted. simpl. now rewrite Hd, Hn.
Qed.

Lemma run_conflict f co out deps d id dir e :
  ctor_check [] (map fst deps) = None ->
  In (id, Some dir) deps -> fs_is_dir f dir = true -> fs_nonempty f dir = true ->
  lookup (iname id) (start_dir d) = Some e -> replaceable co out (iname id) e = false ->
  exists o d', run_combine f co out deps d = Ran o d' /\ o <> Done /\
    lookup (iname id) d' = Some e /\
    ((forall i p, In (i, Some p) deps -> fs_is_dir f p = true -> fs_nonempty f p = true ->
                  iname i <> iname id -> entry_ok co out (iname i) (lookup (iname i) (start_dir d))) ->
     o = ConflictAt (iname id)).
Proof.
  intros Hc Hin Hd Hn Hl Hr. unfold run_combine, combine_step. rewrite Hc.
  pose proof (ctor_check_nodup _ _ Hc) as [Hnd _]. apply plan_nodup in Hnd.
  fold (start_dir d).
  destruct (combine_loop f co out (plan_dep_paths deps) (start_dir d)) as [o d'] eqn:El.
  assert (Hw : wanted f (id, dir) = true) by (unfold wanted; simpl; now rewrite Hd, Hn).
  assert (Hin' : In (id, dir) (plan_dep_paths deps)) by now apply plan_in.
  exists o, d'. split; [reflexivity|]. split; [|split].
  - change o with (fst (o, d')). rewrite <- El. eapply loop_conflict; eauto.
  - change d' with (snd (o, d')). rewrite <- El. now apply loop_kept.
  - intros Hok. change o with (fst (o, d')). rewrite <- El.
    eapply loop_conflict_exact; eauto.
    intros [i p] Hdp Hwdp Hne. unfold dep_name in *. simpl in *.
    unfold wanted in Hwdp. simpl in Hwdp. apply andb_true_iff in Hwdp as [H1 H2].
    apply plan_in in Hdp. eauto.
Qed.

Lemma run_frame f co out deps d o d' n :
  run_combine f co out deps d = Ran o d' ->
  (forall i p, In (i, Some p) deps -> iname i <> n) ->
  lookup n d' = lookup n (start_dir d).
Proof.
  intros Hrun Hn. apply run_ran in Hrun as [_ Hloop]. fold (start_dir d) in Hloop.
  change d' with (snd (o, d')). rewrite <- Hloop. apply loop_frame.
  intros Hin. unfold names in Hin. apply in_map_iff in Hin as ([i p] & E & Hin).
  apply plan_in in Hin. apply (Hn _ _ Hin). exact E.
Qed.

(* ---------- output directories of well-formed identifiers are clean paths ---------- *)
Lemma first_not_dot_clean x t : x <> DOT -> clean_comp (x :: t) = true.
Proof.
  intros H. unfold clean_comp, is_cur, is_par, CUR, PAR. simpl.
  unfold DOT in H. destruct (x =? 46) eqn:E; [apply N.eqb_eq in E; congruence|]. reflexivity.
Qed.

Lemma DocName_clean s : DocName s -> clean_comp s = true.
Proof.
  intros H. destruct (DocName_head s H) as (x & t & -> & Hx).
  apply first_not_dot_clean. apply ident_char_not in Hx. tauto.
Qed.

Section OutPath.
  Hypothesis out_dir_clean : clean_comp cfg_OUTPUT_DIR = true.

  Lemma out_path_clean i v : WfIdent i -> clean (out_path i v) = true.
  Proof.
    intros [Hp Hn]. unfold out_path. rewrite clean_cons, out_dir_clean. simpl.
    rewrite clean_app. apply andb_true_iff. split.
    - apply forallb_forall. intros c Hc. rewrite Forall_forall in Hp. now apply DocName_clean, Hp.
    - simpl. rewrite andb_true_r. unfold task_output_dir.
      destruct (DocName_head _ Hn) as (x & t & E & Hx). rewrite E. simpl.
      apply first_not_dot_clean. apply ident_char_not in Hx. tauto.
  Qed.

  Lemma abs_out_clean root i v : clean root = true -> WfIdent i -> clean (abs_out root i v) = true.
  Proof.
    intros Hr Hi. unfold abs_out. rewrite clean_app, Hr. simpl. now apply out_path_clean.
  Qed.

  (* C18_links for a project: any root, any package depths *)
  Lemma run_links_project f root cid deps d d' :
    clean root = true -> WfIdent cid ->
    (forall i p, In (i, Some p) deps -> WfIdent i /\ exists v, p = abs_out root i v) ->
    run_combine f (cond_out_dir root) (abs_out root cid None) deps d = Ran Done d' ->
    forall id dir, In (id, Some dir) deps ->
      fs_is_dir f dir = true -> fs_nonempty f dir = true ->
      exists t, lookup (iname id) d' = Some (Link t) /\ link_dest (abs_out root cid None) t = dir.
  Proof.
    intros Hr Hc Hdeps Hrun. eapply run_links; eauto.
    - now apply abs_out_clean.
    - intros i p Hin. destruct (Hdeps _ _ Hin) as (Hi & v & ->). now apply abs_out_clean.
  Qed.
End OutPath.

(* ---------- the links the loop makes are links Conductor made ----------
   so what earlier runs of the same combine task left under a dependency's name -- a link to any
   version of that dependency, whether that version's directory still exists or not -- satisfies
   the precondition of run_update: re-running never conflicts with Conductor's own links. *)
Section OwnLinks.
  Hypothesis out_dir_clean : clean_comp cfg_OUTPUT_DIR = true.

  Lemma last_snoc {A} (l : list A) x d : last (l ++ [x]) d = x.
  Proof. apply last_last. Qed.

  Lemma own_link_of_version root cid i v :
    clean root = true -> WfIdent cid -> WfIdent i ->
    is_conductor_link (cond_out_dir root) (abs_out root cid None) (iname i)
                      (relpath (abs_out root cid None) (abs_out root i v)) = true.
  Proof.
    intros Hr Hc Hi. unfold is_conductor_link, link_dest.
    rewrite relpath_resolves by (apply abs_out_clean; assumption).
    assert (E : relative_to (cond_out_dir root) (abs_out root i v) = Some (ipath i ++ [task_output_dir i v])).
    { apply relative_to_spec. unfold abs_out, cond_out_dir, out_path. rewrite <- app_assoc. reflexivity. }
    rewrite E. destruct (ipath i ++ [task_output_dir i v]) as [|c rel] eqn:El; [destruct (ipath i); discriminate|].
    rewrite <- El, last_snoc. unfold task_output_dir. destruct v as [t|].
    - apply orb_true_iff. right. apply starts_with_spec. exists (dec t). now rewrite <- !app_assoc.
    - apply orb_true_iff. left. rewrite app_nil_r. apply str_eqb_refl.
  Qed.

  (* ... hence: after any successful run, every entry made for a dependency is again replaceable,
     whatever version the dependency has next time *)
  Lemma made_links_replaceable f root cid deps d d' :
    clean root = true -> WfIdent cid ->
    (forall i p, In (i, Some p) deps -> WfIdent i /\ exists v, p = abs_out root i v) ->
    run_combine f (cond_out_dir root) (abs_out root cid None) deps d = Ran Done d' ->
    forall id dir, In (id, Some dir) deps -> fs_is_dir f dir = true -> fs_nonempty f dir = true ->
    entry_ok (cond_out_dir root) (abs_out root cid None) (iname id) (lookup (iname id) d').
  Proof.
    intros Hr Hc Hdeps Hrun id dir Hin Hd Hn.
    apply run_ran in Hrun as [Hnd Hloop].
    assert (Hl : lookup (iname id) d' = Some (Link (relpath (abs_out root cid None) dir))).
    { eapply loop_links; eauto; [now apply plan_in | unfold wanted; simpl; now rewrite Hd, Hn]. }
    rewrite Hl. destruct (Hdeps _ _ Hin) as (Hi & v & ->). cbn [entry_ok replaceable].
    now apply own_link_of_version.
  Qed.
End OwnLinks.
