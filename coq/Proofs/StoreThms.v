(* The statements of Props/C08.v and Props/C06.v, proved from the invariant WF. *)
From Coq Require Import List NArith Bool Lia ZifyBool ZifyN ZifyNat Arith.
From Conductor Require Import Lib.Str Model.Store Proofs.StoreSpec Proofs.StoreProofs Proofs.StoreInv Proofs.StoreSteps.
Import ListNotations.
Local Open Scope N_scope.

(* ------------------------------------------------------------------ C08_no_touch *)

Lemma no_touch_wf clock l s :
  WF s -> is_clean l = false ->
  forall r, In r (s_rows s) -> lookup (row_key r) (s_dirs (apply clock l s)) = lookup (row_key r) (s_dirs s).
Proof.
  intros Hwf Hcl r Hr.
  destruct (wf_rows _ Hwf r Hr) as (dr & Hdr & Hgr).
  destruct l; simpl; try discriminate.
  - (* begin *) unfold do_begin. destruct (s_proc s); reflexivity.
  - (* alloc *) unfold do_alloc, with_run. destruct (s_proc s) as [[| | | |]|]; try reflexivity.
    destruct (alloc_version _ _ _ _ _) as [[? ?]|]; reflexivity.
  - (* mkdir *) unfold do_mkdir. open_op s e Hwf.
    destruct Hoo as [Hnone _]. apply has_dir_false in Hnone. rewrite Hnone. simpl.
    apply has_dir_false in Hnone. apply lookup_put_neq. congruence.
  - (* spawn *) unfold do_spawn. open_op s e Hwf.
  - (* child *) unfold do_child.
    destruct (find_kid e (s_kids s)) as [c|] eqn:Hfk; try reflexivity.
    destruct (k_live c) eqn:Hlive; try reflexivity.
    pose proof (find_kid_In _ _ _ Hfk) as [Hin He].
    destruct (wf_kids _ Hwf c Hin) as [Hk _]. destruct (Hk Hlive) as (d & Hd & Hown & Hpart & Hrc).
    assert (Hne : row_key r <> k_key c).
    { intros E. rewrite E, Hd in Hdr. inversion Hdr; subst dr. destruct Hgr as (_ & ? & _). congruence. }
    destruct (k_script c) as [|a rest]; simpl.
    + unfold mark_rc. rewrite Hd. destruct (d_owner d =? k_exec c); [now apply lookup_put_neq | reflexivity].
    + unfold child_write. rewrite Hd. now apply lookup_put_neq.
  - (* kill *) unfold do_kill.
    destruct (find_kid e (s_kids s)) as [c|] eqn:Hfk; try reflexivity.
    destruct (k_live c) eqn:Hlive; try reflexivity.
    pose proof (find_kid_In _ _ _ Hfk) as [Hin He].
    destruct (wf_kids _ Hwf c Hin) as [Hk _]. destruct (Hk Hlive) as (d & Hd & Hown & Hpart & Hrc).
    assert (Hne : row_key r <> k_key c).
    { intros E. rewrite E, Hd in Hdr. inversion Hdr; subst dr. destruct Hgr as (_ & ? & _). congruence. }
    simpl. unfold mark_rc. rewrite Hd. destruct (d_owner d =? k_exec c); [now apply lookup_put_neq | reflexivity].
  - (* reap *) unfold do_reap. open_op s e Hwf.
    destruct (find_kid e (s_kids s)) as [c|]; try reflexivity. destruct (k_live c); reflexivity.
  - (* check *) unfold do_check. open_op s e Hwf.
  - (* args *) unfold do_write_args. open_op s e Hwf.
    simpl. destruct (fst (o_need o)); [|reflexivity].
    unfold touch. destruct (lookup (o_key o) (s_dirs s)); [|reflexivity].
    apply lookup_put_neq. apply (Hfresh o r Hin Hact). apply in_or_app. now left.
  - (* opts *) unfold do_write_opts. open_op s e Hwf.
    simpl. destruct (snd (o_need o)); [|reflexivity].
    unfold touch. destruct (lookup (o_key o) (s_dirs s)); [|reflexivity].
    apply lookup_put_neq. apply (Hfresh o r Hin Hact). apply in_or_app. now left.
  - (* insert *) unfold do_insert. open_op s e Hwf.
    destruct (existsb _ _); reflexivity.
  - (* commit *) unfold do_commit, with_run. destruct (s_proc s) as [[| | | |]|]; reflexivity.
  - (* rstage *) unfold do_rstage, with_restore. destruct (s_proc s) as [[| ? ? st| | |]|]; try reflexivity. destruct st; reflexivity.
  - (* rinsert *) unfold do_rinsert, with_restore. destruct (s_proc s) as [[| ? ? st| | |]|]; try reflexivity.
    destruct st; try reflexivity. destruct (nodupb _); reflexivity.
  - (* copy begin *) unfold do_rcopy_begin. open_restore s Hwf. destruct st as [| |c copying| |]; try reflexivity.
    destruct copying; try reflexivity.
    destruct (nth_error a c) as [[r0 [d|]]|]; try reflexivity.
    destruct (has_dir (s_dirs s) (row_key r0)) eqn:Hh; try reflexivity.
    apply has_dir_false in Hh. simpl. apply lookup_put_neq. congruence.
  - (* copy end *) unfold do_rcopy_end. open_restore s Hwf. destruct st as [| |c copying| |]; try reflexivity.
    destruct copying; try reflexivity.
    destruct (nth_error a c) as [[r0 [d|]]|] eqn:Hn; try reflexivity.
    destruct Hst as (_ & _ & _ & Hcopy). destruct (Hcopy eq_refl) as (r' & d' & Hn' & Hl').
    inversion Hn'; subst r' d'. simpl. apply lookup_put_neq. intros E. rewrite E, Hl' in Hdr.
    inversion Hdr; subst dr. destruct Hgr as (Hpp & _). destruct d; discriminate.
  - (* rcommit *) unfold do_rcommit, with_restore. destruct (s_proc s) as [[| ? ? st| | |]|]; try reflexivity.
    destruct st as [| |c copying| |]; try reflexivity. destruct copying; try reflexivity.
    destruct (Nat.eqb c _); reflexivity.
  - (* rfail *) unfold do_rfail, with_restore. destruct (s_proc s) as [[| ? ? st| | |]|]; try reflexivity. destruct st; reflexivity.
  - (* gc *) unfold do_gc_remove.
    destruct (s_proc s) as [[| |snap| |]|] eqn:Hp; try reflexivity.
    destruct (existsb (key_eqb k) snap) eqn:Hs; simpl; try reflexivity.
    destruct (live_at k (s_kids s)); try reflexivity. simpl.
    pose proof (wf_proc _ Hwf) as Hpr. unfold proc_ok in Hpr. rewrite Hp in Hpr. subst snap.
    rewrite lookup_remove, key_eqb_neq; [reflexivity|]. intros E.
    assert (existsb (key_eqb k) (map row_key (s_rows s)) = true); [|congruence].
    apply existsb_key. rewrite <- E. now apply in_map.
  - reflexivity.
  - reflexivity.
Qed.

(* ------------------------------------------------------------------ C06_only_success *)

Definition entry_ok (s : state) (r : row) : Prop :=
  match s_proc s with
  | Some (PRun _ hd _ _) =>
    r_head r = hd /\
    exists c, In c (s_kids s) /\ k_key c = row_key r /\ k_live c = false /\ k_rc c = 0
  | Some (PRestore a _ _) => In r (map fst a)
  | _ => False
  end.

Ltac same_rows :=
  let H := fresh "H" in
  intros H; exfalso;
  match goal with Hn : ~ In _ _ |- _ => apply Hn end;
  unfold all_rows, txn_of in *; simpl in *;
  repeat match goal with Hp : s_proc _ = _ |- _ => rewrite Hp in *; clear Hp end;
  simpl in *; rewrite ?app_nil_r in *;
  first [assumption | apply in_or_app; left; assumption | apply in_or_app; apply in_app_or in H; tauto | idtac].

Lemma only_success_wf clock l s r :
  WF s -> In r (all_rows (apply clock l s)) -> ~ In r (all_rows s) -> entry_ok s r.
Proof.
  intros Hwf Hin Hnot. revert Hin. unfold entry_ok. destruct l; simpl.
  - (* begin *) unfold do_begin. destruct (s_proc s) eqn:Hp; [tauto|]. destruct c; same_rows.
  - (* alloc *) unfold do_alloc, with_run. destruct (s_proc s) as [[| | | |]|] eqn:Hp; try tauto.
    destruct (alloc_version _ _ _ _ _) as [[? ?]|]; [|tauto]. same_rows.
  - unfold do_mkdir. open_op s e Hwf. same_rows.
  - unfold do_spawn. open_op s e Hwf. same_rows.
  - (* child *) unfold do_child. destruct (find_kid e (s_kids s)) as [c|]; [|tauto].
    destruct (k_live c); [|tauto]. destruct (k_script c); same_rows.
  - (* kill *) unfold do_kill. destruct (find_kid e (s_kids s)) as [c|]; [|tauto].
    destruct (k_live c); [|tauto]. same_rows.
  - unfold do_reap. open_op s e Hwf. destruct (find_kid e (s_kids s)) as [c|]; [|tauto].
    destruct (k_live c); [tauto|]. same_rows.
  - unfold do_check. open_op s e Hwf. same_rows.
  - unfold do_write_args. open_op s e Hwf. same_rows.
  - unfold do_write_opts. open_op s e Hwf. same_rows.
  - (* insert *) unfold do_insert. open_op s e Hwf.
    destruct (existsb _ _).
    + intros H. exfalso. apply Hnot. unfold all_rows, txn_of, stop in *. simpl in *. rewrite Hp.
      rewrite app_nil_r in H. apply in_or_app. now left.
    + intros H. unfold all_rows, txn_of in *. simpl in H. rewrite Hp in Hnot.
      rewrite app_assoc in H. apply in_app_or in H as [H|[<-|[]]]; [contradiction|].
      destruct Hoo as (d & Hd & Hown & Hrc & (c & Hc1 & Hc2 & Hc3 & Hc4) & _).
      split; [apply (Hops o Hin)|]. exists c. apply find_kid_In in Hc1 as [Hc1 _]. auto.
  - (* commit *) unfold do_commit, with_run. destruct (s_proc s) as [[| | | |]|] eqn:Hp; try tauto. same_rows.
  - unfold do_rstage. open_restore s Hwf. destruct st; try tauto. same_rows.
  - (* rinsert *) unfold do_rinsert. open_restore s Hwf. destruct st; try tauto.
    destruct (nodupb _).
    + intros H. unfold all_rows, txn_of in *. simpl in H. rewrite Hp in Hnot.
      apply in_app_or in H as [H|H]; [|assumption]. exfalso. apply Hnot. apply in_or_app. now left.
    + same_rows.
  - unfold do_rcopy_begin. open_restore s Hwf. destruct st as [| |c copying| |]; try tauto.
    destruct copying; try tauto. destruct (nth_error a c) as [[r0 [d|]]|]; try tauto.
    + destruct (has_dir _ _); same_rows.
    + same_rows.
  - unfold do_rcopy_end. open_restore s Hwf. destruct st as [| |c copying| |]; try tauto.
    destruct copying; try tauto. destruct (nth_error a c) as [[r0 [d|]]|]; try tauto. same_rows.
  - unfold do_rcommit. open_restore s Hwf. destruct st as [| |c copying| |]; try tauto.
    destruct copying; try tauto. destruct (Nat.eqb c _); try tauto. same_rows.
  - unfold do_rfail. open_restore s Hwf. destruct st; try tauto; same_rows.
  - (* gc *) unfold do_gc_remove. destruct (s_proc s) as [[| |snap| |]|] eqn:Hp; try tauto.
    destruct (existsb _ _ || live_at _ _); try tauto; try same_rows.
  - (* clean *) unfold do_clean_all. destruct (s_proc s) as [[| | | |]|] eqn:Hp; try tauto.
    destruct (any_live _); try tauto. intros H. unfold all_rows, txn_of in H. simpl in H. rewrite Hp in H. destruct H.
  - unfold do_clean_index. destruct (s_proc s) as [[| | | |]|] eqn:Hp; try tauto.
    destruct (any_live _); try tauto. intros H. unfold all_rows, txn_of in H. simpl in H. rewrite Hp in H. destruct H.
  - unfold do_clean_dir. destruct (s_proc s) as [[| | | |]|] eqn:Hp; try tauto.
    destruct (any_live _); try tauto. destruct (s_rows s) eqn:Hr; try tauto; try same_rows.
  - same_rows.
  - same_rows.
Qed.

(* ------------------------------------------------------------------ final forms *)

Lemma Forall_firstn_ok {A} (P : A -> Prop) n l : Forall P l -> Forall P (firstn n l).
Proof.
  revert l. induction n as [|n IH]; intros l H; simpl; [constructor|].
  destruct l as [|x l]; [constructor|]. inversion H; subst. constructor; auto.
Qed.

Lemma wf_inv s : WF s -> Inv s.
Proof. intros H. apply (wf_rows _ H). Qed.

Lemma monotone_reach clock s t last hd ops txn :
  reachable clock s -> s_proc s = Some (PRun last hd ops txn) ->
  exists ts tick', alloc_version clock (s_dirs s) t last (s_tick s) = Some (ts, tick') /\
    last < ts /\
    (forall r, In r (all_rows s) -> r_ts r < ts) /\ (forall o, In o ops -> o_ts o < ts) /\
    lookup (t, ts) (s_dirs s) = None.
Proof.
  intros Hr Hp. apply wf_reachable in Hr. open_run Hr Hp.
  destruct (alloc_version clock (s_dirs s) t last (s_tick s)) as [[ts tick']|] eqn:Ha;
    [|exfalso; revert Ha; apply alloc_version_total].
  exists ts, tick'. apply alloc_version_spec in Ha as (Hlt & Hnone & _).
  repeat split; auto.
  - intros r Hin. unfold all_rows, txn_of in Hin. rewrite Hp in Hin. specialize (Hts r Hin). lia.
  - intros o Ho. destruct (Hops o Ho). lia.
Qed.

Lemma unique_ids clock s : reachable clock s -> NoDup (map o_ts (ops_of s)) /\ NoDup (map o_key (ops_of s)).
Proof.
  intros Hr. apply wf_reachable in Hr. unfold ops_of.
  destruct (s_proc s) as [[last hd ops txn| | | |]|] eqn:Hp; try (split; constructor).
  open_run Hr Hp. split; [assumption|].
  clear - Hnd1. induction ops as [|o ops IH]; simpl in *; [constructor|].
  inversion Hnd1; subst. constructor; [|auto].
  intros Hin. apply in_map_iff in Hin as (o' & E & Ho'). apply H1. apply in_map_iff. exists o'.
  split; [|assumption]. unfold o_key in E. congruence.
Qed.

Lemma fresh_reach clock s :
  reachable clock s ->
  (forall o, In o (ops_of s) -> o_phase o = PPlanned -> lookup (o_key o) (s_dirs s) = None) /\
  (forall o, In o (ops_of s) -> o_phase o = PMade ->
     exists d, lookup (o_key o) (s_dirs s) = Some d /\ d_owner d = o_exec o /\ d_started d = [] /\
               d_done d = [] /\ d_args d = false /\ d_opts d = false /\ d_rc d = None) /\
  (forall k d, lookup k (s_dirs s) = Some d -> incl (d_started d) [d_owner d]).
Proof.
  intros Hr. apply wf_reachable in Hr. split; [|split].
  - unfold ops_of. destruct (s_proc s) as [[last hd ops txn| | | |]|] eqn:Hp; try (intros o []).
    open_run Hr Hp. intros o Ho Hph. specialize (Hok o Ho). unfold op_ok in Hok. rewrite Hph in Hok. apply Hok.
  - unfold ops_of. destruct (s_proc s) as [[last hd ops txn| | | |]|] eqn:Hp; try (intros o []).
    open_run Hr Hp. intros o Ho Hph. specialize (Hok o Ho). unfold op_ok in Hok. rewrite Hph in Hok.
    destruct Hok as (_ & d & H1 & (H2 & _) & H3 & H4 & H5 & H6 & H7). exists d. repeat split; auto.
  - apply (wf_dirs _ Hr).
Qed.

(* the mkdir(exist_ok=True) of start_execution never meets an existing directory *)
Lemma mkdir_creates clock s e o :
  reachable clock s -> find_op e (ops_of s) = Some o -> o_phase o = PPlanned ->
  lookup (o_key o) (s_dirs s) = None /\
  lookup (o_key o) (s_dirs (apply clock (LMkdir e) s)) = Some (fresh_dir o).
Proof.
  intros Hr Hf Hph. destruct (fresh_reach clock s Hr) as (H1 & _).
  pose proof (find_op_In _ _ _ Hf) as [Hin _]. specialize (H1 o Hin Hph). split; [assumption|].
  simpl. unfold do_mkdir, with_op, with_run. unfold ops_of in Hf.
  destruct (s_proc s) as [[last hd ops txn| | | |]|]; try discriminate.
  rewrite Hf, Hph. apply has_dir_false in H1. rewrite H1. simpl. apply lookup_put_eq.
Qed.

Lemma no_touch_reach clock s l :
  reachable clock s -> is_clean l = false ->
  forall r, In r (s_rows s) -> lookup (row_key r) (s_dirs (apply clock l s)) = lookup (row_key r) (s_dirs s).
Proof. intros Hr. apply no_touch_wf. now apply (wf_reachable clock). Qed.

Lemma inv_all_histories clock ls1 ls2 :
  Forall label_ok ls1 -> Forall label_ok ls2 ->
  Inv (run clock ls1 init) /\ Inv (stop (run clock ls1 init)) /\ Inv (run clock ls2 (stop (run clock ls1 init))).
Proof.
  intros H1 H2. pose proof (wf_run clock ls1 H1 init wf_init) as Hw.
  split; [now apply wf_inv|]. split; [apply wf_inv; now apply wf_stop|].
  apply wf_inv. apply wf_run; [assumption | now apply wf_stop].
Qed.

Lemma only_success_reach clock s l r :
  reachable clock s -> In r (all_rows (apply clock l s)) -> ~ In r (all_rows s) -> entry_ok s r.
Proof. intros Hr. apply only_success_wf. now apply (wf_reachable clock). Qed.

(* rows reach the committed table only through the transaction of the running command *)
Lemma committed_from_txn clock l s r :
  In r (s_rows (apply clock l s)) -> In r (all_rows s).
Proof.
  unfold all_rows, txn_of. destruct l; simpl.
  - unfold do_begin. destruct (s_proc s); simpl; intros H; apply in_or_app; now left.
  - unfold do_alloc, with_run. destruct (s_proc s) as [[| | | |]|]; try (intros H; apply in_or_app; now left).
    destruct (alloc_version _ _ _ _ _) as [[? ?]|]; simpl; intros H; apply in_or_app; now left.
  - unfold do_mkdir, with_op, with_run. destruct (s_proc s) as [[? ? ops ?| | | |]|]; try (intros H; apply in_or_app; now left).
    destruct (find_op e ops) as [o|]; [destruct (o_phase o)|]; simpl; intros H; apply in_or_app; now left.
  - unfold do_spawn, with_op, with_run. destruct (s_proc s) as [[? ? ops ?| | | |]|]; try (intros H; apply in_or_app; now left).
    destruct (find_op e ops) as [o|]; [destruct (o_phase o)|]; simpl; intros H; apply in_or_app; now left.
  - unfold do_child. destruct (find_kid e (s_kids s)) as [c|]; [destruct (k_live c); [destruct (k_script c)|]|];
      simpl; intros H; apply in_or_app; now left.
  - unfold do_kill. destruct (find_kid e (s_kids s)) as [c|]; [destruct (k_live c)|];
      simpl; intros H; apply in_or_app; now left.
  - unfold do_reap, with_op, with_run. destruct (s_proc s) as [[? ? ops ?| | | |]|]; try (intros H; apply in_or_app; now left).
    destruct (find_op e ops) as [o|]; [destruct (o_phase o); try (intros H; apply in_or_app; now left)|intros H; apply in_or_app; now left].
    destruct (find_kid e (s_kids s)) as [c|]; [destruct (k_live c)|]; simpl; intros H; apply in_or_app; now left.
  - unfold do_check, with_op, with_run. destruct (s_proc s) as [[? ? ops ?| | | |]|]; try (intros H; apply in_or_app; now left).
    destruct (find_op e ops) as [o|]; [destruct (o_phase o)|]; simpl; intros H; apply in_or_app; now left.
  - unfold do_write_args, with_op, with_run. destruct (s_proc s) as [[? ? ops ?| | | |]|]; try (intros H; apply in_or_app; now left).
    destruct (find_op e ops) as [o|]; [destruct (o_phase o)|]; simpl; intros H; apply in_or_app; now left.
  - unfold do_write_opts, with_op, with_run. destruct (s_proc s) as [[? ? ops ?| | | |]|]; try (intros H; apply in_or_app; now left).
    destruct (find_op e ops) as [o|]; [destruct (o_phase o)|]; simpl; intros H; apply in_or_app; now left.
  - unfold do_insert, with_op, with_run. destruct (s_proc s) as [[? ? ops ?| | | |]|]; try (intros H; apply in_or_app; now left).
    destruct (find_op e ops) as [o|]; [destruct (o_phase o); try (intros H; apply in_or_app; now left)|intros H; apply in_or_app; now left].
    destruct (existsb _ _); simpl; intros H; apply in_or_app; now left.
  - unfold do_commit, with_run. destruct (s_proc s) as [[| | | |]|]; simpl; try (intros H; apply in_or_app; now left).
    tauto.
  - unfold do_rstage, with_restore. destruct (s_proc s) as [[| ? ? st| | |]|]; try (intros H; apply in_or_app; now left).
    destruct st; simpl; intros H; apply in_or_app; now left.
  - unfold do_rinsert, with_restore. destruct (s_proc s) as [[| ? ? st| | |]|]; try (intros H; apply in_or_app; now left).
    destruct st; try (intros H; apply in_or_app; now left). destruct (nodupb _); simpl; intros H; apply in_or_app; now left.
  - unfold do_rcopy_begin, with_restore. destruct (s_proc s) as [[| a ? st| | |]|]; try (intros H; apply in_or_app; now left).
    destruct st as [| |c copying| |]; try (intros H; apply in_or_app; now left).
    destruct copying; try (intros H; apply in_or_app; now left).
    destruct (nth_error a c) as [[r0 [d|]]|]; try (intros H; apply in_or_app; now left).
    destruct (has_dir _ _); simpl; intros H; apply in_or_app; now left.
  - unfold do_rcopy_end, with_restore. destruct (s_proc s) as [[| a ? st| | |]|]; try (intros H; apply in_or_app; now left).
    destruct st as [| |c copying| |]; try (intros H; apply in_or_app; now left).
    destruct copying; try (intros H; apply in_or_app; now left).
    destruct (nth_error a c) as [[r0 [d|]]|]; simpl; intros H; apply in_or_app; now left.
  - unfold do_rcommit, with_restore. destruct (s_proc s) as [[| a ? st| | |]|]; try (intros H; apply in_or_app; now left).
    destruct st as [| |c copying| |]; try (intros H; apply in_or_app; now left).
    destruct copying; try (intros H; apply in_or_app; now left).
    destruct (Nat.eqb c _); simpl; [tauto | intros H; apply in_or_app; now left].
  - unfold do_rfail, with_restore. destruct (s_proc s) as [[| ? ? st| | |]|]; try (intros H; apply in_or_app; now left).
    destruct st; simpl; intros H; apply in_or_app; now left.
  - unfold do_gc_remove. destruct (s_proc s) as [[| | | |]|]; try (intros H; apply in_or_app; now left).
    destruct (existsb _ _ || live_at _ _); simpl; intros H; apply in_or_app; now left.
  - unfold do_clean_all. destruct (s_proc s) as [[| | | |]|]; try (intros H; apply in_or_app; now left).
    destruct (any_live _); simpl; [intros H; apply in_or_app; now left | intros []].
  - unfold do_clean_index. destruct (s_proc s) as [[| | | |]|]; try (intros H; apply in_or_app; now left).
    destruct (any_live _); simpl; [intros H; apply in_or_app; now left | intros []].
  - assert (E : s_rows (do_clean_dir k s) = s_rows s).
    { unfold do_clean_dir. destruct (s_proc s) as [[| | | |]|]; try reflexivity.
      destruct (any_live _); try reflexivity. destruct (s_rows s) eqn:Er; simpl; rewrite ?Er; reflexivity. }
    rewrite E. intros H; apply in_or_app; now left.
  - simpl. intros H; apply in_or_app; now left.
  - simpl. intros H; apply in_or_app; now left.
Qed.

Lemma archive_of_ok clock sel s : reachable clock s -> archive_ok (archive_of sel s).
Proof.
  intros Hr. apply wf_reachable in Hr. intros r d Hin. unfold archive_of in Hin.
  apply in_map_iff in Hin as (r0 & E & Hr0). inversion E; subst r0. apply filter_In in Hr0 as [Hr0 _].
  destruct (wf_rows _ Hr r Hr0) as (d' & Hd' & Hg). rewrite Hd' in H1. inversion H1; subst. exact Hg.
Qed.
