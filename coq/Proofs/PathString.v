(* Output locations as STRINGS (what the file system sees): <root>/cond-out/<segments>/<name>.task[.<version>].
   Two different (identifier, version) pairs never give the same path string below one root, and every such path lies
   below <root>/cond-out/.  Needs: no component contains '/', which holds for documented names, for the configured
   directory name / suffix (checked by computation on the regenerated constants) and for decimal numbers. *)
From Coq Require Import List NArith Bool Lia.
From Conductor Require Import Lib.Str Gen.Generated Model.Ident Model.Env Proofs.IdentSpec Proofs.IdentProofs.
Import ListNotations.
Local Open Scope N_scope.

Definition no_slash (c : str) : Prop := ~ In SLASH c.

Lemma slash_free_split a : forall b r1 r2,
  no_slash a -> no_slash b ->
  (r1 = [] \/ exists t, r1 = SLASH :: t) -> (r2 = [] \/ exists t, r2 = SLASH :: t) ->
  a ++ r1 = b ++ r2 -> a = b /\ r1 = r2.
Proof.
  induction a as [|x a IH]; intros b r1 r2 Ha Hb H1 H2 E.
  - destruct b as [|y b]; [auto|]. exfalso. cbn in E. destruct H1 as [->|(t & ->)]; [discriminate|].
    inversion E; subst. apply Hb. left. reflexivity.
  - destruct b as [|y b].
    + exfalso. cbn in E. destruct H2 as [->|(t & ->)]; [discriminate|]. inversion E; subst. apply Ha. left. reflexivity.
    + cbn in E. inversion E; subst.
      destruct (IH b r1 r2) as (-> & ->); auto.
      * intros Hin. apply Ha. right. exact Hin.
      * intros Hin. apply Hb. right. exact Hin.
Qed.

Definition flat (comps : list str) : str := flat_map (fun c => SLASH :: c) comps.

Lemma flat_shape comps : flat comps = [] \/ exists t, flat comps = SLASH :: t.
Proof. destruct comps as [|c comps]; [left; reflexivity | right; cbn; eauto]. Qed.

Lemma flat_inj l1 : forall l2, Forall no_slash l1 -> Forall no_slash l2 -> flat l1 = flat l2 -> l1 = l2.
Proof.
  induction l1 as [|c1 l1 IH]; intros l2 H1 H2 E.
  - destruct l2 as [|c2 l2]; [reflexivity | discriminate].
  - destruct l2 as [|c2 l2]; [discriminate|]. cbn in E. inversion E as [E'].
    inversion H1; subst. inversion H2; subst.
    destruct (slash_free_split c1 c2 (flat l1) (flat l2)) as (-> & E2); auto using flat_shape.
    f_equal. apply IH; auto.
Qed.

Lemma ident_char_not_slash c : ident_char c = true -> c <> SLASH.
Proof. intros H ->. vm_compute in H. discriminate. Qed.

Lemma docname_no_slash s : DocName s -> no_slash s.
Proof.
  intros (_ & H) Hin. rewrite Forall_forall in H. apply (ident_char_not_slash SLASH); [apply H; exact Hin | reflexivity].
Qed.

Lemma digits_no_slash n : no_slash (dec n).
Proof.
  intros Hin. pose proof (dec_digits n) as H. rewrite Forall_forall in H. specialize (H _ Hin). vm_compute in H. discriminate.
Qed.

Section WithCfg.
  Hypothesis Hout : forallb (fun c => negb (c =? SLASH)) cfg_OUTPUT_DIR = true.
  Hypothesis Hsuf : forallb (fun c => negb (c =? SLASH)) cfg_TASK_OUTPUT_DIR_SUFFIX = true.
  Hypothesis Hsuffix : exists rest, cfg_TASK_OUTPUT_DIR_SUFFIX = DOT :: rest.

  Lemma forallb_no_slash s : forallb (fun c => negb (c =? SLASH)) s = true -> no_slash s.
  Proof.
    intros H Hin. rewrite forallb_forall in H. specialize (H _ Hin). rewrite N.eqb_refl in H. discriminate.
  Qed.

  Lemma out_path_no_slash i v : WfIdent i -> Forall no_slash (out_path i v).
  Proof.
    intros (Hp & Hn). unfold out_path. constructor; [apply forallb_no_slash; exact Hout|].
    apply Forall_app. split.
    - rewrite Forall_forall in *. intros s Hs. apply docname_no_slash. apply Hp. exact Hs.
    - constructor; [|constructor]. unfold task_output_dir, no_slash. rewrite !in_app_iff. intros [H|[H|H]].
      + exact (docname_no_slash _ Hn H).
      + exact (forallb_no_slash _ Hsuf H).
      + destruct v as [t|]; [|exact H]. cbn in H. destruct H as [H|H]; [discriminate | exact (digits_no_slash t H)].
  Qed.

  (* below one root, different (identifier, version) pairs have different path strings *)
  Theorem cond_out_string_inj root i1 v1 i2 v2 :
    WfIdent i1 -> WfIdent i2 -> cond_out root i1 v1 = cond_out root i2 v2 -> i1 = i2 /\ v1 = v2.
  Proof.
    intros W1 W2 E. unfold cond_out, path_str in E. apply app_inv_head in E.
    apply (out_path_inj Hsuffix i1 v1 i2 v2 W1 W2).
    apply flat_inj; [apply out_path_no_slash; exact W1 | apply out_path_no_slash; exact W2 | exact E].
  Qed.

  (* every output location lies below <root>/cond-out/ and is not cond-out itself *)
  Theorem cond_out_below_output_dir root i v :
    exists rest, cond_out root i v = root ++ SLASH :: cfg_OUTPUT_DIR ++ SLASH :: rest.
  Proof.
    unfold cond_out, path_str, out_path. cbn [flat_map]. destruct (ipath i) as [|s p]; cbn [app flat_map].
    - eexists. rewrite app_nil_r. reflexivity.
    - eexists. reflexivity.
  Qed.
End WithCfg.
