(* The documented grammar of task names and identifiers (website/docs/task-types.md:
   "letters, digits, '-' and '_'"; "//path/to:name", ":name"), written independently of the
   source, once as predicates over strings and once as regular expressions, with the proof that
   the two presentations agree. *)
From Coq Require Import List NArith Bool Lia ZifyBool ZifyN.
From Conductor Require Import Lib.Regex Lib.Str Model.Ident.
Import ListNotations.
Local Open Scope N_scope.

Definition ident_char (c : N) : bool :=
  ((97 <=? c) && (c <=? 122))      (* a-z *)
  || ((65 <=? c) && (c <=? 90))    (* A-Z *)
  || ((48 <=? c) && (c <=? 57))    (* 0-9 *)
  || (c =? 95) || (c =? 45).       (* _ - *)

Definition DocName (s : str) : Prop := s <> [] /\ Forall (fun c => ident_char c = true) s.

Definition olist (o : option str) : list str := match o with Some l => [l] | None => [] end.
Definition otext (o : option str) : str := match o with Some l => l | None => [] end.

(* (//)? (segment/)* (segment)? :name *)
Definition assemble (pfx : bool) (segs : list str) (last : option str) (name : str) : str :=
  (if pfx then [SLASH; SLASH] else []) ++
  concat (map (fun g => g ++ [SLASH]) segs) ++ otext last ++ [COLON] ++ name.

Definition DocIdent (s : str) : Prop :=
  exists pfx segs last name,
    Forall DocName segs /\ Forall DocName (olist last) /\ DocName name /\
    s = assemble pfx segs last name.

Definition WfIdent (i : ident) : Prop := Forall DocName (ipath i) /\ DocName (iname i).

(* the same grammar as regular expressions *)
Definition doc_name_cls : cls := [(97, 122); (65, 90); (48, 57); (95, 95); (45, 45)].
Definition doc_name_re : re := Plus (Cls doc_name_cls).
Definition doc_ident_re : re :=
  Cat (Opt (Cat (Chr SLASH) (Chr SLASH)))
      (Cat (Star (Cat doc_name_re (Chr SLASH)))
           (Cat (Opt doc_name_re) (Cat (Chr COLON) doc_name_re))).
Definition doc_rel_re : re := Cat (Chr COLON) doc_name_re.

Lemma ident_char_cls c : in_cls c doc_name_cls = ident_char c.
Proof. unfold ident_char, in_cls, in_rng, doc_name_cls. simpl. lia. Qed.

Lemma doc_name_re_spec s : L doc_name_re s <-> DocName s.
Proof.
  unfold doc_name_re, DocName. rewrite L_plus_cls.
  split; intros [H1 H2]; split; auto; rewrite Forall_forall in *; intros c Hc;
    specialize (H2 c Hc); rewrite ident_char_cls in *; auto.
Qed.

Lemma ident_char_not c : ident_char c = true -> c <> SLASH /\ c <> COLON /\ c <> DOT /\ c <> 10.
Proof. unfold ident_char, SLASH, COLON, DOT. lia. Qed.

Lemma DocName_no c s : DocName s -> (c = SLASH \/ c = COLON \/ c = DOT \/ c = 10) -> ~ In c s.
Proof.
  intros [_ H] Hc Hin. rewrite Forall_forall in H. apply H in Hin.
  apply ident_char_not in Hin. intuition congruence.
Qed.

Lemma DocName_head s : DocName s -> exists x t, s = x :: t /\ ident_char x = true.
Proof.
  intros [Hne H]. destruct s as [|x t]; [congruence|]. inversion H; subst. eauto.
Qed.

Lemma Forall_map_ex {A B} (P : A -> Prop) (f : A -> B) (ws : list B) :
  Forall (fun w => exists g, P g /\ w = f g) ws -> exists gs, Forall P gs /\ ws = map f gs.
Proof.
  induction 1 as [|w ws (g & Hg & ->) _ (gs & Hgs & ->)].
  - exists []. auto.
  - exists (g :: gs). auto.
Qed.

Lemma doc_ident_re_spec s : L doc_ident_re s <-> DocIdent s.
Proof.
  unfold doc_ident_re, DocIdent. split.
  - intros H.
    apply L_cat_iff in H as (p & r1 & -> & Hp & H).
    apply L_cat_iff in H as (m & r2 & -> & Hm & H).
    apply L_cat_iff in H as (l & r3 & -> & Hl & H).
    apply L_cat_iff in H as (c & n & -> & Hc & Hn).
    apply L_chr_iff in Hc; subst c. apply doc_name_re_spec in Hn.
    apply L_star_forall in Hm as (ws & -> & Hws).
    assert (Hsegs : exists segs, Forall DocName segs /\ ws = map (fun g => g ++ [SLASH]) segs).
    { apply Forall_map_ex. eapply Forall_impl; [|exact Hws]. intros w Hw.
      apply L_cat_iff in Hw as (g & sl & -> & Hg & Hsl). apply L_chr_iff in Hsl; subst.
      apply doc_name_re_spec in Hg. eauto. }
    destruct Hsegs as (segs & Hsegs & ->).
    apply L_opt_iff in Hp. apply L_opt_iff in Hl.
    assert (Hpfx : exists pfx : bool, p = if pfx then [SLASH; SLASH] else []).
    { destruct Hp as [->|Hp]; [exists false; reflexivity|].
      apply L_cat_iff in Hp as (a & b & -> & Ha & Hb).
      apply L_chr_iff in Ha, Hb; subst. exists true; reflexivity. }
    destruct Hpfx as (pfx & ->).
    assert (Hlast : exists last, Forall DocName (olist last) /\ l = otext last).
    { destruct Hl as [->|Hl]; [exists None; simpl; auto|].
      apply doc_name_re_spec in Hl. exists (Some l); simpl; auto. }
    destruct Hlast as (last & Hlast & ->).
    exists pfx, segs, last, n. split; [assumption|]. split; [assumption|]. split; [assumption|]. reflexivity.
  - intros (pfx & segs & last & name & Hsegs & Hlast & Hname & ->). unfold assemble.
    apply L_cat_iff. do 2 eexists. split; [reflexivity|]. split.
    { apply L_opt_iff. destruct pfx; [right|left; reflexivity].
      change [SLASH; SLASH] with ([SLASH] ++ [SLASH]). constructor; now apply L_chr_iff. }
    apply L_cat_iff. do 2 eexists. split; [reflexivity|]. split.
    { apply L_star_forall. eexists. split; [reflexivity|].
      apply Forall_forall. intros w Hw. apply in_map_iff in Hw as (g & <- & Hg).
      rewrite Forall_forall in Hsegs. constructor; [now apply doc_name_re_spec, Hsegs | now apply L_chr_iff]. }
    apply L_cat_iff. do 2 eexists. split; [reflexivity|]. split.
    { apply L_opt_iff. destruct last as [l|]; simpl; [right|left; reflexivity].
      inversion Hlast; subst. now apply doc_name_re_spec. }
    constructor; [now apply L_chr_iff | now apply doc_name_re_spec].
Qed.

Lemma doc_rel_re_spec s : L doc_rel_re s <-> exists n, s = COLON :: n /\ DocName n.
Proof.
  unfold doc_rel_re. rewrite L_cat_iff. split.
  - intros (c & n & -> & Hc & Hn). apply L_chr_iff in Hc; subst.
    apply doc_name_re_spec in Hn. exists n. split; [reflexivity | assumption].
  - intros (n & -> & Hn). exists [COLON], n. split; [reflexivity|]. split; [now apply L_chr_iff | now apply doc_name_re_spec].
Qed.
