(* Preservation of the executor invariants by every transition of Model/Exec.v. *)
From Coq Require Import List Arith Bool Lia Permutation NArith.
From Conductor Require Import Model.Loader Model.Planner Model.Exec Proofs.ListFacts Proofs.ExecInv.
Import ListNotations.

Lemma upd_same {A} (f : nat -> A) k v : upd f k v k = v.
Proof. unfold upd. now rewrite Nat.eqb_refl. Qed.
Lemma upd_other {A} (f : nat -> A) k v x : x <> k -> upd f k v x = f x.
Proof. unfold upd. intros H. apply Nat.eqb_neq in H. now rewrite H. Qed.

Lemma in_snoc {A} (x y : A) l : In x (l ++ [y]) <-> In x l \/ x = y.
Proof. rewrite in_app_iff. simpl. intuition. Qed.

Lemma inflight_infl s : inflight s = length (infl s).
Proof. unfold inflight, infl, inflP. rewrite app_length, map_length. lia. Qed.
Lemma slots_of_app a b : slots_of (a ++ b) = slots_of a ++ slots_of b.
Proof. unfold slots_of. now rewrite flat_map_app. Qed.
Lemma slots_of_length pr : length (slots_of pr) <= length pr.
Proof.
  induction pr as [|[o [sl|]] pr IH]; simpl; lia.
Qed.
Lemma remove_nth_count {A} (f : A -> nat) k (l : list A) d x :
  k < length l ->
  count x (map f l) = count x (map f (remove_nth k l)) + (if Nat.eqb x (f (nth k l d)) then 1 else 0).
Proof.
  revert k. induction l as [|a l IH]; intros k Hk; [simpl in Hk; lia|].
  destruct k; simpl.
  - lia.
  - simpl in Hk. rewrite (IH k) by lia. lia.
Qed.
Lemma remove_nth_In {A} k (l : list A) y : In y (remove_nth k l) -> In y l.
Proof.
  revert k. induction l as [|a l IH]; intros k H; [destruct k; exact H|].
  destruct k; simpl in *; [auto|]. destruct H as [H|H]; [auto | right; eauto].
Qed.
Lemma remove_nth_length {A} k (l : list A) : k < length l -> S (length (remove_nth k l)) = length l.
Proof.
  revert k. induction l as [|a l IH]; intros k Hk; [simpl in Hk; lia|].
  destruct k; simpl; [reflexivity|]. simpl in Hk. rewrite IH by lia. reflexivity.
Qed.
Lemma remove_nth_slots k (l : list (nat * option nat)) d :
  k < length l ->
  Permutation (slots_of l) (match snd (nth k l d) with Some sl => [sl] | None => [] end ++ slots_of (remove_nth k l)).
Proof.
  revert k. induction l as [|a l IH]; intros k Hk; [simpl in Hk; lia|].
  destruct k; cbn [nth remove_nth].
  - change (slots_of (a :: l)) with (match snd a with Some sl => [sl] | None => [] end ++ slots_of l).
    apply Permutation_refl.
  - simpl in Hk.
    change (slots_of (a :: l)) with (match snd a with Some sl => [sl] | None => [] end ++ slots_of l).
    change (slots_of (a :: remove_nth k l)) with (match snd a with Some sl => [sl] | None => [] end ++ slots_of (remove_nth k l)).
    eapply Permutation_trans; [apply Permutation_app_head, (IH k); lia|].
    rewrite !app_assoc. apply Permutation_app_tail, Permutation_app_comm.
Qed.
Lemma map_fst_In_remove k (l : list (nat * option nat)) d x :
  k < length l -> In x (map fst l) -> x = fst (nth k l d) \/ In x (map fst (remove_nth k l)).
Proof.
  intros Hk Hx. apply In_count_pos in Hx. rewrite (remove_nth_count fst k l d x Hk) in Hx.
  destruct (Nat.eqb x (fst (nth k l d))) eqn:E.
  - left. now apply Nat.eqb_eq.
  - right. apply count_In. lia.
Qed.

Section Steps.
  Variable p : plan.
  Variable jobs : nat.
  Variable stop : bool.
  Variable orc : oracle.
  Hypothesis wf : wf_plan p.
  Hypothesis Hjobs : 1 <= jobs.

  Let n := length (p_ops p).

  Notation CInv := (CInv p).
  Notation SInv := (SInv p orc).
  Notation MInv := (MInv p jobs).
  Notation TInv := (TInv p).
  Notation NInv := (NInv stop).
  Notation Inv := (Inv p jobs stop orc).
  Notation TraceOK := (TraceOK p).
  Notation fails := (fails p orc).

  (* facts about an operation in limbo *)
  Lemma limbo_facts s0 o :
    CInv s0 [o] -> SInv s0 ->
    o < n /\ ~ In o (completed s0) /\ ~ In o (infl s0) /\ ~ In o (readyS s0) /\ ~ In o (readyP s0) /\ ost s0 o = QUEUED.
  Proof.
    intros Hc Hs.
    assert (Hn : o < n).
    { apply (c_range _ _ _ _ _ _ _ _ Hc). unfold allqP. rewrite !in_app_iff. simpl. tauto. }
    pose proof (NoDup_count o _ (c_nodup _ _ _ _ _ _ _ _ Hc)) as Hcnt.
    rewrite count_allqP in Hcnt. cbn [count] in Hcnt. rewrite Nat.eqb_refl in Hcnt.
    assert (Hnc : ~ In o (completed s0)) by (intros H; apply In_count_pos in H; lia).
    split; [assumption|]. split; [assumption|]. split.
    { unfold infl, inflP. rewrite in_app_iff. intros [H|H]; apply In_count_pos in H; lia. }
    split; [intros H; apply In_count_pos in H; lia|].
    split; [intros H; apply In_count_pos in H; lia|].
    destruct (ost s0 o) eqn:E; try reflexivity; exfalso; apply Hnc;
      apply (proj2 (s_st _ _ _ _ _ _ Hs o Hn)); rewrite E; discriminate.
  Qed.

  Lemma complete_inv s0 o st ev :
    CInv s0 [o] -> SInv s0 -> MInv s0 -> TInv s0 [o] ->
    st <> QUEUED ->
    (st = SUCCEEDED \/ st = FAILED -> forall d, In d (exe_deps p o) -> ost s0 d = SUCCEEDED) ->
    (st = SKIPPED -> exists d, In d (exe_deps p o) /\ (ost s0 d = FAILED \/ ost s0 d = SKIPPED)) ->
    (st = FAILED -> fails o = true) -> (st = SUCCEEDED -> fails o = false) ->
    TraceOK (ev :: trace s0) ->
    ((ev = ESkip o /\ st = SKIPPED) \/ (ev = ELaunchFail o /\ st = FAILED) \/
     (exists rc, ev = EFinish o rc /\ (rc = 0%N <-> st = SUCCEEDED) /\ st <> SKIPPED)) ->
    let s' := process_finished p (mark s0 o st ev) o in
    CInv s' [] /\ SInv s' /\ MInv s' /\ TInv s' [].
  Proof.
    intros Hc Hs Hm Ht Hst Hrun Hskip Hfail Hsucc Hok Hev s'.
    destruct (limbo_facts s0 o Hc Hs) as (Hn & Hnc & Hninfl & _ & _ & Hq).
    assert (Hneq : forall d, ost s0 d <> QUEUED -> d <> o) by (intros d H E; subst; congruence).
    assert (Hsame : forall d, ost s0 d <> QUEUED -> upd (ost s0) o st d = ost s0 d).
    { intros d H. apply upd_other. auto. }
    split; [|split; [|split]].
    - apply pf_core; [exact wf|]. exact Hc.
    - change (SInvP p orc (syncs s0) (procs s0) (completed s0 ++ [o]) (upd (ost s0) o st)).
      constructor.
      + intros x Hx. rewrite in_snoc. destruct (Nat.eq_dec x o) as [->|Hne].
        * rewrite upd_same. tauto.
        * rewrite upd_other by assumption. rewrite <- (s_st _ _ _ _ _ _ Hs x Hx). tauto.
      + intros x Hx Hxs d Hd. destruct (Nat.eq_dec x o) as [->|Hne].
        * rewrite upd_same in Hxs. specialize (Hrun Hxs d Hd). rewrite Hsame; congruence.
        * rewrite upd_other in Hxs by assumption.
          pose proof (s_run_deps _ _ _ _ _ _ Hs x Hx Hxs d Hd) as H. rewrite Hsame; congruence.
      + intros x Hx Hxs. destruct (Nat.eq_dec x o) as [->|Hne].
        * rewrite upd_same in Hxs. destruct (Hskip Hxs) as (d & Hd & Hds). exists d. split; [assumption|].
          rewrite Hsame; [assumption | destruct Hds; congruence].
        * rewrite upd_other in Hxs by assumption.
          destruct (s_skip_deps _ _ _ _ _ _ Hs x Hx Hxs) as (d & Hd & Hds). exists d. split; [assumption|].
          rewrite Hsame; [assumption | destruct Hds; congruence].
      + intros x Hx d Hd. pose proof (s_infl_deps _ _ _ _ _ _ Hs x Hx d Hd) as H. rewrite Hsame; congruence.
      + intros x Hx Hxs. destruct (Nat.eq_dec x o) as [->|Hne].
        * rewrite upd_same in Hxs. auto.
        * rewrite upd_other in Hxs by assumption. now apply (s_failed _ _ _ _ _ _ Hs).
      + intros x Hx Hxs. destruct (Nat.eq_dec x o) as [->|Hne].
        * rewrite upd_same in Hxs. auto.
        * rewrite upd_other in Hxs by assumption. now apply (s_succ _ _ _ _ _ _ Hs).
      + apply (s_sync _ _ _ _ _ _ Hs).
      + apply (s_proc _ _ _ _ _ _ Hs).
    - exact Hm.
    - change (TInvP p (syncs s0) (procs s0) (completed s0 ++ [o]) (upd (ost s0) o st) (ev :: trace s0) []).
      assert (Hev_not_start : forall x sl, ev <> EStart x sl).
      { intros x sl. destruct Hev as [[-> _]|[[-> _]|(rc & -> & _)]]; discriminate. }
      assert (Hev_op : forall x, (ev = ESkip x \/ ev = ELaunchFail x \/ exists rc, ev = EFinish x rc) -> x = o).
      { intros x. destruct Hev as [[-> _]|[[-> _]|(rc & -> & _)]];
          intros [H|[H|(rc' & H)]]; inversion H; reflexivity. }
      constructor.
      + exact Hok.
      + intros x sl [H|H]; [exfalso; eapply Hev_not_start; eauto|].
        destruct (t_start _ _ _ _ _ _ _ Ht x sl H) as [H1|[H1|H1]].
        * left; assumption.
        * right; left. apply in_snoc. tauto.
        * right; left. apply in_snoc. destruct H1 as [->|[]]. tauto.
      + intros x Hx. destruct (t_infl _ _ _ _ _ _ _ Ht x Hx) as (sl & H). exists sl. right; assumption.
      + intros x Hx. apply in_snoc.
        assert (Hcases : x = o \/ (In (ESkip x) (trace s0) \/ In (ELaunchFail x) (trace s0) \/ exists rc, In (EFinish x rc) (trace s0))).
        { destruct Hx as [[H|H]|[[H|H]|(rc & [H|H])]].
          - left. apply Hev_op. auto.
          - right. auto.
          - left. apply Hev_op. auto.
          - right. auto.
          - left. apply Hev_op. right; right. eauto.
          - right. right; right. eauto. }
        destruct Hcases as [->|H]; [tauto|]. left. now apply (t_done _ _ _ _ _ _ _ Ht).
      + intros x Hx Hxs. destruct (Nat.eq_dec x o) as [->|Hne].
        * rewrite upd_same in Hxs. subst st.
          destruct Hev as [[_ H]|[[_ H]|(rc & -> & Hrc & _)]]; try discriminate.
          left. f_equal. now apply Hrc.
        * rewrite upd_other in Hxs by assumption. right. now apply (t_succ _ _ _ _ _ _ _ Ht).
      + intros x rc [H|H].
        * destruct Hev as [[-> _]|[[-> _]|(rc' & -> & Hrc & _)]]; try discriminate.
          inversion H; subst. rewrite upd_same. exact Hrc.
        * assert (Hxc : In x (completed s0)) by (apply (t_done _ _ _ _ _ _ _ Ht); right; right; eauto).
          assert (x <> o) by (intros ->; contradiction).
          rewrite upd_other by assumption. now apply (t_fin_state _ _ _ _ _ _ _ Ht).
      + intros x Hx. destruct (Nat.eq_dec x o) as [->|Hne].
        * rewrite upd_same. split.
          -- intros ->. destruct Hev as [[-> _]|[[_ H]|(rc & _ & _ & H)]]; try discriminate; [left; reflexivity | congruence].
          -- intros [H|H].
             ++ destruct Hev as [[_ H']|[[-> _]|(rc & -> & _)]]; try discriminate. assumption.
             ++ exfalso. apply Hnc. apply (t_done _ _ _ _ _ _ _ Ht). auto.
        * rewrite upd_other by assumption. rewrite (t_skip _ _ _ _ _ _ _ Ht x Hx). split; [intros H; right; exact H|].
          intros [H|H]; [|assumption]. exfalso. apply Hne. apply Hev_op. left. exact H.
      + intros x Hx. apply in_snoc in Hx as [Hx| ->].
        * destruct (t_compl _ _ _ _ _ _ _ Ht x Hx) as [H|[H|(rc & H)]];
            [left | right; left | right; right; exists rc]; right; exact H.
        * destruct Hev as [[-> _]|[[-> _]|(rc & -> & _)]];
            [left | right; left | right; right; exists rc]; left; reflexivity.
  Qed.

  (* ---------- moving operations between the lists ---------- *)
  Lemma CInvP_perm rS rP sy pr co wa X rS' rP' sy' pr' X' :
    CInvP p rS rP sy pr co wa X ->
    (forall x, count x (allqP rS' rP' sy' pr' co X') = count x (allqP rS rP sy pr co X)) ->
    (forall x, In x rS' -> In x rS) -> (forall x, In x rP' -> In x rP) ->
    CInvP p rS' rP' sy' pr' co wa X'.
  Proof.
    intros I Hcnt HS HP.
    assert (Hin : forall x, In x (allqP rS' rP' sy' pr' co X') <-> In x (allqP rS rP sy pr co X)).
    { intros x. rewrite <- !count_In, Hcnt. reflexivity. }
    constructor.
    - apply count_NoDup. intros x. rewrite Hcnt. apply NoDup_count, (c_nodup _ _ _ _ _ _ _ _ I).
    - intros x Hx. apply (c_range _ _ _ _ _ _ _ _ I). now apply Hin.
    - intros x Hx. apply (c_qS _ _ _ _ _ _ _ _ I). auto.
    - intros x Hx. apply (c_qP _ _ _ _ _ _ _ _ I). auto.
    - apply (c_wait _ _ _ _ _ _ _ _ I).
    - intros x Hx. rewrite Hin. now apply (c_act _ _ _ _ _ _ _ _ I).
  Qed.

  Lemma TInvP_weaken sy pr co st tr X :
    TInvP p sy pr co st tr [] -> TInvP p sy pr co st tr X.
  Proof.
    intros I. constructor; try apply I.
    intros o sl H. destruct (t_start _ _ _ _ _ _ _ I o sl H) as [H1|[H1|[]]]; auto.
  Qed.

  (* ---------- the gate and the dequeue ---------- *)

  Lemma gate_dequeue s :
    gate_open jobs s = true ->
    exists o rS rP,
      dequeue s = (o, rS, rP) /\
      ((readyP s = o :: rP /\ rS = readyS s) \/ (readyP s = [] /\ readyS s = o :: rS /\ rP = [])) /\
      (infl s = [] \/ (runpar s = true /\ length (infl s) < jobs /\ readyP s <> [])).
  Proof.
    unfold gate_open, dequeue, has_ops, has_par. rewrite inflight_infl. intros H.
    destruct (readyP s) as [|o rP] eqn:EP.
    - destruct (readyS s) as [|o rS] eqn:ES.
      + simpl in H. rewrite andb_false_r in H. discriminate.
      + exists o, rS, []. split; [reflexivity|]. split; [right; auto|].
        rewrite andb_false_r, orb_false_r in H. simpl in H. apply Nat.eqb_eq in H.
        left. now apply length_zero_iff_nil.
    - exists o, (readyS s), rP. split; [reflexivity|]. split; [left; auto|].
      apply orb_true_iff in H as [H|H].
      + apply andb_true_iff in H as [_ H]. apply Nat.eqb_eq in H. left. now apply length_zero_iff_nil.
      + apply andb_true_iff in H as [H _]. apply andb_true_iff in H as [H1 H2].
        apply Nat.ltb_lt in H2. right. split; [assumption|]. split; [assumption | discriminate].
  Qed.

  Lemma unc_zero_deps s o :
    CInv s [] -> SInv s -> In o (readyS s ++ readyP s) ->
    o < n /\ forall d, In d (exe_deps p o) -> ost s d <> QUEUED.
  Proof.
    intros Hc Hs Hin.
    assert (Hall : In o (allq s [])) by (unfold allq, allqP; rewrite !in_app_iff in *; tauto).
    assert (Hn : o < n) by now apply (c_range _ _ _ _ _ _ _ _ Hc).
    split; [assumption|]. intros d Hd.
    apply (c_act _ _ _ _ _ _ _ _ Hc o Hn) in Hall. unfold uncP in Hall.
    rewrite filter_length_zero_all in Hall. specialize (Hall d Hd).
    apply negb_false_iff, mem_In in Hall.
    assert (Hdn : d < n).
    { destruct wf as (H & _). specialize (H o Hn d Hd). fold n in Hn. lia. }
    now apply (s_st _ _ _ _ _ _ Hs d Hdn).
  Qed.

  (* state after the dequeue, with the dequeued operation in limbo *)
  Lemma take_limbo s o rS rP :
    Inv s -> gate_open jobs s = true -> dequeue s = (o, rS, rP) ->
    let s0 := take s rS rP (is_par p o) in
    CInv s0 [o] /\ SInv s0 /\ MInv s0 /\ TInv s0 [o] /\
    (infl s0 = [] \/ (is_par p o = true /\ length (infl s0) < jobs)) /\
    (forall d, In d (exe_deps p o) -> ost s d <> QUEUED) /\
    (forall sl, ~ In (EStart o sl) (trace s)).
  Proof.
    intros [Hc Hs Hm Ht Hn'] Hg Hd s0.
    destruct (gate_dequeue s Hg) as (o' & rS' & rP' & Hd' & Hq & Hgate).
    rewrite Hd in Hd'. inversion Hd'; subst o' rS' rP'. clear Hd'.
    assert (Hin : In o (readyS s ++ readyP s)).
    { rewrite in_app_iff. destruct Hq as [[E _]|[_ [E _]]]; rewrite E; simpl; auto. }
    destruct (unc_zero_deps s o Hc Hs Hin) as [Hon Hdeps].
    assert (Hpar : readyP s <> [] -> is_par p o = true).
    { intros Hne. destruct Hq as [[E _]|[E _]]; [|contradiction].
      apply (c_qP _ _ _ _ _ _ _ _ Hc). rewrite E. left; reflexivity. }
    assert (HcL : CInvP p rS rP (syncs s) (procs s) (completed s) (waiting s) [o]).
    { eapply CInvP_perm; [exact Hc | | |].
      + intros x. rewrite !count_allqP. cbn [count].
        destruct Hq as [[E ->]|[E1 [E2 ->]]]; [rewrite E | rewrite E1, E2]; cbn [count]; lia.
      + intros x Hx. destruct Hq as [[_ ->]|[_ [E _]]]; [assumption | rewrite E; right; assumption].
      + intros x Hx. destruct Hq as [[E _]|[_ [_ ->]]]; [rewrite E; right; assumption | destruct Hx]. }
    split; [|split; [|split; [|split; [|split; [|split]]]]].
    - exact HcL.
    - exact Hs.
    - change (MInvP p jobs (syncs s) (procs s) (avail s) (is_par p o)).
      constructor; try apply Hm.
      intros x Hx. destruct Hgate as [E|(Hrp & _ & Hne)].
      + unfold infl in E. rewrite E in Hx. destruct Hx.
      + rewrite (Hpar Hne), <- Hrp. now apply (m_mode _ _ _ _ _ _ Hm).
    - change (TInvP p (syncs s) (procs s) (completed s) (ost s) (trace s) [o]).
      now apply TInvP_weaken.
    - change (infl s = [] \/ is_par p o = true /\ length (infl s) < jobs).
      destruct Hgate as [E|(_ & Hlt & Hne)]; auto.
    - exact Hdeps.
    - intros sl Hsl.
      destruct (limbo_facts (take s rS rP (is_par p o)) o HcL Hs) as (_ & Hnc & Hni & _).
      destruct (t_start _ _ _ _ _ _ _ Ht o sl Hsl) as [H|[H|[]]]; [apply Hni; exact H | apply Hnc; exact H].
  Qed.

  (* no completion event of an operation in limbo *)
  Lemma limbo_no_done s0 o :
    CInv s0 [o] -> SInv s0 -> TInv s0 [o] ->
    ~ In (ESkip o) (trace s0) /\ ~ In (ELaunchFail o) (trace s0) /\ forall rc, ~ In (EFinish o rc) (trace s0).
  Proof.
    intros Hc Hs Ht. destruct (limbo_facts s0 o Hc Hs) as (_ & Hnc & _).
    split; [|split]; [intros H | intros H | intros rc H]; apply Hnc; apply (t_done _ _ _ _ _ _ _ Ht); eauto.
  Qed.

  Lemma deps_succeeded_trace s0 o :
    SInv s0 -> TInv s0 [o] -> o < n ->
    (forall d, In d (exe_deps p o) -> ost s0 d = SUCCEEDED) ->
    forall d, In d (exe_deps p o) -> In (EFinish d 0%N) (trace s0).
  Proof.
    intros Hs Ht Hn Hd d Hin. apply (t_succ _ _ _ _ _ _ _ Ht); [|auto].
    destruct wf as (H & _). specialize (H o Hn d Hin). fold n in Hn. lia.
  Qed.


  Lemma avail_nonempty s0 :
    MInv s0 -> (infl s0 = [] \/ length (infl s0) < jobs) -> avail s0 <> [].
  Proof.
    intros Hm Hg E.
    pose proof (Permutation_length (m_slots _ _ _ _ _ _ Hm)) as Hl.
    rewrite app_length, seq_length, E in Hl. simpl in Hl.
    pose proof (slots_of_length (procs s0)) as Hs.
    assert (Hp : length (procs s0) <= length (infl s0)).
    { unfold infl, inflP. rewrite app_length, map_length. lia. }
    destruct Hg as [Hg|Hg]; [rewrite Hg in Hp; simpl in Hp|]; lia.
  Qed.

  (* a process is started *)
  Lemma start_proc_inv s0 o slot :
    CInv s0 [o] -> SInv s0 -> MInv s0 -> TInv s0 [o] -> NInv s0 ->
    (infl s0 = [] \/ (is_par p o = true /\ length (infl s0) < jobs)) ->
    runpar s0 = is_par p o ->
    (forall d, In d (exe_deps p o) -> ost s0 d = SUCCEEDED) ->
    (forall sl, ~ In (EStart o sl) (trace s0)) ->
    launch_fails orc o = false -> op_sync (opi p o) = false ->
    slot = (if is_par p o && Nat.ltb 1 jobs then hd_error (avail s0) else None) ->
    Inv (start_proc s0 o slot).
  Proof.
    intros Hc Hs Hm Ht Hnn Hgate Hrp Hdeps Hnostart Hlf Hsy Hslot.
    destruct (limbo_facts s0 o Hc Hs) as (Hn & Hnc & Hninfl & _ & _ & Hq).
    destruct (limbo_no_done s0 o Hc Hs Ht) as (Hns & Hnl & Hnf).
    assert (Hinfl' : forall x, In x (inflP (syncs s0) (procs s0 ++ [(o, slot)])) <-> In x (infl s0) \/ x = o).
    { intros x. unfold infl, inflP. rewrite map_app, !in_app_iff. simpl. intuition. }
    constructor.
    - change (CInvP p (readyS s0) (readyP s0) (syncs s0) (procs s0 ++ [(o, slot)]) (completed s0) (waiting s0) []).
      eapply CInvP_perm; [exact Hc | | auto | auto].
      intros x. rewrite !count_allqP, map_app, count_app. cbn [map fst count]. lia.
    - change (SInvP p orc (syncs s0) (procs s0 ++ [(o, slot)]) (completed s0) (ost s0)).
      constructor; try apply Hs.
      + intros x Hx d Hd. apply Hinfl' in Hx as [Hx| ->]; [now apply (s_infl_deps _ _ _ _ _ _ Hs x) | auto].
      + intros x Hx. rewrite map_app, in_app_iff in Hx. destruct Hx as [Hx|[<-|[]]]; [now apply (s_proc _ _ _ _ _ _ Hs) | auto].
    - change (MInvP p jobs (syncs s0) (procs s0 ++ [(o, slot)])
                    (match slot with Some _ => tl (avail s0) | None => avail s0 end) (runpar s0)).
      assert (Hlen : length (inflP (syncs s0) (procs s0 ++ [(o, slot)])) = S (length (infl s0))).
      { unfold infl, inflP. rewrite map_app, !app_length. simpl. lia. }
      constructor.
      + intros x Hx. apply Hinfl' in Hx as [Hx| ->]; [now apply (m_mode _ _ _ _ _ _ Hm) | auto].
      + intros x Hx Hnp. rewrite Hlen. destruct Hgate as [E|[Hpo _]]; [now rewrite E|].
        exfalso. apply Hinfl' in Hx as [Hx| ->]; [|congruence].
        rewrite (m_mode _ _ _ _ _ _ Hm x Hx), Hrp in Hnp. congruence.
      + rewrite Hlen. destruct Hgate as [E|[_ Hlt]]; [rewrite E; simpl; lia | lia].
      + rewrite slots_of_app. cbn [slots_of flat_map snd app]. rewrite app_nil_r.
        destruct slot as [sl|].
        * destruct (is_par p o && (1 <? jobs)); [|discriminate].
          destruct (avail s0) as [|a av] eqn:Ea; [discriminate|]. simpl in Hslot. inversion Hslot; subst a.
          cbn [tl]. eapply Permutation_trans; [|exact (m_slots _ _ _ _ _ _ Hm)].
          rewrite Ea. rewrite app_assoc. eapply Permutation_trans; [apply Permutation_app_comm|]. simpl.
          apply perm_skip. apply Permutation_refl.
        * rewrite app_nil_r. exact (m_slots _ _ _ _ _ _ Hm).
      + intros x sl Hx. apply in_app_or in Hx as [Hx|[Hx|[]]]; [now apply (m_slot_none _ _ _ _ _ _ Hm)|].
        inversion Hx; subst x sl. clear Hx. rewrite Hslot. clear Hslot.
        destruct (is_par p o) eqn:Ep; cbn [andb].
        * destruct (1 <? jobs) eqn:Ej.
          -- apply Nat.ltb_lt in Ej.
             assert (Hav : avail s0 <> []).
             { apply avail_nonempty; [exact Hm|]. destruct Hgate as [E|[_ Hlt]]; auto. }
             destruct (avail s0); [congruence|]. simpl. split; [discriminate | intros [H|H]; [discriminate | lia]].
          -- apply Nat.ltb_ge in Ej. split; [intros _; right; lia | reflexivity].
        * split; [intros _; left; reflexivity | reflexivity].
    - change (TInvP p (syncs s0) (procs s0 ++ [(o, slot)]) (completed s0) (ost s0) (EStart o slot :: trace s0) []).
      constructor.
      + cbn [ExecInv.TraceOK]. split; [apply (t_ok _ _ _ _ _ _ _ Ht)|].
        split; [now apply (deps_succeeded_trace s0 o Hs Ht Hn)|]. auto.
      + intros x sl [H|H].
        * inversion H; subst. left. apply Hinfl'. auto.
        * destruct (t_start _ _ _ _ _ _ _ Ht x sl H) as [H1|[H1|[->|[]]]].
          -- left. apply Hinfl'. auto.
          -- auto.
          -- left. apply Hinfl'. auto.
      + intros x Hx. apply Hinfl' in Hx as [Hx| ->].
        * destruct (t_infl _ _ _ _ _ _ _ Ht x Hx) as (sl & H). exists sl. right; exact H.
        * exists slot. left; reflexivity.
      + intros x Hx. apply (t_done _ _ _ _ _ _ _ Ht).
        destruct Hx as [[H|H]|[[H|H]|(rc & [H|H])]]; try discriminate; eauto.
      + intros x Hx Hxs. right. now apply (t_succ _ _ _ _ _ _ _ Ht).
      + intros x rc [H|H]; [discriminate|]. now apply (t_fin_state _ _ _ _ _ _ _ Ht).
      + intros x Hx. rewrite (t_skip _ _ _ _ _ _ _ Ht x Hx). split; [intros H; right; exact H|].
        intros [H|H]; [discriminate | exact H].
      + intros x Hx. destruct (t_compl _ _ _ _ _ _ _ Ht x Hx) as [H|[H|(rc & H)]];
          [left | right; left | right; right; exists rc]; right; exact H.
    - intros Hst Hsp e [<-|He]; [exact I|]. now apply Hnn.
  Qed.

  (* a synchronous operation is started *)
  Lemma start_sync_inv s0 o slot :
    CInv s0 [o] -> SInv s0 -> MInv s0 -> TInv s0 [o] -> NInv s0 ->
    (infl s0 = [] \/ (is_par p o = true /\ length (infl s0) < jobs)) ->
    runpar s0 = is_par p o ->
    (forall d, In d (exe_deps p o) -> ost s0 d = SUCCEEDED) ->
    (forall sl, ~ In (EStart o sl) (trace s0)) ->
    launch_fails orc o = false -> op_sync (opi p o) = true ->
    Inv (start_sync s0 o slot).
  Proof.
    intros Hc Hs Hm Ht Hnn Hgate Hrp Hdeps Hnostart Hlf Hsy.
    destruct (limbo_facts s0 o Hc Hs) as (Hn & Hnc & Hninfl & _ & _ & Hq).
    destruct (limbo_no_done s0 o Hc Hs Ht) as (Hns & Hnl & Hnf).
    assert (Hinfl' : forall x, In x (inflP (o :: syncs s0) (procs s0)) <-> In x (infl s0) \/ x = o).
    { intros x. unfold infl, inflP. simpl. intuition. }
    assert (Hnp : is_par p o = false).
    { destruct wf as (_ & _ & _ & _ & H). now apply H. }
    constructor.
    - change (CInvP p (readyS s0) (readyP s0) (o :: syncs s0) (procs s0) (completed s0) (waiting s0) []).
      eapply CInvP_perm; [exact Hc | | auto | auto].
      intros x. rewrite !count_allqP. cbn [count]. lia.
    - change (SInvP p orc (o :: syncs s0) (procs s0) (completed s0) (ost s0)).
      constructor; try apply Hs.
      + intros x Hx d Hd. apply Hinfl' in Hx as [Hx| ->]; [now apply (s_infl_deps _ _ _ _ _ _ Hs x) | auto].
      + intros x [<-|Hx]; [auto | now apply (s_sync _ _ _ _ _ _ Hs)].
    - change (MInvP p jobs (o :: syncs s0) (procs s0) (avail s0) (runpar s0)).
      assert (Hlen : length (inflP (o :: syncs s0) (procs s0)) = S (length (infl s0))) by reflexivity.
      constructor; try apply Hm.
      + intros x Hx. apply Hinfl' in Hx as [Hx| ->]; [now apply (m_mode _ _ _ _ _ _ Hm) | auto].
      + intros x Hx Hxp. rewrite Hlen. destruct Hgate as [E|[Hpo _]]; [now rewrite E | congruence].
      + rewrite Hlen. destruct Hgate as [E|[_ Hlt]]; [rewrite E; simpl; lia | lia].
    - change (TInvP p (o :: syncs s0) (procs s0) (completed s0) (ost s0) (EStart o slot :: trace s0) []).
      constructor.
      + cbn [ExecInv.TraceOK]. split; [apply (t_ok _ _ _ _ _ _ _ Ht)|].
        split; [now apply (deps_succeeded_trace s0 o Hs Ht Hn)|]. auto.
      + intros x sl [H|H].
        * inversion H; subst. left. apply Hinfl'. auto.
        * destruct (t_start _ _ _ _ _ _ _ Ht x sl H) as [H1|[H1|[->|[]]]].
          -- left. apply Hinfl'. auto.
          -- auto.
          -- left. apply Hinfl'. auto.
      + intros x Hx. apply Hinfl' in Hx as [Hx| ->].
        * destruct (t_infl _ _ _ _ _ _ _ Ht x Hx) as (sl & H). exists sl. right; exact H.
        * exists slot. left; reflexivity.
      + intros x Hx. apply (t_done _ _ _ _ _ _ _ Ht).
        destruct Hx as [[H|H]|[[H|H]|(rc & [H|H])]]; try discriminate; eauto.
      + intros x Hx Hxs. right. now apply (t_succ _ _ _ _ _ _ _ Ht).
      + intros x rc [H|H]; [discriminate|]. now apply (t_fin_state _ _ _ _ _ _ _ Ht).
      + intros x Hx. rewrite (t_skip _ _ _ _ _ _ _ Ht x Hx). split; [intros H; right; exact H|].
        intros [H|H]; [discriminate | exact H].
      + intros x Hx. destruct (t_compl _ _ _ _ _ _ _ Ht x Hx) as [H|[H|(rc & H)]];
          [left | right; left | right; right; exists rc]; right; exact H.
    - intros Hst Hsp e [<-|He]; [exact I|]. now apply Hnn.
  Qed.

  Lemma ostate_cases (st : ostate) : st = QUEUED \/ st = SKIPPED \/ st = SUCCEEDED \/ st = FAILED.
  Proof. destruct st; auto. Qed.

  Lemma succeeded_spec s o : succeeded s o = true <-> ost s o = SUCCEEDED.
  Proof. unfold succeeded. destruct (ost s o); simpl; split; congruence. Qed.

  Lemma NInv_set_stopped s : NInv (set_stopped s).
  Proof. intros _ H. discriminate. Qed.

  Lemma inv_maybe_stop s1 (b : bool) :
    b = stop -> CInv s1 [] -> SInv s1 -> MInv s1 -> TInv s1 [] ->
    Inv (if b then set_stopped s1 else s1).
  Proof.
    intros Hb Hc Hs Hm Ht. destruct b.
    - constructor; auto. apply NInv_set_stopped.
    - constructor; auto. intros H. congruence.
  Qed.

  (* ---------- one launch iteration ---------- *)
  Lemma launch_one_inv s : Inv s -> gate_open jobs s = true -> Inv (launch_one p jobs stop orc s).
  Proof.
    intros HI Hg. unfold launch_one.
    destruct (dequeue s) as [[o rS] rP] eqn:Hd.
    destruct (take_limbo s o rS rP HI Hg Hd) as (Hc & Hs & Hm & Ht & Hgate & Hdq & Hnostart).
    set (s0 := take s rS rP (is_par p o)) in *.
    destruct (limbo_facts s0 o Hc Hs) as (Hn & Hnc & Hninfl & _ & _ & Hq).
    destruct (limbo_no_done s0 o Hc Hs Ht) as (Hns & Hnl & Hnf).
    assert (Hnn : NInv s0) by exact (i_n _ _ _ _ _ HI).
    destruct (forallb (succeeded s) (exe_deps p o)) eqn:Efa; cbn [negb].
    - (* all dependencies succeeded *)
      assert (Hdeps : forall d, In d (exe_deps p o) -> ost s0 d = SUCCEEDED).
      { intros d Hd'. rewrite forallb_forall in Efa. apply (proj1 (succeeded_spec s d)). now apply Efa. }
      destruct (launch_fails orc o) eqn:Elf.
      + (* start_execution raises *)
        assert (Hcomp : let s' := process_finished p (mark s0 o FAILED (ELaunchFail o)) o in
                        CInv s' [] /\ SInv s' /\ MInv s' /\ TInv s' []).
        { apply complete_inv; auto; try discriminate.
          - intros _. unfold ExecInv.fails. now rewrite Elf.
          - cbn [ExecInv.TraceOK]. split; [apply (t_ok _ _ _ _ _ _ _ Ht)|].
            split; [exact Hnostart | split; assumption]. }
        destruct Hcomp as (Hc' & Hs' & Hm' & Ht').
        now apply inv_maybe_stop.
      + destruct (op_sync (opi p o)) eqn:Esy.
        * apply start_sync_inv; auto.
        * apply start_proc_inv; auto.
    - (* some dependency did not succeed: skip *)
      assert (Hex : exists d, In d (exe_deps p o) /\ (ost s0 d = FAILED \/ ost s0 d = SKIPPED)).
      { assert (Hnot : ~ (forall d, In d (exe_deps p o) -> succeeded s d = true)).
        { intros H. apply forallb_forall in H. congruence. }
        assert (Hex' : exists d, In d (exe_deps p o) /\ succeeded s d = false).
        { clear -Hnot. induction (exe_deps p o) as [|d l IH].
          - exfalso. apply Hnot. intros d [].
          - destruct (succeeded s d) eqn:E.
            + destruct IH as (d' & Hd' & Hs').
              * intros H. apply Hnot. intros x [<-|Hx]; auto.
              * exists d'. split; [right; assumption | assumption].
            + exists d. split; [left; reflexivity | assumption]. }
        destruct Hex' as (d & Hd' & Hsd). exists d. split; [assumption|].
        specialize (Hdq d Hd').
        assert (Hns' : ost s d <> SUCCEEDED) by (intros H; apply succeeded_spec in H; congruence).
        destruct (ostate_cases (ost s d)) as [H|[H|[H|H]]]; try congruence; auto. }
      assert (Hcomp : let s' := process_finished p (mark s0 o SKIPPED (ESkip o)) o in
                      CInv s' [] /\ SInv s' /\ MInv s' /\ TInv s' []).
      { apply complete_inv; auto; try discriminate.
        - intros [H|H]; discriminate.
        - cbn [ExecInv.TraceOK]. split; [apply (t_ok _ _ _ _ _ _ _ Ht)|].
          split; [exact Hnostart | split; assumption]. }
      destruct Hcomp as (Hc' & Hs' & Hm' & Ht').
      constructor; auto.
      intros Hst Hsp e [<-|He]; [exact I | now apply Hnn].
  Qed.

  (* ---------- removing the k-th process ---------- *)

  Lemma NInv_tail s1 e tr :
    trace s1 = e :: tr -> (stop = true -> stopped s1 = false -> forall e', In e' tr -> match e' with ELaunchFail _ => False | EFinish _ rc => rc = 0%N | _ => True end) ->
    (stop = true -> match e with ELaunchFail _ => False | EFinish _ rc => rc = 0%N | _ => True end) ->
    NInv s1.
  Proof.
    intros Etr Htl Hhd Hst Hsp e' He'. rewrite Etr in He'. destruct He' as [<-|He']; [exact (Hhd Hst) | exact (Htl Hst Hsp e' He')].
  Qed.

  (* ---------- one wait ---------- *)
  Lemma wait_one_inv s : Inv s -> infl s <> [] -> Inv (wait_one p stop orc s).
  Proof.
    intros [Hc Hs Hm Ht Hnn] Hne. unfold wait_one.
    destruct (syncs s) as [|o sy] eqn:Esy.
    - (* a process exits *)
      assert (Hlen : 0 < length (procs s)).
      { unfold infl, inflP in Hne. rewrite Esy in Hne. simpl in Hne.
        destruct (procs s); [simpl in Hne; congruence | simpl; lia]. }
      set (k := pick orc (waits s) mod length (procs s)).
      assert (Hk : k < length (procs s)) by (apply Nat.mod_upper_bound; lia).
      destruct (nth k (procs s) (0, None)) as [o slot] eqn:Enth.
      assert (Hin : In (o, slot) (procs s)) by (rewrite <- Enth; now apply nth_In).
      assert (Hino : In o (infl s)).
      { unfold infl, inflP. apply in_or_app. right. apply in_map_iff. exists (o, slot). auto. }
      set (s0 := reap s k slot).
      assert (Efst : fst (nth k (procs s) (0, None)) = o) by now rewrite Enth.
      assert (Esnd : snd (nth k (procs s) (0, None)) = slot) by now rewrite Enth.
      assert (Hsub : forall x, In x (infl s0) -> In x (infl s)).
      { intros x. unfold s0, infl, inflP. cbn [syncs procs reap]. rewrite !in_app_iff. intros [H|H]; [auto|].
        right. apply in_map_iff in H as ((y & sl) & <- & H). apply remove_nth_In in H.
        apply in_map_iff. exists (y, sl). auto. }
      assert (Hsplit : forall x, In x (infl s) -> x = o \/ In x (infl s0)).
      { intros x. unfold s0, infl, inflP. cbn [syncs procs reap]. rewrite Esy. simpl. intros H.
        destruct (map_fst_In_remove k (procs s) (0, None) x Hk H) as [E|E]; [left; congruence | auto]. }
      assert (HcL : CInv s0 [o]).
      { change (CInvP p (readyS s) (readyP s) (syncs s) (remove_nth k (procs s)) (completed s) (waiting s) [o]).
        eapply CInvP_perm; [exact Hc | | auto | auto].
        intros x. rewrite !count_allqP. rewrite (remove_nth_count fst k (procs s) (0, None) x Hk), Efst.
        cbn [count]. lia. }
      assert (HsL : SInv s0).
      { change (SInvP p orc (syncs s) (remove_nth k (procs s)) (completed s) (ost s)).
        constructor; try apply Hs.
        - intros x Hx. apply (s_infl_deps _ _ _ _ _ _ Hs). now apply Hsub.
        - intros x Hx. apply (s_proc _ _ _ _ _ _ Hs).
          apply in_map_iff in Hx as ((y & sl) & <- & H). apply remove_nth_In in H. apply in_map_iff. exists (y, sl). auto. }
      assert (Hlen0 : S (length (infl s0)) = length (infl s)).
      { unfold s0, infl, inflP. cbn [syncs procs reap]. rewrite !app_length, !map_length.
        pose proof (remove_nth_length k (procs s) Hk). lia. }
      assert (HmL : MInv s0).
      { change (MInvP p jobs (syncs s) (remove_nth k (procs s))
                      (match slot with Some sl => sl :: avail s | None => avail s end) (runpar s)).
        constructor.
        - intros x Hx. apply (m_mode _ _ _ _ _ _ Hm). now apply Hsub.
        - intros x Hx Hnp. exfalso.
          pose proof (m_alone _ _ _ _ _ _ Hm x (Hsub x Hx) Hnp) as H1. fold (infl s) in H1.
          assert (length (infl s0) = 0) by lia.
          apply length_zero_iff_nil in H. change (inflP (syncs s) (remove_nth k (procs s))) with (infl s0) in Hx.
          rewrite H in Hx. destruct Hx.
        - pose proof (m_bound _ _ _ _ _ _ Hm) as Hb. fold (infl s) in Hb.
          change (inflP (syncs s) (remove_nth k (procs s))) with (infl s0). lia.
        - eapply Permutation_trans; [|exact (m_slots _ _ _ _ _ _ Hm)].
          pose proof (remove_nth_slots k (procs s) (0, None) Hk) as Hp. rewrite Esnd in Hp.
          destruct slot as [sl|]; simpl in *.
          + apply Permutation_sym. eapply Permutation_trans; [apply Permutation_app_head; exact Hp|].
            simpl. apply Permutation_sym, Permutation_middle.
          + apply Permutation_app_head. apply Permutation_sym. exact Hp.
        - intros x sl Hx. apply (m_slot_none _ _ _ _ _ _ Hm). now apply remove_nth_In in Hx. }
      assert (HtL : TInv s0 [o]).
      { change (TInvP p (syncs s) (remove_nth k (procs s)) (completed s) (ost s) (trace s) [o]).
        constructor; try apply Ht.
        - intros x sl H. destruct (t_start _ _ _ _ _ _ _ Ht x sl H) as [H1|[H1|[]]]; [|auto].
          destruct (Hsplit x H1) as [->|H2]; [right; right; left; reflexivity | left; exact H2].
        - intros x Hx. apply (t_infl _ _ _ _ _ _ _ Ht). now apply Hsub. }
      destruct (limbo_facts s0 o HcL HsL) as (Hn & Hnc & Hninfl & _ & _ & Hq).
      destruct (limbo_no_done s0 o HcL HsL HtL) as (Hns & Hnl & Hnf).
      destruct (s_proc _ _ _ _ _ _ Hs o) as [Hnsync Hnlf].
      { apply in_map_iff. exists (o, slot). auto. }
      set (rc := rc_of orc o).
      set (st := if N.eqb rc 0 then SUCCEEDED else FAILED).
      assert (Hcomp : let s' := process_finished p (mark s0 o st (EFinish o rc)) o in
                      CInv s' [] /\ SInv s' /\ MInv s' /\ TInv s' []).
      { apply complete_inv; auto.
        - unfold st. destruct (N.eqb rc 0); discriminate.
        - intros _. apply (s_infl_deps _ _ _ _ _ _ Hs o Hino).
        - unfold st. destruct (N.eqb rc 0); discriminate.
        - unfold st. destruct (N.eqb rc 0) eqn:E; [discriminate|]. intros _.
          unfold ExecInv.fails. fold rc. rewrite Hnsync, E. simpl. apply orb_true_r.
        - unfold st. destruct (N.eqb rc 0) eqn:E; [|discriminate]. intros _.
          unfold ExecInv.fails. fold rc. rewrite Hnlf, Hnsync, E. reflexivity.
        - cbn [ExecInv.TraceOK]. split; [apply (t_ok _ _ _ _ _ _ _ Ht)|]. split; [|exact Hnf].
          exact (t_infl _ _ _ _ _ _ _ Ht o Hino).
        - right; right. exists rc. split; [reflexivity|]. unfold st. destruct (N.eqb rc 0) eqn:E.
          + apply N.eqb_eq in E. split; [tauto | discriminate].
          + apply N.eqb_neq in E. split; [split; [contradiction | discriminate] | discriminate]. }
      destruct Hcomp as (Hc' & Hs' & Hm' & Ht').
      fold rc. fold st. 
      destruct (negb (N.eqb rc 0) && stop) eqn:Ens.
      + constructor; auto. apply NInv_set_stopped.
      + constructor; auto.
        eapply NInv_tail; [reflexivity | exact Hnn |].
        intros Hst. rewrite Hst, andb_true_r in Ens. apply negb_false_iff, N.eqb_eq in Ens. exact Ens.
    - (* the synchronous operation finishes *)
      set (s0 := pop_sync s sy).
      assert (Hino : In o (infl s)) by (unfold infl, inflP; rewrite Esy; left; reflexivity).
      assert (Hsub : forall x, In x (infl s0) -> In x (infl s)).
      { intros x. unfold s0, infl, inflP. cbn [syncs procs pop_sync]. rewrite Esy. simpl. auto. }
      assert (HcL : CInv s0 [o]).
      { change (CInvP p (readyS s) (readyP s) sy (procs s) (completed s) (waiting s) [o]).
        unfold ExecInv.CInv in Hc. rewrite Esy in Hc.
        eapply CInvP_perm; [exact Hc | | auto | auto].
        intros x. rewrite !count_allqP. cbn [count]. lia. }
      assert (HsL : SInv s0).
      { change (SInvP p orc sy (procs s) (completed s) (ost s)).
        unfold ExecInv.SInv in Hs. rewrite Esy in Hs.
        constructor; try apply Hs.
        - intros x Hx. apply (s_infl_deps _ _ _ _ _ _ Hs). unfold inflP in *. simpl. auto.
        - intros x Hx. apply (s_sync _ _ _ _ _ _ Hs). right; exact Hx. }
      assert (HmL : MInv s0).
      { change (MInvP p jobs sy (procs s) (avail s) (runpar s)).
        unfold ExecInv.MInv in Hm. rewrite Esy in Hm.
        constructor; try apply Hm.
        - intros x Hx. apply (m_mode _ _ _ _ _ _ Hm). unfold inflP in *. simpl. auto.
        - intros x Hx Hnp. exfalso.
          assert (Hx' : In x (inflP (o :: sy) (procs s))) by (unfold inflP in *; simpl; auto).
          pose proof (m_alone _ _ _ _ _ _ Hm x Hx' Hnp) as H1. unfold inflP in *. simpl in H1.
          destruct (sy ++ map fst (procs s)); [destruct Hx | simpl in H1; lia].
        - pose proof (m_bound _ _ _ _ _ _ Hm) as Hb. unfold inflP in *. simpl in Hb. lia. }
      assert (HtL : TInv s0 [o]).
      { change (TInvP p sy (procs s) (completed s) (ost s) (trace s) [o]).
        unfold ExecInv.TInv in Ht. rewrite Esy in Ht.
        constructor; try apply Ht.
        - intros x sl H. destruct (t_start _ _ _ _ _ _ _ Ht x sl H) as [H1|[H1|[]]]; [|auto].
          unfold inflP in H1. simpl in H1. destruct H1 as [<-|H1]; [right; right; left; reflexivity | left; exact H1].
        - intros x Hx. apply (t_infl _ _ _ _ _ _ _ Ht). unfold inflP in *. simpl. auto. }
      destruct (limbo_facts s0 o HcL HsL) as (Hn & Hnc & Hninfl & _ & _ & Hq).
      destruct (limbo_no_done s0 o HcL HsL HtL) as (Hns & Hnl & Hnf).
      destruct (s_sync _ _ _ _ _ _ Hs o) as [Hsync Hnlf]; [rewrite Esy; left; reflexivity|].
      assert (Hcomp : let s' := process_finished p (mark s0 o SUCCEEDED (EFinish o 0)) o in
                      CInv s' [] /\ SInv s' /\ MInv s' /\ TInv s' []).
      { apply complete_inv; auto; try discriminate.
        - intros _. apply (s_infl_deps _ _ _ _ _ _ Hs o Hino).
        - intros _. unfold ExecInv.fails. rewrite Hnlf, Hsync. reflexivity.
        - cbn [ExecInv.TraceOK]. split; [apply (t_ok _ _ _ _ _ _ _ Ht)|]. split; [|exact Hnf].
          exact (t_infl _ _ _ _ _ _ _ Ht o Hino).
        - right; right. exists 0%N. split; [reflexivity|]. split; [tauto | discriminate]. }
      destruct Hcomp as (Hc' & Hs' & Hm' & Ht').
      constructor; auto.
      eapply NInv_tail; [reflexivity | exact Hnn | intros _; reflexivity].
  Qed.

  (* ---------- the initial state ---------- *)
  Lemma fold_enqueue l : forall s,
    let s' := fold_left (enqueue p) l s in
    readyS s' = readyS s ++ filter (fun d => negb (is_par p d)) l /\
    readyP s' = readyP s ++ filter (is_par p) l /\
    syncs s' = syncs s /\ procs s' = procs s /\ avail s' = avail s /\ runpar s' = runpar s /\
    completed s' = completed s /\ ost s' = ost s /\ waiting s' = waiting s /\ trace s' = trace s /\
    stopped s' = stopped s.
  Proof.
    induction l as [|x l IH]; intros s; cbn [fold_left filter].
    - rewrite !app_nil_r. repeat split; reflexivity.
    - destruct (IH (enqueue p s x)) as (H1 & H2 & H3 & H4 & H5 & H6 & H7 & H8 & H9 & H10 & H11).
      cbv zeta. rewrite H1, H2, H3, H4, H5, H6, H7, H8, H9, H10, H11. unfold enqueue.
      destruct (is_par p x); cbn [negb readyS readyP syncs procs avail runpar completed ost waiting trace stopped];
        rewrite <- ?app_assoc; repeat split; reflexivity.
  Qed.

  Lemma TraceOK_cached l : TraceOK (rev (map ECached l)).
  Proof.
    assert (H : forall tr, (forall e, In e tr -> exists t, e = ECached t) -> TraceOK tr).
    { induction tr as [|e tr IH]; intros Hall; [exact I|]. cbn [ExecInv.TraceOK]. split.
      - apply IH. intros e' He'. apply Hall. right; exact He'.
      - destruct (Hall e (or_introl eq_refl)) as (t & ->). exact I. }
    apply H. intros e He. apply in_rev, in_map_iff in He as (t & <- & _). eauto.
  Qed.

  Lemma cached_only l e : In e (rev (map ECached l)) -> exists t, e = ECached t.
  Proof. intros He. apply in_rev, in_map_iff in He as (t & <- & _). eauto. Qed.

  Lemma init_inv : Inv (xinit p jobs).
  Proof.
    unfold xinit.
    set (s0 := {| readyS := []; readyP := []; syncs := []; procs := []; avail := seq 0 jobs;
                  runpar := false; completed := []; ost := fun _ => QUEUED;
                  waiting := fun o => length (exe_deps p o);
                  dequeued := 0; waits := 0; trace := rev (map ECached (p_cached p)); stopped := false |}).
    destruct (fold_enqueue (p_initial p) s0) as (H1 & H2 & H3 & H4 & H5 & H6 & H7 & H8 & H9 & H10 & H11).
    cbv zeta in *. set (s := fold_left (enqueue p) (p_initial p) s0) in *.
    cbn [readyS readyP syncs procs avail runpar completed ost waiting trace stopped s0 app] in *.
    destruct wf as (Wlt & Wnd & Wind & Wini & Wsy).
    assert (Hunc : forall o, uncP p [] o = length (exe_deps p o)).
    { intros o. unfold uncP. f_equal. induction (exe_deps p o) as [|d l IH]; [reflexivity|]. cbn [filter mem negb]. f_equal. exact IH. }
    constructor.
    - unfold ExecInv.CInv. rewrite H1, H2, H3, H4, H7, H9.
      assert (Hcnt : forall x, count x (allqP (filter (fun d => negb (is_par p d)) (p_initial p)) (filter (is_par p) (p_initial p)) [] [] [] [])
                               = count x (p_initial p)).
      { intros x. rewrite count_allqP. cbn [map count]. pose proof (count_filter_split (is_par p) x (p_initial p)). lia. }
      constructor.
      + apply count_NoDup. intros x. rewrite Hcnt. now apply NoDup_count.
      + intros o Ho. apply count_In in Ho. rewrite Hcnt in Ho. apply count_In, Wini in Ho. apply Ho.
      + intros o Ho. apply filter_In in Ho as [_ Ho]. now apply negb_true_iff in Ho.
      + intros o Ho. now apply filter_In in Ho as [_ Ho].
      + intros o Ho. now rewrite Hunc.
      + intros o Ho. rewrite <- count_In, Hcnt, count_In, Wini, Hunc. rewrite length_zero_iff_nil. tauto.
    - unfold ExecInv.SInv. rewrite H3, H4, H7, H8. constructor.
      + intros o Ho. split; [intros [] | intros H; congruence].
      + intros o Ho [H|H]; discriminate.
      + intros o Ho H; discriminate.
      + intros o [].
      + intros o Ho H; discriminate.
      + intros o Ho H; discriminate.
      + intros o [].
      + intros o [].
    - unfold ExecInv.MInv. rewrite H3, H4, H5, H6. constructor.
      + intros o [].
      + intros o [].
      + simpl. lia.
      + simpl. rewrite app_nil_r. apply Permutation_refl.
      + intros o sl [].
    - unfold ExecInv.TInv. rewrite H3, H4, H7, H8, H10. constructor.
      + apply TraceOK_cached.
      + intros o sl H. apply cached_only in H as (t & H). discriminate.
      + intros o [].
      + intros o [H|[H|(rc & H)]]; apply cached_only in H as (t & H); discriminate.
      + intros; discriminate.
      + intros o rc H. apply cached_only in H as (t & H). discriminate.
      + intros o Ho. split; [discriminate|]. intros H. apply cached_only in H as (t & H). discriminate.
      + intros o [].
    - unfold ExecInv.NInv. rewrite H10, H11. intros _ _ e He. apply cached_only in He as (t & ->). exact I.
  Qed.

  Lemma xstep_inv s s' : Inv s -> xstep p jobs stop orc s = Some s' -> Inv s'.
  Proof.
    intros HI. unfold xstep. destruct (stopped s); [discriminate|].
    destruct (gate_open jobs s) eqn:Eg.
    - intros H; inversion H; subst. now apply launch_one_inv.
    - destruct (Nat.eqb (inflight s) 0) eqn:E0; [discriminate|].
      intros H; inversion H; subst. apply wait_one_inv; [assumption|].
      apply Nat.eqb_neq in E0. rewrite inflight_infl in E0. intros E. rewrite E in E0. simpl in E0. lia.
  Qed.

  Lemma xiter_inv fuel : forall s s',
    Inv s -> xiter p jobs stop orc fuel s = Some s' -> Inv s' /\ xstep p jobs stop orc s' = None.
  Proof.
    induction fuel as [|f IH]; intros s s' HI; cbn [xiter]; [discriminate|].
    destruct (xstep p jobs stop orc s) as [s1|] eqn:E.
    - intros H. eapply IH; [|exact H]. eapply xstep_inv; eauto.
    - intros H; inversion H; subst. auto.
  Qed.
End Steps.
