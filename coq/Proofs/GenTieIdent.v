(* Tie between Model/Ident.v and TaskIdentifier.__repr__ / __eq__ / __hash__ as TRANSLATED from
   conductor/task_identifier.py of the working tree (the gen_ident definitions of Gen/Generated.v). *)
From Coq Require Import List NArith Bool.
From Conductor Require Import Lib.Str Gen.Generated Model.Ident Proofs.SchemaProofs.
Import ListNotations.
Local Open Scope N_scope.

Definition paths_eqb (p q : list str) : bool :=
  (fix go (p q : list str) :=
     match p, q with
     | [], [] => true
     | x :: p', y :: q' => str_eqb x y && go p' q'
     | _, _ => false
     end) p q.

Lemma ident_repr_tie : forall i, ident_repr i = gen_ident_repr (join gen_ident_path_sep (ipath i)) (iname i).
Proof. intro i. reflexivity. Qed.

Lemma ident_eq_tie : forall a b, ident_eqb a b = gen_ident_eq (paths_eqb (ipath a) (ipath b)) (str_eqb (iname a) (iname b)).
Proof. intros a b. unfold ident_eqb, gen_ident_eq, paths_eqb. apply andb_comm. Qed.

(* equal identifiers are one dictionary key: __hash__ is a function [h] of the printed form *)
Lemma eq_implies_same_hash : gen_ident_hash_is_of_repr = true ->
  forall (h : str -> N) a b, ident_eqb a b = true -> h (ident_repr a) = h (ident_repr b).
Proof. intros _ h a b E. apply ident_eqb_spec in E. now subst. Qed.
