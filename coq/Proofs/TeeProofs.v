(* Lemmas behind Props/C10.v: the copy loop of utils/tee.py for every chunking, the two copier
   threads under every schedule, the record type / slot correspondence, and the rule for
   args.json / options.json. *)
From Coq Require Import List NArith Bool Lia Arith.
From Conductor Require Import Model.Tee.
Import ListNotations.
Open Scope N_scope.

Definition nonempty (d : bytes) : Prop := d <> [].

(* the reads of a pipe into which the child wrote concat cs: the chunks, then end of file *)
Definition eof_tail (tail : list bytes) : Prop := tail = [] \/ exists junk, tail = [] :: junk.

Lemma tee_loop_spec cs : forall tail file stream,
  Forall nonempty cs -> eof_tail tail ->
  tee_loop (cs ++ tail) file stream = (file ++ concat cs, stream ++ concat cs).
Proof.
  induction cs as [|d cs IH]; intros tail file stream Hne Ht; simpl.
  - rewrite !app_nil_r. destruct Ht as [->|[junk ->]]; reflexivity.
  - inversion Hne as [|? ? Hd Hcs]; subst. destruct d as [|x d]; [now elim Hd|].
    rewrite IH by assumption. now rewrite <- !app_assoc.
Qed.

Lemma tee_pipe_run_exact b cs tail stream :
  Forall nonempty cs -> concat cs = b -> eof_tail tail ->
  tee_pipe_run (cs ++ tail) stream = (b, stream ++ b).
Proof. intros Hne <- Ht. unfold tee_pipe_run. now rewrite tee_loop_spec. Qed.

(* ---------- the loop as a scheduled thread ---------- *)
Lemma iter_step_comm {A} (f : A -> A) n x : Nat.iter n f (f x) = f (Nat.iter n f x).
Proof. induction n; simpl; congruence. Qed.

Lemma tee_step_done t : tdone t = true -> tee_step t = t.
Proof. unfold tee_step. now intros ->. Qed.

Lemma iter_done n t : tdone t = true -> Nat.iter n tee_step t = t.
Proof. intros H. induction n; simpl; [reflexivity|]. rewrite IHn. now apply tee_step_done. Qed.

Lemma iter_tee cs : forall n tail f s,
  Forall nonempty cs -> eof_tail tail ->
  let t := Nat.iter n tee_step {| reads_left := cs ++ tail; tfile := f; tstream := s; tdone := false |} in
  ((n <= length cs)%nat ->
     tdone t = false /\ tfile t = f ++ concat (firstn n cs) /\ tstream t = s ++ concat (firstn n cs)) /\
  ((n > length cs)%nat ->
     tdone t = true /\ tfile t = f ++ concat cs /\ tstream t = s ++ concat cs).
Proof.
  induction cs as [|d cs IH]; intros n tail f s Hne Ht.
  - destruct n as [|n].
    + simpl. rewrite !app_nil_r. split; [auto | intros H; inversion H].
    + split; [intros H; inversion H|]. intros _.
      change (Nat.iter (S n) tee_step ?x) with (tee_step (Nat.iter n tee_step x)).
      rewrite <- iter_step_comm. simpl app. rewrite !app_nil_r.
      assert (E : exists r, tee_step {| reads_left := tail; tfile := f; tstream := s; tdone := false |}
                    = {| reads_left := r; tfile := f; tstream := s; tdone := true |}).
      { destruct Ht as [->|[junk ->]]; eexists; reflexivity. }
      destruct E as [r ->]. rewrite iter_done by reflexivity. simpl. auto.
  - inversion Hne as [|? ? Hd Hcs]; subst. destruct n as [|n].
    + simpl. rewrite !app_nil_r. split; [auto | intros H; inversion H].
    + change (Nat.iter (S n) tee_step ?x) with (tee_step (Nat.iter n tee_step x)).
      rewrite <- iter_step_comm.
      assert (E : tee_step {| reads_left := (d :: cs) ++ tail; tfile := f; tstream := s; tdone := false |}
                  = {| reads_left := cs ++ tail; tfile := f ++ d; tstream := s ++ d; tdone := false |}).
      { destruct d; [now elim Hd | reflexivity]. }
      rewrite E. destruct (IH n tail (f ++ d) (s ++ d) Hcs Ht) as [H1 H2]. simpl length. split.
      * intros H. destruct H1 as (A & B & C); [lia|]. simpl firstn. simpl concat.
        rewrite !app_assoc. auto.
      * intros H. destruct H2 as (A & B & C); [lia|]. simpl concat. rewrite !app_assoc. auto.
Qed.

Fixpoint count (b : bool) (l : list bool) : nat :=
  match l with [] => O | x :: r => (if Bool.eqb x b then 1 else 0) + count b r end.

(* the two copiers touch disjoint state: a schedule only decides how far each one has got *)
Lemma run_sched_split sched : forall a b,
  run_sched sched a b = (Nat.iter (count true sched) tee_step a, Nat.iter (count false sched) tee_step b).
Proof.
  induction sched as [|[|] s IH]; intros a b; simpl; [reflexivity| |]; rewrite IH; simpl;
    now rewrite iter_step_comm.
Qed.

Lemma interleaved sched cs_out cs_err t_out t_err s_out s_err :
  Forall nonempty cs_out -> Forall nonempty cs_err -> eof_tail t_out -> eof_tail t_err ->
  let r := run_sched sched (tee_start (cs_out ++ t_out) s_out) (tee_start (cs_err ++ t_err) s_err) in
  (* whenever a copier has finished -- which is what OutputHandler.finish() waits for -- its log
     and its stream are exact *)
  (tdone (fst r) = true -> tfile (fst r) = concat cs_out /\ tstream (fst r) = s_out ++ concat cs_out) /\
  (tdone (snd r) = true -> tfile (snd r) = concat cs_err /\ tstream (snd r) = s_err ++ concat cs_err) /\
  (* and each finishes as soon as it has been scheduled once more than it has chunks to copy *)
  ((count true sched > length cs_out)%nat -> tdone (fst r) = true) /\
  ((count false sched > length cs_err)%nat -> tdone (snd r) = true).
Proof.
  intros H1 H2 T1 T2 r. unfold r. rewrite run_sched_split. unfold tee_start. simpl fst. simpl snd.
  destruct (iter_tee cs_out (count true sched) t_out [] s_out H1 T1) as [A1 A2].
  destruct (iter_tee cs_err (count false sched) t_err [] s_err H2 T2) as [B1 B2].
  repeat split.
  - destruct (le_gt_dec (count true sched) (length cs_out)) as [L|G].
    + destruct (A1 L) as (E & _). congruence.
    + destruct (A2 G) as (_ & E & _). exact E.
  - destruct (le_gt_dec (count true sched) (length cs_out)) as [L|G].
    + destruct (A1 L) as (E & _). congruence.
    + destruct (A2 G) as (_ & _ & E). exact E.
  - destruct (le_gt_dec (count false sched) (length cs_err)) as [L|G].
    + destruct (B1 L) as (E & _). congruence.
    + destruct (B2 G) as (_ & E & _). exact E.
  - destruct (le_gt_dec (count false sched) (length cs_err)) as [L|G].
    + destruct (B1 L) as (E & _). congruence.
    + destruct (B2 G) as (_ & _ & E). exact E.
  - intros G. now destruct (A2 G).
  - intros G. now destruct (B2 G).
Qed.

(* ---------- record type, slot, descriptor ---------- *)
Lemma mode_spec slot :
  (record_type_of true slot = Teed <-> slot = None) /\
  (record_type_of true slot = OnlyLogged <-> exists k, slot = Some k) /\
  record_type_of true slot <> NotRecorded /\
  (popen_arg_of (record_type_of true slot) = Pipe <-> slot = None) /\
  (popen_arg_of (record_type_of true slot) = LogFile <-> exists k, slot = Some k).
Proof.
  destruct slot as [k|]; simpl; repeat split; try discriminate; try congruence; eauto;
    try (intros [k' H]; discriminate).
Qed.

Lemma slot_for_spec par slots avail :
  (slot_for par slots avail = None <-> par = false \/ slots <= 1) /\
  (forall k, slot_for par slots avail = Some k -> par = true /\ 1 < slots /\ k = last avail 0).
Proof.
  unfold slot_for. destruct par; simpl.
  - destruct (1 <? slots) eqn:E.
    + apply N.ltb_lt in E. split; [split; [discriminate | intros [H|H]; [discriminate | lia]]|].
      intros k H. inversion H. auto.
    + apply N.ltb_ge in E. split; [split; auto | discriminate].
  - split; [split; auto | discriminate].
Qed.

Lemma deliver_exact slot cs tail c :
  Forall nonempty cs -> eof_tail tail ->
  let c' := deliver (record_type_of true slot) (match slot with None => cs ++ tail | Some _ => cs end) c in
  logfile c' = Some (concat cs) /\
  own c' = match slot with None => own c ++ concat cs | Some _ => own c end.
Proof.
  intros Hne Ht. destruct slot as [k|]; simpl.
  - auto.
  - rewrite (tee_pipe_run_exact (concat cs) cs tail (own c) Hne eq_refl Ht). simpl. auto.
Qed.

(* ---------- args.json / options.json ---------- *)
Lemma finish_spec rc ser ae oe hv :
  exists pre post,
    finish_execution rc ser ae oe hv = [CloseLog; CloseLog] ++ pre ++ post /\
    (forall e, In e pre -> e = WriteArgsJson \/ e = WriteOptionsJson) /\
    (In WriteArgsJson pre <-> ser = true /\ ae = false) /\
    (In WriteOptionsJson pre <-> ser = true /\ oe = false) /\
    (rc <> 0 -> post = [RaiseNonZeroExit]) /\
    (rc = 0 -> post = if hv then [InsertRow; CommitIndex] else []).
Proof.
  unfold finish_execution. eexists. eexists. split; [reflexivity|].
  split; [|split; [|split; [|split]]].
  - destruct ser, ae, oe; simpl; intuition.
  - destruct ser, ae, oe; simpl; intuition (auto; try discriminate; try congruence).
  - destruct ser, ae, oe; simpl; intuition (auto; try discriminate; try congruence).
  - intros H. apply N.eqb_neq in H. now rewrite H.
  - intros ->. reflexivity.
Qed.

Lemma record_rule_spec {A B} (args : list A) (opts : list B) rc :
  record_rule args opts rc =
  (match args with [] => false | _ => true end, match opts with [] => false | _ => true end).
Proof.
  unfold record_rule, finish_execution. destruct (rc =? 0); destruct args, opts; reflexivity.
Qed.

(* ---------- Conductor's own stream stops accepting data ---------- *)
Lemma tee_loop_f_spec cs : forall ok tail file stream,
  Forall nonempty cs -> eof_tail tail ->
  tee_loop_f ok (cs ++ tail) file stream = (file ++ concat cs, stream ++ concat (firstn ok cs)).
Proof.
  induction cs as [|d cs IH]; intros ok tail file stream Hne Ht; simpl.
  - rewrite firstn_nil. simpl. rewrite !app_nil_r. destruct Ht as [->|[junk ->]]; destruct ok; reflexivity.
  - inversion Hne as [|? ? Hd Hcs]; subst. destruct d as [|x d]; [now elim Hd|].
    destruct ok as [|k]; rewrite IH by assumption.
    + cbn [firstn concat]. now rewrite <- !app_assoc, !app_nil_r.
    + cbn [firstn concat]. now rewrite <- !app_assoc.
Qed.

Lemma tee_loop_f_never_fails cs : forall file stream,
  tee_loop_f (length cs) cs file stream = tee_loop cs file stream.
Proof.
  induction cs as [|d cs IH]; intros file stream; [reflexivity|]. cbn [length tee_loop_f tee_loop].
  destruct d; [reflexivity | apply IH].
Qed.

(* interpreting the per-iteration decision (the one translated from utils/tee.py) is the loop the theorems are about *)
Lemma tee_loop_it_is_tee_loop_f reads : forall ok file stream so,
  tee_loop_it ok reads {| ts_file := file; ts_stream := stream; ts_ok := so; ts_broke := false |}
  = tee_loop_f (if so then ok else O) reads file stream.
Proof.
  induction reads as [|data rest IH]; intros ok file stream so; [destruct so; reflexivity|].
  cbn [tee_loop_it tee_loop_f]. destruct data as [|b data].
  - cbn. destruct so; reflexivity.
  - cbn [is_nil tee_iteration ts_ok]. destruct so.
    + destruct ok as [|k]; cbn [Nat.ltb Nat.leb fold_left tee_apply ts_file ts_stream ts_ok ts_broke Nat.pred].
      * rewrite (IH O (file ++ b :: data) stream false). reflexivity.
      * rewrite (IH k (file ++ b :: data) (stream ++ b :: data) true). reflexivity.
    + cbn [fold_left tee_apply ts_file ts_stream ts_ok ts_broke].
      rewrite (IH ok (file ++ b :: data) stream false). reflexivity.
Qed.
