(* Tie between Model/Cwd.v where_answer and conductor.lib.where as TRANSLATED from lib/path.py of the working tree. *)
From Coq Require Import List Arith NArith Bool.
From Conductor Require Import Lib.Str Lib.Path Gen.Generated Model.Cwd.
Import ListNotations.

(* lib/path.py:where is the function TRANSLATED from the working tree: the same decision (nothing / relative to the project
   root / absolute) on every answer of the file system, taken with a context built inside the call *)
Lemma where_tie : forall ex root out nok rel,
  Gen.Generated.gen_where_context_is_fresh_per_call = true /\
  where_answer ex root out nok rel =
  match Gen.Generated.gen_where_decision (match out with None => true | Some _ => false end)
                                         (match out with Some o => ex o | None => false end) nok rel, out with
  | 1%N, Some o => match relative_to root o with Some r => Some (ShRel r) | None => None end
  | 2%N, Some o => Some (ShAbs o)
  | _, _ => None
  end.
Proof.
  intros ex root out nok rel. split; [reflexivity|].
  unfold where_answer, where_render, Gen.Generated.gen_where_decision.
  destruct out as [o|]; [|reflexivity]. cbn [orb].
  destruct (ex o), nok, rel; reflexivity.
Qed.

(* a location is reported only if it exists, unless -f / non_existent_ok was given; with -p it is below the root *)
Lemma where_reports_existing : forall ex root out rel s,
  where_answer ex root out false rel = Some s -> exists o, out = Some o /\ ex o = true.
Proof.
  intros ex root out rel s H. unfold where_answer in H. destruct out as [o|]; [|discriminate H].
  exists o. split; [reflexivity|]. destruct (ex o); [reflexivity|discriminate H].
Qed.
