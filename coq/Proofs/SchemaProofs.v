(* Lemmas behind Props/C15.v (and the facts about the shim that Proofs/GroupProofs.v uses).
   Facts that depend on the generated table are proved inside Section WithTable under
   decidable hypotheses which Props/C15.v discharges by computation against Gen/Generated.v. *)
From Coq Require Import List NArith ZArith Bool Lia.
From Conductor Require Import Lib.Regex Lib.RegexBisim Lib.PyRegex Lib.Str Lib.SchemaTypes
  Gen.Generated Model.Ident Model.Schema Proofs.IdentSpec Proofs.IdentProofs Proofs.SchemaSpec.
Import ListNotations.
Open Scope N_scope.

(* ---------- results ---------- *)
Lemma bind_ok {A B} (r : result A) (f : A -> result B) b :
  bind r f = Ok b <-> exists a, r = Ok a /\ f a = Ok b.
Proof.
  destruct r; simpl; split.
  - eauto.
  - intros (a0 & H & H'). inversion H; subst. assumption.
  - discriminate.
  - intros (a0 & H & _). discriminate.
Qed.

Lemma is_ok_true {A} (r : result A) : is_ok r = true <-> exists a, r = Ok a.
Proof. destruct r; simpl; split; eauto; try discriminate. intros [a0 H]; discriminate. Qed.

Lemma is_ok_false {A} (r : result A) : is_ok r = false <-> exists e, r = Err e.
Proof. destruct r; simpl; split; eauto; try discriminate. intros [a0 H]; discriminate. Qed.

(* ---------- dicts ---------- *)
Lemma str_eqb_sym a b : str_eqb a b = str_eqb b a.
Proof.
  destruct (str_eqb a b) eqn:E.
  - apply str_eqb_spec in E; subst. symmetry. apply str_eqb_refl.
  - symmetry. apply str_eqb_false. apply str_eqb_false in E. congruence.
Qed.

Lemma mem_str_In k l : mem_str k l = true <-> In k l.
Proof.
  unfold mem_str. rewrite existsb_exists. split.
  - intros (x & Hx & E). apply str_eqb_spec in E. subst. assumption.
  - intros H. exists k. split; [assumption | apply str_eqb_refl].
Qed.

Lemma mem_str_false k l : mem_str k l = false <-> ~ In k l.
Proof.
  rewrite <- mem_str_In. destruct (mem_str k l); split; congruence.
Qed.

Lemma lookup_In k v d : lookup k d = Some v -> In (k, v) d.
Proof.
  induction d as [|[k' v'] d IH]; simpl; [discriminate|].
  destruct (str_eqb k k') eqn:E.
  - apply str_eqb_spec in E. intros H; inversion H; subst. auto.
  - auto.
Qed.

Lemma lookup_None k d : lookup k d = None <-> ~ In k (map fst d).
Proof.
  induction d as [|[k' v'] d IH]; simpl; [tauto|].
  destruct (str_eqb k k') eqn:E.
  - apply str_eqb_spec in E. subst. split; [discriminate | tauto].
  - apply str_eqb_false in E. rewrite IH. split; [intros H [H'|H']; [congruence | tauto] | tauto].
Qed.

Lemma lookup_app k a b :
  lookup k (a ++ b) = match lookup k a with Some v => Some v | None => lookup k b end.
Proof.
  induction a as [|[k' v'] a IH]; simpl; [reflexivity|].
  destruct (str_eqb k k'); auto.
Qed.

Lemma lookup_update k k' v d :
  lookup k (update k' v d) = if str_eqb k k' then Some v else lookup k d.
Proof.
  induction d as [|[k0 v0] d IH]; simpl.
  - reflexivity.
  - destruct (str_eqb k' k0) eqn:E0; simpl.
    + apply str_eqb_spec in E0. subst k0. destruct (str_eqb k k'); reflexivity.
    + rewrite IH. destruct (str_eqb k k0) eqn:E1; [|reflexivity].
      destruct (str_eqb k k') eqn:E2; [|reflexivity].
      apply str_eqb_spec in E1, E2. subst. rewrite str_eqb_refl in E0. discriminate.
Qed.

(* {**a, **b}: the last binding of a key in b wins, then a *)
Lemma lookup_merge k a b :
  lookup k (dict_merge a b) =
  match lookup k (rev b) with Some v => Some v | None => lookup k a end.
Proof.
  unfold dict_merge. revert a. induction b as [|[k1 v1] b IH]; intros a; simpl.
  - reflexivity.
  - rewrite IH, lookup_app, lookup_update. simpl.
    destruct (lookup k (rev b)); [reflexivity|]. destruct (str_eqb k k1); reflexivity.
Qed.

Lemma update_keys k v d :
  forall x, In x (map fst (update k v d)) <-> x = k \/ In x (map fst d).
Proof.
  induction d as [|[k0 v0] d IH]; intros x; simpl.
  - intuition.
  - destruct (str_eqb k k0) eqn:E; simpl.
    + apply str_eqb_spec in E. subst. intuition.
    + rewrite IH. intuition.
Qed.

Lemma merge_keys a b :
  forall x, In x (map fst (dict_merge a b)) <-> In x (map fst a) \/ In x (map fst b).
Proof.
  unfold dict_merge. revert a. induction b as [|[k1 v1] b IH]; intros a x; simpl.
  - tauto.
  - rewrite IH, update_keys. intuition.
Qed.

(* ---------- validate ---------- *)
Lemma inst_base_true v t : inst_base v t = Some true <-> base_type v t.
Proof. destruct t, v; simpl; split; intros H; try discriminate; try tauto; reflexivity. Qed.

Lemma all_inst_true l t : all_inst l t = Some true <-> Forall (fun x => base_type x t) l.
Proof.
  induction l as [|x l IH]; simpl.
  - split; auto.
  - destruct (inst_base x t) as [[|]|] eqn:E.
    + rewrite IH. apply inst_base_true in E. split; [intros H; constructor; assumption|].
      intros H; inversion H; assumption.
    + split; [discriminate|]. intros H; inversion H; subst.
      apply inst_base_true in H2. congruence.
    + split; [discriminate|]. intros H; inversion H; subst.
      apply inst_base_true in H2. congruence.
Qed.

Lemma check_param_ok p t v : check_param p t v = Ok tt <-> has_type v t.
Proof.
  destruct t; simpl.
  1-4: (destruct v; simpl; split; intros H; try discriminate; try tauto; reflexivity).
  - (* TListOf *)
    destruct v; try (split; [discriminate | intros (l0 & H & _); discriminate]).
    destruct (all_inst l t) as [[|]|] eqn:E.
    + apply all_inst_true in E. split; [eauto | reflexivity].
    + split; [discriminate|]. intros (l0 & H & HF). inversion H; subst.
      apply all_inst_true in HF. congruence.
    + split; [discriminate|]. intros (l0 & H & HF). inversion H; subst.
      apply all_inst_true in HF. congruence.
  - (* TOpt *)
    destruct v; try (split; [auto | reflexivity]);
    (destruct (inst_base _ t) as [[|]|] eqn:E;
     [ apply inst_base_true in E; split; [auto | reflexivity]
     | split; [discriminate | intros [H|H]; [discriminate | apply inst_base_true in H; congruence]]
     | split; [discriminate | intros [H|H]; [discriminate | apply inst_base_true in H; congruence]] ]).
Qed.

Lemma validate_params_ok schema args :
  validate_params schema args = Ok tt <->
  forall p t, In (p, t) schema ->
    match lookup p args with
    | None => is_optional t = true
    | Some v => has_type v t
    end.
Proof.
  induction schema as [|[p t] schema IH]; simpl.
  - split; [intros _ ? ? [] | reflexivity].
  - destruct (lookup p args) as [v|] eqn:El.
    + destruct (check_param p t v) as [[]|e] eqn:Ec; simpl.
      * apply check_param_ok in Ec. rewrite IH. split.
        -- intros H q u [E|Hin]; [inversion E; subst; rewrite El; assumption | apply H; assumption].
        -- intros H q u Hin. apply H. auto.
      * split; [discriminate|]. intros H. specialize (H p t (or_introl eq_refl)).
        rewrite El in H. apply (proj2 (check_param_ok p t v)) in H. congruence.
    + destruct (is_optional t) eqn:Eo.
      * rewrite IH. split.
        -- intros H q u [E|Hin]; [inversion E; subst; rewrite El; assumption | apply H; assumption].
        -- intros H q u Hin. apply H. auto.
      * split; [discriminate|]. intros H. specialize (H p t (or_introl eq_refl)).
        rewrite El in H. congruence.
Qed.

Lemma extraneous_false schema args :
  extraneous schema args = false <-> forall k v, In (k, v) args -> In k (map fst schema).
Proof.
  unfold extraneous. split.
  - intros H k v Hin. destruct (mem_str k (map fst schema)) eqn:E; [now apply mem_str_In|].
    assert (existsb (fun kv => negb (mem_str (fst kv) (map fst schema))) args = true).
    { apply existsb_exists. exists (k, v). simpl. rewrite E. auto. }
    congruence.
  - intros H. destruct (existsb _ args) eqn:E; [|reflexivity].
    apply existsb_exists in E as ([k v] & Hin & Hn). simpl in Hn.
    apply H in Hin. apply mem_str_In in Hin. rewrite Hin in Hn. discriminate.
Qed.

(* for ANY schema: validate accepts exactly the argument sets that satisfy it *)
Lemma validate_generic schema args : validate schema args = Ok tt <-> SchemaOk schema args.
Proof.
  unfold validate, SchemaOk. split.
  - intros H. apply bind_ok in H as ([] & Hp & He).
    destruct (extraneous schema args) eqn:Ex; [discriminate|].
    rewrite validate_params_ok in Hp. pose proof (proj1 (extraneous_false _ _) Ex) as Ex'.
    split; [|split; [|exact Ex']].
    + intros p t Hin Ho Hl. specialize (Hp p t Hin). rewrite Hl in Hp. congruence.
    + intros p t v Hin Hl. specialize (Hp p t Hin). rewrite Hl in Hp. assumption.
  - intros (H1 & H2 & H3).
    assert (Hp : validate_params schema args = Ok tt).
    { apply validate_params_ok. intros p t Hin. destruct (lookup p args) as [v|] eqn:El.
      - eauto.
      - destruct (is_optional t) eqn:Eo; [reflexivity|]. exfalso. eapply H1; eauto. }
    rewrite Hp. simpl. rewrite (proj2 (extraneous_false _ _) H3). reflexivity.
Qed.

(* validate never "half accepts": its only successful result is Ok tt *)
Lemma validate_ok_tt schema args u : validate schema args = Ok u -> validate schema args = Ok tt.
Proof. destruct u. auto. Qed.

(* ---------- lists without repetition, as the loops build them ---------- *)
Fixpoint distinct_from {A} (seen l : list A) : Prop :=
  match l with
  | [] => True
  | x :: l' => ~ In x seen /\ distinct_from (seen ++ [x]) l'
  end.

Lemma distinct_from_spec {A} (l : list A) : forall seen,
  distinct_from seen l <-> NoDup l /\ forall x, In x l -> ~ In x seen.
Proof.
  induction l as [|a l IH]; intros seen; simpl.
  - split; [intros _; split; [constructor | intros ? []] | auto].
  - rewrite IH. split.
    + intros (Ha & Hnd & Hall). split.
      * constructor; [|assumption]. intros Hin. apply (Hall a Hin). apply in_or_app. right. left. reflexivity.
      * intros x [<-|Hin]; [assumption|]. intros Hs. apply (Hall x Hin). apply in_or_app. left. assumption.
    + intros (Hnd & Hall). inversion Hnd; subst. split; [apply Hall; auto|]. split; [assumption|].
      intros x Hin Hs. apply in_app_or in Hs as [Hs|[<-|[]]].
      * apply (Hall x); auto.
      * contradiction.
Qed.

Lemma distinct_from_nil {A} (l : list A) : distinct_from [] l <-> NoDup l.
Proof. rewrite distinct_from_spec. split; [tauto | intros H; split; [assumption | intros ? _ []]]. Qed.

(* ---------- identifiers ---------- *)
Lemma strs_eqb_spec (p q : list str) :
  (fix go (p q : list str) :=
     match p, q with
     | [], [] => true
     | x :: p', y :: q' => str_eqb x y && go p' q'
     | _, _ => false
     end) p q = true <-> p = q.
Proof.
  revert q. induction p as [|x p IH]; destruct q as [|y q]; split; try congruence; try discriminate.
  - intros H. apply andb_true_iff in H as [H1 H2]. apply str_eqb_spec in H1. apply IH in H2. congruence.
  - intros H. inversion H; subst. apply andb_true_iff. split; [apply str_eqb_refl | now apply IH].
Qed.

Lemma ident_eqb_spec a b : ident_eqb a b = true <-> a = b.
Proof.
  unfold ident_eqb. rewrite andb_true_iff, str_eqb_spec, strs_eqb_spec.
  destruct a, b; simpl. split; [intros [-> ->]; reflexivity | intros H; inversion H; auto].
Qed.

Lemma existsb_ident i acc : existsb (ident_eqb i) acc = true <-> In i acc.
Proof.
  rewrite existsb_exists. split.
  - intros (x & Hx & E). apply ident_eqb_spec in E. subst. assumption.
  - intros H. exists i. split; [assumption | now apply ident_eqb_spec].
Qed.

Lemma lookup_remove k k' d :
  lookup k (remove_key k' d) = if str_eqb k k' then None else lookup k d.
Proof.
  induction d as [|[k0 v0] d IH]; simpl.
  - destruct (str_eqb k k'); reflexivity.
  - destruct (str_eqb k' k0) eqn:E0.
    + rewrite IH. apply str_eqb_spec in E0. subst k0. destruct (str_eqb k k'); reflexivity.
    + simpl. rewrite IH. destruct (str_eqb k k0) eqn:E1; [|reflexivity].
      destruct (str_eqb k k') eqn:E2; [|reflexivity].
      apply str_eqb_spec in E1, E2. subst. rewrite str_eqb_refl in E0. discriminate.
Qed.

(* ---------- args / options / combine ---------- *)
Lemma primitive_spec v : primitive v = true <-> Primitive v.
Proof. destruct v; simpl; split; intros H; try discriminate; try tauto; reflexivity. Qed.

Lemma run_arguments_ok v : run_arguments_from_raw v = Ok tt <-> DocArgs v.
Proof.
  unfold DocArgs. destruct v; simpl; try (split; [discriminate | intros (l0 & H & _); discriminate]).
  destruct (forallb primitive l) eqn:E.
  - rewrite forallb_forall in E. split; [|reflexivity]. intros _. exists l. split; [reflexivity|].
    apply Forall_forall. intros x Hx. apply primitive_spec. auto.
  - split; [discriminate|]. intros (l0 & H & HF). inversion H; subst.
    assert (forallb primitive l0 = true).
    { apply forallb_forall. intros x Hx. apply primitive_spec. rewrite Forall_forall in HF. auto. }
    congruence.
Qed.

Lemma options_loop_ok kv :
  options_loop kv = Ok tt <->
  Forall (fun p => (exists k, fst p = VStr k) /\ Primitive (snd p)) kv.
Proof.
  induction kv as [|[k v] kv IH]; simpl.
  - split; auto.
  - destruct k; try (split; [discriminate | intros H; inversion H as [|? ? [[k0 Hk] _] _]; subst; discriminate]).
    destruct (primitive v) eqn:E.
    + rewrite IH. apply primitive_spec in E. split.
      * intros H. constructor; [split; [eexists; reflexivity | assumption] | assumption].
      * intros H. inversion H; assumption.
    + split; [discriminate|]. intros H. inversion H as [|? ? [_ Hp] _]; subst. simpl in Hp.
      apply primitive_spec in Hp. congruence.
Qed.

Lemma run_options_ok v : run_options_from_raw v = Ok tt <-> DocOptions v.
Proof.
  unfold DocOptions. destruct v; simpl; try (split; [discriminate | intros (l0 & H & _); discriminate]).
  rewrite options_loop_ok. split; [eauto|]. intros (kv0 & H & HF). inversion H; subst. assumption.
Qed.

Lemma combine_names_ok deps : forall seen,
  combine_names deps seen = Ok tt <-> distinct_from seen (map iname deps).
Proof.
  induction deps as [|d deps IH]; intros seen; simpl.
  - split; auto.
  - destruct (mem_str (iname d) seen) eqn:E.
    + apply mem_str_In in E. split; [discriminate | tauto].
    + apply mem_str_false in E. rewrite IH. tauto.
Qed.

Lemma find_row_some table c r : find_row table c = Some r -> tt_name r = c /\ In r table.
Proof.
  induction table as [|r0 table IH]; simpl; [discriminate|].
  destruct (str_eqb c (tt_name r0)) eqn:E.
  - intros H; inversion H; subst. apply str_eqb_spec in E. auto.
  - intros H. apply IH in H. tauto.
Qed.

Lemma find_row_none table c : ~ In c (map tt_name table) -> find_row table c = None.
Proof.
  induction table as [|r0 table IH]; simpl; [reflexivity|]. intros H.
  destruct (str_eqb c (tt_name r0)) eqn:E.
  - apply str_eqb_spec in E. subst. tauto.
  - apply IH. tauto.
Qed.

Lemma find_task_some t ts r : find_task t ts = Some r -> In r ts /\ rt_name r = t.
Proof.
  induction ts as [|r0 ts IH]; simpl; [discriminate|].
  destruct (str_eqb t (rt_name r0)) eqn:E.
  - intros H; inversion H; subst. apply str_eqb_spec in E. auto.
  - intros H. apply IH in H. tauto.
Qed.

Lemma find_task_nodup t ts r :
  NoDup (map rt_name ts) -> In r ts -> rt_name r = t -> find_task t ts = Some r.
Proof.
  induction ts as [|r0 ts IH]; simpl; [tauto|]. intros Hnd Hin Hn. inversion Hnd; subst.
  destruct (str_eqb (rt_name r) (rt_name r0)) eqn:E.
  - destruct Hin as [->|Hin]; [reflexivity|]. apply str_eqb_spec in E.
    exfalso. apply H1. rewrite <- E. now apply in_map.
  - destruct Hin as [->|Hin]; [rewrite str_eqb_refl in E; discriminate | auto].
Qed.

Lemma Forall2_In_r {A B} (P : A -> B -> Prop) l1 l2 y :
  Forall2 P l1 l2 -> In y l2 -> exists x, In x l1 /\ P x y.
Proof.
  induction 1 as [|a b l1 l2 Hab _ IH]; simpl; [tauto|].
  intros [<-|Hin]; [eauto|]. destruct (IH Hin) as (x & Hx & Hp). eauto.
Qed.

(* ---------- class constructors ---------- *)
Lemma construct_run full deps fields vr a o vp :
  full = C_RunCommand \/ full = C_RunExperiment ->
  lookup K_run fields = Some vr -> lookup K_args fields = Some a ->
  lookup K_options fields = Some o -> lookup K_parallelizable fields = Some vp ->
  (construct full deps fields = Ok tt <-> DocArgs a /\ DocOptions o).
Proof.
  intros Hf Hr Ha Ho Hp. unfold construct.
  assert (E : str_eqb full C_RunCommand || str_eqb full C_RunExperiment = true).
  { destruct Hf as [->| ->]; rewrite str_eqb_refl; [reflexivity | apply orb_true_r]. }
  rewrite E, Hr, Ha, Ho, Hp. rewrite bind_ok. split.
  - intros ([] & H1 & H2). apply run_arguments_ok in H1. apply run_options_ok in H2. auto.
  - intros [H1 H2]. exists tt. split; [now apply run_arguments_ok | now apply run_options_ok].
Qed.

Lemma construct_combine deps fields :
  construct C_Combine deps fields = Ok tt <-> NoDup (map iname deps).
Proof.
  unfold construct.
  assert (E1 : str_eqb C_Combine C_RunCommand || str_eqb C_Combine C_RunExperiment = false) by reflexivity.
  rewrite E1, str_eqb_refl. rewrite combine_names_ok. apply distinct_from_nil.
Qed.

Lemma construct_group deps fields : construct C_Group deps fields = Ok tt.
Proof. reflexivity. Qed.

Lemma schema_lookup schema args p t :
  SchemaOk schema args -> In (p, t) schema -> is_optional t = false ->
  exists v, lookup p args = Some v /\ has_type v t.
Proof.
  intros (H1 & H2 & _) Hin Ho. destruct (lookup p args) as [v|] eqn:El.
  - eauto.
  - exfalso. eapply H1; eauto.
Qed.

Lemma materialize_core dir r l t :
  lookup K_deps (rt_args r) = Some (VList l) ->
  (materialize dir r = Ok t <->
   exists ids, resolve_deps dir l [] = Ok ids /\
     construct (rt_full r) ids (remove_key K_name (remove_key K_deps (rt_args r))) = Ok tt /\
     t = {| tk_ident := {| ipath := dir; iname := rt_name r |};
            tk_type := rt_full r;
            tk_deps := ids;
            tk_fields := remove_key K_name (remove_key K_deps (rt_args r)) |}).
Proof.
  intros Hl. unfold materialize. rewrite Hl. rewrite bind_ok. split.
  - intros (ids & Hr & H). apply bind_ok in H as ([] & Hc & H). inversion H; subst. eauto.
  - intros (ids & Hr & Hc & ->). exists ids. split; [assumption|]. rewrite Hc. reflexivity.
Qed.

Section WithTable.
  Hypothesis Hname : tie_ok name_regex doc_name_re = true.
  Hypothesis Hident : tie_ok task_identifier_regex doc_ident_re = true.
  Hypothesis Hrel : tie_ok relative_task_identifier_regex doc_rel_re = true.
  Hypothesis H_rc : find_row task_type_table C_run_command = Some row_run_command.
  Hypothesis H_re : find_row task_type_table C_run_experiment = Some row_run_experiment.
  Hypothesis H_gr : find_row task_type_table C_group = Some row_group.
  Hypothesis H_co : find_row task_type_table C_combine = Some row_combine.
  Hypothesis H_names :
    map tt_name task_type_table = [C_run_command; C_run_experiment; C_group; C_combine; C_environment].

  Lemma find_row_doc row : In row doc_rows -> find_row task_type_table (tt_name row) = Some row.
  Proof. intros [<-|[<-|[<-|[<-|[]]]]]; assumption. Qed.

  Lemma find_row_documented c row :
    find_row task_type_table c = Some row -> c <> C_environment -> In row doc_rows /\ tt_name row = c.
  Proof.
    intros H Hne. pose proof (find_row_some _ _ _ H) as [Hn Hin].
    assert (Hc : In c (map tt_name task_type_table)) by (rewrite <- Hn; apply in_map; exact Hin).
    rewrite H_names in Hc. split; [|assumption].
    destruct Hc as [<-|[<-|[<-|[<-|[<-|[]]]]]].
    - rewrite H_rc in H. inversion H. simpl. auto.
    - rewrite H_re in H. inversion H. simpl. auto.
    - rewrite H_gr in H. inversion H. simpl. auto.
    - rewrite H_co in H. inversion H. simpl. auto 6.
    - congruence.
  Qed.

  Lemma find_row_unknown c :
    ~ In c [C_run_command; C_run_experiment; C_group; C_combine; C_environment] ->
    find_row task_type_table c = None.
  Proof. intros H. apply find_row_none. rewrite H_names. exact H. Qed.

  Lemma doc_row_has_name row : In row doc_rows -> In (K_name, TStr) (tt_schema row).
  Proof. intros [<-|[<-|[<-|[<-|[]]]]]; simpl; auto. Qed.

  (* ----- load_from_cond_file ----- *)
  Lemma load_spec row kwargs r :
    In row doc_rows ->
    (load_from_cond_file row kwargs = Ok r <->
     exists s, SchemaOk (tt_schema row) (dict_merge (defaults_of row) kwargs) /\
               lookup K_name (dict_merge (defaults_of row) kwargs) = Some (VStr s) /\ DocName s /\
               r = {| rt_name := s; rt_full := tt_full row;
                      rt_args := dict_merge (defaults_of row) kwargs |}).
  Proof.
    intros Hrow. unfold load_from_cond_file.
    set (args := dict_merge (defaults_of row) kwargs). split.
    - intros H. apply bind_ok in H as ([] & Hv & H). apply validate_generic in Hv.
      destruct (lookup K_name args) as [[s| | | | | | | |]|] eqn:El; try discriminate H.
      destruct (is_name_valid s) eqn:En; [|discriminate H]. inversion H; subst.
      apply (name_valid_spec Hname) in En. exists s. auto.
    - intros (s & Hs & El & Hn & ->). apply (proj2 (validate_generic _ _)) in Hs. rewrite Hs. simpl.
      rewrite El. apply (name_valid_spec Hname) in Hn. rewrite Hn. reflexivity.
  Qed.

  (* a name that passed the schema is a string *)
  Lemma schema_name_str row args :
    In row doc_rows -> SchemaOk (tt_schema row) args -> exists s, lookup K_name args = Some (VStr s).
  Proof.
    intros Hrow (H1 & H2 & _). pose proof (doc_row_has_name row Hrow) as Hin.
    destruct (lookup K_name args) as [v|] eqn:El.
    - specialize (H2 _ _ _ Hin El). simpl in H2. destruct v; try contradiction. eauto.
    - exfalso. apply (H1 _ _ Hin eq_refl El).
  Qed.

  (* ----- the shim ----- *)
  Lemma shim_spec c ts ts' :
    fst c <> C_environment ->
    (shim c ts = Ok ts' <->
     exists r, DocDef c r /\ ~ In (rt_name r) (map rt_name ts) /\ ts' = ts ++ [r]).
  Proof.
    intros Hne. unfold shim. split.
    - destruct (find_row task_type_table (fst c)) as [row|] eqn:Ef; [|intros H; discriminate H].
      destruct (find_row_documented _ _ Ef Hne) as [Hrow Hn].
      intros H. apply bind_ok in H as (r & Hl & H).
      apply (load_spec row (snd c) r Hrow) in Hl as (s & Hs & El & Hd & ->).
      unfold name_taken in H. simpl in H.
      destruct (mem_str s (map rt_name ts)) eqn:Em; [discriminate H|]. inversion H; subst.
      apply mem_str_false in Em.
      exists {| rt_name := s; rt_full := tt_full row; rt_args := dict_merge (defaults_of row) (snd c) |}.
      split; [|split; [exact Em | reflexivity]].
      exists row, s. unfold call_args. auto 8.
    - intros (r & (row & s & Hrow & Hc & Hs & El & Hd & ->) & Hfresh & ->).
      rewrite Hc, (find_row_doc row Hrow).
      assert (Hl : load_from_cond_file row (snd c) =
                   Ok {| rt_name := s; rt_full := tt_full row; rt_args := call_args row c |}).
      { apply (load_spec row (snd c) _ Hrow). exists s. unfold call_args in *. auto. }
      rewrite Hl. simpl. unfold name_taken. simpl in *.
      apply mem_str_false in Hfresh. rewrite Hfresh. reflexivity.
  Qed.

  Lemma run_calls_shim_spec cs : forall ts0 ts,
    Forall (fun c => fst c <> C_environment) cs ->
    (run_calls shim cs ts0 = Ok ts <->
     exists rs, Forall2 DocDef cs rs /\ ts = ts0 ++ rs /\
                distinct_from (map rt_name ts0) (map rt_name rs)).
  Proof.
    induction cs as [|c cs IH]; intros ts0 ts Hall; simpl.
    - split.
      + intros H; inversion H; subst. exists []. rewrite app_nil_r. simpl. auto.
      + intros (rs & HF & -> & _). inversion HF; subst. rewrite app_nil_r; reflexivity.
    - inversion Hall as [|? ? Hc Hall']; subst. rewrite bind_ok. split.
      + intros (ts1 & Hs & Hr). apply (shim_spec c ts0 ts1 Hc) in Hs as (r & Hd & Hf & ->).
        apply (IH _ _ Hall') in Hr as (rs & HF & -> & Hdis).
        exists (r :: rs). split; [constructor; assumption|]. split; [rewrite <- app_assoc; reflexivity|].
        simpl. split; [assumption|]. rewrite map_app in Hdis. exact Hdis.
      + intros (rs & HF & -> & Hdis). inversion HF as [|? r ? rs' Hd HF']; subst.
        simpl in Hdis. destruct Hdis as [Hf Hdis].
        exists (ts0 ++ [r]). split.
        * apply (shim_spec c ts0 _ Hc). eauto.
        * apply (IH _ _ Hall'). exists rs'. split; [assumption|]. split; [rewrite <- app_assoc; reflexivity|].
          rewrite map_app. exact Hdis.
  Qed.

  Lemma parse_calls_spec cs ts :
    Forall (fun c => fst c <> C_environment) cs ->
    (parse_calls cs = Ok ts <-> DocFile cs ts).
  Proof.
    intros Hall. unfold parse_calls, DocFile. rewrite (run_calls_shim_spec cs [] ts Hall). simpl. split.
    - intros (rs & HF & -> & Hd). apply distinct_from_nil in Hd. auto.
    - intros (HF & Hd). exists ts. apply distinct_from_nil in Hd. auto.
  Qed.

  (* ----- dependencies ----- *)
  Lemma resolve_dep_spec dir s i : resolve_dep dir s = Some i <-> DocResolves dir s i.
  Proof.
    unfold resolve_dep, DocResolves, is_relative_candidate. split.
    - destruct (starts_with [COLON] s) eqn:E.
      + intros H. left. apply (from_relative_spec Hrel) in H. exact H.
      + intros H. right.
        assert (Hacc : DocIdent s /\ (true = true -> starts_with [SLASH; SLASH] s = true))
          by (apply (from_str_accepts Hident true s); eauto).
        destruct Hacc as [(pfx & segs & last & name & Hs & Hl & Hn & ->) Hpre].
        specialize (Hpre eq_refl). rewrite (starts_with_assemble pfx segs last name Hs Hl) in Hpre. subst pfx.
        rewrite (from_str_assemble Hident true true segs last name Hs Hl Hn) in H. simpl in H.
        inversion H; subst. exists segs, last, name. auto 6.
    - intros [(n & -> & Hn & ->)|(segs & last & name & Hs & Hl & Hn & -> & ->)].
      + assert (E : starts_with [COLON] (COLON :: n) = true) by reflexivity.
        rewrite E. apply (from_relative_spec Hrel). eauto.
      + assert (E : starts_with [COLON] (assemble true segs last name) = false) by reflexivity.
        rewrite E. rewrite (from_str_assemble Hident true true segs last name Hs Hl Hn). reflexivity.
  Qed.

  Lemma resolve_deps_spec dir l : forall acc ids,
    resolve_deps dir l acc = Ok ids <->
    exists new, ids = acc ++ new /\
      Forall2 (fun x i => exists s, x = VStr s /\ DocResolves dir s i) l new /\
      distinct_from acc new.
  Proof.
    induction l as [|x l IH]; intros acc ids; simpl.
    - split.
      + intros H; inversion H; subst. exists []. rewrite app_nil_r. simpl. auto.
      + intros (new & -> & HF & _). inversion HF; subst. rewrite app_nil_r; reflexivity.
    - destruct x as [s| | | | | | | |];
        try (split; [intros H0; discriminate H0 | intros (new & _ & HF & _); inversion HF as [|? ? ? ? (s0 & E & _)]; discriminate E]).
      destruct (resolve_dep dir s) as [i|] eqn:Er.
      + apply resolve_dep_spec in Er. destruct (existsb (ident_eqb i) acc) eqn:Ee.
        * apply existsb_ident in Ee. split; [intros H0; discriminate H0|].
          intros (new & _ & HF & Hd). inversion HF as [|? i' ? new' (s0 & E & Hres) HF']; subst.
          inversion E; subst s0. apply resolve_dep_spec in Hres, Er.
          assert (i' = i) by congruence. subst. simpl in Hd. tauto.
        * assert (Hni : ~ In i acc) by (rewrite <- existsb_ident; congruence).
          rewrite IH. split.
          -- intros (new & -> & HF & Hd). exists (i :: new). split; [rewrite <- app_assoc; reflexivity|].
             split; [constructor; eauto|]. simpl. auto.
          -- intros (new & -> & HF & Hd). inversion HF as [|? i' ? new' (s0 & E & Hres) HF']; subst.
             inversion E; subst s0. apply resolve_dep_spec in Hres, Er.
             assert (i' = i) by congruence. subst. simpl in Hd.
             exists new'. split; [rewrite <- app_assoc; reflexivity|]. tauto.
      + split; [intros H0; discriminate H0|].
        intros (new & _ & HF & _). inversion HF as [|? i' ? new' (s0 & E & Hres) HF']; subst.
        inversion E; subst s0. apply resolve_dep_spec in Hres. congruence.
  Qed.

  Lemma deps_ok dir v ids :
    (exists l, v = VList l /\ resolve_deps dir l [] = Ok ids) <-> DocDeps dir v ids.
  Proof.
    unfold DocDeps. split.
    - intros (l & -> & H). apply resolve_deps_spec in H as (new & -> & HF & Hd). simpl.
      apply distinct_from_nil in Hd. eauto.
    - intros (l & -> & HF & Hd). exists l. split; [reflexivity|].
      apply resolve_deps_spec. exists ids. simpl. apply distinct_from_nil in Hd. auto.
  Qed.
  (* ----- materialisation of a definition that obeys its schema ----- *)
  Lemma doc_row_has_deps row : In row doc_rows -> In (K_deps, TListOf TStr) (tt_schema row).
  Proof. intros [<-|[<-|[<-|[<-|[]]]]]; simpl; auto 8. Qed.

  Lemma fields_lookup k args :
    str_eqb k K_name = false -> str_eqb k K_deps = false ->
    lookup k (remove_key K_name (remove_key K_deps args)) = lookup k args.
  Proof. intros H1 H2. rewrite !lookup_remove, H1, H2. reflexivity. Qed.

  Lemma materialize_spec dir c r t : DocDef c r -> (materialize dir r = Ok t <-> DocTask dir r t).
  Proof.
    intros (row & s & Hrow & Hc & Hs & El & Hd & ->). unfold DocTask. simpl.
    set (args := call_args row c) in *.
    destruct (schema_lookup _ _ _ _ Hs (doc_row_has_deps row Hrow) eq_refl) as (vd & Eld & (l & -> & _)).
    rewrite (materialize_core dir {| rt_name := s; rt_full := tt_full row; rt_args := args |} l t Eld). simpl.
    set (fields := remove_key K_name (remove_key K_deps args)).
    assert (Hcons : forall ids,
      construct (tt_full row) ids fields = Ok tt <->
      ((tt_full row = C_RunCommand \/ tt_full row = C_RunExperiment ->
         exists a o, lookup K_args args = Some a /\ DocArgs a /\ lookup K_options args = Some o /\ DocOptions o) /\
       (tt_full row = C_Combine -> NoDup (map iname ids)))).
    { intros ids. destruct Hrow as [<-|[<-|[<-|[<-|[]]]]]; simpl tt_full.
      1,2: (destruct (schema_lookup _ _ K_run TStr Hs) as (vr & Er & _); [simpl; auto | reflexivity |];
            destruct (schema_lookup _ _ K_args TList Hs) as (a & Ea & _); [simpl; auto | reflexivity |];
            destruct (schema_lookup _ _ K_options TDict Hs) as (o & Eo & _); [simpl; auto 6 | reflexivity |];
            destruct (schema_lookup _ _ K_parallelizable TBool Hs) as (vp & Ep & _); [simpl; auto | reflexivity |];
            rewrite (construct_run _ ids fields vr a o vp);
            [ | auto | unfold fields; rewrite fields_lookup; [exact Er | reflexivity | reflexivity]
              | unfold fields; rewrite fields_lookup; [exact Ea | reflexivity | reflexivity]
              | unfold fields; rewrite fields_lookup; [exact Eo | reflexivity | reflexivity]
              | unfold fields; rewrite fields_lookup; [exact Ep | reflexivity | reflexivity] ];
            split;
            [ intros [H1 H2]; split; [intros _; exists a, o; auto | intros H; discriminate H]
            | intros [H _]; destruct H as (a' & o' & Ea' & Ha & Eo' & Ho); [auto|];
              rewrite Ea in Ea'; rewrite Eo in Eo'; inversion Ea'; inversion Eo'; subst; auto ]).
      - (* group *)
        split; [intros _|intros _; apply construct_group].
        split; [intros [H|H]; discriminate H | intros H; discriminate H].
      - (* combine *)
        rewrite construct_combine. split.
        + intros H. split; [intros [H'|H']; discriminate H' | auto].
        + intros [_ H]. auto. }
    split.
    - intros (ids & Hr & Hcs & ->). exists (VList l), ids.
      split; [exact Eld|]. split; [apply (deps_ok dir (VList l) ids); eauto|].
      apply Hcons in Hcs as [H1 H2]. auto.
    - intros (deps & ids & Eld' & Hdd & H1 & H2 & ->). rewrite Eld in Eld'. inversion Eld'; subst deps.
      exists ids. apply (deps_ok dir (VList l) ids) in Hdd as (l' & E & Hr). inversion E; subst l'.
      split; [exact Hr|]. split; [apply Hcons; auto | reflexivity].
  Qed.

  (* ----- the decision of `cond run --check` on a file of plain definitions ----- *)
  Lemma check_calls_spec dir cs t :
    Forall (fun c => fst c <> C_environment) cs ->
    (is_ok (check_calls dir cs t) = true <-> DocWellFormed dir cs t).
  Proof.
    intros Hall. rewrite is_ok_true. unfold check_calls, DocWellFormed. split.
    - intros (tk & H). apply bind_ok in H as (ts & Hp & Hl).
      apply (parse_calls_spec cs ts Hall) in Hp. unfold load_task in Hl.
      destruct (find_task t ts) as [r|] eqn:Ef; [|discriminate Hl].
      apply find_task_some in Ef as [Hin Hn].
      destruct Hp as [HF Hnd]. destruct (Forall2_In_r _ _ _ _ HF Hin) as (c & _ & Hd).
      apply (materialize_spec dir c r tk Hd) in Hl. exists ts, r, tk. split; [split; assumption|]. auto.
    - intros (ts & r & tk & [HF Hnd] & Hin & Hn & Ht).
      destruct (Forall2_In_r _ _ _ _ HF Hin) as (c & _ & Hd).
      exists tk. assert (Hp : parse_calls cs = Ok ts) by (apply (parse_calls_spec cs ts Hall); split; assumption).
      rewrite Hp. simpl. unfold load_task. rewrite (find_task_nodup t ts r Hnd Hin Hn).
      apply (materialize_spec dir c r tk Hd). exact Ht.
  Qed.

  (* ----- names ----- *)
  Lemma load_name_spec row c s :
    In row doc_rows -> SchemaOk (tt_schema row) (call_args row c) ->
    lookup K_name (call_args row c) = Some (VStr s) ->
    (is_ok (load_from_cond_file row (snd c)) = true <-> DocName s).
  Proof.
    intros Hrow Hs El. rewrite is_ok_true. split.
    - intros (r & H). apply (load_spec row (snd c) r Hrow) in H as (s' & _ & El' & Hd & _).
      unfold call_args in El. rewrite El in El'. inversion El'; subst. exact Hd.
    - intros Hd. eexists. apply (load_spec row (snd c) _ Hrow). exists s. unfold call_args in *. auto.
  Qed.
End WithTable.
