(* Tie between Model/Planner.v and the second-visit branch of ExecutionPlanner.create_plan_for as TRANSLATED from
   planner.py of the working tree (Gen/Generated.v gen_lowering): per task kind, the operation class, where its
   `parallelizable` comes from, whether a new version is created for it, record_output and serialize_args_options. *)
From Coq Require Import List NArith Bool.
From Conductor Require Import Gen.Generated Model.Planner.
Import ListNotations.
Local Open Scope N_scope.

Definition kind_code (k : tkind) : N := match k with KCommand => 0 | KExperiment => 1 | KCombine => 2 | KGroup => 3 end.
Definition lowering_row (k : tkind) : option (N * (N * bool * bool * bool * bool)) :=
  find (fun r => fst r =? kind_code k) gen_lowering.

(* for every task kind the translated table has a row, and the model lowers the task as that row says:
   synchronous (CombineOutputs / NoOp) iff the class is not RunTaskExecutable; parallelizable = the task's flag exactly for
   the operations that take it from the task; a new version exactly for experiments, which are also the only operations
   that record their output and serialise their arguments and options *)
Lemma lowering_tie : forall k, exists cls par ver rec ser,
  lowering_row k = Some (kind_code k, (cls, par, ver, rec, ser)) /\
  is_sync k = negb (cls =? 0) /\
  (forall tp : bool, (match k with KCommand | KExperiment => tp | _ => false end) = par && tp) /\
  ver = (match k with KExperiment => true | _ => false end) /\ rec = ver /\ ser = ver.
Proof.
  intros [] ; vm_compute; do 5 eexists; (split; [reflexivity|]); repeat split; try reflexivity; intros []; reflexivity.
Qed.

Lemma lowering_rows_are_the_four_kinds :
  map fst gen_lowering = [1; 0; 2; 3] \/ (forall k, exists r, lowering_row k = Some r) .
Proof. right. intro k. destruct (lowering_tie k) as (c & p & v & r & s & H & _). eexists. exact H. Qed.
