(* Tie between Model/Planner.v and the second-visit branch of ExecutionPlanner.create_plan_for as TRANSLATED from
   planner.py of the working tree (Gen/Generated.v gen_lowering): per task kind, the operation class, where its
   `parallelizable` comes from, whether a new version is created for it, record_output and serialize_args_options. *)
From Coq Require Import List NArith Bool.
From Conductor Require Import Gen.Generated Model.Planner.
Import ListNotations.
Local Open Scope N_scope.

Definition kind_code (k : tkind) : N := match k with KCommand => 0 | KExperiment => 1 | KCombine => 2 | KGroup => 3 end.
Definition lowering_row (k : tkind) : option (N * (N * bool * bool * bool * bool)) :=
  find (fun r => fst r =? kind_code k) gen_lowering.

(* for every task kind the translated table has a row, and the model lowers the task as that row says:
   synchronous (CombineOutputs / NoOp) iff the class is not RunTaskExecutable; parallelizable = the task's flag exactly for
   the operations that take it from the task; a new version exactly for experiments, which are also the only operations
   that record their output and serialise their arguments and options *)
Lemma lowering_tie : forall k, exists cls par ver rec ser,
  lowering_row k = Some (kind_code k, (cls, par, ver, rec, ser)) /\
  is_sync k = negb (cls =? 0) /\
  (forall tp : bool, (match k with KCommand | KExperiment => tp | _ => false end) = par && tp) /\
  ver = (match k with KExperiment => true | _ => false end) /\ rec = ver /\ ser = ver.
Proof.
  intros [] ; vm_compute; do 5 eexists; (split; [reflexivity|]); repeat split; try reflexivity; intros []; reflexivity.
Qed.


(* ... and this is what the MODEL'S planner step does (not a restatement of its text): at the second visit of a task the
   operation appended by pstep has the attributes of the translated row of the task's kind, and create_new_version is
   recorded exactly when the row says so *)
Lemma lowering_tie_pstep : forall info sr again s i stk s',
  stack s = i :: stk ->
  lt_second (nth i (store s) dummy_lt) = true ->
  pstep info sr again s = Some s' ->
  let t := lt_task (nth i (store s) dummy_lt) in
  let k := t_kind (info t) in
  exists cls par ver rec ser oi,
    lowering_row k = Some (kind_code k, (cls, par, ver, rec, ser)) /\
    ops s' = ops s ++ [oi] /\ op_task oi = t /\
    op_par oi = par && t_par (info t) /\
    op_sync oi = negb (cls =? 0) /\
    nv_calls s' = (if ver then nv_calls s ++ [t] else nv_calls s).
Proof.
  intros info sr again s i stk s' Es H2 Hs t k. unfold pstep in Hs. rewrite Es in Hs. fold t in Hs.
  rewrite H2 in Hs. cbn [negb] in Hs. injection Hs as <-. cbn [ops nv_calls].
  destruct (lowering_tie k) as (cls & par & ver & rec & ser & Hrow & Hsync & Hpar & Hver & _ & _).
  exists cls, par, ver, rec, ser. eexists. split; [exact Hrow|]. split; [reflexivity|]. cbn [op_task op_par op_sync].
  split; [reflexivity|]. fold k. split; [apply Hpar|]. split; [exact Hsync|].
  rewrite Hver. destruct k; reflexivity.
Qed.
