(* Model/Exec.v runs Executor.run_plan as ONE flat loop ([xstep]: a launch iteration when the launch
   gate is open, else a wait when something is in flight, else stop).  The Python code is two
   nested loops with `break`, `continue` and an early `return True`:

     while ready.has_ops() or len(inflight) > 0:            # run_plan
         should_stop = self._launch_ops_if_able(...)        #   while True: if gate closed: break
         if should_stop: break                              #               launch one; if failed and stop: return True
         if len(inflight) == 0: continue                    #   return False
         should_stop = self._wait_for_next_inflight_op(...)
         if should_stop: break

   [Launch] and [Run] below are the big-step semantics of exactly that text (one constructor per
   way through the loop bodies).  Theorem [nested_is_flat]: from every state in which the loop has
   not been left, the nested loops end in s' iff the flat loop does.  (The busy `continue` cannot
   spin: with the gate closed and nothing in flight the ready queue is empty.) *)
From Coq Require Import List Arith Bool Lia NArith.
From Conductor Require Import Model.Loader Model.Planner Model.Exec.
Import ListNotations.

Section Nested.
  Variables (p : plan) (jobs : nat) (stop : bool) (orc : oracle).
  Notation launch_one := (launch_one p jobs stop orc).
  Notation wait_one := (wait_one p stop orc).
  Notation xstep := (xstep p jobs stop orc).
  Notation xiter := (xiter p jobs stop orc).

  (* `while self._ready_to_run.has_ops() or len(self._inflight_ops) > 0` *)
  Definition loop_cond (s : xstate) : bool := has_ops s || negb (Nat.eqb (inflight s) 0).

  (* _launch_ops_if_able: final state and return value *)
  Inductive Launch : xstate -> xstate -> bool -> Prop :=
  | L_break s : gate_open jobs s = false -> Launch s s false
  | L_return_true s : gate_open jobs s = true -> stopped (launch_one s) = true -> Launch s (launch_one s) true
  | L_again s s1 b : gate_open jobs s = true -> stopped (launch_one s) = false -> Launch (launch_one s) s1 b -> Launch s s1 b.

  (* the loop of run_plan *)
  Inductive Run : xstate -> xstate -> Prop :=
  | R_exit s : loop_cond s = false -> Run s s
  | R_break_launch s s1 : loop_cond s = true -> Launch s s1 true -> Run s s1
  | R_continue s s1 s' : loop_cond s = true -> Launch s s1 false -> Nat.eqb (inflight s1) 0 = true -> Run s1 s' -> Run s s'
  | R_break_wait s s1 : loop_cond s = true -> Launch s s1 false -> Nat.eqb (inflight s1) 0 = false ->
                        stopped (wait_one s1) = true -> Run s (wait_one s1)
  | R_next s s1 s' : loop_cond s = true -> Launch s s1 false -> Nat.eqb (inflight s1) 0 = false ->
                     stopped (wait_one s1) = false -> Run (wait_one s1) s' -> Run s s'.

  Definition flat (s s' : xstate) : Prop := exists k, xiter k s = Some s'.

  (* ---- facts about the gate ---- *)
  Lemma has_par_has_ops s : has_par s = true -> has_ops s = true.
  Proof. unfold has_par, has_ops. destruct (readyS s), (readyP s); simpl; congruence. Qed.

  Lemma gate_has_ops s : gate_open jobs s = true -> has_ops s = true.
  Proof.
    unfold gate_open. intros H. apply orb_true_iff in H as [H|H].
    - now apply andb_true_iff in H as [H _].
    - apply andb_true_iff in H as [_ H]. now apply has_par_has_ops.
  Qed.

  Lemma closed_idle_no_ops s : gate_open jobs s = false -> Nat.eqb (inflight s) 0 = true -> has_ops s = false.
  Proof.
    unfold gate_open. intros H Hi. apply orb_false_iff in H as [H _]. rewrite Hi, andb_true_r in H. exact H.
  Qed.

  Lemma gate_cond s : gate_open jobs s = true -> loop_cond s = true.
  Proof. intros H. unfold loop_cond. now rewrite (gate_has_ops s H). Qed.

  (* ---- flat iteration ---- *)
  Lemma flat_step s s1 s' : xstep s = Some s1 -> flat s1 s' -> flat s s'.
  Proof. intros Hx (k & Hk). exists (S k). cbn [Exec.xiter]. now rewrite Hx. Qed.

  Lemma flat_end s : xstep s = None -> flat s s.
  Proof. intros Hx. exists 1. cbn [Exec.xiter]. now rewrite Hx. Qed.

  Lemma xstep_launch s : stopped s = false -> gate_open jobs s = true -> xstep s = Some (launch_one s).
  Proof. intros Hs Hg. unfold Exec.xstep. now rewrite Hs, Hg. Qed.

  Lemma xstep_wait s : stopped s = false -> gate_open jobs s = false -> Nat.eqb (inflight s) 0 = false -> xstep s = Some (wait_one s).
  Proof. intros Hs Hg Hi. unfold Exec.xstep. now rewrite Hs, Hg, Hi. Qed.

  Lemma xstep_stopped s : stopped s = true -> xstep s = None.
  Proof. intros Hs. unfold Exec.xstep. now rewrite Hs. Qed.

  Lemma xstep_idle s : stopped s = false -> gate_open jobs s = false -> Nat.eqb (inflight s) 0 = true -> xstep s = None.
  Proof. intros Hs Hg Hi. unfold Exec.xstep. now rewrite Hs, Hg, Hi. Qed.

  (* ---- nested => flat ---- *)
  Lemma launch_flat s s1 b :
    Launch s s1 b -> stopped s = false ->
    stopped s1 = b /\ (b = false -> gate_open jobs s1 = false) /\ forall s', flat s1 s' -> flat s s'.
  Proof.
    induction 1 as [s Hg | s Hg Hst | s s1 b Hg Hst _ IH]; intros Hs.
    - split; [exact Hs|]. split; auto.
    - split; [exact Hst|]. split; [discriminate|]. intros s' Hf. eapply flat_step; [now apply xstep_launch | exact Hf].
    - destruct (IH Hst) as (A & B & C). split; [exact A|]. split; [exact B|].
      intros s' Hf. eapply flat_step; [now apply xstep_launch | now apply C].
  Qed.

  Lemma run_flat s s' : Run s s' -> stopped s = false -> flat s s'.
  Proof.
    induction 1 as [s Hc | s s1 Hc Hl | s s1 s' Hc Hl Hi _ IH | s s1 Hc Hl Hi Hst | s s1 s' Hc Hl Hi Hst _ IH]; intros Hs.
    - unfold loop_cond in Hc. apply orb_false_iff in Hc as [Hops Hi]. apply negb_false_iff in Hi.
      apply flat_end, xstep_idle; auto.
      destruct (gate_open jobs s) eqn:Hg; [|reflexivity]. rewrite (gate_has_ops s Hg) in Hops. discriminate.
    - destruct (launch_flat _ _ _ Hl Hs) as (A & _ & C). apply C, flat_end, xstep_stopped, A.
    - destruct (launch_flat _ _ _ Hl Hs) as (A & _ & C). apply C, IH, A.
    - destruct (launch_flat _ _ _ Hl Hs) as (A & B & C). apply C.
      eapply flat_step; [apply xstep_wait; auto | apply flat_end, xstep_stopped, Hst].
    - destruct (launch_flat _ _ _ Hl Hs) as (A & B & C). apply C.
      eapply flat_step; [apply xstep_wait; auto | apply IH, Hst].
  Qed.

  (* ---- flat => nested ---- *)
  Lemma run_prepend s s' :
    gate_open jobs s = true -> stopped (launch_one s) = false -> Run (launch_one s) s' -> Run s s'.
  Proof.
    intros Hg Hst Hr. pose proof (gate_cond s Hg) as Hc.
    inversion Hr as [s0 Hc1 | s0 s1 Hc1 Hl | s0 s1 s2 Hc1 Hl Hi Hr' | s0 s1 Hc1 Hl Hi Hw | s0 s1 s2 Hc1 Hl Hi Hw Hr']; subst.
    - (* the loop condition fails right after this launch: gate closed, nothing in flight *)
      unfold loop_cond in Hc1. apply orb_false_iff in Hc1 as [Hops Hi]. apply negb_false_iff in Hi.
      assert (Hg1 : gate_open jobs (launch_one s) = false).
      { destruct (gate_open jobs (launch_one s)) eqn:E; [|reflexivity]. rewrite (gate_has_ops _ E) in Hops. discriminate. }
      eapply R_continue; [exact Hc | eapply L_again; [exact Hg | exact Hst | now apply L_break] | exact Hi | exact Hr].
    - eapply R_break_launch; [exact Hc | eapply L_again; eauto].
    - eapply R_continue; [exact Hc | eapply L_again; eauto | exact Hi | exact Hr'].
    - eapply R_break_wait; [exact Hc | eapply L_again; eauto | exact Hi | exact Hw].
    - eapply R_next; [exact Hc | eapply L_again; eauto | exact Hi | exact Hw | exact Hr'].
  Qed.

  Lemma flat_run k : forall s s', xiter k s = Some s' -> stopped s = false -> Run s s'.
  Proof.
    induction k as [|k IH]; intros s s' Hk Hs; [discriminate|]. cbn [Exec.xiter] in Hk.
    destruct (gate_open jobs s) eqn:Hg.
    - rewrite (xstep_launch s Hs Hg) in Hk.
      destruct (stopped (launch_one s)) eqn:Hst.
      + (* `return True` *)
        destruct k as [|k']; [discriminate|]. cbn [Exec.xiter] in Hk. rewrite (xstep_stopped _ Hst) in Hk.
        inversion Hk; subst s'. apply R_break_launch; [now apply gate_cond | now apply L_return_true].
      + apply run_prepend; auto.
    - destruct (Nat.eqb (inflight s) 0) eqn:Hi.
      + rewrite (xstep_idle s Hs Hg Hi) in Hk. inversion Hk; subst s'.
        apply R_exit. unfold loop_cond. rewrite (closed_idle_no_ops s Hg Hi), Hi. reflexivity.
      + rewrite (xstep_wait s Hs Hg Hi) in Hk.
        assert (Hc : loop_cond s = true) by (unfold loop_cond; rewrite Hi; apply orb_true_r).
        destruct (stopped (wait_one s)) eqn:Hst.
        * destruct k as [|k']; [discriminate|]. cbn [Exec.xiter] in Hk. rewrite (xstep_stopped _ Hst) in Hk.
          inversion Hk; subst s'. eapply R_break_wait; [exact Hc | now apply L_break | exact Hi | exact Hst].
        * eapply R_next; [exact Hc | now apply L_break | exact Hi | exact Hst | now apply IH].
  Qed.

  Theorem nested_is_flat s s' : stopped s = false -> (Run s s' <-> flat s s').
  Proof.
    intros Hs. split; [intros H; now apply run_flat | intros (k & Hk); eapply flat_run; eauto].
  Qed.

  (* the nested loops are deterministic, so "ends in s'" determines s' *)
  Lemma flat_det s a b : flat s a -> flat s b -> a = b.
  Proof.
    intros (k1 & H1) (k2 & H2). revert s k2 H1 H2. induction k1 as [|k1 IH]; intros s k2 H1 H2; [discriminate|].
    destruct k2 as [|k2]; [discriminate|]. cbn [Exec.xiter] in *.
    destruct (xstep s) as [s1|]; [eapply IH; eauto | congruence].
  Qed.

  Corollary run_det s a b : stopped s = false -> Run s a -> Run s b -> a = b.
  Proof. intros Hs Ha Hb. eapply flat_det; apply nested_is_flat; eauto. Qed.
End Nested.
