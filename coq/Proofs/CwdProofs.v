(* Lemmas behind Props/C17.v, about Model/Cwd.v. *)
From Coq Require Import List Arith NArith Bool Lia.
From Conductor Require Import Lib.Str Lib.Path Model.Cwd Proofs.PathProofs.
Import ListNotations.
Local Open Scope N_scope.

(* ---------- root discovery ---------- *)
Section Root.
  Variable has_cfg : path -> bool.

  (* completeness on the reversed representation: [extra] are the components below the root,
     innermost first *)
  Lemma find_up_nearest rp0 : forall extra,
    has_cfg (rev rp0) = true ->
    (forall e1 e2, extra = e1 ++ e2 -> e2 <> [] -> has_cfg (rev (e2 ++ rp0)) = false) ->
    find_up has_cfg (extra ++ rp0) = Some (rev rp0).
  Proof.
    induction extra as [|y extra IH]; intros Hroot Hnone.
    - simpl. destruct rp0 as [|x rp']; simpl in *; now rewrite Hroot.
    - change ((y :: extra) ++ rp0) with (y :: (extra ++ rp0)).
      cbn [find_up].
      pose proof (Hnone [] (y :: extra) eq_refl) as Hf.
      change ((y :: extra) ++ rp0) with (y :: (extra ++ rp0)) in Hf.
      rewrite Hf by discriminate.
      apply IH; [assumption|]. intros e1 e2 E Hne.
      apply (Hnone (y :: e1) e2); [now rewrite E | assumption].
  Qed.

  Lemma find_root_nearest R rest :
    has_cfg R = true ->
    (forall k, (0 < k <= length rest)%nat -> has_cfg (R ++ firstn k rest) = false) ->
    find_root has_cfg (R ++ rest) = Some R.
  Proof.
    intros HR Hnone. unfold find_root. rewrite rev_app_distr.
    rewrite <- (rev_involutive R) at 2. apply find_up_nearest.
    - now rewrite rev_involutive.
    - intros e1 e2 E Hne. rewrite rev_app_distr, rev_involutive.
      assert (Hrest : rest = rev e2 ++ rev e1).
      { rewrite <- (rev_involutive rest), E, rev_app_distr. reflexivity. }
      replace (rev e2) with (firstn (length e2) rest).
      + apply Hnone. split.
        * destruct e2; [congruence | simpl; lia].
        * rewrite Hrest, app_length, !rev_length. lia.
      + rewrite Hrest, <- (rev_length e2), firstn_app, Nat.sub_diag, firstn_all. simpl.
        now rewrite app_nil_r.
  Qed.

  (* soundness: whatever is returned is an ancestor-or-self with the file, and nothing nearer
     has it *)
  Lemma find_up_sound rp : forall R,
    find_up has_cfg rp = Some R ->
    exists rest, rev rp = R ++ rest /\ has_cfg R = true /\
      forall k, (0 < k <= length rest)%nat -> has_cfg (R ++ firstn k rest) = false.
  Proof.
    induction rp as [|x rp IH]; intros R H.
    - simpl in H. destruct (has_cfg []) eqn:E; [|discriminate]. inversion H; subst.
      exists []. split; [reflexivity|]. split; [assumption|]. simpl. intros k Hk. lia.
    - cbn [find_up] in H. destruct (has_cfg (rev (x :: rp))) eqn:E.
      + inversion H; subst. exists []. split; [now rewrite app_nil_r|]. split; [assumption|].
        simpl. intros k Hk. lia.
      + apply IH in H as (rest & Hrev & HR & Hnone).
        exists (rest ++ [x]). split; [simpl; rewrite Hrev; now rewrite app_assoc|].
        split; [assumption|]. intros k Hk. rewrite app_length in Hk. simpl in Hk.
        destruct (Nat.eq_dec k (length rest + 1)) as [->|Hne].
        * rewrite firstn_all2 by (rewrite app_length; simpl; lia).
          rewrite app_assoc, <- Hrev. exact E.
        * rewrite firstn_app. replace (k - length rest)%nat with 0%nat by lia.
          simpl. rewrite app_nil_r. apply Hnone. lia.
  Qed.

  Lemma find_root_sound cwd R :
    find_root has_cfg cwd = Some R ->
    exists rest, cwd = R ++ rest /\ has_cfg R = true /\
      forall k, (0 < k <= length rest)%nat -> has_cfg (R ++ firstn k rest) = false.
  Proof.
    unfold find_root. intros H. apply find_up_sound in H as (rest & Hrev & H).
    rewrite rev_involutive in Hrev. eauto.
  Qed.

  (* MissingProjectRoot exactly when no ancestor-or-self has the file *)
  Lemma find_up_none rp :
    find_up has_cfg rp = None -> forall e1 e2, rp = e1 ++ e2 -> has_cfg (rev e2) = false.
  Proof.
    induction rp as [|x rp IH]; intros H e1 e2 E.
    - symmetry in E. apply app_eq_nil in E as [-> ->]. simpl in *.
      destruct (has_cfg []); [discriminate | reflexivity].
    - cbn [find_up] in H. destruct (has_cfg (rev (x :: rp))) eqn:Eh; [discriminate|].
      destruct e1 as [|y e1]; simpl in E.
      + now subst e2.
      + inversion E; subst. eapply IH; eauto.
  Qed.

  Lemma find_root_none cwd :
    find_root has_cfg cwd = None <-> forall k, has_cfg (firstn k cwd) = false.
  Proof.
    unfold find_root. split.
    - intros H k.
      pose proof (find_up_none _ H (rev (skipn k cwd)) (rev (firstn k cwd))) as Hn.
      rewrite rev_involutive in Hn. apply Hn.
      now rewrite <- rev_app_distr, firstn_skipn.
    - intros Hn. destruct (find_up has_cfg (rev cwd)) as [R|] eqn:E; [|reflexivity].
      apply find_up_sound in E as (rest & Hrev & HR & _). rewrite rev_involutive in Hrev.
      specialize (Hn (length R)). rewrite Hrev, firstn_app, Nat.sub_diag, firstn_all in Hn.
      simpl in Hn. rewrite app_nil_r in Hn. congruence.
  Qed.

  (* two working directories below the same nearest root find the same root *)
  Lemma find_root_same R rest1 rest2 :
    has_cfg R = true ->
    (forall k, (0 < k <= length rest1)%nat -> has_cfg (R ++ firstn k rest1) = false) ->
    (forall k, (0 < k <= length rest2)%nat -> has_cfg (R ++ firstn k rest2) = false) ->
    find_root has_cfg (R ++ rest1) = find_root has_cfg (R ++ rest2).
  Proof.
    intros HR H1 H2. now rewrite !find_root_nearest.
  Qed.
End Root.

(* ---------- renderings ---------- *)
Lemma gc_render_denotes cwd p :
  clean cwd = true -> clean p = true -> denote cwd (gc_render cwd p) = p.
Proof. intros Hc Hp. unfold gc_render, denote. now apply relpath_resolves. Qed.

Lemma archive_render_abs_denotes cwd p :
  clean p = true -> denote cwd (archive_render cwd (UAbs p)) = p.
Proof.
  intros Hp. unfold archive_render.
  destruct (relative_to cwd p) as [r|] eqn:E; simpl; [|reflexivity].
  now apply resolve_relative_to.
Qed.

(* a path given relative to the working directory is printed as given *)
Lemma archive_render_rel_denotes cwd r :
  denote cwd (archive_render cwd (URel r)) = locate cwd (URel r).
Proof. reflexivity. Qed.

Lemma where_render_abs root p : where_render root p false = Some (ShAbs p).
Proof. reflexivity. Qed.

Lemma where_render_rel root rest :
  clean (root ++ rest) = true ->
  exists r, where_render root (root ++ rest) true = Some (ShRel r) /\
            denote root (ShRel r) = root ++ rest.
Proof.
  intros Hc. unfold where_render.
  assert (H : relative_to root (root ++ rest) = Some rest) by now apply relative_to_spec.
  rewrite H. exists rest. split; [reflexivity|]. simpl. now apply resolve_clean.
Qed.

(* every cwd-relative rendering is defined and leads to the same place, from anywhere *)
Lemma render_total cwd1 cwd2 p :
  clean cwd1 = true -> clean cwd2 = true -> clean p = true ->
  denote cwd1 (gc_render cwd1 p) = denote cwd2 (gc_render cwd2 p) /\
  denote cwd1 (archive_render cwd1 (UAbs p)) = denote cwd2 (archive_render cwd2 (UAbs p)).
Proof.
  intros H1 H2 Hp. rewrite !gc_render_denotes, !archive_render_abs_denotes by assumption.
  split; reflexivity.
Qed.

(* from the root (or any ancestor of the path) the post-fix gc rendering prints what the
   pre-fix code printed *)
Lemma gc_render_unchanged cwd p r :
  relative_to cwd p = Some r -> r <> [] -> gc_render cwd p = ShRel r.
Proof.
  intros H Hr. unfold gc_render. rewrite (relpath_relative_to _ _ _ H).
  destruct r; congruence.
Qed.

(* the default archive location is printed relative exactly when cwd is an ancestor of it *)
Lemma archive_render_rel_iff cwd p :
  (exists r, archive_render cwd (UAbs p) = ShRel r) <-> is_prefix cwd p = true.
Proof.
  unfold archive_render. rewrite relative_to_defined. split.
  - intros [r H]. destruct (relative_to cwd p) as [r'|]; [eauto | discriminate].
  - intros [r H]. rewrite H. eauto.
Qed.
