(* What the planner guarantees about its output, for EVERY task table with duplicate-free
   dependency lists, every should_run oracle and both values of --again: the plan is well formed
   (the executor's assumption), and every task is lowered to at most one operation. *)
From Coq Require Import List Arith Bool Lia.
From Conductor Require Import Model.Loader Model.Planner Model.Exec Proofs.ListFacts Proofs.ExecInv Proofs.PlannerInv.
Import ListNotations.

Section Thm.
  Variable info : nat -> tinfo.
  Variable sr : nat -> bool.
  Variable again : bool.
  Hypothesis deps_nodup : forall t, NoDup (t_deps (info t)).

  Lemma exe_deps_plan_of s o : exe_deps (plan_of s) o = op_exe_deps (op_at (ops s) o).
  Proof. reflexivity. Qed.

  Lemma PInv_wf s : PInv info s -> wf_plan (plan_of s).
  Proof.
    intros I. unfold wf_plan. cbn [plan_of p_ops p_initial].
    split; [|split; [|split; [|split]]].
    - intros o Ho d Hd. rewrite exe_deps_plan_of in Hd. now apply (op_deps_lt _ _ I o d).
    - intros o Ho. rewrite exe_deps_plan_of. now apply (op_deps_nodup _ _ I).
    - rewrite (init_ok _ _ I). apply NoDup_filter, seq_NoDup.
    - intros o. rewrite (init_ok _ _ I), filter_In, in_seq, exe_deps_plan_of.
      destruct (op_exe_deps (op_at (ops s) o)); split; intros [H1 H2]; split; auto; try lia; discriminate.
    - intros o Hs. unfold is_par. unfold opi in *. cbn [plan_of p_ops] in *.
      destruct (Nat.lt_ge_cases o (length (ops s))) as [Hlt|Hge].
      + now apply (op_sync_par _ _ I o Hlt).
      + rewrite nth_overflow by assumption. reflexivity.
  Qed.

  (* one operation per task: op_task is injective on the operations of the plan *)
  Lemma PInv_op_task_inj s o o' :
    PInv info s -> o < length (ops s) -> o' < length (ops s) ->
    op_task (op_at (ops s) o) = op_task (op_at (ops s) o') -> o = o'.
  Proof.
    intros I Ho Ho' E.
    destruct (op_primary _ _ I o Ho) as (i & Hi & Hoi).
    destruct (op_primary _ _ I o' Ho') as (i' & Hi' & Hoi').
    destruct (o_own _ _ I i [o] Hi Hoi) as [_ H1]. destruct (H1 o (or_introl eq_refl)) as (_ & Ht & Hs).
    destruct (o_own _ _ I i' [o'] Hi' Hoi') as [_ H1']. destruct (H1' o' (or_introl eq_refl)) as (_ & Ht' & Hs').
    pose proof (sec_primary _ _ I i Hi Hs) as Hp. pose proof (sec_primary _ _ I i' Hi' Hs') as Hp'.
    assert (Ei : i = i') by (rewrite <- Ht, E, Ht' in Hp; congruence).
    subst i'. rewrite Hoi in Hoi'. inversion Hoi'. reflexivity.
  Qed.

  Theorem plan_wf fuel root ps : plan_for info sr again fuel root = Some ps -> wf_plan (plan_of ps).
  Proof.
    unfold plan_for. intros H.
    destruct (piter_inv info sr again deps_nodup fuel (pinit root) ps (init_inv info root) H) as [I _].
    now apply PInv_wf.
  Qed.

  Theorem plan_one_op_per_task fuel root ps o o' :
    plan_for info sr again fuel root = Some ps ->
    o < length (ops ps) -> o' < length (ops ps) ->
    op_task (op_at (ops ps) o) = op_task (op_at (ops ps) o') -> o = o'.
  Proof.
    unfold plan_for. intros H.
    destruct (piter_inv info sr again deps_nodup fuel (pinit root) ps (init_inv info root) H) as [I _].
    now apply PInv_op_task_inj.
  Qed.
End Thm.
