(* Every label of Model/Store.v preserves the invariant WF. *)
From Coq Require Import List NArith Bool Lia ZifyBool ZifyN ZifyNat Arith.
From Conductor Require Import Lib.Str Model.Store Proofs.StoreSpec Proofs.StoreProofs Proofs.StoreInv.
Import ListNotations.
Local Open Scope N_scope.

Ltac inv H := inversion H; subst; clear H.

(* the process part of WF, opened *)
Ltac open_run Hwf Hp :=
  let Hpr := fresh "Hpr" in
  pose proof (wf_proc _ Hwf) as Hpr; unfold proc_ok in Hpr; rewrite Hp in Hpr;
  destruct Hpr as (Hts & Hops & Hnd1 & Hnd2 & Hok & Htxn & Hfresh).

(* ------------------------------------------------------------------ crash / exit *)

Lemma wf_stop s : WF s -> WF (stop s).
Proof.
  intros [H1 H2 H3 H4]. constructor; simpl; auto. exact I.
Qed.

(* ------------------------------------------------------------------ begin *)

Lemma max_ts_ge R r : In r R -> r_ts r <= max_ts R.
Proof.
  induction R as [|x R IH]; simpl; [tauto|]. intros [->|H]; [lia|]. specialize (IH H). lia.
Qed.

Lemma wf_begin c s : label_ok (LBegin c) -> WF s -> WF (do_begin c s).
Proof.
  intros Hl Hwf. unfold do_begin. destruct (s_proc s) eqn:Hp; [exact Hwf|].
  destruct Hwf as [H1 H2 H3 H4]. constructor; simpl; auto.
  unfold proc_ok. simpl. destruct c; simpl; auto.
  - (* run *) unfold run_ok. simpl. split; [|split; [|split; [|split; [|split; [|split]]]]].
    + intros r Hin. rewrite app_nil_r in Hin. now apply max_ts_ge.
    + intros o [].
    + constructor.
    + constructor.
    + intros o [].
    + intros r [].
    + intros o r [].
  - (* restore *) split; [exact Hl | reflexivity].
Qed.

(* ------------------------------------------------------------------ frame lemmas *)

Lemma kids_frame (D D' : fs) (K : list kid) (n : N) (kk : key) :
  (forall k, k <> kk -> lookup k D' = lookup k D) ->
  (forall c, In c K -> k_live c = true -> k_key c <> kk) ->
  (forall c, In c K -> kid_ok D c /\ k_exec c < n) ->
  forall c, In c K -> kid_ok D' c /\ k_exec c < n.
Proof.
  intros HD Hk H c Hin. destruct (H c Hin) as [H1 H2]. split; [|assumption].
  intros Hl. destruct (H1 Hl) as (d & Hd & Hrest). exists d. split; [|assumption].
  rewrite HD; [assumption|]. now apply Hk.
Qed.

Lemma dirs_ok_put D kk d : dirs_ok D -> incl (d_started d) [d_owner d] -> dirs_ok (put kk d D).
Proof.
  intros H Hd k d0. rewrite lookup_put. destruct (key_eqb k kk); [intros E; inv E; assumption | apply H].
Qed.

Lemma dirs_ok_remove D kk : dirs_ok D -> dirs_ok (remove_key kk D).
Proof.
  intros H k d0. rewrite lookup_remove. destruct (key_eqb k kk); [discriminate | apply H].
Qed.

(* a live task process never sits in a closed directory *)
Lemma live_kid_not_closed D c kk d :
  kid_ok D c -> k_live c = true -> lookup kk D = Some d -> (d_rc d <> None \/ d_partial d = true) -> k_key c <> kk.
Proof.
  intros Hk Hl Hd Hc E. destruct (Hk Hl) as (d' & Hd' & _ & Hp & Hr). rewrite E, Hd in Hd'. inv Hd'.
  destruct Hc as [Hc|Hc]; congruence.
Qed.

(* ------------------------------------------------------------------ one operation moves *)

Section OpStep.
  Variables (s : state) (last : N) (hd : head) (ops : list op) (txn : list row) (e : N) (o : op).
  Hypothesis Hwf : WF s.
  Hypothesis Hp : s_proc s = Some (PRun last hd ops txn).
  Hypothesis Hf : find_op e ops = Some o.
  Hypothesis Hact : active o = true.

  Lemma op_step (D' : fs) (K' : list kid) (p : phase) :
    (forall k, k <> o_key o -> lookup k D' = lookup k (s_dirs s)) ->
    (forall d', lookup (o_key o) D' = Some d' -> incl (d_started d') [d_owner d']) ->
    (forall c, In c K' -> kid_ok D' c /\ k_exec c < s_next s) ->
    (forall e', e' <> e -> find_kid e' K' = find_kid e' (s_kids s)) ->
    op_ok D' K' (set_phase p o) ->
    WF (mk_state (s_rows s) D' (s_next s) (s_tick s) K' (Some (PRun last hd (upd_op e p ops) txn))).
  Proof.
    intros HD Hnew HK HfK Hoo. open_run Hwf Hp.
    pose proof (find_op_In _ _ _ Hf) as [Hin He].
    assert (Hrows : forall r, In r (s_rows s ++ txn) -> lookup (row_key r) D' = lookup (row_key r) (s_dirs s)).
    { intros r Hr. apply HD. now apply (Hfresh o r). }
    constructor; simpl.
    - apply rows_good_ext with (D := s_dirs s); [|apply (wf_rows _ Hwf)].
      intros r Hr. apply Hrows. apply in_or_app. now left.
    - intros k d Hl. destruct (key_eq_dec k (o_key o)) as [->|Hne]; [now apply Hnew|].
      rewrite HD in Hl by assumption. now apply (wf_dirs _ Hwf k).
    - exact HK.
    - unfold proc_ok. simpl. repeat split.
      + exact Hts.
      + apply upd_op_In in H as [[H _]|(o1 & H1 & _ & ->)]; [now apply Hops | now apply (Hops o1)].
      + apply upd_op_In in H as [[H _]|(o1 & H1 & _ & ->)]; [now apply Hops | now apply (Hops o1)].
      + apply upd_op_In in H as [[H _]|(o1 & H1 & _ & ->)]; [now apply Hops | now apply (Hops o1)].
      + now rewrite upd_op_ts.
      + now rewrite upd_op_exec.
      + intros o' Ho'. apply upd_op_In in Ho' as [[Ho' Hne]|(o1 & H1 & He1 & ->)].
        * apply op_ok_ext with (D := s_dirs s) (K := s_kids s); [| |now apply Hok].
          -- apply HD. apply (ops_key_neq ops); auto. congruence.
          -- apply HfK. assumption.
        * rewrite (find_op_unique e ops o o1 Hnd2 Hf H1 He1). exact Hoo.
      + apply rows_good_ext with (D := s_dirs s); [|exact Htxn].
        intros r Hr. apply Hrows. apply in_or_app. now right.
      + intros o' r Ho' Ha Hr. apply upd_op_In in Ho' as [[Ho' Hne]|(o1 & H1 & He1 & ->)].
        * now apply (Hfresh o' r).
        * rewrite (find_op_unique e ops o o1 Hnd2 Hf H1 He1). now apply (Hfresh o r).
  Qed.
End OpStep.

(* ------------------------------------------------------------------ the operation steps *)

Ltac open_op s e Hwf :=
  unfold with_op, with_run;
  let last := fresh "last" in let hd := fresh "hd" in let ops := fresh "ops" in let txn := fresh "txn" in
  let Hp := fresh "Hp" in let Hf := fresh "Hf" in let Hph := fresh "Hph" in
  let Hin := fresh "Hin" in let He := fresh "He" in let Hoo := fresh "Hoo" in
  destruct (s_proc s) as [[last hd ops txn| | | |]|] eqn:Hp; try solve [exact Hwf | reflexivity | tauto];
  let o := fresh "o" in
  destruct (find_op e ops) as [o|] eqn:Hf; try solve [exact Hwf | reflexivity | tauto];
  destruct (o_phase o) eqn:Hph; try solve [exact Hwf | reflexivity | tauto];
  open_run Hwf Hp;
  pose proof (find_op_In _ _ _ Hf) as [Hin He];
  match goal with H : forall o', In o' ops -> op_ok _ _ o' |- _ => pose proof (H _ Hin) as Hoo end;
  unfold op_ok in Hoo; rewrite Hph in Hoo; unfold op_ok_at in Hoo;
  assert (Hact : active o = true) by (unfold active; rewrite Hph; reflexivity).

Lemma owned_set_phase o p d : owned o d -> owned (set_phase p o) d.
Proof. destruct o; exact (fun H => H). Qed.

Lemma wf_mkdir e s : WF s -> WF (do_mkdir e s).
Proof.
  intros Hwf. unfold do_mkdir. open_op s e Hwf.
  destruct Hoo as [Hnone Hnk].
  assert (Hh : has_dir (s_dirs s) (o_key o) = false) by now apply has_dir_false.
  rewrite Hh. unfold with_proc, with_dirs. simpl.
  apply (op_step s last hd ops txn e o Hwf Hp Hf Hact).
  - intros k Hne. now rewrite lookup_put_neq.
  - intros d'. rewrite lookup_put_eq. intros E. inv E. simpl. intros x [].
  - simpl. apply kids_frame with (D := s_dirs s) (kk := o_key o).
    + intros k Hne. now rewrite lookup_put_neq.
    + intros c Hc Hl E. destruct (wf_kids _ Hwf c Hc) as [Hk _]. destruct (Hk Hl) as (d & Hd & _).
      rewrite E in Hd. congruence.
    + apply (wf_kids _ Hwf).
  - reflexivity.
  - apply op_ok_set. unfold op_ok_at. split; [exact Hnk|].
    exists (fresh_dir o). rewrite lookup_put_eq. repeat split.
Qed.

Lemma wf_spawn e script rc s : WF s -> WF (do_spawn e script rc s).
Proof.
  intros Hwf. unfold do_spawn. open_op s e Hwf.
  destruct Hoo as (Hnk & d & Hd & Hown & Hrc & Hst & Hdn & Ha & Hop).
  unfold with_proc, with_kids. simpl.
  apply (op_step s last hd ops txn e o Hwf Hp Hf Hact).
  - reflexivity.
  - intros d' Hd'. apply (wf_dirs _ Hwf _ _ Hd').
  - simpl. intros c Hc. apply in_app_or in Hc as [Hc|[<-|[]]]; [apply (wf_kids _ Hwf c Hc)|].
    split.
    + intros _. simpl. exists d. destruct Hown as (H1 & _ & _ & H4). repeat split; auto. congruence.
    + simpl. rewrite <- He. apply (Hops o Hin).
  - simpl. intros e' Hne. rewrite find_kid_app. destruct (find_kid e' (s_kids s)); [reflexivity|].
    simpl. replace (e =? e') with false by lia. reflexivity.
  - apply op_ok_set. unfold op_ok_at. exists d, (mk_kid e (o_key o) script rc true).
    repeat split; try apply Hown; auto.
    rewrite find_kid_app. rewrite Hnk. simpl. rewrite He, N.eqb_refl. reflexivity.
Qed.

Lemma wf_reap e s : WF s -> WF (do_reap e s).
Proof.
  intros Hwf. unfold do_reap. open_op s e Hwf.
  destruct (find_kid e (s_kids s)) as [c|] eqn:Hfk; try exact Hwf.
  destruct (k_live c) eqn:Hlive; try exact Hwf.
  destruct Hoo as (d & c' & Hd & Hown & Hfk' & Hkey & Hrc).
  rewrite He, Hfk in Hfk'. assert (c' = c) by congruence. subst c'. clear Hfk'. rewrite Hlive in Hrc.
  unfold with_proc.
  apply (op_step s last hd ops txn e o Hwf Hp Hf Hact).
  - reflexivity.
  - intros d' Hd'. apply (wf_dirs _ Hwf _ _ Hd').
  - apply (wf_kids _ Hwf).
  - reflexivity.
  - apply op_ok_set. unfold op_ok_at. exists d. repeat split; try apply Hown; auto.
    exists c. rewrite He. auto.
Qed.

Lemma wf_check e s : WF s -> WF (do_check e s).
Proof.
  intros Hwf. unfold do_check. open_op s e Hwf.
  destruct Hoo as (d & Hd & Hown & Hrc & Hdead & Hargs & Hopts).
  unfold with_proc.
  apply (op_step s last hd ops txn e o Hwf Hp Hf Hact).
  - reflexivity.
  - intros d' Hd'. apply (wf_dirs _ Hwf _ _ Hd').
  - apply (wf_kids _ Hwf).
  - reflexivity.
  - destruct (rc =? 0) eqn:E; [|apply op_ok_set; exact I].
    apply N.eqb_eq in E. subst rc. apply op_ok_set. unfold op_ok_at, finished. exists d. repeat split; try apply Hown; auto.
Qed.

Lemma touch_lookup kk f D d : lookup kk D = Some d -> touch kk f D = put kk (f d) D.
Proof. unfold touch. now intros ->. Qed.

Lemma wf_write_args e s : WF s -> WF (do_write_args e s).
Proof.
  intros Hwf. unfold do_write_args. open_op s e Hwf.
  destruct Hoo as (d & Hd & Hown & Hrc & Hdead).
  unfold with_proc, with_dirs. simpl.
  destruct (fst (o_need o)) eqn:Hneed.
  - rewrite (touch_lookup _ _ _ _ Hd).
    apply (op_step s last hd ops txn e o Hwf Hp Hf Hact).
    + intros k Hne. now rewrite lookup_put_neq.
    + intros d'. rewrite lookup_put_eq. intros E. inv E. simpl. apply (wf_dirs _ Hwf _ _ Hd).
    + apply kids_frame with (D := s_dirs s) (kk := o_key o).
      * intros k Hne. now rewrite lookup_put_neq.
      * intros c Hc Hl. destruct (wf_kids _ Hwf c Hc) as [Hk _].
        apply (live_kid_not_closed _ _ _ _ Hk Hl Hd). left. congruence.
      * apply (wf_kids _ Hwf).
    + reflexivity.
    + apply op_ok_set. unfold op_ok_at. exists (set_args true d). rewrite lookup_put_eq.
      repeat split; try apply Hown; auto.
  - apply (op_step s last hd ops txn e o Hwf Hp Hf Hact).
    + reflexivity.
    + intros d' Hd'. apply (wf_dirs _ Hwf _ _ Hd').
    + apply (wf_kids _ Hwf).
    + reflexivity.
    + apply op_ok_set. unfold op_ok_at. exists d. repeat split; try apply Hown; auto.
      rewrite Hneed. discriminate.
Qed.

Lemma wf_write_opts e s : WF s -> WF (do_write_opts e s).
Proof.
  intros Hwf. unfold do_write_opts. open_op s e Hwf.
  destruct Hoo as (d & Hd & Hown & Hrc & Hdead & Hargs).
  unfold with_proc, with_dirs. simpl.
  destruct (snd (o_need o)) eqn:Hneed.
  - rewrite (touch_lookup _ _ _ _ Hd).
    apply (op_step s last hd ops txn e o Hwf Hp Hf Hact).
    + intros k Hne. now rewrite lookup_put_neq.
    + intros d'. rewrite lookup_put_eq. intros E. inv E. simpl. apply (wf_dirs _ Hwf _ _ Hd).
    + apply kids_frame with (D := s_dirs s) (kk := o_key o).
      * intros k Hne. now rewrite lookup_put_neq.
      * intros c Hc Hl. destruct (wf_kids _ Hwf c Hc) as [Hk _].
        apply (live_kid_not_closed _ _ _ _ Hk Hl Hd). left. congruence.
      * apply (wf_kids _ Hwf).
    + reflexivity.
    + apply op_ok_set. unfold op_ok_at. exists (set_opts true d). rewrite lookup_put_eq.
      repeat split; try apply Hown; auto.
  - apply (op_step s last hd ops txn e o Hwf Hp Hf Hact).
    + reflexivity.
    + intros d' Hd'. apply (wf_dirs _ Hwf _ _ Hd').
    + apply (wf_kids _ Hwf).
    + reflexivity.
    + apply op_ok_set. unfold op_ok_at. exists d. repeat split; try apply Hown; auto.
      rewrite Hneed. discriminate.
Qed.

(* ------------------------------------------------------------------ planning, insert, commit *)

Lemma NoDup_snoc {A} (l : list A) x : NoDup l -> ~ In x l -> NoDup (l ++ [x]).
Proof.
  induction l as [|y l IH]; simpl; intros Hnd Hx.
  - constructor; [tauto | constructor].
  - inv Hnd. constructor.
    + intros Hin. apply in_app_or in Hin as [Hin|[<-|[]]]; tauto.
    + apply IH; tauto.
Qed.

Lemma wf_alloc clock t need s : WF s -> WF (do_alloc alloc_version clock t need s).
Proof.
  intros Hwf. unfold do_alloc, with_run.
  destruct (s_proc s) as [[last hd ops txn| | | |]|] eqn:Hp; try exact Hwf.
  destruct (alloc_version clock (s_dirs s) t last (s_tick s)) as [[ts tick']|] eqn:Ha; try exact Hwf.
  apply alloc_version_spec in Ha as (Hlt & Hnone & _).
  open_run Hwf Hp.
  constructor; simpl.
  - apply (wf_rows _ Hwf).
  - apply (wf_dirs _ Hwf).
  - intros c Hc. destruct (wf_kids _ Hwf c Hc). split; [assumption | lia].
  - unfold proc_ok, run_ok. simpl. split; [|split; [|split; [|split; [|split; [|split]]]]].
    + intros r Hr. specialize (Hts r Hr). lia.
    + intros o Ho. apply in_app_or in Ho as [Ho|[<-|[]]]; simpl.
      * destruct (Hops o Ho) as (? & ? & ?). repeat split; [lia | assumption | lia].
      * repeat split; lia.
    + rewrite map_app. simpl. apply NoDup_snoc; [assumption|].
      intros Hin. apply in_map_iff in Hin as (o & E & Ho). destruct (Hops o Ho). lia.
    + rewrite map_app. simpl. apply NoDup_snoc; [assumption|].
      intros Hin. apply in_map_iff in Hin as (o & E & Ho). destruct (Hops o Ho) as (? & ? & ?). lia.
    + intros o Ho. apply in_app_or in Ho as [Ho|[<-|[]]]; [now apply Hok|].
      unfold op_ok, op_ok_at. simpl. split; [exact Hnone|].
      apply find_kid_None_lt with (n := s_next s); [|lia].
      intros c Hc. apply (wf_kids _ Hwf c Hc).
    + exact Htxn.
    + intros o r Ho Hact Hr. apply in_app_or in Ho as [Ho|[<-|[]]]; [now apply (Hfresh o r)|].
      unfold row_key, o_key. simpl. specialize (Hts r Hr). intros E. inv E. lia.
Qed.

Lemma wf_insert e s : WF s -> WF (do_insert e s).
Proof.
  intros Hwf. unfold do_insert. open_op s e Hwf.
  destruct (existsb (key_eqb (o_key o)) (map row_key (s_rows s ++ txn))); [now apply wf_stop|].
  destruct Hoo as (d & Hd & Hown & Hrc & Hdead & Hargs & Hopts).
  destruct Hown as (Ho1 & Ho2 & Ho3 & Ho4).
  constructor; simpl.
  - apply (wf_rows _ Hwf).
  - apply (wf_dirs _ Hwf).
  - apply (wf_kids _ Hwf).
  - unfold proc_ok, run_ok. simpl. split; [|split; [|split; [|split; [|split; [|split]]]]].
    + intros r Hr. rewrite app_assoc in Hr. apply in_app_or in Hr as [Hr|[<-|[]]]; [now apply Hts|].
      simpl. apply (Hops o Hin).
    + intros o' Ho'. apply upd_op_In in Ho' as [[Ho' _]|(o1 & H1 & _ & ->)]; [now apply Hops | now apply (Hops o1)].
    + now rewrite upd_op_ts.
    + now rewrite upd_op_exec.
    + intros o' Ho'. apply upd_op_In in Ho' as [[Ho' _]|(o1 & H1 & _ & ->)]; [now apply Hok|].
      apply op_ok_set. exact I.
    + apply rows_good_app; [exact Htxn|]. intros r [<-|[]]. exists d. split; [exact Hd|].
      unfold good. simpl. repeat split; auto.
      * apply (wf_dirs _ Hwf _ _ Hd).
      * rewrite Ho3. assumption.
      * rewrite Ho3. assumption.
    + intros o' r Ho' Hact' Hr. apply upd_op_In in Ho' as [[Ho' Hne]|(o1 & H1 & _ & ->)].
      * rewrite app_assoc in Hr. apply in_app_or in Hr as [Hr|[<-|[]]]; [now apply (Hfresh o' r)|].
        change (row_key (row_of o)) with (o_key o). apply (ops_key_neq ops); auto. congruence.
      * destruct o1; discriminate.
Qed.

Lemma commit_phase_fields o :
  o_ts (commit_phase o) = o_ts o /\ o_head (commit_phase o) = o_head o /\ o_exec (commit_phase o) = o_exec o /\
  o_key (commit_phase o) = o_key o /\ (active (commit_phase o) = true -> active o = true /\ commit_phase o = o).
Proof.
  unfold commit_phase, active. destruct o as [t ts h n e p]. destruct p; simpl; repeat split; auto; discriminate.
Qed.

Lemma wf_commit s : WF s -> WF (do_commit s).
Proof.
  intros Hwf. unfold do_commit, with_run.
  destruct (s_proc s) as [[last hd ops txn| | | |]|] eqn:Hp; try exact Hwf.
  open_run Hwf Hp.
  constructor; simpl.
  - apply rows_good_app; [apply (wf_rows _ Hwf) | exact Htxn].
  - apply (wf_dirs _ Hwf).
  - apply (wf_kids _ Hwf).
  - unfold proc_ok, run_ok. simpl. split; [|split; [|split; [|split; [|split; [|split]]]]].
    + intros r Hr. rewrite app_nil_r in Hr. now apply Hts.
    + intros o' Ho'. apply in_map_iff in Ho' as (o & <- & Ho).
      destruct (commit_phase_fields o) as (-> & -> & -> & _). now apply Hops.
    + rewrite map_map. erewrite map_ext; [exact Hnd1|]. intros o. apply commit_phase_fields.
    + rewrite map_map. erewrite map_ext; [exact Hnd2|]. intros o. apply commit_phase_fields.
    + intros o' Ho'. apply in_map_iff in Ho' as (o & <- & Ho).
      specialize (Hok o Ho). unfold commit_phase. destruct (o_phase o) eqn:E; try exact Hok.
      apply op_ok_set. exact I.
    + intros r [].
    + intros o' r Ho' Hact Hr. apply in_map_iff in Ho' as (o & <- & Ho).
      destruct (commit_phase_fields o) as (_ & _ & _ & -> & Ha). destruct (Ha Hact) as [Ha' _].
      rewrite app_nil_r in Hr. now apply (Hfresh o r).
Qed.

(* ------------------------------------------------------------------ the task processes *)

Lemma add_n_incl e l : incl l [e] -> incl (add_n e l) [e].
Proof.
  unfold add_n. intros H. destruct (existsb (N.eqb e) l); [assumption|].
  intros x Hx. apply in_app_or in Hx as [Hx|[<-|[]]]; [now apply H | now left].
Qed.

Definition same_kid (f : kid -> kid) : Prop :=
  forall x, k_exec (f x) = k_exec x /\ k_key (f x) = k_key x /\ k_live (f x) = k_live x /\ k_rc (f x) = k_rc x.

Lemma dead_kid_upd K o rc e f : same_kid f -> dead_kid K o rc -> dead_kid (upd_kid e f K) o rc.
Proof.
  intros Hf (c & H1 & H2 & H3 & H4). unfold dead_kid.
  rewrite find_kid_upd by (intros x; apply Hf).
  destruct (o_exec o =? e) eqn:E.
  - apply N.eqb_eq in E. rewrite <- E, H1. simpl. exists (f c). destruct (Hf c) as (? & ? & ? & ?).
    repeat split; congruence.
  - exists c. auto.
Qed.

(* the part of a directory that a writing task process leaves alone *)
Definition same_meta (d d' : dir) : Prop :=
  d_owner d' = d_owner d /\ d_head d' = d_head d /\ d_need d' = d_need d /\ d_partial d' = d_partial d /\
  d_rc d' = d_rc d /\ d_args d' = d_args d /\ d_opts d' = d_opts d.

Lemma op_ok_kid_write D K o e c d d' f :
  find_kid e K = Some c -> lookup (k_key c) D = Some d -> d_owner d = e -> d_rc d = None ->
  same_meta d d' -> same_kid f ->
  op_ok D K o -> op_ok (put (k_key c) d' D) (upd_kid e f K) o.
Proof.
  intros Hfk Hd Hown Hrc (M1 & M2 & M3 & M4 & M5 & M6 & M7) Hf.
  assert (Hfe : forall x, k_exec (f x) = k_exec x) by (intros x; apply Hf).
  unfold op_ok. destruct (o_phase o) eqn:Hph; unfold op_ok_at; try exact (fun H => H).
  - (* planned *) intros [H1 H2]. rewrite lookup_put, find_kid_upd by assumption.
    destruct (key_eqb (o_key o) (k_key c)) eqn:Ek.
    + apply key_eqb_eq in Ek. rewrite Ek in H1. congruence.
    + destruct (o_exec o =? e) eqn:Ee; [apply N.eqb_eq in Ee; rewrite Ee in H2; congruence | auto].
  - (* made *) intros (H2 & d0 & H1 & Ho & Hrest).
    assert (Ee : (o_exec o =? e) = false).
    { destruct (o_exec o =? e) eqn:Ee; [apply N.eqb_eq in Ee; rewrite Ee in H2; congruence | reflexivity]. }
    rewrite lookup_put, find_kid_upd, Ee by assumption.
    destruct (key_eqb (o_key o) (k_key c)) eqn:Ek.
    + apply key_eqb_eq in Ek. rewrite Ek in H1. rewrite Hd in H1. inversion H1; subst d0.
      destruct Ho as (Ho & _). rewrite Hown in Ho. apply N.eqb_neq in Ee. congruence.
    + split; [assumption|]. exists d0. auto.
  - (* running *) intros (d0 & c0 & H1 & Ho & H2 & H3 & H4).
    rewrite lookup_put, find_kid_upd by assumption.
    assert (Hk : exists c1, (if o_exec o =? e then option_map f (find_kid e K) else find_kid (o_exec o) K) = Some c1
                 /\ k_key c1 = o_key o /\ k_live c1 = k_live c0 /\ k_rc c1 = k_rc c0).
    { destruct (o_exec o =? e) eqn:Ee.
      - apply N.eqb_eq in Ee. rewrite Ee in H2. rewrite H2. simpl. exists (f c0).
        destruct (Hf c0) as (? & ? & ? & ?). repeat split; congruence.
      - exists c0. auto. }
    destruct Hk as (c1 & Hc1 & Hk1 & Hk2 & Hk3).
    destruct (key_eqb (o_key o) (k_key c)) eqn:Ek.
    + apply key_eqb_eq in Ek. rewrite Ek in H1. rewrite Hd in H1. inversion H1; subst d0.
      exists d', c1. rewrite Hk2, Hk3. unfold owned in *. repeat split; try congruence; try tauto.
      all: destruct Ho as (? & ? & ? & ?); congruence.
    + exists d0, c1. rewrite Hk2, Hk3. auto.
  - (* exited *) intros (d0 & H1 & Ho & H2 & H3). rewrite lookup_put.
    destruct (key_eqb (o_key o) (k_key c)) eqn:Ek.
    + apply key_eqb_eq in Ek. rewrite Ek in H1. rewrite Hd in H1. inversion H1; subst d0. congruence.
    + exists d0. split; [|split; [|split]]; auto. now apply dead_kid_upd.
  - (* checked *) intros (d0 & H1 & Ho & H2 & H3 & H4). unfold finished. rewrite lookup_put.
    destruct (key_eqb (o_key o) (k_key c)) eqn:Ek.
    + apply key_eqb_eq in Ek. rewrite Ek in H1. rewrite Hd in H1. inversion H1; subst d0. congruence.
    + exists d0. split; [|split; [|split; [|split]]]; auto. now apply dead_kid_upd.
  - (* args *) intros (d0 & H1 & Ho & H2 & H3 & H4). unfold finished. rewrite lookup_put.
    destruct (key_eqb (o_key o) (k_key c)) eqn:Ek.
    + apply key_eqb_eq in Ek. rewrite Ek in H1. rewrite Hd in H1. inversion H1; subst d0. congruence.
    + exists d0. split; [|split; [|split; [|split]]]; auto. now apply dead_kid_upd.
  - (* opts *) intros (d0 & H1 & Ho & H2 & H3 & H4). unfold finished. rewrite lookup_put.
    destruct (key_eqb (o_key o) (k_key c)) eqn:Ek.
    + apply key_eqb_eq in Ek. rewrite Ek in H1. rewrite Hd in H1. inversion H1; subst d0. congruence.
    + exists d0. split; [|split; [|split; [|split]]]; auto. now apply dead_kid_upd.
Qed.

Lemma restore_ok_frame D D' a txn st :
  (forall k d, lookup k D = Some d -> d_rc d = Some 0 \/ d_partial d = true -> lookup k D' = lookup k D) ->
  restore_ok D a txn st -> restore_ok D' a txn st.
Proof.
  intros HD [Ha Hst]. split; [exact Ha|]. destruct st; auto.
  destruct Hst as (H1 & H2 & H3 & H4). repeat split; auto.
  - intros i r od Hi Hn. destruct (H3 i r od Hi Hn) as (d & -> & Hl). exists d. split; [reflexivity|].
    rewrite (HD _ _ Hl); [assumption|]. left. apply nth_error_In in Hn. apply (Ha r d Hn).
  - intros Hc. destruct (H4 Hc) as (r & d & Hn & Hl). exists r, d. split; [assumption|].
    rewrite (HD _ _ Hl); [assumption|]. right. reflexivity.
Qed.

Lemma kid_ok_same (f : kid -> kid) D c : same_kid f -> kid_ok D c -> kid_ok D (f c).
Proof.
  intros Hf H. destruct (Hf c) as (E1 & E2 & E3 & _). unfold kid_ok. rewrite E1, E2, E3. exact H.
Qed.

Lemma wf_kid_update s e c d' f :
  WF s -> find_kid e (s_kids s) = Some c -> k_live c = true ->
  (forall d, lookup (k_key c) (s_dirs s) = Some d -> same_meta d d' /\ incl (d_started d') [d_owner d']) ->
  same_kid f ->
  WF (with_kids (upd_kid e f (s_kids s)) (with_dirs (put (k_key c) d' (s_dirs s)) s)).
Proof.
  intros Hwf Hfk Hlive Hd' Hf.
  pose proof (find_kid_In _ _ _ Hfk) as [Hin He].
  destruct (wf_kids _ Hwf c Hin) as [Hk _]. destruct (Hk Hlive) as (d & Hd & Hown & Hpart & Hrc).
  destruct (Hd' d Hd) as [Hm Hincl].
  assert (Hclosed : forall k dk, lookup k (s_dirs s) = Some dk -> d_rc dk = Some 0 \/ d_partial dk = true ->
                                 lookup k (put (k_key c) d' (s_dirs s)) = lookup k (s_dirs s)).
  { intros k dk Hl Hc. apply lookup_put_neq. intros ->. rewrite Hd in Hl. inversion Hl; subst dk.
    destruct Hc; congruence. }
  assert (Hrows : forall R, rows_good (s_dirs s) R -> rows_good (put (k_key c) d' (s_dirs s)) R).
  { intros R HR. apply rows_good_ext with (D := s_dirs s); [|exact HR].
    intros r Hr. destruct (HR r Hr) as (dr & Hl & Hg). apply (Hclosed _ _ Hl). left. apply Hg. }
  assert (Hkid : forall c0, In c0 (s_kids s) -> kid_ok (put (k_key c) d' (s_dirs s)) c0).
  { intros c0 Hc0 Hl0. destruct (wf_kids _ Hwf c0 Hc0) as [Hk0 _]. destruct (Hk0 Hl0) as (d0 & Hd0 & H1 & H2 & H3).
    rewrite lookup_put. destruct (key_eqb (k_key c0) (k_key c)) eqn:Ek.
    - apply key_eqb_eq in Ek. rewrite Ek, Hd in Hd0. inversion Hd0; subst d0.
      destruct Hm as (M1 & _ & _ & M4 & M5 & _). exists d'. repeat split; congruence.
    - exists d0. auto. }
  constructor; simpl.
  - apply Hrows, (wf_rows _ Hwf).
  - apply dirs_ok_put; [apply (wf_dirs _ Hwf) | assumption].
  - intros c1 Hc1. apply upd_kid_In in Hc1 as [[Hc1 _]|(c0 & Hc0 & _ & ->)].
    + split; [now apply Hkid | apply (wf_kids _ Hwf c1 Hc1)].
    + split; [apply kid_ok_same; auto|]. destruct (Hf c0) as (-> & _). apply (wf_kids _ Hwf c0 Hc0).
  - unfold proc_ok. simpl. pose proof (wf_proc _ Hwf) as Hpr. unfold proc_ok in Hpr.
    destruct (s_proc s) as [[last hd ops txn|a txn st|snap| |]|]; auto.
    + destruct Hpr as (Hts & Hops & Hnd1 & Hnd2 & Hok & Htxn & Hfresh).
      unfold run_ok. simpl. repeat split; auto; try apply Hops; auto.
      intros o Ho. apply op_ok_kid_write with (d := d); auto. congruence.
    + apply restore_ok_frame with (D := s_dirs s); assumption.
Qed.

Lemma same_meta_started l d : same_meta d (set_started l d).
Proof. destruct d; repeat split. Qed.
Lemma same_meta_done l d : same_meta d (set_done l d).
Proof. destruct d; repeat split. Qed.

Lemma op_ok_kid_exit D K o c d rc :
  find_kid (k_exec c) K = Some c -> k_live c = true -> lookup (k_key c) D = Some d -> d_owner d = k_exec c -> d_rc d = None ->
  op_ok D K o ->
  op_ok (put (k_key c) (set_rc (Some rc) d) D)
        (upd_kid (k_exec c) (fun c' => mk_kid (k_exec c') (k_key c') (k_script c') rc false) K) o.
Proof.
  intros Hfk Hlive Hd Hown Hrc.
  set (f := fun c' : kid => mk_kid (k_exec c') (k_key c') (k_script c') rc false).
  assert (Hfe : forall x, k_exec (f x) = k_exec x) by reflexivity.
  (* a dead task process of another execution is not affected *)
  assert (Hdead : forall rc0, dead_kid K o rc0 -> o_key o <> k_key c -> dead_kid (upd_kid (k_exec c) f K) o rc0).
  { intros rc0 (c1 & H1 & H2 & H3 & H4) Hne. unfold dead_kid. rewrite find_kid_upd by assumption.
    destruct (o_exec o =? k_exec c) eqn:Ee.
    - apply N.eqb_eq in Ee. rewrite Ee, Hfk in H1. inversion H1; subst c1. congruence.
    - exists c1. auto. }
  unfold op_ok. destruct (o_phase o) eqn:Hph; unfold op_ok_at; try exact (fun H => H).
  - intros [H1 H2]. rewrite lookup_put, find_kid_upd by assumption.
    destruct (key_eqb (o_key o) (k_key c)) eqn:Ek.
    + apply key_eqb_eq in Ek. rewrite Ek in H1. congruence.
    + destruct (o_exec o =? k_exec c) eqn:Ee; [apply N.eqb_eq in Ee; rewrite Ee in H2; congruence | auto].
  - intros (H2 & d0 & H1 & Ho & Hrest).
    assert (Ee : (o_exec o =? k_exec c) = false).
    { destruct (o_exec o =? k_exec c) eqn:Ee; [apply N.eqb_eq in Ee; rewrite Ee in H2; congruence | reflexivity]. }
    rewrite lookup_put, find_kid_upd, Ee by assumption.
    destruct (key_eqb (o_key o) (k_key c)) eqn:Ek.
    + apply key_eqb_eq in Ek. rewrite Ek in H1. rewrite Hd in H1. inversion H1; subst d0.
      destruct Ho as (Ho & _). apply N.eqb_neq in Ee. congruence.
    + split; [assumption|]. exists d0. auto.
  - intros (d0 & c0 & H1 & Ho & H2 & H3 & H4).
    rewrite lookup_put, find_kid_upd by assumption.
    destruct (o_exec o =? k_exec c) eqn:Ee.
    + apply N.eqb_eq in Ee. rewrite Ee, Hfk in H2. inversion H2; subst c0.
      rewrite <- H3, key_eqb_refl. rewrite <- H3, Hd in H1. inversion H1; subst d0.
      rewrite Hfk. simpl. exists (set_rc (Some rc) d), (f c). destruct Ho as (? & ? & ? & ?).
      destruct d; simpl in *. repeat split; auto.
    + destruct (key_eqb (o_key o) (k_key c)) eqn:Ek.
      * apply key_eqb_eq in Ek. rewrite Ek, Hd in H1. inversion H1; subst d0.
        destruct Ho as (Ho & _). apply N.eqb_neq in Ee. congruence.
      * exists d0, c0. auto.
  - intros (d0 & H1 & Ho & H2 & H3). rewrite lookup_put.
    destruct (key_eqb (o_key o) (k_key c)) eqn:Ek.
    + apply key_eqb_eq in Ek. rewrite Ek in H1. rewrite Hd in H1. inversion H1; subst d0. congruence.
    + exists d0. split; [|split; [|split]]; auto. apply Hdead; auto.
      intros E. rewrite E, key_eqb_refl in Ek. discriminate.
  - intros (d0 & H1 & Ho & H2 & H3 & H4). unfold finished. rewrite lookup_put.
    destruct (key_eqb (o_key o) (k_key c)) eqn:Ek.
    + apply key_eqb_eq in Ek. rewrite Ek in H1. rewrite Hd in H1. inversion H1; subst d0. congruence.
    + exists d0. split; [|split; [|split; [|split]]]; auto. apply Hdead; auto.
      intros E. rewrite E, key_eqb_refl in Ek. discriminate.
  - intros (d0 & H1 & Ho & H2 & H3 & H4). unfold finished. rewrite lookup_put.
    destruct (key_eqb (o_key o) (k_key c)) eqn:Ek.
    + apply key_eqb_eq in Ek. rewrite Ek in H1. rewrite Hd in H1. inversion H1; subst d0. congruence.
    + exists d0. split; [|split; [|split; [|split]]]; auto. apply Hdead; auto.
      intros E. rewrite E, key_eqb_refl in Ek. discriminate.
  - intros (d0 & H1 & Ho & H2 & H3 & H4). unfold finished. rewrite lookup_put.
    destruct (key_eqb (o_key o) (k_key c)) eqn:Ek.
    + apply key_eqb_eq in Ek. rewrite Ek in H1. rewrite Hd in H1. inversion H1; subst d0. congruence.
    + exists d0. split; [|split; [|split; [|split]]]; auto. apply Hdead; auto.
      intros E. rewrite E, key_eqb_refl in Ek. discriminate.
Qed.

Lemma wf_kid_exit s c rc :
  WF s -> find_kid (k_exec c) (s_kids s) = Some c -> k_live c = true -> WF (kid_exit c rc s).
Proof.
  intros Hwf Hfk Hlive.
  pose proof (find_kid_In _ _ _ Hfk) as [Hin _].
  destruct (wf_kids _ Hwf c Hin) as [Hk _]. destruct (Hk Hlive) as (d & Hd & Hown & Hpart & Hrc).
  unfold kid_exit, mark_rc. rewrite Hd, Hown, N.eqb_refl.
  set (D' := put (k_key c) (set_rc (Some rc) d) (s_dirs s)).
  set (f := fun c' : kid => mk_kid (k_exec c') (k_key c') (k_script c') rc false).
  assert (Hclosed : forall k dk, lookup k (s_dirs s) = Some dk -> d_rc dk = Some 0 \/ d_partial dk = true ->
                                 lookup k D' = lookup k (s_dirs s)).
  { intros k dk Hl Hc. apply lookup_put_neq. intros ->. rewrite Hd in Hl. inversion Hl; subst dk.
    destruct Hc; congruence. }
  assert (Hrows : forall R, rows_good (s_dirs s) R -> rows_good D' R).
  { intros R HR. apply rows_good_ext with (D := s_dirs s); [|exact HR].
    intros r Hr. destruct (HR r Hr) as (dr & Hl & Hg). apply (Hclosed _ _ Hl). left. apply Hg. }
  constructor; simpl.
  - apply Hrows, (wf_rows _ Hwf).
  - apply dirs_ok_put; [apply (wf_dirs _ Hwf)|]. destruct d; simpl. apply (wf_dirs _ Hwf _ _ Hd).
  - intros c1 Hc1. apply upd_kid_In in Hc1 as [[Hc1 Hne]|(c0 & Hc0 & _ & ->)].
    + split; [|apply (wf_kids _ Hwf c1 Hc1)]. intros Hl1.
      destruct (wf_kids _ Hwf c1 Hc1) as [Hk1 _]. destruct (Hk1 Hl1) as (d1 & Hd1 & H1 & H2 & H3).
      exists d1. split; [|auto]. unfold D'. rewrite lookup_put_neq; [assumption|].
      intros E. rewrite E, Hd in Hd1. inversion Hd1; subst d1. congruence.
    + split; [intros Hl; discriminate | apply (wf_kids _ Hwf c0 Hc0)].
  - unfold proc_ok. simpl. pose proof (wf_proc _ Hwf) as Hpr. unfold proc_ok in Hpr.
    destruct (s_proc s) as [[last hd ops txn|a txn st|snap| |]|]; auto.
    + destruct Hpr as (Hts & Hops & Hnd1 & Hnd2 & Hok & Htxn & Hfresh).
      unfold run_ok. simpl. repeat split; auto; try apply Hops; auto.
      intros o Ho. apply op_ok_kid_exit; auto.
    + apply restore_ok_frame with (D := s_dirs s); assumption.
Qed.

Lemma wf_child e s : WF s -> WF (do_child e s).
Proof.
  intros Hwf. unfold do_child.
  destruct (find_kid e (s_kids s)) as [c|] eqn:Hfk; try exact Hwf.
  destruct (k_live c) eqn:Hlive; try exact Hwf.
  pose proof (find_kid_In _ _ _ Hfk) as [Hin He].
  destruct (k_script c) as [|a rest] eqn:Hs.
  - apply wf_kid_exit; auto. now rewrite He.
  - destruct (wf_kids _ Hwf c Hin) as [Hk _]. destruct (Hk Hlive) as (d & Hd & Hown & Hpart & Hrc).
    unfold child_write. rewrite Hd.
    apply wf_kid_update; auto.
    + intros d0 Hd0. rewrite Hd in Hd0. inversion Hd0; subst d0. destruct a.
      * split; [apply same_meta_started|]. destruct d; simpl in *. subst. apply add_n_incl.
        apply (wf_dirs _ Hwf _ _ Hd).
      * split; [destruct d; repeat split|]. destruct d; simpl in *. subst. apply add_n_incl.
        apply (wf_dirs _ Hwf _ _ Hd).
    + intros x. simpl. auto.
Qed.

Lemma wf_kill e sig s : WF s -> WF (do_kill e sig s).
Proof.
  intros Hwf. unfold do_kill.
  destruct (find_kid e (s_kids s)) as [c|] eqn:Hfk; try exact Hwf.
  destruct (k_live c) eqn:Hlive; try exact Hwf.
  pose proof (find_kid_In _ _ _ Hfk) as [Hin He].
  apply wf_kid_exit; auto. now rewrite He.
Qed.

(* ------------------------------------------------------------------ restore *)

Ltac open_restore s Hwf :=
  unfold with_restore;
  let a := fresh "a" in let txn := fresh "txn" in let st := fresh "st" in let Hp := fresh "Hp" in
  destruct (s_proc s) as [[? ? ? ?|a txn st| | |]|] eqn:Hp; try solve [exact Hwf | reflexivity | tauto];
  let Hpr := fresh "Hpr" in
  pose proof (wf_proc _ Hwf) as Hpr; unfold proc_ok in Hpr; rewrite Hp in Hpr;
  destruct Hpr as [Hao Hst].

Lemma wf_rstage s : WF s -> WF (do_rstage s).
Proof.
  intros Hwf. unfold do_rstage. open_restore s Hwf. destruct st; try exact Hwf.
  destruct Hwf as [H1 H2 H3 H4]. constructor; simpl; auto. unfold proc_ok. simpl. split; auto.
Qed.

Lemma wf_rinsert s : WF s -> WF (do_rinsert s).
Proof.
  intros Hwf. unfold do_rinsert. open_restore s Hwf. destruct st; try exact Hwf.
  destruct (nodupb (map row_key (map fst a ++ s_rows s))).
  - destruct Hwf as [H1 H2 H3 H4]. constructor; simpl; auto. unfold proc_ok. simpl. split; auto.
    split; [reflexivity|]. split; [lia|]. split; [intros; lia | discriminate].
  - destruct Hwf as [H1 H2 H3 H4]. constructor; simpl; auto. unfold proc_ok. simpl. split; auto.
Qed.

Lemma wf_rfail s : WF s -> WF (do_rfail s).
Proof.
  intros Hwf. unfold do_rfail. open_restore s Hwf.
  destruct st; try exact Hwf; destruct Hwf as [H1 H2 H3 H4]; constructor; simpl; auto;
    unfold proc_ok; simpl; split; auto.
Qed.

Lemma good_set_partial_incl r d : good r d -> incl (d_started (set_partial true d)) [d_owner (set_partial true d)].
Proof. intros (_ & _ & H & _). destruct d; exact H. Qed.

Lemma wf_rcopy_begin s : WF s -> WF (do_rcopy_begin s).
Proof.
  intros Hwf. unfold do_rcopy_begin. open_restore s Hwf. destruct st as [| |c copying| |]; try exact Hwf.
  destruct copying; try exact Hwf.
  destruct (nth_error a c) as [[r [d|]]|] eqn:Hn; try exact Hwf.
  - destruct (has_dir (s_dirs s) (row_key r)) eqn:Hh.
    + destruct Hwf as [H1 H2 H3 H4]. constructor; simpl; auto. unfold proc_ok. simpl. split; auto.
    + apply has_dir_false in Hh. destruct Hst as (Ht & Hc & Hdone & _).
      pose proof (Hao r d (nth_error_In _ _ Hn)) as Hg.
      assert (HD : forall k, k <> row_key r -> lookup k (put (row_key r) (set_partial true d) (s_dirs s)) = lookup k (s_dirs s)).
      { intros k Hne. now apply lookup_put_neq. }
      constructor; simpl.
      * apply rows_good_ext with (D := s_dirs s); [|apply (wf_rows _ Hwf)].
        intros r0 Hr0. apply HD. intros E. destruct (wf_rows _ Hwf r0 Hr0) as (d0 & Hd0 & _). congruence.
      * apply dirs_ok_put; [apply (wf_dirs _ Hwf) | now apply (good_set_partial_incl r)].
      * apply kids_frame with (D := s_dirs s) (kk := row_key r); [exact HD | | apply (wf_kids _ Hwf)].
        intros c0 Hc0 Hl0 E. destruct (wf_kids _ Hwf c0 Hc0) as [Hk _]. destruct (Hk Hl0) as (d0 & Hd0 & _). congruence.
      * unfold proc_ok. simpl. split; [exact Hao|]. repeat split; auto.
        -- intros i r0 od Hi Hn0. destruct (Hdone i r0 od Hi Hn0) as (d0 & -> & Hl). exists d0. split; [reflexivity|].
           rewrite HD; [assumption|]. intros E. congruence.
        -- intros _. exists r, d. split; [assumption | apply lookup_put_eq].
  - destruct Hwf as [H1 H2 H3 H4]. constructor; simpl; auto. unfold proc_ok. simpl. split; auto.
Qed.

Lemma wf_rcopy_end s : WF s -> WF (do_rcopy_end s).
Proof.
  intros Hwf. unfold do_rcopy_end. open_restore s Hwf. destruct st as [| |c copying| |]; try exact Hwf.
  destruct copying; try exact Hwf.
  destruct (nth_error a c) as [[r [d|]]|] eqn:Hn; try exact Hwf.
  destruct Hst as (Ht & Hc & Hdone & Hcopy). destruct (Hcopy eq_refl) as (r' & d' & Hn' & Hl').
  try rewrite Hn in Hn'. inversion Hn'; subst r' d'. clear Hn'.
  pose proof (Hao r d (nth_error_In _ _ Hn)) as Hg.
  assert (HD : forall k, k <> row_key r -> lookup k (put (row_key r) d (s_dirs s)) = lookup k (s_dirs s)).
  { intros k Hne. now apply lookup_put_neq. }
  assert (Hnp : forall k d0, lookup k (s_dirs s) = Some d0 -> d_partial d0 = false -> k <> row_key r).
  { intros k d0 Hd0 Hp0 E. rewrite E, Hl' in Hd0. inversion Hd0; subst d0. destruct d; discriminate. }
  constructor; simpl.
  - apply rows_good_ext with (D := s_dirs s); [|apply (wf_rows _ Hwf)].
    intros r0 Hr0. apply HD. destruct (wf_rows _ Hwf r0 Hr0) as (d0 & Hd0 & Hg0). apply (Hnp _ _ Hd0). apply Hg0.
  - apply dirs_ok_put; [apply (wf_dirs _ Hwf) | apply Hg].
  - apply kids_frame with (D := s_dirs s) (kk := row_key r); [exact HD | | apply (wf_kids _ Hwf)].
    intros c0 Hc0 Hl0. destruct (wf_kids _ Hwf c0 Hc0) as [Hk _]. destruct (Hk Hl0) as (d0 & Hd0 & _ & Hp0 & _).
    apply (Hnp _ _ Hd0 Hp0).
  - unfold proc_ok. simpl. split; [exact Hao|].
    assert (Hlt : (c < length a)%nat) by (apply nth_error_Some; congruence).
    repeat split; auto; try lia; try discriminate.
    intros i r0 od Hi Hn0. destruct (Nat.eq_dec i c) as [->|Hne].
    + rewrite Hn in Hn0. inversion Hn0; subst r0 od. exists d. split; [reflexivity | apply lookup_put_eq].
    + destruct (Hdone i r0 od ltac:(lia) Hn0) as (d0 & -> & Hl). exists d0. split; [reflexivity|].
      rewrite HD; [assumption|]. apply (Hnp _ _ Hl). apply (Hao r0 d0 (nth_error_In _ _ Hn0)).
Qed.

Lemma wf_rcommit s : WF s -> WF (do_rcommit s).
Proof.
  intros Hwf. unfold do_rcommit. open_restore s Hwf. destruct st as [| |c copying| |]; try exact Hwf.
  destruct copying; try exact Hwf.
  destruct (Nat.eqb c (length a)) eqn:Ec; try exact Hwf. apply Nat.eqb_eq in Ec.
  destruct Hst as (Ht & Hc & Hdone & _).
  constructor; simpl.
  - apply rows_good_app; [apply (wf_rows _ Hwf)|]. subst txn.
    intros r Hr. apply in_map_iff in Hr as ([r0 od] & <- & Hin). simpl.
    apply In_nth_error in Hin as [i Hi].
    assert (Hlt : (i < c)%nat) by (rewrite Ec; apply nth_error_Some; congruence).
    destruct (Hdone i r0 od Hlt Hi) as (d & -> & Hl). exists d. split; [assumption|].
    apply (Hao r0 d (nth_error_In _ _ Hi)).
  - apply (wf_dirs _ Hwf).
  - apply (wf_kids _ Hwf).
  - unfold proc_ok. simpl. split; auto.
Qed.

(* ------------------------------------------------------------------ gc, clean *)

Lemma wf_gc_remove k s : WF s -> WF (do_gc_remove k s).
Proof.
  intros Hwf. unfold do_gc_remove.
  destruct (s_proc s) as [[| |snap| |]|] eqn:Hp; try exact Hwf.
  destruct (existsb (key_eqb k) snap) eqn:Hs; simpl; try exact Hwf.
  destruct (live_at k (s_kids s)) eqn:Hl; try exact Hwf.
  pose proof (wf_proc _ Hwf) as Hpr. unfold proc_ok in Hpr. rewrite Hp in Hpr.
  assert (HD : forall k', k' <> k -> lookup k' (remove_key k (s_dirs s)) = lookup k' (s_dirs s)).
  { intros k' Hne. rewrite lookup_remove, key_eqb_neq; auto. }
  constructor; simpl.
  - apply rows_good_ext with (D := s_dirs s); [|apply (wf_rows _ Hwf)].
    intros r Hr. apply HD. intros E. subst snap.
    assert (existsb (key_eqb k) (map row_key (s_rows s)) = true); [|congruence].
    apply existsb_key. rewrite <- E. now apply in_map.
  - apply dirs_ok_remove, (wf_dirs _ Hwf).
  - apply kids_frame with (D := s_dirs s) (kk := k); [exact HD | | apply (wf_kids _ Hwf)].
    apply live_at_false. assumption.
  - unfold proc_ok. simpl. rewrite Hp. exact Hpr.
Qed.

Lemma wf_clean_all s : WF s -> WF (do_clean_all s).
Proof.
  intros Hwf. unfold do_clean_all.
  destruct (s_proc s) as [[| | | |]|] eqn:Hp; try exact Hwf.
  destruct (any_live (s_kids s)) eqn:Hl; try exact Hwf.
  constructor; simpl.
  - intros r [].
  - intros k d H. discriminate.
  - intros c Hc. split; [|apply (wf_kids _ Hwf c Hc)].
    intros Hlive. rewrite (any_live_false _ Hl c Hc) in Hlive. discriminate.
  - unfold proc_ok. simpl. rewrite Hp. exact I.
Qed.

Lemma wf_clean_index s : WF s -> WF (do_clean_index s).
Proof.
  intros Hwf. unfold do_clean_index.
  destruct (s_proc s) as [[| | | |]|] eqn:Hp; try exact Hwf.
  destruct (any_live (s_kids s)) eqn:Hl; try exact Hwf.
  constructor; simpl.
  - intros r [].
  - apply (wf_dirs _ Hwf).
  - apply (wf_kids _ Hwf).
  - unfold proc_ok. simpl. rewrite Hp. exact I.
Qed.

Lemma wf_clean_dir k s : WF s -> WF (do_clean_dir k s).
Proof.
  intros Hwf. unfold do_clean_dir.
  destruct (s_proc s) as [[| | | |]|] eqn:Hp; try exact Hwf.
  destruct (any_live (s_kids s)) eqn:Hl; try exact Hwf.
  destruct (s_rows s) as [|r0 rs] eqn:Hr; try exact Hwf.
  constructor; simpl.
  - rewrite Hr. intros r [].
  - apply dirs_ok_remove, (wf_dirs _ Hwf).
  - intros c Hc. split; [|apply (wf_kids _ Hwf c Hc)].
    intros Hlive. rewrite (any_live_false _ Hl c Hc) in Hlive. discriminate.
  - unfold proc_ok. simpl. rewrite Hp. exact I.
Qed.

(* ------------------------------------------------------------------ all labels *)

Lemma wf_init : WF init.
Proof.
  constructor; simpl.
  - intros r [].
  - intros k d H. discriminate.
  - intros c [].
  - exact I.
Qed.

Lemma wf_apply clock l s : label_ok l -> WF s -> WF (apply clock l s).
Proof.
  intros Hl Hwf. destruct l; simpl.
  - now apply wf_begin.
  - now apply wf_alloc.
  - now apply wf_mkdir.
  - now apply wf_spawn.
  - now apply wf_child.
  - now apply wf_kill.
  - now apply wf_reap.
  - now apply wf_check.
  - now apply wf_write_args.
  - now apply wf_write_opts.
  - now apply wf_insert.
  - now apply wf_commit.
  - now apply wf_rstage.
  - now apply wf_rinsert.
  - now apply wf_rcopy_begin.
  - now apply wf_rcopy_end.
  - now apply wf_rcommit.
  - now apply wf_rfail.
  - now apply wf_gc_remove.
  - now apply wf_clean_all.
  - now apply wf_clean_index.
  - now apply wf_clean_dir.
  - now apply wf_stop.
  - now apply wf_stop.
Qed.

Lemma wf_run clock ls : Forall label_ok ls -> forall s, WF s -> WF (run clock ls s).
Proof.
  unfold run, run_gen. induction ls as [|l ls IH]; simpl; intros Hok s Hwf; [assumption|].
  inversion Hok; subst. apply IH; [assumption|]. now apply (wf_apply clock l s).
Qed.

Lemma wf_reachable clock s : reachable clock s -> WF s.
Proof. intros (ls & Hok & ->). apply wf_run; [assumption | apply wf_init]. Qed.
