(* Consequences of the executor invariants: termination, no deadlock, accounting, ordering,
   failure classification, parallelism limits. *)
From Coq Require Import List Arith Bool Lia Permutation NArith.
From Conductor Require Import Model.Loader Model.Planner Model.Exec Proofs.ListFacts Proofs.ExecInv Proofs.ExecSteps.
Import ListNotations.

Section Thm.
  Variable p : plan.
  Variable jobs : nat.
  Variable stop : bool.
  Variable orc : oracle.
  Hypothesis wf : wf_plan p.
  Hypothesis Hjobs : 1 <= jobs.

  Let n := length (p_ops p).
  Notation Inv := (Inv p jobs stop orc).
  Notation xstep := (xstep p jobs stop orc).
  Notation xiter := (xiter p jobs stop orc).
  Notation xinit := (xinit p jobs).

  Definition nu (s : xstate) : nat := 2 * length (completed s) + length (infl s).

  Lemma NoDup_bounded (l : list nat) k : NoDup l -> (forall x, In x l -> x < k) -> length l <= k.
  Proof.
    intros Hn Hb. rewrite <- (seq_length k 0). apply NoDup_incl_length; [assumption|].
    intros x Hx. apply in_seq. specialize (Hb x Hx). lia.
  Qed.

  Lemma nu_bound s : Inv s -> nu s <= 2 * n.
  Proof.
    intros [Hc _ _ _ _]. unfold nu.
    pose proof (NoDup_bounded _ n (c_nodup _ _ _ _ _ _ _ _ Hc) (c_range _ _ _ _ _ _ _ _ Hc)) as H.
    unfold allqP in H. rewrite !app_length, ?map_length in H. unfold infl, inflP. rewrite app_length, ?map_length. simpl in H. unfold n in *. lia.
  Qed.

  Lemma launch_one_nu s : nu s < nu (launch_one p jobs stop orc s).
  Proof.
    unfold launch_one. destruct (dequeue s) as [[o rS] rP].
    destruct (negb (forallb (succeeded s) (exe_deps p o))).
    - unfold nu, infl, inflP. cbn [completed syncs procs process_finished mark take]. rewrite !app_length. simpl. lia.
    - destruct (launch_fails orc o).
      + destruct stop; unfold nu, infl, inflP;
          cbn [completed syncs procs process_finished mark take set_stopped]; rewrite !app_length; simpl; lia.
      + destruct (op_sync (opi p o)); unfold nu, infl, inflP;
          cbn [completed syncs procs start_sync start_proc take]; rewrite ?map_app, ?app_length, ?map_length; simpl; lia.
  Qed.

  Lemma wait_one_nu s : infl s <> [] -> nu s < nu (wait_one p stop orc s).
  Proof.
    intros Hne. unfold wait_one. destruct (syncs s) as [|o sy] eqn:Esy.
    - assert (Hlen : 0 < length (procs s)).
      { unfold infl, inflP in Hne. rewrite Esy in Hne. destruct (procs s); [simpl in Hne; congruence | simpl; lia]. }
      set (k := pick orc (waits s) mod length (procs s)).
      assert (Hk : k < length (procs s)) by (apply Nat.mod_upper_bound; lia).
      destruct (nth k (procs s) (0, None)) as [o slot].
      pose proof (remove_nth_length k (procs s) Hk) as Hr.
      destruct (negb (N.eqb (rc_of orc o) 0) && stop); unfold nu, infl, inflP;
        cbn [completed syncs procs process_finished mark reap set_stopped];
        rewrite Esy, !app_length, !map_length; simpl; lia.
    - unfold nu, infl, inflP. cbn [completed syncs procs process_finished mark pop_sync]. rewrite Esy, !app_length. simpl. lia.
  Qed.

  Lemma xstep_nu s s' : xstep s = Some s' -> nu s < nu s'.
  Proof.
    unfold Exec.xstep. destruct (stopped s); [discriminate|].
    destruct (gate_open jobs s).
    - intros H; inversion H; subst. apply launch_one_nu.
    - destruct (Nat.eqb (inflight s) 0) eqn:E0; [discriminate|].
      intros H; inversion H; subst. apply wait_one_nu.
      apply Nat.eqb_neq in E0. rewrite inflight_infl in E0. intros E. rewrite E in E0. simpl in E0. lia.
  Qed.

  Lemma xiter_total fuel : forall s, Inv s -> 2 * n < fuel + nu s -> exists s', xiter fuel s = Some s'.
  Proof.
    induction fuel as [|f IH]; intros s HI Hf.
    - pose proof (nu_bound s HI). lia.
    - cbn [Exec.xiter]. destruct (xstep s) as [s1|] eqn:E; [|eauto].
      apply IH.
      + eapply xstep_inv; eauto.
      + pose proof (xstep_nu s s1 E). lia.
  Qed.

  (* C09: the main loop ends within 2*|ops| iterations, for every oracle *)
  Theorem run_terminates : exists s', xiter (2 * n + 1) xinit = Some s'.
  Proof. apply xiter_total; [now apply init_inv | lia]. Qed.

  Theorem run_final fuel s' : xiter fuel xinit = Some s' -> Inv s' /\ xstep s' = None.
  Proof. apply xiter_inv; auto. now apply init_inv. Qed.

  (* ================= no deadlock, accounting ================= *)
  Lemma final_quiescent s :
    Inv s -> xstep s = None -> stopped s = false ->
    readyS s = [] /\ readyP s = [] /\ infl s = [].
  Proof.
    intros HI Hx Hst. unfold Exec.xstep in Hx. rewrite Hst in Hx.
    destruct (gate_open jobs s) eqn:Eg; [discriminate|].
    destruct (Nat.eqb (inflight s) 0) eqn:E0; [|discriminate].
    apply Nat.eqb_eq in E0. unfold gate_open in Eg. rewrite E0 in Eg. simpl in Eg.
    apply orb_false_iff in Eg as [Eg _]. rewrite andb_true_r in Eg. unfold has_ops in Eg.
    rewrite inflight_infl in E0. apply length_zero_iff_nil in E0.
    destruct (readyS s), (readyP s); simpl in Eg; try discriminate. auto.
  Qed.

  (* C09_no_deadlock: when the loop ends without --stop-early having fired, every operation is completed *)
  Theorem all_completed s :
    Inv s -> xstep s = None -> stopped s = false -> forall o, o < n -> In o (completed s).
  Proof.
    intros HI Hx Hst. destruct (final_quiescent s HI Hx Hst) as (E1 & E2 & E3).
    destruct HI as [Hc _ _ _ _].
    intros o. induction o as [o IH] using lt_wf_ind. intros Ho.
    assert (Hu : uncP p (completed s) o = 0).
    { unfold uncP. apply filter_length_zero_all. intros d Hd. apply negb_false_iff, mem_In.
      destruct wf as (Wlt & _). pose proof (Wlt o Ho d Hd). apply IH; [assumption | unfold n in *; lia]. }
    apply (c_act _ _ _ _ _ _ _ _ Hc o Ho) in Hu. unfold allqP in Hu. unfold infl, inflP in E3.
    rewrite E1, E2 in Hu. simpl in Hu. rewrite app_assoc, E3 in Hu. simpl in Hu. rewrite app_nil_r in Hu. exact Hu.
  Qed.

  (* C09_accounting: completed operations are pairwise distinct and each has exactly one final state *)
  Theorem completed_nodup s : Inv s -> NoDup (completed s).
  Proof.
    intros [Hc _ _ _ _]. apply count_NoDup. intros x.
    pose proof (NoDup_count x _ (c_nodup _ _ _ _ _ _ _ _ Hc)) as H. rewrite count_allqP in H. lia.
  Qed.

  Theorem completed_has_outcome s o :
    Inv s -> o < n -> (In o (completed s) <-> ost s o <> QUEUED).
  Proof. intros [_ Hs _ _ _] Ho. now apply (s_st _ _ _ _ _ _ Hs). Qed.

  (* ================= C03: classification of the final states ================= *)
  Definition all_done (s : xstate) : Prop := forall o, o < n -> ost s o <> QUEUED.

  Lemma all_done_final s : Inv s -> xstep s = None -> stopped s = false -> all_done s.
  Proof.
    intros HI Hx Hst o Ho. apply (completed_has_outcome s o HI Ho). now apply all_completed.
  Qed.

  Theorem classification s o :
    Inv s -> all_done s -> o < n ->
    (ost s o = SKIPPED <-> exists d, In d (exe_deps p o) /\ ost s d <> SUCCEEDED) /\
    (ost s o = FAILED <-> (forall d, In d (exe_deps p o) -> ost s d = SUCCEEDED) /\ fails p orc o = true) /\
    (ost s o = SUCCEEDED <-> (forall d, In d (exe_deps p o) -> ost s d = SUCCEEDED) /\ fails p orc o = false).
  Proof.
    intros [_ Hs _ _ _] Hd Ho.
    pose proof (s_run_deps _ _ _ _ _ _ Hs o Ho) as Hrun.
    pose proof (s_skip_deps _ _ _ _ _ _ Hs o Ho) as Hskip.
    pose proof (s_failed _ _ _ _ _ _ Hs o Ho) as Hf.
    pose proof (s_succ _ _ _ _ _ _ Hs o Ho) as Hsu.
    specialize (Hd o Ho).
    assert (Hnot : forall d, In d (exe_deps p o) -> ost s d <> SUCCEEDED -> ost s o = SKIPPED).
    { intros d Hin Hns. destruct (ost s o) eqn:E; try reflexivity; try congruence;
        exfalso; apply Hns; apply Hrun; auto. }
    split; [|split].
    - split.
      + intros H. destruct (Hskip H) as (d & Hin & [Hx|Hx]); exists d; split; auto; congruence.
      + intros (d & Hin & Hns). eauto.
    - split.
      + intros H. split; [apply Hrun; auto | auto].
      + intros [Hall Hfl]. destruct (ost s o) eqn:E; try reflexivity; try congruence.
        * destruct (Hskip eq_refl) as (d & Hin & [Hx|Hx]); rewrite (Hall d Hin) in Hx; discriminate.
        * rewrite (Hsu eq_refl) in Hfl. discriminate.
    - split.
      + intros H. split; [apply Hrun; auto | auto].
      + intros [Hall Hfl]. destruct (ost s o) eqn:E; try reflexivity; try congruence.
        * destruct (Hskip eq_refl) as (d & Hin & [Hx|Hx]); rewrite (Hall d Hin) in Hx; discriminate.
        * rewrite (Hf eq_refl) in Hfl. discriminate.
  Qed.

  (* transitive dependency in the operation graph *)
  Inductive op_path : nat -> nat -> Prop :=
  | path_one x d : In d (exe_deps p x) -> op_path x d
  | path_step x d e : In d (exe_deps p x) -> op_path d e -> op_path x e.

  Lemma op_path_lt x d : x < n -> op_path x d -> d < x.
  Proof.
    intros Hx H. induction H as [x d Hd | x d e Hd _ IH].
    - destruct wf as (Wlt & _). exact (Wlt x Hx d Hd).
    - destruct wf as (Wlt & _). pose proof (Wlt x Hx d Hd). assert (d < n) by (unfold n in *; lia). specialize (IH H0). lia.
  Qed.

  (* skipped <-> it reaches a failed operation *)
  Theorem skipped_iff_reaches_failed s :
    Inv s -> all_done s -> forall o, o < n ->
    (ost s o = SKIPPED <-> exists f, op_path o f /\ ost s f = FAILED).
  Proof.
    intros HI Hd o. induction o as [o IH] using lt_wf_ind. intros Ho.
    destruct (classification s o HI Hd Ho) as (Hsk & _ & _).
    destruct wf as (Wlt & _).
    split.
    - intros H. apply Hsk in H as (d & Hin & Hns).
      assert (Hdn : d < n) by (pose proof (Wlt o Ho d Hin); unfold n in *; lia).
      destruct (ost s d) eqn:E; try congruence.
      + exfalso. now apply (Hd d Hdn).
      + apply (IH d (Wlt o Ho d Hin) Hdn) in E as (f & Hp & Hf). exists f. split; [eapply path_step; eauto | assumption].
      + exists d. split; [now apply path_one | assumption].
    - intros (f & Hp & Hf). apply Hsk.
      inversion Hp as [x d Hin | x d e Hin Hp']; subst.
      + exists f. split; [assumption | congruence].
      + exists d. split; [assumption|].
        assert (Hdn : d < n) by (pose proof (Wlt o Ho d Hin); unfold n in *; lia).
        assert (Hds : ost s d = SKIPPED) by (apply (IH d (Wlt o Ho d Hin) Hdn); eauto). congruence.
  Qed.

  (* the report: Failed / Skipped lists are exactly the operations in that state; the assertion cannot fire *)
  Theorem report_spec s root_task :
    Inv s -> xstep s = None ->
    match report p root_task s with
    | [EDone; EKill k] => forallb (succeeded s) (completed s) = true /\ k = map fst (procs s)
    | [EFailed f sk; EKill k] =>
        (forall o, In o f <-> In o (completed s) /\ ost s o = FAILED) /\
        (forall o, In o sk <-> In o (completed s) /\ ost s o = SKIPPED) /\
        f <> [] /\ k = map fst (procs s)
    | [EAssertFail; EKill k] =>
        (* only a plan whose root task is neither executed nor cached can get here *)
        forallb (succeeded s) (completed s) = true
    | _ => False
    end.
  Proof.
    intros HI Hx. unfold report.
    destruct (forallb (succeeded s) (completed s)) eqn:Eall.
    - cbn [andb].
      destruct (existsb (fun o => Nat.eqb (op_task (opi p o)) root_task) (completed s)
                || match completed s with [] => mem root_task (p_cached p) | _ => false end).
      + auto.
      + assert (Hnone : filter (fun o => ostate_eqb (ost s o) FAILED) (completed s) = []).
        { rewrite forallb_forall in Eall.
          induction (completed s) as [|x l IHl]; [reflexivity|]. simpl.
          assert (Hx' : succeeded s x = true) by (apply Eall; left; reflexivity).
          unfold succeeded in Hx'. destruct (ost s x); simpl in *; try discriminate.
          apply IHl. intros y Hy. apply Eall. right; exact Hy. }
        rewrite Hnone. reflexivity.
    - cbn [andb].
      destruct (filter (fun o => ostate_eqb (ost s o) FAILED) (completed s)) as [|f0 fl] eqn:Ef.
      + (* some completed operation did not succeed, yet none failed: impossible *)
        exfalso.
        assert (Hex : exists o, In o (completed s) /\ ost s o <> SUCCEEDED).
        { clear Ef. induction (completed s) as [|x l IHl]; [discriminate|]. simpl in Eall.
          apply andb_false_iff in Eall as [E|E].
          - exists x. split; [left; reflexivity|]. intros H. unfold succeeded in E. rewrite H in E. discriminate.
          - destruct (IHl E) as (o & Ho & Hs). exists o. split; [right; assumption | assumption]. }
        destruct Hex as (o & Ho & Hns).
        destruct HI as [Hc Hs _ _ _].
        assert (Hrange : forall x, In x (completed s) -> x < n).
        { intros x Hx'. apply (c_range _ _ _ _ _ _ _ _ Hc). unfold allqP. rewrite !in_app_iff. tauto. }
        (* take the least completed non-succeeded operation: it is FAILED *)
        assert (Hleast : forall k o, o < k -> In o (completed s) -> ost s o <> SUCCEEDED ->
                         exists f, In f (completed s) /\ ost s f = FAILED).
        { induction k as [|k IHk]; intros x Hlt Hin Hnx; [lia|].
          pose proof (Hrange x Hin) as Hxn.
          destruct (ost s x) eqn:E; try congruence.
          - exfalso. apply (s_st _ _ _ _ _ _ Hs x Hxn) in Hin. congruence.
          - destruct (s_skip_deps _ _ _ _ _ _ Hs x Hxn E) as (d & Hd & Hds).
            destruct wf as (Wlt & _). pose proof (Wlt x Hxn d Hd) as Hdlt.
            assert (Hdn : d < n) by (unfold n in *; lia).
            apply (IHk d); [lia | | destruct Hds; congruence].
            apply (s_st _ _ _ _ _ _ Hs d Hdn). destruct Hds; congruence.
          - exists x. auto. }
        destruct (Hleast (S o) o (Nat.lt_succ_diag_r o) Ho Hns) as (f & Hf & Hfs).
        assert (Hin : In f (filter (fun o => ostate_eqb (ost s o) FAILED) (completed s))).
        { apply filter_In. split; [assumption|]. rewrite Hfs. reflexivity. }
        rewrite Ef in Hin. destruct Hin.
      + rewrite <- Ef. split; [|split; [|split]].
        * intros o. rewrite filter_In. destruct (ost s o); simpl; split; intros [H1 H2]; split; auto; discriminate.
        * intros o. rewrite filter_In. destruct (ost s o); simpl; split; intros [H1 H2]; split; auto; discriminate.
        * rewrite Ef. discriminate.
        * reflexivity.
  Qed.

  (* ================= C01 / C02: ordering along the trace ================= *)
  Notation TraceOK := (TraceOK p).

  Lemma TraceOK_suffix a b : TraceOK (a ++ b) -> TraceOK b.
  Proof. induction a as [|e a IH]; [auto|]. cbn [app ExecInv.TraceOK]. intros [H _]. auto. Qed.

  Lemma finish_has_start tr d rc : TraceOK tr -> In (EFinish d rc) tr -> exists sl, In (EStart d sl) tr.
  Proof.
    intros Hok Hin. apply in_split in Hin as (a & b & ->).
    apply TraceOK_suffix in Hok. cbn [ExecInv.TraceOK] in Hok. destruct Hok as (_ & (sl & Hs) & _).
    exists sl. apply in_or_app. right. right. exact Hs.
  Qed.

  (* when x starts, every operation it transitively depends on has started and finished with status 0 *)
  Lemma start_after_deps x d :
    op_path x d -> forall sl pre, TraceOK (EStart x sl :: pre) ->
    In (EFinish d 0%N) pre /\ exists sl', In (EStart d sl') pre.
  Proof.
    induction 1 as [x d Hd | x d e Hd _ IH]; intros sl pre Hok.
    - cbn [ExecInv.TraceOK] in Hok. destruct Hok as (Hpre & Hdeps & _).
      split; [auto|]. eapply finish_has_start; eauto.
    - assert (Hds : exists sl', In (EStart d sl') pre).
      { cbn [ExecInv.TraceOK] in Hok. destruct Hok as (Hpre & Hdeps & _). eapply finish_has_start; eauto. }
      destruct Hds as (sl' & Hin). apply in_split in Hin as (a & b & ->).
      assert (Hok' : TraceOK (EStart d sl' :: b)).
      { cbn [ExecInv.TraceOK] in Hok. destruct Hok as (Hpre & _). now apply TraceOK_suffix in Hpre. }
      destruct (IH sl' b Hok') as (Hf & sl'' & Hs).
      split; [apply in_or_app; right; right; exact Hf|].
      exists sl''. apply in_or_app. right. right. exact Hs.
  Qed.

  (* an operation is started at most once *)
  Lemma start_unique tr x sl post pre :
    TraceOK tr -> tr = post ++ EStart x sl :: pre ->
    (forall sl', ~ In (EStart x sl') pre) /\ (forall sl', ~ In (EStart x sl') post).
  Proof.
    intros Hok ->. split.
    - apply TraceOK_suffix in Hok. cbn [ExecInv.TraceOK] in Hok. destruct Hok as (_ & _ & H & _). exact H.
    - intros sl' Hin. apply in_split in Hin as (a & b & ->).
      rewrite <- app_assoc in Hok. apply TraceOK_suffix in Hok. cbn [app ExecInv.TraceOK] in Hok.
      destruct Hok as (_ & _ & H & _). apply (H sl). apply in_or_app. right. left. reflexivity.
  Qed.

  (* C01_op_order on the trace of any reachable state (newest event first):
     if x is started at some point, then every operation x transitively depends on has, strictly
     before that point, been started and has finished with status 0, and is never started again. *)
  Theorem op_order s x sl post pre d :
    Inv s -> trace s = post ++ EStart x sl :: pre -> op_path x d ->
    In (EFinish d 0%N) pre /\ (exists sl', In (EStart d sl') pre) /\ (forall sl', ~ In (EStart d sl') post).
  Proof.
    intros [_ _ _ Ht _] Etr Hp. pose proof (t_ok _ _ _ _ _ _ _ Ht) as Hok. rewrite Etr in Hok.
    pose proof (TraceOK_suffix _ _ Hok) as Hok'.
    destruct (start_after_deps x d Hp sl pre Hok') as (Hf & sl' & Hs).
    split; [assumption|]. split; [eauto|].
    intros sl'' Hin. apply in_split in Hs as (a & b & ->).
    assert (E : post ++ EStart x sl :: a ++ EStart d sl' :: b = (post ++ EStart x sl :: a) ++ EStart d sl' :: b).
    { rewrite <- app_assoc. reflexivity. }
    rewrite E in Hok.
    destruct (start_unique _ d sl' _ b Hok eq_refl) as (_ & Hnp).
    apply (Hnp sl''). apply in_or_app. left. exact Hin.
  Qed.

  (* C02_once (executor part): no operation is started twice, and a skipped or launch-failed one never *)
  Theorem started_once s x sl post pre :
    Inv s -> trace s = post ++ EStart x sl :: pre ->
    (forall sl', ~ In (EStart x sl') pre) /\ (forall sl', ~ In (EStart x sl') post).
  Proof.
    intros [_ _ _ Ht _] Etr. eapply start_unique; [apply (t_ok _ _ _ _ _ _ _ Ht) | exact Etr].
  Qed.

  Theorem skipped_never_started s o :
    Inv s -> o < n -> ost s o = SKIPPED -> forall sl, ~ In (EStart o sl) (trace s).
  Proof.
    intros [Hc Hs _ Ht _] Ho Hsk sl Hin.
    apply (t_skip _ _ _ _ _ _ _ Ht o Ho) in Hsk.
    pose proof (t_ok _ _ _ _ _ _ _ Ht) as Hok.
    (* whichever of the two events is newer contradicts TraceOK *)
    apply in_split in Hin as (a & b & E). rewrite E in Hsk, Hok.
    apply in_app_or in Hsk as [Hsk|[Hsk|Hsk]]; [|discriminate|].
    - apply in_split in Hsk as (a1 & a2 & ->). rewrite <- app_assoc in Hok.
      apply TraceOK_suffix in Hok. cbn [app ExecInv.TraceOK] in Hok. destruct Hok as (_ & H & _).
      apply (H sl). apply in_or_app. right. left. reflexivity.
    - apply TraceOK_suffix in Hok. cbn [ExecInv.TraceOK] in Hok. destruct Hok as (_ & _ & _ & H & _). contradiction.
  Qed.

  (* ================= C04: limits at every reachable state ================= *)
  Theorem limits s :
    Inv s ->
    length (infl s) <= jobs /\
    (forall o, In o (infl s) -> is_par p o = false -> infl s = [o]) /\
    NoDup (slots_of (procs s)) /\ (forall sl, In sl (slots_of (procs s)) -> sl < jobs) /\
    (forall o sl, In (o, sl) (procs s) -> (sl = None <-> (is_par p o = false \/ jobs <= 1))).
  Proof.
    intros [_ _ Hm _ _]. split; [apply (m_bound _ _ _ _ _ _ Hm)|]. split.
    - intros o Ho Hnp. pose proof (m_alone _ _ _ _ _ _ Hm o Ho Hnp) as Hl. fold (infl s) in Hl.
      destruct (infl s) as [|a [|b l]]; simpl in *; try lia. destruct Ho as [->|[]]. reflexivity.
    - pose proof (m_slots _ _ _ _ _ _ Hm) as Hp.
      assert (Hnd : NoDup (avail s ++ slots_of (procs s))).
      { eapply Permutation_NoDup; [apply Permutation_sym; exact Hp | apply seq_NoDup]. }
      split; [|split].
      + apply count_NoDup. intros x. pose proof (NoDup_count x _ Hnd) as H. rewrite count_app in H. lia.
      + intros sl Hin. assert (In sl (seq 0 jobs)).
        { eapply Permutation_in; [exact Hp|]. apply in_or_app. right. exact Hin. }
        apply in_seq in H. lia.
      + apply (m_slot_none _ _ _ _ _ _ Hm).
  Qed.

  (* the in-flight set of the state is the set of started-and-not-finished operations of the trace *)
  Theorem inflight_is_started_unfinished s o :
    Inv s ->
    (In o (infl s) <-> (exists sl, In (EStart o sl) (trace s)) /\ forall rc, ~ In (EFinish o rc) (trace s)).
  Proof.
    intros [Hc _ _ Ht _]. split.
    - intros Hin. split; [now apply (t_infl _ _ _ _ _ _ _ Ht)|].
      intros rc Hf. assert (Hco : In o (completed s)) by (apply (t_done _ _ _ _ _ _ _ Ht); eauto).
      pose proof (NoDup_count o _ (c_nodup _ _ _ _ _ _ _ _ Hc)) as Hcnt. rewrite count_allqP in Hcnt.
      unfold infl, inflP in Hin. apply in_app_or in Hin. apply In_count_pos in Hco.
      destruct Hin as [H|H]; apply In_count_pos in H; lia.
    - intros [(sl & Hs) Hnf]. destruct (t_start _ _ _ _ _ _ _ Ht o sl Hs) as [H|[H|[]]]; [assumption|].
      exfalso. pose proof (t_ok _ _ _ _ _ _ _ Ht) as Hok.
      assert (Hno : forall e, (e = ESkip o \/ e = ELaunchFail o) -> ~ In e (trace s)).
      { intros e He Hin. apply in_split in Hs as (a & b & E). rewrite E in Hin, Hok.
        apply in_app_or in Hin as [Hin|[Hin|Hin]].
        - apply in_split in Hin as (a1 & a2 & ->). rewrite <- app_assoc in Hok.
          apply TraceOK_suffix in Hok. cbn [app ExecInv.TraceOK] in Hok.
          destruct He as [->| ->]; destruct Hok as (_ & Hx & _); apply (Hx sl); apply in_or_app; right; left; reflexivity.
        - destruct He as [->| ->]; discriminate.
        - apply TraceOK_suffix in Hok. cbn [ExecInv.TraceOK] in Hok. destruct Hok as (_ & _ & _ & Hx1 & Hx2).
          destruct He as [->| ->]; contradiction. }
      destruct (t_compl _ _ _ _ _ _ _ Ht o H) as [Hx|[Hx|(rc & Hx)]].
      + apply (Hno (ESkip o)); auto.
      + apply (Hno (ELaunchFail o)); auto.
      + apply (Hnf rc Hx).
  Qed.

  (* the free-slot peek `_available_slots[-1]` never reads an empty list *)
  Theorem peek_nonempty s :
    Inv s -> gate_open jobs s = true -> avail s <> [].
  Proof.
    intros HI Hg. destruct HI as [_ _ Hm _ _].
    apply (avail_nonempty p jobs Hjobs s Hm).
    unfold gate_open in Hg. rewrite inflight_infl in Hg.
    apply orb_true_iff in Hg as [Hg|Hg].
    - apply andb_true_iff in Hg as [_ Hg]. apply Nat.eqb_eq, length_zero_iff_nil in Hg. auto.
    - apply andb_true_iff in Hg as [Hg _]. apply andb_true_iff in Hg as [_ Hg]. apply Nat.ltb_lt in Hg. auto.
  Qed.

  (* ================= C03: --stop-early ================= *)
  Definition is_failure (e : event) : bool :=
    match e with ELaunchFail _ => true | EFinish _ rc => negb (N.eqb rc 0) | _ => false end.

  Lemma xstep_trace s s' : xstep s = Some s' -> exists ev, trace s' = ev :: trace s.
  Proof.
    unfold Exec.xstep. destruct (stopped s); [discriminate|].
    destruct (gate_open jobs s).
    - intros H; inversion H; subst. unfold launch_one. destruct (dequeue s) as [[o rS] rP].
      destruct (negb (forallb (succeeded s) (exe_deps p o))); [eexists; reflexivity|].
      destruct (launch_fails orc o); [destruct stop; eexists; reflexivity|].
      destruct (op_sync (opi p o)); eexists; reflexivity.
    - destruct (Nat.eqb (inflight s) 0); [discriminate|].
      intros H; inversion H; subst. unfold wait_one. destruct (syncs s); [|eexists; reflexivity].
      destruct (nth _ (procs s) (0, None)) as [o slot].
      destruct (negb (N.eqb (rc_of orc o) 0) && stop); eexists; reflexivity.
  Qed.

  Lemma no_failure_of_NInv s : Inv s -> stop = true -> stopped s = false -> forall e, In e (trace s) -> is_failure e = false.
  Proof.
    intros [_ _ _ _ Hn] Hst Hsp e He. specialize (Hn Hst Hsp e He). destruct e; try reflexivity; try contradiction.
    simpl. subst. reflexivity.
  Qed.

  (* with --stop-early a failure is the last event of the loop: nothing is started after it *)
  Theorem stop_early_last s s' :
    Inv s -> xstep s = Some s' -> stop = true ->
    exists ev, trace s' = ev :: trace s /\ forall e, In e (trace s) -> is_failure e = false.
  Proof.
    intros HI Hx Hst. destruct (xstep_trace s s' Hx) as (ev & E). exists ev. split; [assumption|].
    apply no_failure_of_NInv; auto. unfold Exec.xstep in Hx. destruct (stopped s); [discriminate | reflexivity].
  Qed.
End Thm.
