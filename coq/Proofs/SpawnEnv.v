(* The environment contract of start_execution (C07, and the COND_SLOT clause of C04), for EVERY inherited
   environment: the definitions are the ones the translator reads off the sources (the gen_env definitions of Gen.Generated). *)
From Coq Require Import List NArith Bool Lia.
From Conductor Require Import Lib.Str Gen.Generated Model.Ident Model.Env.
Import ListNotations.
Local Open Scope N_scope.

Lemma get_set_same k v e : env_get k (env_set k v e) = Some v.
Proof.
  induction e as [|[k' v'] e IH]; cbn [env_set env_get]; [rewrite str_eqb_refl; reflexivity|].
  destruct (str_eqb k k') eqn:E; cbn [env_get]; [rewrite str_eqb_refl; reflexivity | rewrite E; exact IH].
Qed.

Lemma get_set_other k k' v e : str_eqb k k' = false -> env_get k (env_set k' v e) = env_get k e.
Proof.
  intros Hne. induction e as [|[k2 v2] e IH]; cbn [env_set env_get]; [rewrite Hne; reflexivity|].
  destruct (str_eqb k' k2) eqn:E; cbn [env_get].
  - apply str_eqb_spec in E. subst k2. rewrite Hne. reflexivity.
  - destruct (str_eqb k k2); [reflexivity | exact IH].
Qed.

Lemma get_pop_same k e : env_get k (env_pop k e) = None.
Proof.
  induction e as [|[k' v'] e IH]; [reflexivity|]. unfold env_pop in *. cbn [filter fst].
  destruct (str_eqb k k') eqn:E; cbn [negb]; [exact IH | cbn [env_get]; rewrite E; exact IH].
Qed.

Lemma get_pop_other k k' e : str_eqb k k' = false -> env_get k (env_pop k' e) = env_get k e.
Proof.
  intros Hne. induction e as [|[k2 v2] e IH]; [reflexivity|]. unfold env_pop in *. cbn [filter fst].
  destruct (str_eqb k' k2) eqn:E; cbn [negb env_get].
  - apply str_eqb_spec in E. subst k2. rewrite Hne. exact IH.
  - destruct (str_eqb k k2); [reflexivity | exact IH].
Qed.

Definition is_cond_var (k : str) : bool :=
  str_eqb k cfg_OUTPUT_ENV_VARIABLE_NAME || str_eqb k cfg_DEPS_ENV_VARIABLE_NAME ||
  str_eqb k cfg_TASK_NAME_ENV_VARIABLE_NAME || str_eqb k cfg_SLOT_ENV_VARIABLE_NAME.

(* the shape the theorems below are proved for; GenTieEnv.v re-checks it against the regenerated definitions *)
Definition env_shape_ok : Prop :=
  gen_env_overrides = [(cfg_OUTPUT_ENV_VARIABLE_NAME, 0); (cfg_DEPS_ENV_VARIABLE_NAME, 1); (cfg_TASK_NAME_ENV_VARIABLE_NAME, 2)] /\
  gen_env_slot_some = [(1, cfg_SLOT_ENV_VARIABLE_NAME)] /\ gen_env_slot_none = [(2, cfg_SLOT_ENV_VARIABLE_NAME)] /\
  (* the four names are pairwise different *)
  str_eqb cfg_OUTPUT_ENV_VARIABLE_NAME cfg_DEPS_ENV_VARIABLE_NAME = false /\
  str_eqb cfg_OUTPUT_ENV_VARIABLE_NAME cfg_TASK_NAME_ENV_VARIABLE_NAME = false /\
  str_eqb cfg_OUTPUT_ENV_VARIABLE_NAME cfg_SLOT_ENV_VARIABLE_NAME = false /\
  str_eqb cfg_DEPS_ENV_VARIABLE_NAME cfg_TASK_NAME_ENV_VARIABLE_NAME = false /\
  str_eqb cfg_DEPS_ENV_VARIABLE_NAME cfg_SLOT_ENV_VARIABLE_NAME = false /\
  str_eqb cfg_TASK_NAME_ENV_VARIABLE_NAME cfg_SLOT_ENV_VARIABLE_NAME = false.

Lemma str_eqb_sym a b : str_eqb a b = str_eqb b a.
Proof.
  destruct (str_eqb a b) eqn:E; symmetry.
  - apply str_eqb_spec in E. subst. apply str_eqb_refl.
  - apply str_eqb_false. apply str_eqb_false in E. congruence.
Qed.

Section Contract.
  Hypothesis Hshape : env_shape_ok.
  Variables (inherited : env) (out : str) (deps : list str) (name : str).

  Theorem spawn_env_contract (slot : option N) :
    let e := spawn_env inherited out deps name slot in
    env_get cfg_OUTPUT_ENV_VARIABLE_NAME e = Some out /\
    env_get cfg_DEPS_ENV_VARIABLE_NAME e = Some (cond_deps deps) /\
    env_get cfg_TASK_NAME_ENV_VARIABLE_NAME e = Some name /\
    env_get cfg_SLOT_ENV_VARIABLE_NAME e = option_map dec slot /\
    (forall k, is_cond_var k = false -> env_get k e = env_get k inherited).
  Proof.
    destruct Hshape as (Eo & Es & En & Hod & Hot & Hos & Hdt & Hds & Hts).
    cbv zeta. unfold spawn_env. rewrite Eo, Es, En. cbn [fold_left fst snd env_value].
    assert (Hdo : str_eqb cfg_DEPS_ENV_VARIABLE_NAME cfg_OUTPUT_ENV_VARIABLE_NAME = false) by (rewrite str_eqb_sym; exact Hod).
    assert (Hto : str_eqb cfg_TASK_NAME_ENV_VARIABLE_NAME cfg_OUTPUT_ENV_VARIABLE_NAME = false) by (rewrite str_eqb_sym; exact Hot).
    assert (Hso : str_eqb cfg_SLOT_ENV_VARIABLE_NAME cfg_OUTPUT_ENV_VARIABLE_NAME = false) by (rewrite str_eqb_sym; exact Hos).
    assert (Htd : str_eqb cfg_TASK_NAME_ENV_VARIABLE_NAME cfg_DEPS_ENV_VARIABLE_NAME = false) by (rewrite str_eqb_sym; exact Hdt).
    assert (Hsd : str_eqb cfg_SLOT_ENV_VARIABLE_NAME cfg_DEPS_ENV_VARIABLE_NAME = false) by (rewrite str_eqb_sym; exact Hds).
    assert (Hst : str_eqb cfg_SLOT_ENV_VARIABLE_NAME cfg_TASK_NAME_ENV_VARIABLE_NAME = false) by (rewrite str_eqb_sym; exact Hts).
    destruct slot as [sl|]; cbn [fold_left env_action fst snd option_map].
    - repeat split.
      + rewrite (get_set_other _ _ _ _ Hos), (get_set_other _ _ _ _ Hot), (get_set_other _ _ _ _ Hod). apply get_set_same.
      + rewrite (get_set_other _ _ _ _ Hds), (get_set_other _ _ _ _ Hdt). apply get_set_same.
      + rewrite (get_set_other _ _ _ _ Hts). apply get_set_same.
      + apply get_set_same.
      + intros k Hk. unfold is_cond_var in Hk. apply orb_false_iff in Hk as (Hk & Hk4). apply orb_false_iff in Hk as (Hk & Hk3).
        apply orb_false_iff in Hk as (Hk1 & Hk2).
        rewrite (get_set_other _ _ _ _ Hk4), (get_set_other _ _ _ _ Hk3), (get_set_other _ _ _ _ Hk2), (get_set_other _ _ _ _ Hk1). reflexivity.
    - repeat split.
      + rewrite (get_pop_other _ _ _ Hos), (get_set_other _ _ _ _ Hot), (get_set_other _ _ _ _ Hod). apply get_set_same.
      + rewrite (get_pop_other _ _ _ Hds), (get_set_other _ _ _ _ Hdt). apply get_set_same.
      + rewrite (get_pop_other _ _ _ Hts). apply get_set_same.
      + apply get_pop_same.
      + intros k Hk. unfold is_cond_var in Hk. apply orb_false_iff in Hk as (Hk & Hk4). apply orb_false_iff in Hk as (Hk & Hk3).
        apply orb_false_iff in Hk as (Hk1 & Hk2).
        rewrite (get_pop_other _ _ _ Hk4), (get_set_other _ _ _ _ Hk3), (get_set_other _ _ _ _ Hk2), (get_set_other _ _ _ _ Hk1). reflexivity.
  Qed.

  (* COND_SLOT is unset exactly when the task gets no slot -- whatever Conductor's own environment holds (D20) *)
  Corollary slot_unset_iff_no_slot (slot : option N) :
    env_get cfg_SLOT_ENV_VARIABLE_NAME (spawn_env inherited out deps name slot) = None <-> slot = None.
  Proof.
    destruct (spawn_env_contract slot) as (_ & _ & _ & H & _). rewrite H. destruct slot; cbn; split; congruence.
  Qed.
End Contract.

(* ---- TaskType.get_deps_output_paths ---- *)
Definition some_paths (outs : list (option str)) : list str :=
  flat_map (fun o => match o with Some p => [p] | None => [] end) outs.

Lemma deps_output_paths_spec : gen_deps_paths_step true = 0 -> gen_deps_paths_step false = 1 ->
  forall outs, deps_output_paths outs = some_paths outs.
Proof.
  intros Ht Hf outs. unfold deps_output_paths.
  assert (G : forall acc, fold_left (fun acc o =>
               match gen_deps_paths_step (match o with None => true | Some _ => false end), o with
               | 1, Some p => acc ++ [p]
               | _, _ => acc
               end) outs acc = acc ++ some_paths outs).
  { induction outs as [|o rest IH]; intro acc; cbn [fold_left some_paths flat_map].
    - now rewrite app_nil_r.
    - destruct o as [p|].
      + rewrite Hf. rewrite IH. unfold some_paths. now rewrite <- app_assoc.
      + rewrite Ht. rewrite IH. reflexivity. }
  exact (G []).
Qed.
