(* Small list facts used by the scheduler proofs: mem / count / remove / filter over nat lists. *)
From Coq Require Import List Arith Bool Lia Permutation.
From Conductor Require Import Model.Loader Model.Planner.
Import ListNotations.

Lemma mem_In x l : mem x l = true <-> In x l.
Proof.
  induction l as [|y l IH]; simpl; [split; [discriminate | tauto]|].
  rewrite orb_true_iff, Nat.eqb_eq, IH. split; intros [H|H]; auto.
Qed.
Lemma mem_false x l : mem x l = false <-> ~ In x l.
Proof. rewrite <- mem_In. destruct (mem x l); split; congruence. Qed.

Lemma count_In x l : 0 < count x l <-> In x l.
Proof.
  induction l as [|y l IH]; simpl; [split; [lia | tauto]|].
  destruct (Nat.eqb x y) eqn:E.
  - apply Nat.eqb_eq in E; subst. split; [auto | lia].
  - apply Nat.eqb_neq in E. rewrite <- IH. split; [intros H; right; lia | intros [H|H]; [congruence | lia]].
Qed.
Lemma count_notin x l : ~ In x l -> count x l = 0.
Proof. intros H. destruct (count x l) eqn:E; [reflexivity|]. exfalso. apply H, count_In. lia. Qed.
Lemma count_app x a b : count x (a ++ b) = count x a + count x b.
Proof. induction a as [|y a IH]; simpl; [reflexivity|]. rewrite IH. lia. Qed.
Lemma NoDup_count x l : NoDup l -> count x l <= 1.
Proof.
  induction 1 as [|y l Hn _ IH]; simpl; [lia|].
  destruct (Nat.eqb x y) eqn:E; [|lia]. apply Nat.eqb_eq in E; subst.
  rewrite (count_notin y l Hn). lia.
Qed.
Lemma count_NoDup l : (forall x, count x l <= 1) -> NoDup l.
Proof.
  induction l as [|y l IH]; intros H; constructor.
  - intros Hin. apply count_In in Hin. specialize (H y). simpl in H. rewrite Nat.eqb_refl in H. lia.
  - apply IH. intros x. specialize (H x). simpl in H. lia.
Qed.
Lemma NoDup_count_In x l : NoDup l -> In x l -> count x l = 1.
Proof. intros Hn Hi. pose proof (NoDup_count x l Hn). apply count_In in Hi. lia. Qed.

Lemma count_repeat x y k : count x (repeat y k) = if Nat.eqb x y then k else 0.
Proof. induction k as [|k IH]; simpl; [destruct (Nat.eqb x y); reflexivity|]. rewrite IH. destruct (Nat.eqb x y); lia. Qed.

Lemma count_flat_map_seq x (f : nat -> nat) a m :
  count x (flat_map (fun o => repeat o (f o)) (seq a m)) = if (a <=? x) && (x <? a + m) then f x else 0.
Proof.
  revert a. induction m as [|m IH]; intros a.
  - cbn [seq flat_map count].
    destruct (Nat.leb_spec a x), (Nat.ltb_spec x (a + 0)); cbn [andb]; try reflexivity; lia.
  - cbn [seq flat_map]. rewrite count_app, count_repeat, IH.
    destruct (Nat.leb_spec (S a) x), (Nat.ltb_spec x (S a + m)),
             (Nat.leb_spec a x), (Nat.ltb_spec x (a + S m));
      destruct (Nat.eqb_spec x a) as [Heq|Hne]; cbn [andb]; try subst x; lia.
Qed.

(* membership in deps_of and its multiplicity *)
Lemma count_deps_of p o d :
  count o (deps_of p d) = if o <? length (p_ops p) then count d (exe_deps p o) else 0.
Proof.
  unfold deps_of. rewrite (count_flat_map_seq o (fun o => count d (exe_deps p o)) 0 (length (p_ops p))).
  simpl. reflexivity.
Qed.

Lemma In_deps_of p o d : In o (deps_of p d) <-> o < length (p_ops p) /\ In d (exe_deps p o).
Proof.
  rewrite <- !count_In, count_deps_of. destruct (o <? length (p_ops p)) eqn:E.
  - apply Nat.ltb_lt in E. tauto.
  - apply Nat.ltb_ge in E. split; [lia | intros [H _]; lia].
Qed.

Lemma NoDup_deps_of p d :
  (forall o, o < length (p_ops p) -> NoDup (exe_deps p o)) -> NoDup (deps_of p d).
Proof.
  intros H. apply count_NoDup. intros o. rewrite count_deps_of.
  destruct (o <? length (p_ops p)) eqn:E; [|lia]. apply Nat.ltb_lt in E. apply NoDup_count; auto.
Qed.

(* completing x lowers the number of uncompleted dependencies by the multiplicity of x *)
Lemma filter_uncompleted_snoc (C l : list nat) x :
  ~ In x C ->
  length (filter (fun d => negb (mem d (C ++ [x]))) l) + count x l
  = length (filter (fun d => negb (mem d C)) l).
Proof.
  intros Hx. induction l as [|y l IH]; simpl; [reflexivity|].
  destruct (Nat.eqb x y) eqn:E.
  - apply Nat.eqb_eq in E; subst y.
    assert (E1 : mem x (C ++ [x]) = true) by (apply mem_In, in_or_app; right; left; reflexivity).
    assert (E2 : mem x C = false) by (apply mem_false; assumption).
    rewrite E1, E2. simpl. lia.
  - apply Nat.eqb_neq in E.
    assert (E3 : mem y (C ++ [x]) = mem y C).
    { destruct (mem y C) eqn:Ey.
      - apply mem_In. apply in_or_app. left. now apply mem_In.
      - apply mem_false. intros Hin. apply in_app_or in Hin as [Hin|[Hin|[]]]; [|congruence].
        apply mem_false in Ey. contradiction. }
    rewrite E3. destruct (mem y C); simpl; lia.
Qed.

Lemma filter_length_zero_all {A} (f : A -> bool) l :
  length (filter f l) = 0 <-> forall x, In x l -> f x = false.
Proof.
  induction l as [|y l IH]; simpl; [split; [intros _ x [] | reflexivity]|].
  destruct (f y) eqn:E; simpl.
  - split; [lia | intros H; specialize (H y (or_introl eq_refl)); congruence].
  - rewrite IH. split; [intros H x [->|Hx]; auto | intros H x Hx; auto].
Qed.

Lemma in_remove_nth {A} (x : A) k l : In x ((fix rm (n : nat) (l : list A) := match l, n with [], _ => [] | _ :: l', O => l' | y :: l', S k => y :: rm k l' end) k l) -> In x l.
Proof.
  revert k. induction l as [|y l IH]; intros k H; [destruct k; exact H|].
  destruct k; simpl in *; [auto|]. destruct H as [H|H]; [auto | right; eauto].
Qed.
