(* Ties between Model/Tee.v and fragments TRANSLATED from run_task_executable.py on every run
   (Gen/Generated.v): the order of effects of finish_execution (record files, exit-status test, index
   row) and the choice of the record type in start_execution. *)
From Coq Require Import List NArith Bool.
From Conductor Require Import Gen.Generated Model.Tee.
Import ListNotations.
Open Scope N_scope.

Definition effect_code (e : effect) : N :=
  match e with CloseLog => 6 | WriteArgsJson => 1 | WriteOptionsJson => 2 | RaiseNonZeroExit => 3 | InsertRow => 4 | CommitIndex => 5 end.

Lemma finish_tie : forall rc ser ae oe hv,
  map effect_code (finish_execution rc ser ae oe hv) = gen_finish (negb (rc =? 0)) ser ae oe hv.
Proof.
  intros rc ser ae oe hv. unfold finish_execution, gen_finish.
  destruct (rc =? 0), ser, ae, oe, hv; reflexivity.
Qed.

Definition rt_code' (rt : record_type) : N := match rt with NotRecorded => 0 | Teed => 1 | OnlyLogged => 2 end.

Lemma record_type_tie : forall record_output (slot : option N),
  rt_code' (record_type_of record_output slot) =
  gen_record_type record_output (match slot with None => true | Some _ => false end).
Proof. intros [] [s|]; reflexivity. Qed.

(* the copier loop: the decision of one iteration, as translated from utils/tee.py, is the model's *)
Definition tee_eff_code (e : tee_eff) : N := match e with TBreak => 0 | TFileWrite => 1 | TStreamWrite => 2 | TStreamOff => 3 end.

Lemma tee_iteration_tie : forall data_empty stream_ok write_ok,
  map tee_eff_code (tee_iteration data_empty stream_ok write_ok) = gen_tee_iteration data_empty stream_ok write_ok.
Proof. intros [] [] []; reflexivity. Qed.
