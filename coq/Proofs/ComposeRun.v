(* More end-to-end statements about Model/RunCase.cond_run: every needed task is started at most
   once (exactly once, and succeeds, when nothing fails); only needed tasks are started. *)
From Coq Require Import List Arith Bool Lia NArith.
From Conductor Require Import Model.Loader Model.Planner Model.Exec Model.RunCase
  Proofs.ListFacts Proofs.LoaderProofs Proofs.PlannerInv Proofs.PlannerThm Proofs.PlannerExact Proofs.PlannerOrder
  Proofs.ExecInv Proofs.ExecTheorems Proofs.ExecMain Proofs.Compose Proofs.ComposeExec.
Import ListNotations.

(* what a complete run of the composed model consists of *)
Lemma cond_run_unfold fuel tasks c loaded ps evs :
  cond_run fuel tasks c = ORun loaded ps (Some evs) ->
  load_closure (graph_of tasks) fuel (c_root c) = Ok loaded /\
  plan_for (info_of tasks) (sr_of tasks) (c_again c) fuel (c_root c) = Some ps /\
  exists s, final_state (plan_of ps) (c_jobs c) (c_stop c) (oracle_of (plan_of ps) c) s /\
            evs = rev (report (plan_of ps) (c_root c) s ++ trace s).
Proof.
  unfold cond_run. destruct (load_closure _ _ _) as [loaded'| | | | |] eqn:Hload; try discriminate.
  destruct (plan_for _ _ _ _ _) as [ps'|] eqn:Hplan; [|discriminate].
  intros H. inversion H; subst loaded' ps'. clear H. rename H3 into Hrun.
  split; [reflexivity|]. split; [reflexivity|]. unfold run_plan in Hrun.
  destruct (xiter (plan_of ps) (c_jobs c) (c_stop c) (oracle_of (plan_of ps) c) fuel (xinit (plan_of ps) (c_jobs c))) as [s|] eqn:Hx; [|discriminate].
  exists s. split; [exists fuel; exact Hx|]. inversion Hrun; reflexivity.
Qed.

Lemma evs_split_trace p root s evs pre ox sl post :
  evs = rev (report p root s ++ trace s) -> evs = pre ++ EStart ox sl :: post ->
  exists post', rev post = report p root s ++ post' /\ trace s = post' ++ EStart ox sl :: rev pre.
Proof.
  intros Hev E. rewrite E in Hev. apply (f_equal (@rev event)) in Hev.
  rewrite rev_involutive, rev_app_distr in Hev. cbn [rev] in Hev. rewrite <- app_assoc in Hev. cbn [app] in Hev.
  symmetry in Hev. destruct (split_after_prefix _ _ _ _ _ Hev (report_no_start _ _ _ _ _)) as (post' & E1 & E2). eauto.
Qed.

Lemma in_evs_trace p root s evs x sl :
  evs = rev (report p root s ++ trace s) -> In (EStart x sl) evs -> In (EStart x sl) (trace s).
Proof.
  intros -> H. apply in_rev in H. apply in_app_or in H as [H|H]; [exfalso; eapply report_no_start; eauto | exact H].
Qed.

Theorem cond_run_started_at_most_once fuel tasks c loaded ps evs :
  cond_run fuel tasks c = ORun loaded ps (Some evs) -> 1 <= c_jobs c ->
  (forall pre ox sl post, evs = pre ++ EStart ox sl :: post ->
     (forall sl', ~ In (EStart ox sl') pre) /\ (forall sl', ~ In (EStart ox sl') post)) /\
  (forall ox sl, In (EStart ox sl) evs ->
     ox < length (ops ps) /\
     Needed (info_of tasks) (sr_of tasks) (c_again c) (c_root c) (op_task (op_at (ops ps) ox))) /\
  NoDup (map op_task (ops ps)).
Proof.
  intros H Hjobs. destruct (cond_run_unfold _ _ _ _ _ _ H) as (Hload & Hplan & s & Hfin & Hev).
  pose proof (composed_wf tasks (c_root c) fuel loaded Hload (sr_of tasks) (c_again c) fuel ps Hplan) as Hwf.
  destruct (composed_exact tasks (c_root c) fuel loaded Hload (sr_of tasks) (c_again c) fuel ps Hplan) as (Hn & Hnd & _).
  pose proof (final_reachable _ _ _ _ _ Hfin) as Hreach.
  pose proof (reachable_inv _ _ _ _ _ Hwf Hjobs Hreach) as HI.
  split; [|split; [|exact Hnd]].
  - intros pre ox sl post E. destruct (evs_split_trace _ _ _ _ _ _ _ _ Hev E) as (post' & E1 & E2).
    destruct (main_started_once _ _ _ _ Hwf Hjobs s ox sl post' (rev pre) Hreach E2) as [A B]. split.
    + intros sl' Hin. apply (A sl'). now apply in_rev in Hin.
    + intros sl' Hin. apply in_rev in Hin. rewrite E1 in Hin. apply in_app_or in Hin as [Hin|Hin]; [eapply report_no_start; eauto | now apply (B sl')].
  - intros ox sl Hin. pose proof (in_evs_trace _ _ _ _ _ _ Hev Hin) as Ht.
    assert (Hox : ox < length (ops ps)) by (apply (started_lt _ _ _ _ s ox sl HI Ht)).
    split; [exact Hox|]. apply Hn. eauto.
Qed.

(* when no task fails (and the loop is not left early) every needed task is started, and finishes
   with status 0: together with the theorem above, exactly once *)
Theorem cond_run_all_needed_run fuel tasks c loaded ps evs :
  cond_run fuel tasks c = ORun loaded ps (Some evs) -> 1 <= c_jobs c -> c_stop c = false ->
  (forall o, fails (plan_of ps) (oracle_of (plan_of ps) c) o = false) ->
  forall t, Needed (info_of tasks) (sr_of tasks) (c_again c) (c_root c) t ->
  exists o, o < length (ops ps) /\ op_task (op_at (ops ps) o) = t /\
            (exists sl, In (EStart o sl) evs) /\ In (EFinish o 0%N) evs.
Proof.
  intros H Hjobs Hstop Hnf t Hneed. destruct (cond_run_unfold _ _ _ _ _ _ H) as (Hload & Hplan & s & Hfin & Hev).
  pose proof (composed_wf tasks (c_root c) fuel loaded Hload (sr_of tasks) (c_again c) fuel ps Hplan) as Hwf.
  destruct (composed_exact tasks (c_root c) fuel loaded Hload (sr_of tasks) (c_again c) fuel ps Hplan) as (Hn & _).
  rewrite Hstop in Hfin.
  pose proof (final_reachable _ _ _ _ _ Hfin) as Hreach.
  pose proof (reachable_inv _ _ _ _ _ Hwf Hjobs Hreach) as HI.
  pose proof (reachable_not_stopped _ _ _ _ Hreach) as Hst.
  apply Hn in Hneed as (o & Ho & Et). exists o. split; [exact Ho|]. split; [exact Et|].
  pose proof (main_all_run_when_nothing_fails _ _ _ _ Hwf Hjobs Hnf s Hfin Hst o Ho) as Hs.
  pose proof (t_succ _ _ _ _ _ _ _ (i_t _ _ _ _ _ HI) o Ho Hs) as Hf.
  destruct (finish_has_start _ _ _ _ (t_ok _ _ _ _ _ _ _ (i_t _ _ _ _ _ HI)) Hf) as (sl & Hsl).

  split; [exists sl|]; rewrite Hev; rewrite <- in_rev; apply in_or_app; right; assumption.
Qed.
