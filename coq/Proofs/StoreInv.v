(* The inductive invariant [WF] of Model/Store.v and the helper lemmas about operations and
   task processes.  Preservation by every label is in Proofs/StoreSteps.v. *)
From Coq Require Import List NArith Bool Lia ZifyBool ZifyN ZifyNat Arith.
From Conductor Require Import Lib.Str Model.Store Proofs.StoreSpec Proofs.StoreProofs.
Import ListNotations.
Local Open Scope N_scope.

(* ------------------------------------------------------------------ definitions *)

(* a task process that is still running owns an existing, complete, open directory *)
Definition kid_ok (D : fs) (c : kid) : Prop :=
  k_live c = true ->
  exists d, lookup (k_key c) D = Some d /\ d_owner d = k_exec c /\ d_partial d = false /\ d_rc d = None.

(* single writer *)
Definition dirs_ok (D : fs) : Prop := forall k d, lookup k D = Some d -> incl (d_started d) [d_owner d].

Definition owned (o : op) (d : dir) : Prop :=
  d_owner d = o_exec o /\ d_head d = o_head o /\ d_need d = o_need o /\ d_partial d = false.

Definition dead_kid (K : list kid) (o : op) (rc : N) : Prop :=
  exists c, find_kid (o_exec o) K = Some c /\ k_key c = o_key o /\ k_live c = false /\ k_rc c = rc.

Definition finished (D : fs) (K : list kid) (o : op) (extra : dir -> Prop) : Prop :=
  exists d, lookup (o_key o) D = Some d /\ owned o d /\ d_rc d = Some 0 /\ dead_kid K o 0 /\ extra d.

Definition op_ok_at (D : fs) (K : list kid) (o : op) (p : phase) : Prop :=
  match p with
  | PPlanned => lookup (o_key o) D = None /\ find_kid (o_exec o) K = None
  | PMade =>
    find_kid (o_exec o) K = None /\
    exists d, lookup (o_key o) D = Some d /\ owned o d /\ d_rc d = None /\ d_started d = [] /\
              d_done d = [] /\ d_args d = false /\ d_opts d = false
  | PRunning =>
    exists d c, lookup (o_key o) D = Some d /\ owned o d /\ find_kid (o_exec o) K = Some c /\
                k_key c = o_key o /\ d_rc d = (if k_live c then None else Some (k_rc c))
  | PExited rc =>
    exists d, lookup (o_key o) D = Some d /\ owned o d /\ d_rc d = Some rc /\ dead_kid K o rc
  | PArgs rc =>
    exists d, lookup (o_key o) D = Some d /\ owned o d /\ d_rc d = Some rc /\ dead_kid K o rc /\
              (fst (o_need o) = true -> d_args d = true)
  | POpts rc =>
    exists d, lookup (o_key o) D = Some d /\ owned o d /\ d_rc d = Some rc /\ dead_kid K o rc /\
              (fst (o_need o) = true -> d_args d = true) /\ (snd (o_need o) = true -> d_opts d = true)
  | PChecked => finished D K o (fun d => (fst (o_need o) = true -> d_args d = true) /\
                                         (snd (o_need o) = true -> d_opts d = true))
  | PInserted | PDone | PFailed => True
  end.
Definition op_ok (D : fs) (K : list kid) (o : op) : Prop := op_ok_at D K o (o_phase o).

(* the operation has not reached the index yet *)
Definition active (o : op) : bool :=
  match o_phase o with PInserted | PDone | PFailed => false | _ => true end.

Definition run_ok (s : state) (last : N) (hd : head) (ops : list op) (txn : list row) : Prop :=
  (forall r, In r (s_rows s ++ txn) -> r_ts r <= last) /\
  (forall o, In o ops -> o_ts o <= last /\ o_head o = hd /\ o_exec o < s_next s) /\
  NoDup (map o_ts ops) /\ NoDup (map o_exec ops) /\
  (forall o, In o ops -> op_ok (s_dirs s) (s_kids s) o) /\
  rows_good (s_dirs s) txn /\
  (forall o r, In o ops -> active o = true -> In r (s_rows s ++ txn) -> row_key r <> o_key o).

Definition restore_ok (D : fs) (a : archive) (txn : list row) (st : rstage) : Prop :=
  archive_ok a /\
  match st with
  | RInserted c copying =>
    txn = map fst a /\ (c <= length a)%nat /\
    (forall i r od, (i < c)%nat -> nth_error a i = Some (r, od) ->
                    exists d, od = Some d /\ lookup (row_key r) D = Some d) /\
    (copying = true ->
     exists r d, nth_error a c = Some (r, Some d) /\ lookup (row_key r) D = Some (set_partial true d))
  | _ => txn = []
  end.

Definition proc_ok (s : state) : Prop :=
  match s_proc s with
  | Some (PRun last hd ops txn) => run_ok s last hd ops txn
  | Some (PRestore a txn st) => restore_ok (s_dirs s) a txn st
  | Some (PGc snap) => snap = map row_key (s_rows s)
  | _ => True
  end.

Record WF (s : state) : Prop := mk_WF {
  wf_rows : rows_good (s_dirs s) (s_rows s);
  wf_dirs : dirs_ok (s_dirs s);
  wf_kids : forall c, In c (s_kids s) -> kid_ok (s_dirs s) c /\ k_exec c < s_next s;
  wf_proc : proc_ok s }.

(* ------------------------------------------------------------------ operations *)

Lemma find_op_In e ops o : find_op e ops = Some o -> In o ops /\ o_exec o = e.
Proof. unfold find_op. intros H. apply find_some in H as [H1 H2]. apply N.eqb_eq in H2. auto. Qed.

Lemma find_op_unique e ops o o1 :
  NoDup (map o_exec ops) -> find_op e ops = Some o -> In o1 ops -> o_exec o1 = e -> o1 = o.
Proof.
  intros Hnd Hf Hin He. apply find_op_In in Hf as [Hin' He'].
  induction ops as [|x ops IH]; simpl in *; [tauto|].
  inversion Hnd as [|? ? Hx Hnd']; subst.
  destruct Hin as [->|Hin], Hin' as [->|Hin']; auto.
  - exfalso. apply Hx. apply in_map_iff. exists o. split; [congruence | assumption].
  - exfalso. apply Hx. apply in_map_iff. exists o1. split; [congruence | assumption].
Qed.

Lemma upd_op_In e p ops o' :
  In o' (upd_op e p ops) ->
  (In o' ops /\ o_exec o' <> e) \/ (exists o, In o ops /\ o_exec o = e /\ o' = set_phase p o).
Proof.
  unfold upd_op. intros H. apply in_map_iff in H as [o [H1 H2]].
  destruct (o_exec o =? e) eqn:E.
  - right. exists o. apply N.eqb_eq in E. auto.
  - left. subst o'. apply N.eqb_neq in E. auto.
Qed.

Lemma upd_op_ts e p ops : map o_ts (upd_op e p ops) = map o_ts ops.
Proof. unfold upd_op. rewrite map_map. apply map_ext. intros o. now destruct (o_exec o =? e). Qed.
Lemma upd_op_exec e p ops : map o_exec (upd_op e p ops) = map o_exec ops.
Proof. unfold upd_op. rewrite map_map. apply map_ext. intros o. now destruct (o_exec o =? e). Qed.

Lemma NoDup_map_neq {A B} (f : A -> B) l x y : NoDup (map f l) -> In x l -> In y l -> x <> y -> f x <> f y.
Proof.
  induction l as [|z l IH]; simpl; [tauto|].
  intros Hnd Hx Hy Hne. inversion Hnd as [|? ? Hz Hnd']; subst.
  destruct Hx as [->|Hx], Hy as [->|Hy].
  - congruence.
  - intros E. apply Hz. rewrite E. now apply in_map.
  - intros E. apply Hz. rewrite <- E. now apply in_map.
  - auto.
Qed.

Lemma ops_key_neq ops o1 o2 :
  NoDup (map o_ts ops) -> NoDup (map o_exec ops) -> In o1 ops -> In o2 ops ->
  o_exec o1 <> o_exec o2 -> o_key o1 <> o_key o2.
Proof.
  intros Hts Hex H1 H2 Hne E.
  assert (o1 <> o2) by congruence.
  pose proof (NoDup_map_neq o_ts ops o1 o2 Hts H1 H2 H). unfold o_key in E. congruence.
Qed.

(* ------------------------------------------------------------------ task processes *)

Lemma find_kid_In e K c : find_kid e K = Some c -> In c K /\ k_exec c = e.
Proof. unfold find_kid. intros H. apply find_some in H as [H1 H2]. apply N.eqb_eq in H2. auto. Qed.

Lemma In_find_kid c K : In c K -> exists c', find_kid (k_exec c) K = Some c'.
Proof.
  intros H. unfold find_kid. destruct (find (fun k => k_exec k =? k_exec c) K) eqn:E; [eauto|].
  exfalso. pose proof (find_none _ _ E c H) as Hn. simpl in Hn. rewrite N.eqb_refl in Hn. discriminate.
Qed.

Lemma find_kid_None_lt K n e : (forall c, In c K -> k_exec c < n) -> n <= e -> find_kid e K = None.
Proof.
  intros H Hle. destruct (find_kid e K) eqn:E; [|reflexivity].
  apply find_kid_In in E as [E1 E2]. apply H in E1. lia.
Qed.

Lemma find_kid_upd e e' f K :
  (forall c, k_exec (f c) = k_exec c) ->
  find_kid e' (upd_kid e f K) = if e' =? e then option_map f (find_kid e K) else find_kid e' K.
Proof.
  intros Hf. unfold find_kid, upd_kid. induction K as [|c K IH]; simpl.
  - now destruct (e' =? e).
  - destruct (k_exec c =? e) eqn:E1.
    + apply N.eqb_eq in E1. rewrite Hf. destruct (e' =? e) eqn:E2.
      * apply N.eqb_eq in E2. subst. rewrite N.eqb_refl. reflexivity.
      * replace (k_exec c =? e') with false by lia. rewrite IH. reflexivity.
    + destruct (e' =? e) eqn:E2.
      * apply N.eqb_eq in E2. subst e'. rewrite E1. exact IH.
      * destruct (k_exec c =? e'); [reflexivity | exact IH].
Qed.

Lemma find_kid_app e K c :
  find_kid e (K ++ [c]) =
  match find_kid e K with Some x => Some x | None => if k_exec c =? e then Some c else None end.
Proof.
  unfold find_kid. induction K as [|x K IH]; simpl; [reflexivity|].
  destruct (k_exec x =? e); [reflexivity | exact IH].
Qed.

Lemma upd_kid_In e f K c' :
  In c' (upd_kid e f K) ->
  (In c' K /\ k_exec c' <> e) \/ (exists c, In c K /\ k_exec c = e /\ c' = f c).
Proof.
  unfold upd_kid. intros H. apply in_map_iff in H as [c [H1 H2]].
  destruct (k_exec c =? e) eqn:E.
  - right. exists c. apply N.eqb_eq in E. auto.
  - left. subst c'. apply N.eqb_neq in E. auto.
Qed.

Lemma live_at_false k K : live_at k K = false -> forall c, In c K -> k_live c = true -> k_key c <> k.
Proof.
  unfold live_at. intros H c Hin Hl E.
  assert (existsb (fun c0 => k_live c0 && key_eqb (k_key c0) k) K = true); [|congruence].
  apply existsb_exists. exists c. split; [assumption|]. rewrite Hl, E, key_eqb_refl. reflexivity.
Qed.

Lemma any_live_false K : any_live K = false -> forall c, In c K -> k_live c = false.
Proof.
  unfold any_live. intros H c Hin. destruct (k_live c) eqn:E; [|reflexivity].
  assert (existsb k_live K = true); [|congruence]. apply existsb_exists. eauto.
Qed.

(* ------------------------------------------------------------------ extensionality of the
   per-entity invariants: each depends on one lookup in the directories / in the processes *)

Lemma op_ok_ext D K D' K' o :
  lookup (o_key o) D' = lookup (o_key o) D ->
  find_kid (o_exec o) K' = find_kid (o_exec o) K ->
  op_ok D K o -> op_ok D' K' o.
Proof.
  intros HD HK. unfold op_ok, op_ok_at, finished, dead_kid. rewrite HD, HK. tauto.
Qed.

Lemma op_ok_set D K o p : op_ok_at D K o p -> op_ok D K (set_phase p o).
Proof. destruct o; exact (fun H => H). Qed.

Lemma kid_ok_ext D D' c : lookup (k_key c) D' = lookup (k_key c) D -> kid_ok D c -> kid_ok D' c.
Proof. unfold kid_ok. intros ->. tauto. Qed.

Lemma rows_good_ext D D' R :
  (forall r, In r R -> lookup (row_key r) D' = lookup (row_key r) D) -> rows_good D R -> rows_good D' R.
Proof. intros H HR r Hin. rewrite (H r Hin). auto. Qed.

Lemma rows_good_app D R1 R2 : rows_good D R1 -> rows_good D R2 -> rows_good D (R1 ++ R2).
Proof. intros H1 H2 r Hin. apply in_app_or in Hin as [Hin|Hin]; auto. Qed.

(* a recorded row's directory is closed: exit status 0 and complete *)
Lemma rows_good_key D R r k d :
  rows_good D R -> In r R -> row_key r = k -> lookup k D = Some d -> d_rc d = Some 0 /\ d_partial d = false.
Proof.
  intros HR Hin <- Hl. destruct (HR r Hin) as (d' & Hl' & Hg). rewrite Hl in Hl'. inversion Hl'; subst.
  destruct Hg as (? & ? & _). auto.
Qed.
