(* Planner invariants, part 3 (needs acyclicity): when a task's operation is created (second visit)
   every direct dependency has been completely processed -- it is cached, or its operation already
   exists.  Consequences: the operation graph has an edge for every lowered direct dependency
   (C01_task_edges), all_ops is a topological order of the task graph, and the dependency snapshot
   handed to the operation refers to the versions created in this invocation (C07_snapshot). *)
From Coq Require Import List Arith Bool Lia.
From Conductor Require Import Model.Loader Model.Planner Proofs.ListFacts Proofs.PlannerInv Proofs.PlannerExact.
Import ListNotations.

Fixpoint before (p : nat) (l : list nat) : list nat :=
  match l with
  | [] => []
  | x :: l' => if Nat.eqb x p then [] else x :: before p l'
  end.

Lemma in_before p l f : In f (before p l) -> In f l.
Proof.
  induction l as [|x l IH]; simpl; [tauto|]. destruct (Nat.eqb x p); simpl; [tauto|]. intros [H|H]; auto.
Qed.
Lemma before_head p l : before p (p :: l) = [].
Proof. simpl. now rewrite Nat.eqb_refl. Qed.
Lemma before_cons_neq p x l : x <> p -> before p (x :: l) = x :: before p l.
Proof. intros H. simpl. apply Nat.eqb_neq in H. now rewrite H. Qed.
Lemma before_app_notin p a l : ~ In p a -> before p (a ++ l) = a ++ before p l.
Proof.
  induction a as [|x a IH]; intros H; [reflexivity|]. simpl.
  destruct (Nat.eqb x p) eqn:E; [apply Nat.eqb_eq in E; subst; exfalso; apply H; left; reflexivity|].
  f_equal. apply IH. intros Hin. apply H. right; exact Hin.
Qed.
Lemma before_or p v l : In p l -> In v l -> p <> v -> In v (before p l) \/ In p (before v l).
Proof.
  induction l as [|x l IH]; intros Hp Hv Hne; [destruct Hp|]. simpl.
  destruct (Nat.eqb x p) eqn:E1; destruct (Nat.eqb x v) eqn:E2.
  - apply Nat.eqb_eq in E1, E2. congruence.
  - apply Nat.eqb_eq in E1. subst x. right. left. reflexivity.
  - apply Nat.eqb_eq in E2. subst x. left. left. reflexivity.
  - apply Nat.eqb_neq in E1, E2.
    destruct Hp as [Hp|Hp]; [congruence|]. destruct Hv as [Hv|Hv]; [congruence|].
    destruct (IH Hp Hv Hne) as [H|H]; [left; right; exact H | right; right; exact H].
Qed.

Section Order.
  Variable info : nat -> tinfo.
  Variable sr : nat -> bool.
  Variable again : bool.
  Variable root : nat.
  Hypothesis deps_nodup : forall t, NoDup (t_deps (info t)).

  (* a non-empty path in the task dependency graph *)
  Inductive TPath : nat -> nat -> Prop :=
  | tp_one x y : In y (t_deps (info x)) -> TPath x y
  | tp_step x y z : In y (t_deps (info x)) -> TPath y z -> TPath x z.

  Lemma tp_snoc x y z : TPath x y -> In z (t_deps (info y)) -> TPath x z.
  Proof. induction 1; intros Hz; [eapply tp_step; eauto; now apply tp_one | eapply tp_step; eauto]. Qed.

  Lemma tp_trans x y z : TPath x y -> TPath y z -> TPath x z.
  Proof. induction 1; intros Hz; eapply tp_step; eauto. Qed.

  Hypothesis acyclic : forall t, NReach info sr again root t -> ~ TPath t t.

  Notation runs := (runs sr again).
  (* TaskExecutable.parallelizable for commands and experiments; group / combine are never parallel *)
  Definition par_of (t : nat) : bool :=
    match t_kind (info t) with KCommand | KExperiment => t_par (info t) | _ => false end.
  Definition is_exp (d : nat) : bool := match t_kind (info d) with KExperiment => true | _ => false end.

  Definition DoneP (s : pstate) (v : nat) : Prop :=
    lookup (task_at (store s) v) (visited s) = Some v /\
    ((lt_second (lt_at (store s) v) = false /\ In (task_at (store s) v) (cached s)) \/
     (exists o, lt_out (lt_at (store s) v) = Own [o])).
  Definition Done (s : pstate) (j : nat) : Prop :=
    DoneP s j \/ exists v, lt_out (lt_at (store s) j) = Alias v /\ DoneP s v.
  Definition pstat (s : pstate) (above : list nat) (j : nat) : Prop :=
    Done s j \/ In j above \/ exists v, lt_out (lt_at (store s) j) = Alias v /\ In v above.

  Record OInv (s : pstate) : Prop := {
    o_desc : forall p, In p (stack s) -> lt_second (lt_at (store s) p) = true ->
             forall f, In f (before p (stack s)) -> TPath (task_at (store s) p) (task_at (store s) f);
    o_stat : forall p, In p (stack s) -> lt_second (lt_at (store s) p) = true ->
             forall j, In j (lt_deps (lt_at (store s) p)) -> pstat s (before p (stack s)) j;
    o_edges : forall o, o < length (ops s) ->
              forall d, In d (t_deps (info (op_task (op_at (ops s) o)))) -> runs d = true ->
              exists od, In od (op_exe_deps (op_at (ops s) o)) /\ op_task (op_at (ops s) od) = d;
    o_snap : forall x l, In (x, l) (snaps s) -> l = map (fun d => (d, runs d && is_exp d)) (t_deps (info x));
    o_conv : forall o, o < length (ops s) -> forall od, In od (op_exe_deps (op_at (ops s) o)) ->
             In (op_task (op_at (ops s) od)) (t_deps (info (op_task (op_at (ops s) o))));
    o_keys : map fst (snaps s) = map op_task (ops s);
    o_attr : forall o, o < length (ops s) ->
             op_par (op_at (ops s) o) = par_of (op_task (op_at (ops s) o)) /\
             op_sync (op_at (ops s) o) = is_sync (t_kind (info (op_task (op_at (ops s) o))))
  }.

  Lemma oinit : OInv (pinit root).
  Proof.
    constructor; cbn [pinit stack store ops snaps].
    - intros p [<-|[]] Hs. cbn in Hs. discriminate.
    - intros p [<-|[]] Hs. cbn in Hs. discriminate.
    - intros o Ho. simpl in Ho. lia.
    - intros x l [].
    - intros o Ho. simpl in Ho. lia.
    - reflexivity.
    - intros o Ho. simpl in Ho. lia.
  Qed.

  (* an entry of the stack has not been completely processed *)
  Lemma stack_not_done s i : PInv info s -> In i (stack s) -> ~ Done s i.
  Proof.
    intros I Hin. destruct (pend _ _ I i Hin) as [Hout Hp].
    intros [[Hprim [[Hs _]|(o & Ho)]]|(v & Hv & _)].
    - destruct (Hp Hs) as [H _]. contradiction.
    - rewrite Hout in Ho. discriminate.
    - rewrite Hout in Hv. discriminate.
  Qed.

  (* a primary LoweringTask is either completely processed or pending on the stack *)
  Lemma primary_cases s v :
    PInv info s -> QInv info sr again root s ->
    lookup (task_at (store s) v) (visited s) = Some v ->
    DoneP s v \/ (In v (stack s) /\ lt_second (lt_at (store s) v) = true).
  Proof.
    intros I Q Hl. pose proof (lookup_In _ _ _ Hl) as Hin.
    destruct (v_ok _ _ I _ _ Hin) as [Hv _].
    destruct (q_status _ _ _ _ _ Q _ _ Hin) as [H1 H2].
    destruct (runs (task_at (store s) v)) eqn:Er.
    - specialize (H1 eq_refl). destruct (q_done _ _ _ _ _ Q v Hv H1) as [H|H].
      + right. auto.
      + left. split; [assumption | right; assumption].
    - destruct (H2 eq_refl) as [Hc Hs]. left. split; [assumption | left; auto].
  Qed.

  (* what one step leaves alone *)
  Lemma pstep_frame s s' i stk :
    PInv info s -> pstep info sr again s = Some s' -> stack s = i :: stk ->
    length (store s) <= length (store s') /\
    (forall j, j < length (store s) -> j <> i -> lt_at (store s') j = lt_at (store s) j) /\
    (forall j, j < length (store s) -> task_at (store s') j = task_at (store s) j) /\
    (forall t v, lookup t (visited s) = Some v -> lookup t (visited s') = Some v) /\
    (forall t, In t (cached s) -> In t (cached s')).
  Proof.
    intros I Hstep Es. unfold pstep in Hstep. rewrite Es in Hstep.
    fold (lt_at (store s) i) in Hstep. fold (task_at (store s) i) in Hstep.
    assert (Hin : In i (stack s)) by (rewrite Es; left; reflexivity).
    pose proof (k_ok _ _ I i Hin) as Hi.
    set (t := task_at (store s) i) in *.
    assert (Hset : forall x, lt_task x = t ->
              length (store s) <= length (set_nth i x (store s)) /\
              (forall j, j < length (store s) -> j <> i -> lt_at (set_nth i x (store s)) j = lt_at (store s) j) /\
              (forall j, j < length (store s) -> task_at (set_nth i x (store s)) j = task_at (store s) j)).
    { intros x Hx. rewrite length_set_nth. split; [lia|]. split.
      - intros j _ Hne. apply lt_at_set_neq. intros E. apply Hne. now rewrite E.
      - intros j _. apply task_at_set; [exact Hi | exact Hx]. }
    destruct (lt_second (lt_at (store s) i)) eqn:Hsec; cbn [negb] in Hstep.
    - inversion Hstep; subst; clear Hstep. cbn [store visited cached].
      destruct (Hset {| lt_task := lt_task (lt_at (store s) i); lt_second := true; lt_deps := lt_deps (lt_at (store s) i);
                        lt_out := match lt_out (lt_at (store s) i) with Own l => Own (l ++ [length (ops s)]) | Alias lt => Alias lt end |} eq_refl) as (A & B & C).
      auto.
    - destruct (lookup t (visited s)) as [v|] eqn:El.
      + inversion Hstep; subst; clear Hstep. cbn [store visited cached].
        destruct (Hset {| lt_task := t; lt_second := false; lt_deps := lt_deps (lt_at (store s) i); lt_out := Alias v |} eq_refl) as (A & B & C). auto.
      + assert (Hlk : forall t' v', lookup t' (visited s) = Some v' -> lookup t' ((t, i) :: visited s) = Some v').
        { intros t' v' H. rewrite lookup_cons_other; [assumption|]. intros E. rewrite E in H. congruence. }
        destruct (negb again && negb (sr t)).
        * inversion Hstep; subst; clear Hstep. cbn [store visited cached].
          split; [lia|]. split; [auto|]. split; [auto|]. split; [assumption|]. intros t' H. apply in_or_app. auto.
        * destruct (push_deps _ _ _ _ _) as [[st1 stk1] deps1] eqn:Epd.
          inversion Hstep; subst; clear Hstep. cbn [store visited cached].
          destruct (push_deps_spec _ _ _ _ _ _ _ _ Epd) as (new & newidx & idxs & E1 & _).
          set (ltC := {| lt_task := t; lt_second := true; lt_deps := deps1; lt_out := lt_out (lt_at (store s) i) |}).
          assert (Hlen1 : length st1 = length (store s) + length new) by (rewrite E1, app_length; reflexivity).
          assert (Hold1 : forall x, x < length (store s) -> lt_at st1 x = lt_at (store s) x).
          { intros x Hx. unfold lt_at. rewrite E1. now apply app_nth1. }
          rewrite length_set_nth. split; [lia|]. split; [|split; [|split; [assumption | auto]]].
          -- intros j Hj Hne. rewrite lt_at_set_neq by auto. now apply Hold1.
          -- intros j Hj. unfold task_at. destruct (Nat.eq_dec j i) as [->|Hne].
             ++ rewrite lt_at_set_eq by lia. reflexivity.
             ++ rewrite lt_at_set_neq by auto. now rewrite Hold1.
  Qed.

  Lemma doneP_stable s s' :
    PInv info s -> pstep info sr again s = Some s' ->
    forall v, v < length (store s) -> DoneP s v -> DoneP s' v.
  Proof.
    intros I Hstep v Hv HD.
    destruct (stack s) as [|i stk] eqn:Es; [unfold pstep in Hstep; rewrite Es in Hstep; discriminate|].
    destruct (pstep_frame s s' i stk I Hstep Es) as (_ & Hat & Htask & Hlk & Hca).
    assert (Hne : v <> i).
    { intros ->. eapply stack_not_done; [exact I | rewrite Es; left; reflexivity | left; exact HD]. }
    destruct HD as [Hprim Hc]. unfold DoneP. rewrite Htask, Hat by assumption.
    split; [now apply Hlk|]. destruct Hc as [[Hs Hc]|Ho]; [left; auto | right; assumption].
  Qed.

  Lemma done_stable s s' :
    PInv info s -> pstep info sr again s = Some s' ->
    forall j, j < length (store s) -> Done s j -> Done s' j.
  Proof.
    intros I Hstep j Hj [HD|(v & Hv & HD)]; [left; eapply doneP_stable; eauto|].
    destruct (stack s) as [|i stk] eqn:Es; [unfold pstep in Hstep; rewrite Es in Hstep; discriminate|].
    destruct (pstep_frame s s' i stk I Hstep Es) as (_ & Hat & _).
    assert (Hne : j <> i).
    { intros ->. destruct (pend _ _ I i) as [Hout _]; [rewrite Es; left; reflexivity|]. rewrite Hout in Hv. discriminate. }
    destruct (o_alias _ _ I j v Hj Hv) as (Hl & _ & _). apply lookup_In in Hl. destruct (v_ok _ _ I _ _ Hl) as [Hvlt _].
    right. exists v. rewrite Hat by assumption. split; [assumption | eapply doneP_stable; eauto].
  Qed.

  Lemma pstat_mono s a1 a2 j : (forall x, In x a1 -> In x a2) -> pstat s a1 j -> pstat s a2 j.
  Proof. intros H [Hd|[Hi|(v & Hv & Hi)]]; [left; assumption | right; left; auto | right; right; eauto]. Qed.

  Theorem pstep_oinv s s' :
    PInv info s -> QInv info sr again root s -> OInv s -> pstep info sr again s = Some s' -> OInv s'.
  Proof.
    intros I Q O Hstep.
    pose proof (pstep_inv info sr again deps_nodup s s' I Hstep) as I'.
    destruct (stack s) as [|i stk] eqn:Es; [unfold pstep in Hstep; rewrite Es in Hstep; discriminate|].
    destruct (pstep_frame s s' i stk I Hstep Es) as (Hlen & Hat & Htask & Hlk & Hca).
    assert (Hin : In i (stack s)) by (rewrite Es; left; reflexivity).
    pose proof (k_ok _ _ I i Hin) as Hi.
    destruct (pend _ _ I i Hin) as [Hout Hp].
    assert (Hnd : NoDup (i :: stk)) by (rewrite <- Es; apply (k_nodup _ _ I)).
    inversion Hnd as [|? ? Hni Hnd']; subst.
    assert (Hstk_lt : forall p, In p stk -> p < length (store s) /\ p <> i).
    { intros p Hp'. split; [apply (k_ok _ _ I); rewrite Es; right; assumption | intros ->; contradiction]. }
    assert (Hbef : forall p, In p stk -> before p (stack s) = i :: before p stk).
    { intros p Hp'. rewrite Es. apply before_cons_neq. intros ->. contradiction. }
    (* pending frames below the top keep their LoweringTask *)
    assert (Hkeep : forall p, In p stk -> lt_at (store s') p = lt_at (store s) p /\ task_at (store s') p = task_at (store s) p).
    { intros p Hp'. destruct (Hstk_lt p Hp'). split; [now apply Hat | now apply Htask]. }
    assert (Hdeps_lt : forall p j, In p (stack s) -> lt_second (lt_at (store s) p) = true -> In j (lt_deps (lt_at (store s) p)) -> j < length (store s)).
    { intros p j Hp' Hs Hj. destruct (d_ok _ _ I p (k_ok _ _ I p Hp') Hs) as [_ H]. now apply H. }
    (* the descendant clause for frames that stay on the stack, given where the new frames come from *)
    set (t := task_at (store s) i) in *.
    pose proof Hstep as Hstep0.
    assert (Hdesc_pop : forall p, In p stk -> lt_second (lt_at (store s') p) = true ->
              forall f, In f (before p stk) -> TPath (task_at (store s') p) (task_at (store s') f)).
    { intros p Hp' Hs f Hf. destruct (Hkeep p Hp') as [Ea Et]. rewrite Ea in Hs.
      assert (Hfs : In f stk) by (eapply in_before; eauto). destruct (Hkeep f Hfs) as [_ Etf].
      rewrite Et, Etf. apply (o_desc _ O p); [rewrite Es; right; assumption | assumption|].
      rewrite (Hbef p Hp'). right. exact Hf. }
    assert (Hcyc : forall p, In p stk -> lt_second (lt_at (store s) p) = true -> TPath (task_at (store s) p) (task_at (store s) i)).
    { intros p Hp' Hs. apply (o_desc _ O p); [rewrite Es; right; assumption | assumption|]. rewrite (Hbef p Hp'). left. reflexivity. }
    pose proof (q_reach _ _ _ _ _ Q i Hi) as Ht_reach.
    unfold pstep in Hstep. rewrite Es in Hstep.
    fold (lt_at (store s) i) in Hstep. fold (task_at (store s) i) in Hstep. fold t in Hstep.
    destruct (lt_second (lt_at (store s) i)) eqn:Hsec; cbn [negb] in Hstep.
    - (* ---------- second visit: the operation is created ---------- *)
      assert (Hdone : forall j, In j (lt_deps (lt_at (store s) i)) -> Done s j).
      { intros j Hj. pose proof (o_stat _ O i Hin Hsec j Hj) as H. rewrite Es, before_head in H.
        destruct H as [H|[[]|(v & _ & [])]]. exact H. }
      destruct (d_ok _ _ I i Hi Hsec) as [Hdt Hdr]. fold t in Hdt.
      assert (Hdep_op : forall d, In d (t_deps (info t)) -> runs d = true ->
                exists od, In od (flat_map (fun d0 => resolve_out (store s) (lt_out (nth d0 (store s) dummy_lt))) (lt_deps (lt_at (store s) i)))
                           /\ od < length (ops s) /\ op_task (op_at (ops s) od) = d).
      { intros d Hd Hr.
        assert (Hj : exists j, In j (lt_deps (lt_at (store s) i)) /\ task_at (store s) j = d).
        { apply in_rev in Hd. rewrite <- Hdt in Hd. apply in_map_iff in Hd as (j & Hj1 & Hj2). eauto. }
        destruct Hj as (j & Hj & Htj). pose proof (Hdr j Hj) as Hjlt.
        assert (Hres : forall v, v < length (store s) -> task_at (store s) v = d -> DoneP s v ->
                  exists od, lt_out (lt_at (store s) v) = Own [od] /\ od < length (ops s) /\ op_task (op_at (ops s) od) = d).
        { intros v Hv Htv [_ [[_ Hc]|(od & Hod)]].
          - rewrite Htv in Hc. destruct (q_cached _ _ _ _ _ Q d Hc) as [Hr' _]. congruence.
          - exists od. split; [assumption|]. destruct (o_own _ _ I v [od] Hv Hod) as [_ H]. destruct (H od (or_introl eq_refl)) as (A & B & _).
            split; [assumption | congruence]. }
        destruct (Hdone j Hj) as [HD|(v & Hv & HD)].
        - destruct (Hres j Hjlt Htj HD) as (od & Hod & A & B). exists od. split; [|auto].
          apply in_flat_map. exists j. split; [assumption|]. fold (lt_at (store s) j). rewrite Hod. simpl. auto.
        - destruct (o_alias _ _ I j v Hjlt Hv) as (Hl & _ & _). apply lookup_In in Hl. destruct (v_ok _ _ I _ _ Hl) as [Hvlt Htv].
          rewrite Htj in Htv. destruct (Hres v Hvlt Htv HD) as (od & Hod & A & B). exists od. split; [|auto].
          apply in_flat_map. exists j. split; [assumption|]. fold (lt_at (store s) j). rewrite Hv. cbn [resolve_out].
          fold (lt_at (store s) v). rewrite Hod. simpl. auto. }
      set (o := length (ops s)) in *.
      set (edeps := flat_map (fun d0 => resolve_out (store s) (lt_out (nth d0 (store s) dummy_lt))) (lt_deps (lt_at (store s) i))) in *.
      set (oi := {| op_task := t; op_exe_deps := edeps;
                    op_par := match t_kind (info t) with KCommand | KExperiment => t_par (info t) | _ => false end;
                    op_sync := is_sync (t_kind (info t)) |}) in *.
      set (st' := set_nth i {| lt_task := t; lt_second := true; lt_deps := lt_deps (lt_at (store s) i); lt_out := Own [o] |} (store s)) in *.
      set (nv' := match t_kind (info t) with KExperiment => nv_calls s ++ [t] | _ => nv_calls s end) in *.
      assert (E' : store s' = st' /\ stack s' = stk /\ visited s' = visited s /\ ops s' = ops s ++ [oi] /\
                   snaps s' = snaps s ++ [(t, map (fun d => (d, mem d nv')) (t_deps (info t)))]).
      { inversion Hstep; subst s'. cbn [store stack ops snaps visited]. rewrite Hout. cbn [app]. auto. }
      clear Hstep. destruct E' as (Est & Estk & Evis & Eops & Esnaps).
      assert (HDi : DoneP s' i).
      { unfold DoneP. rewrite Est, Evis. unfold st'. rewrite task_at_set, lt_at_set_eq by (auto; reflexivity).
        split; [now apply (sec_primary _ _ I)|]. right. exists o. reflexivity. }
      constructor; rewrite ?Estk, ?Eops, ?Esnaps.
      + intros p Hp' Hs f Hf. destruct (Hkeep p Hp') as [Ea Et]. rewrite Ea in Hs.
        assert (Hfs : In f stk) by (eapply in_before; eauto). destruct (Hkeep f Hfs) as [_ Etf].
        rewrite Et, Etf. apply (o_desc _ O p); [rewrite Es; right; assumption | assumption|].
        rewrite (Hbef p Hp'). right. exact Hf.
      + intros p Hp' Hs j Hj. destruct (Hkeep p Hp') as [Ea Et]. rewrite Ea in Hs, Hj.
        assert (Hps : In p (stack s)) by (rewrite Es; right; assumption).
        pose proof (o_stat _ O p Hps Hs j Hj) as H. rewrite (Hbef p Hp') in H.
        pose proof (Hdeps_lt p j Hps Hs Hj) as Hjlt.
        destruct H as [H|[[<-|H]|(v & Hv & [<-|H])]].
        * left. eapply done_stable; [exact I | exact Hstep0 | exact Hjlt | exact H].
        * left. left. exact HDi.
        * right. left. exact H.
        * left. right. exists i. split; [|exact HDi].
          assert (j <> i) by (intros ->; rewrite Hout in Hv; discriminate).
          rewrite Est. unfold st'. now rewrite lt_at_set_neq by auto.
        * right. right. exists v. split; [|exact H].
          assert (j <> i) by (intros ->; rewrite Hout in Hv; discriminate).
          rewrite Est. unfold st'. now rewrite lt_at_set_neq by auto.
      + intros o' Ho' d Hd Hr. rewrite app_length in Ho'. simpl in Ho'.
        destruct (Nat.eq_dec o' o) as [->|Hne].
        * unfold o in *. rewrite op_at_app_new in *. cbn [op_task op_exe_deps oi] in *.
          destruct (Hdep_op d Hd Hr) as (od & Hod & A & B). exists od. split; [exact Hod|].
          now rewrite op_at_app_l.
        * assert (Hlt : o' < length (ops s)) by (unfold o in *; lia). rewrite op_at_app_l in * by assumption.
          destruct (o_edges _ O o' Hlt d Hd Hr) as (od & Hod & B). exists od. split; [assumption|].
          rewrite op_at_app_l; [assumption|]. apply (op_deps_lt _ _ I o' od Hlt) in Hod. lia.
      + intros x l Hx. apply in_app_or in Hx as [Hx|[Hx|[]]]; [now apply (o_snap _ O)|].
        inversion Hx; subst x l. clear Hx. apply map_ext_in. intros d Hd. f_equal.
        assert (Hnv : forall d', In d' (nv_calls s) <-> exists od, od < length (ops s) /\ op_task (op_at (ops s) od) = d' /\ is_exp d' = true).
        { intros d'. rewrite (q_nv _ _ _ _ _ Q). rewrite in_flat_map. split.
          - intros (oi' & Hoi & Hd'). apply In_nth with (d := dummy_op) in Hoi as (od & Hod & Eo).
            unfold is_exp. destruct (t_kind (info (op_task oi'))) eqn:Ek; simpl in Hd'; try contradiction.
            destruct Hd' as [<-|[]]. exists od. unfold op_at. rewrite Eo, Ek. auto.
          - intros (od & Hod & Et & He). exists (op_at (ops s) od). split; [apply nth_In; assumption|].
            rewrite Et. unfold is_exp in He. destruct (t_kind (info d')); try discriminate. left; reflexivity. }
        assert (Hself : ~ In t (t_deps (info t))).
        { intros H. apply (acyclic t); [apply (q_reach _ _ _ _ _ Q i Hi) | now apply tp_one]. }
        destruct (runs d && is_exp d) eqn:Ere.
        * apply andb_true_iff in Ere as [Hr He]. apply mem_In.
          destruct (Hdep_op d Hd Hr) as (od & _ & A & B).
          assert (In d (nv_calls s)) by (apply Hnv; eauto).
          unfold nv'. destruct (t_kind (info t)); auto. apply in_or_app. auto.
        * apply mem_false. intros Hmem.
          assert (Hin' : In d (nv_calls s)).
          { unfold nv' in Hmem. destruct (t_kind (info t)); auto. apply in_app_or in Hmem as [H|[H|[]]]; [assumption|]. subst d. contradiction. }
          apply Hnv in Hin' as (od & Hod & Et & He).
          destruct (op_primary _ _ I od Hod) as (v & Hv & Hov).
          destruct (o_own _ _ I v [od] Hv Hov) as [_ H]. destruct (H od (or_introl eq_refl)) as (_ & B & C).
          pose proof (sec_primary _ _ I v Hv C) as Hprim. apply lookup_In in Hprim.
          destruct (q_status _ _ _ _ _ Q _ _ Hprim) as [_ H2].
          assert (Hr : runs d = true).
          { rewrite <- Et, B. destruct (runs (task_at (store s) v)) eqn:Er; [reflexivity|]. destruct (H2 eq_refl). congruence. }
          rewrite Hr, He in Ere. discriminate.
      + intros o' Ho' od Hod. rewrite app_length in Ho'. simpl in Ho'.
        destruct (Nat.eq_dec o' o) as [->|Hne].
        * unfold o in *. rewrite op_at_app_new in *. cbn [op_task op_exe_deps oi] in *.
          unfold edeps in Hod. apply in_flat_map in Hod as (j & Hj & Hod). fold (lt_at (store s) j) in Hod.
          pose proof (Hdr j Hj) as Hjlt.
          assert (Htj : In (task_at (store s) j) (t_deps (info t))).
          { apply in_rev. rewrite <- Hdt. now apply in_map. }
          assert (Hown : forall v l, v < length (store s) -> lt_out (lt_at (store s) v) = Own l -> In od l ->
                    od < length (ops s) /\ op_task (op_at (ops s) od) = task_at (store s) v).
          { intros v l Hv Hl Hin'. destruct (o_own _ _ I v l Hv Hl) as [_ H]. destruct (H od Hin') as (A & B & _). auto. }
          destruct (lt_out (lt_at (store s) j)) as [l|v] eqn:Eo; cbn [resolve_out] in Hod.
          -- destruct (Hown j l Hjlt Eo Hod) as [A B]. rewrite op_at_app_l by assumption. now rewrite B.
          -- destruct (o_alias _ _ I j v Hjlt Eo) as (Hl & _ & _). apply lookup_In in Hl. destruct (v_ok _ _ I _ _ Hl) as [Hvlt Htv].
             fold (lt_at (store s) v) in Hod. destruct (lt_out (lt_at (store s) v)) as [l|v2] eqn:Eo2; [|destruct Hod].
             destruct (Hown v l Hvlt Eo2 Hod) as [A B]. rewrite op_at_app_l by assumption. now rewrite B, Htv.
        * assert (Hlt : o' < length (ops s)) by (unfold o in *; lia). rewrite op_at_app_l in * by assumption.
          pose proof (op_deps_lt _ _ I o' od Hlt Hod) as Hodlt. rewrite !op_at_app_l by lia.
          now apply (o_conv _ O).
      + rewrite !map_app. cbn [map fst op_task oi]. now rewrite (o_keys _ O).
      + intros o' Ho'. rewrite app_length in Ho'. simpl in Ho'.
        destruct (Nat.eq_dec o' o) as [->|Hne].
        * unfold o. rewrite op_at_app_new. cbn [op_task op_par op_sync oi]. split; reflexivity.
        * assert (Hlt : o' < length (ops s)) by (unfold o in *; lia). rewrite op_at_app_l by assumption.
          now apply (o_attr _ O).
    - (* ---------- first visit ---------- *)
      assert (Hno_alias_i : forall j, j < length (store s) -> lt_out (lt_at (store s) j) = Alias i -> False).
      { intros j Hj Hv. destruct (o_alias _ _ I j i Hj Hv) as (Hl & _ & _).
        pose proof (lookup_In _ _ _ Hl) as Hl'. destruct (v_ok _ _ I _ _ Hl') as [_ Hti].
        destruct (Hp eq_refl) as [H _]. apply H. fold t in Hti. rewrite <- Hti in Hl. exact Hl. }
      destruct (lookup t (visited s)) as [v|] eqn:El.
      + (* already visited: the entry becomes an alias of the primary LoweringTask v *)
        assert (E' : store s' = set_nth i {| lt_task := t; lt_second := false; lt_deps := lt_deps (lt_at (store s) i); lt_out := Alias v |} (store s) /\
                     stack s' = stk /\ visited s' = visited s /\ ops s' = ops s /\ snaps s' = snaps s).
        { inversion Hstep; subst s'. cbn [store stack ops snaps visited]. auto. }
        destruct E' as (Est & Estk & Evis & Eops & Esnaps).
        pose proof (lookup_In _ _ _ El) as Hvin. destruct (v_ok _ _ I _ _ Hvin) as [Hvlt Hvt].
        assert (Hvne : v <> i). { intros ->. destruct (Hp eq_refl) as [H _]. apply H. reflexivity. }
        assert (Hali : lt_out (lt_at (store s') i) = Alias v) by (rewrite Est, lt_at_set_eq by auto; reflexivity).
        constructor; rewrite ?Estk, ?Eops, ?Esnaps; [exact Hdesc_pop | | exact (o_edges _ O) | exact (o_snap _ O) | exact (o_conv _ O) | exact (o_keys _ O) | exact (o_attr _ O)].
        intros p Hp' Hs j Hj. destruct (Hkeep p Hp') as [Ea Et]. rewrite Ea in Hs, Hj.
        assert (Hps : In p (stack s)) by (rewrite Es; right; assumption).
        pose proof (o_stat _ O p Hps Hs j Hj) as H. rewrite (Hbef p Hp') in H.
        pose proof (Hdeps_lt p j Hps Hs Hj) as Hjlt.
        destruct H as [H|[[<-|H]|(v' & Hv' & [<-|H])]].
        * left. eapply done_stable; [exact I | exact Hstep0 | exact Hjlt | exact H].
        * destruct (primary_cases s v I Q) as [HD|[Hvs Hvsec]]; [rewrite Hvt; exact El | |].
          -- left. right. exists v. split; [exact Hali | eapply doneP_stable; [exact I | exact Hstep0 | exact Hvlt | exact HD]].
          -- rewrite Es in Hvs. destruct Hvs as [Hvs|Hvs]; [congruence|].
             destruct (Nat.eq_dec p v) as [->|Hpv].
             ++ exfalso. apply (acyclic t Ht_reach). pose proof (Hcyc v Hvs Hvsec) as H. rewrite Hvt in H. exact H.
             ++ destruct (before_or p v stk Hp' Hvs Hpv) as [Hb|Hb].
                ** right. right. exists v. split; [exact Hali | exact Hb].
                ** exfalso. apply (acyclic t Ht_reach).
                   assert (H : TPath t (task_at (store s) p)).
                   { rewrite <- Hvt. apply (o_desc _ O v); [rewrite Es; right; assumption | assumption |]. rewrite (Hbef v Hvs). right. exact Hb. }
                   eapply tp_trans; [exact H | apply Hcyc; assumption].
        * right. left. exact H.
        * exfalso. eapply Hno_alias_i; eauto.
        * right. right. exists v'. split; [|exact H].
          assert (j <> i) by (intros ->; rewrite Hout in Hv'; discriminate).
          rewrite Est. now rewrite lt_at_set_neq by auto.
      + destruct (negb again && negb (sr t)) eqn:Ecd.
        * (* cached: nothing below it is visited *)
          assert (E' : store s' = store s /\ stack s' = stk /\ visited s' = (t, i) :: visited s /\ ops s' = ops s /\ snaps s' = snaps s /\
                       cached s' = cached s ++ [t]).
          { inversion Hstep; subst s'. cbn [store stack ops snaps visited cached]. auto 10. }
          destruct E' as (Est & Estk & Evis & Eops & Esnaps & Ecach).
          assert (HDi : DoneP s' i).
          { unfold DoneP. rewrite Est, Evis, Ecach. fold t. split.
            - cbn [lookup]. now rewrite Nat.eqb_refl.
            - left. split; [exact Hsec | apply in_or_app; right; left; reflexivity]. }
          constructor; rewrite ?Estk, ?Eops, ?Esnaps; [exact Hdesc_pop | | exact (o_edges _ O) | exact (o_snap _ O) | exact (o_conv _ O) | exact (o_keys _ O) | exact (o_attr _ O)].
          intros p Hp' Hs j Hj. destruct (Hkeep p Hp') as [Ea Et]. rewrite Ea in Hs, Hj.
          assert (Hps : In p (stack s)) by (rewrite Es; right; assumption).
          pose proof (o_stat _ O p Hps Hs j Hj) as H. rewrite (Hbef p Hp') in H.
          pose proof (Hdeps_lt p j Hps Hs Hj) as Hjlt.
          destruct H as [H|[[<-|H]|(v' & Hv' & [<-|H])]].
          -- left. eapply done_stable; [exact I | exact Hstep0 | exact Hjlt | exact H].
          -- left. left. exact HDi.
          -- right. left. exact H.
          -- left. right. exists i. split; [rewrite Est; exact Hv' | exact HDi].
          -- right. right. exists v'. split; [rewrite Est; exact Hv' | exact H].
        * (* expanded: the dependencies not visited so far are pushed above it *)
          destruct (push_deps _ _ _ _ _) as [[st1 stk1] deps1] eqn:Epd.
          destruct (push_deps_spec _ _ _ _ _ _ _ _ Epd) as (new & newidx & idxs & E1 & E2 & E3 & E4 & E5 & E6 & E7).
          simpl in E3. subst deps1.
          set (ltC := {| lt_task := t; lt_second := true; lt_deps := idxs; lt_out := lt_out (lt_at (store s) i) |}) in *.
          assert (E' : store s' = set_nth i ltC st1 /\ stack s' = rev newidx ++ i :: stk /\ visited s' = (t, i) :: visited s /\
                       ops s' = ops s /\ snaps s' = snaps s).
          { inversion Hstep; subst s'. cbn [store stack ops snaps visited]. subst stk1. auto 10. }
          destruct E' as (Est & Estk & Evis & Eops & Esnaps).
          assert (Hnew_ge : forall j, In j newidx -> length (store s) <= j).
          { intros j Hj. rewrite E5 in Hj. apply in_seq in Hj. lia. }
          assert (Hi_new : ~ In i newidx) by (intros H; apply Hnew_ge in H; lia).
          assert (Hi_new' : ~ In i (rev newidx)) by (rewrite <- in_rev; exact Hi_new).
          assert (Hstk_new : forall p, In p stk -> ~ In p (rev newidx)).
          { intros p Hp' H. rewrite <- in_rev in H. apply Hnew_ge in H. destruct (Hstk_lt p Hp'). lia. }
          assert (Hi1 : i < length st1) by (rewrite E1, app_length; lia).
          assert (Hnew_at : forall j, In j newidx -> lt_second (lt_at (store s') j) = false /\ In (task_at (store s') j) (t_deps (info t))).
          { intros j Hj. destruct (E6 j Hj) as (A & B & _). assert (j <> i) by (intros ->; contradiction).
            unfold task_at. rewrite Est, lt_at_set_neq by auto. split; [rewrite A; reflexivity|].
            apply in_rev. exact B. }
          assert (Hat_i : lt_at (store s') i = ltC) by (rewrite Est; now apply lt_at_set_eq).
          assert (Hti : task_at (store s') i = t) by (unfold task_at; rewrite Hat_i; reflexivity).
          assert (Hidx : forall j, In j idxs -> In j newidx \/ exists d, In d (t_deps (info t)) /\ lookup d ((t, i) :: visited s) = Some j).
          { intros j Hj. apply In_nth_error in Hj as (k & Hk).
            assert (Hkl : k < length (rev (t_deps (info t)))) by (rewrite <- E4; apply nth_error_Some; congruence).
            destruct (nth_error (rev (t_deps (info t))) k) as [d|] eqn:Ed; [|apply nth_error_None in Ed; lia].
            destruct (E7 k d Ed) as (j' & Hj' & Hc). rewrite Hk in Hj'. inversion Hj'; subst j'.
            destruct Hc as [Hc|(_ & Hc & _)]; [right | left; exact Hc].
            exists d. split; [apply in_rev; eapply nth_error_In; eauto | exact Hc]. }
          constructor; rewrite ?Estk, ?Eops, ?Esnaps; [ | | exact (o_edges _ O) | exact (o_snap _ O) | exact (o_conv _ O) | exact (o_keys _ O) | exact (o_attr _ O)].
          -- intros p Hp' Hs f Hf. apply in_app_or in Hp' as [Hp'|[<-|Hp']].
             ++ rewrite <- in_rev in Hp'. destruct (Hnew_at p Hp') as [A _]. congruence.
             ++ rewrite before_app_notin, before_head, app_nil_r in Hf by exact Hi_new'.
                rewrite <- in_rev in Hf. destruct (Hnew_at f Hf) as [_ B]. rewrite Hti. now apply tp_one.
             ++ destruct (Hkeep p Hp') as [Ea Et]. rewrite Ea in Hs. rewrite Et.
                rewrite before_app_notin in Hf by (now apply Hstk_new).
                rewrite before_cons_neq in Hf by (intros ->; contradiction).
                apply in_app_or in Hf as [Hf|[<-|Hf]].
                ** rewrite <- in_rev in Hf. destruct (Hnew_at f Hf) as [_ B].
                   eapply tp_snoc; [apply Hcyc; assumption | exact B].
                ** rewrite Hti. apply Hcyc; assumption.
                ** assert (Hfs : In f stk) by (eapply in_before; eauto). destruct (Hkeep f Hfs) as [_ Etf]. rewrite Etf.
                   apply (o_desc _ O p); [rewrite Es; right; assumption | assumption|]. rewrite (Hbef p Hp'). right. exact Hf.
          -- intros p Hp' Hs j Hj. apply in_app_or in Hp' as [Hp'|[<-|Hp']].
             ++ rewrite <- in_rev in Hp'. destruct (Hnew_at p Hp') as [A _]. congruence.
             ++ rewrite before_app_notin, before_head, app_nil_r by exact Hi_new'.
                rewrite Hat_i in Hj. cbn [lt_deps ltC] in Hj.
                destruct (Hidx j Hj) as [Hn|(d & Hd & Hl)]; [right; left; rewrite <- in_rev; exact Hn|].
                assert (Hdt : d <> t). { intros ->. apply (acyclic t Ht_reach). now apply tp_one. }
                rewrite lookup_cons_other in Hl by exact Hdt.
                pose proof (lookup_In _ _ _ Hl) as Hl'. destruct (v_ok _ _ I _ _ Hl') as [Hjlt Hjt].
                destruct (primary_cases s j I Q) as [HD|[Hjs Hjsec]]; [rewrite Hjt; exact Hl | |].
                ** left. left. eapply doneP_stable; [exact I | exact Hstep0 | exact Hjlt | exact HD].
                ** exfalso. rewrite Es in Hjs. destruct Hjs as [Hjs|Hjs]; [congruence|].
                   apply (acyclic t Ht_reach). eapply tp_step; [exact Hd|]. rewrite <- Hjt. apply Hcyc; assumption.
             ++ destruct (Hkeep p Hp') as [Ea Et]. rewrite Ea in Hs, Hj.
                assert (Hps : In p (stack s)) by (rewrite Es; right; assumption).
                pose proof (o_stat _ O p Hps Hs j Hj) as H. rewrite (Hbef p Hp') in H.
                pose proof (Hdeps_lt p j Hps Hs Hj) as Hjlt.
                rewrite before_app_notin by (now apply Hstk_new).
                rewrite before_cons_neq by (intros ->; contradiction).
                destruct H as [H|[H|(v' & Hv' & H)]].
                ** left. eapply done_stable; [exact I | exact Hstep0 | exact Hjlt | exact H].
                ** right. left. apply in_or_app. right. exact H.
                ** right. right. exists v'. split; [|apply in_or_app; right; exact H].
                   assert (j <> i) by (intros ->; rewrite Hout in Hv'; discriminate).
                   rewrite Hat by auto. exact Hv'.
  Qed.

  Lemma piter_oinv fuel : forall s s',
    PInv info s -> QInv info sr again root s -> OInv s -> piter info sr again fuel s = Some s' -> OInv s'.
  Proof.
    induction fuel as [|f IH]; intros s s' I Q O; cbn [piter]; [discriminate|].
    destruct (pstep info sr again s) as [s1|] eqn:E.
    - intros H. eapply IH; [| | |exact H]; [eapply pstep_inv; eauto | eapply pstep_qinv; eauto | eapply pstep_oinv; eauto].
    - intros H. inversion H; subst. exact O.
  Qed.

  (* The operation graph has exactly the edges of the task graph between lowered tasks, all_ops is a
     topological order of it, and every operation's dependency snapshot names, for each declared
     dependency, the version created in this invocation iff that dependency is an experiment that is
     (re)run by this invocation. *)
  Theorem plan_edges fuel ps :
    plan_for info sr again fuel root = Some ps ->
    (forall o, o < length (ops ps) ->
       forall d, In d (t_deps (info (op_task (op_at (ops ps) o)))) -> runs d = true ->
       exists od, In od (op_exe_deps (op_at (ops ps) o)) /\ od < o /\ op_task (op_at (ops ps) od) = d) /\
    (forall o od, o < length (ops ps) -> In od (op_exe_deps (op_at (ops ps) o)) ->
       od < o /\ In (op_task (op_at (ops ps) od)) (t_deps (info (op_task (op_at (ops ps) o))))) /\
    map fst (snaps ps) = map op_task (ops ps) /\
    (forall x l, In (x, l) (snaps ps) -> l = map (fun d => (d, runs d && is_exp d)) (t_deps (info x))) /\
    (forall o, o < length (ops ps) ->
       op_par (op_at (ops ps) o) = par_of (op_task (op_at (ops ps) o)) /\
       op_sync (op_at (ops ps) o) = is_sync (t_kind (info (op_task (op_at (ops ps) o))))).
  Proof.
    unfold plan_for. intros H.
    destruct (piter_both info sr again root deps_nodup fuel (pinit root) ps (init_inv info root) (qinit info sr again root) H) as (I & Q & Hst).
    pose proof (piter_oinv fuel _ _ (init_inv info root) (qinit info sr again root) oinit H) as O.
    split; [|split; [|split; [|split]]].
    - intros o Ho d Hd Hr. destruct (o_edges _ O o Ho d Hd Hr) as (od & Hod & B). exists od.
      split; [assumption|]. split; [eapply (op_deps_lt _ _ I); eauto | assumption].
    - intros o od Ho Hod. split; [eapply (op_deps_lt _ _ I); eauto | now apply (o_conv _ O)].
    - exact (o_keys _ O).
    - exact (o_snap _ O).
    - exact (o_attr _ O).
  Qed.
End Order.
