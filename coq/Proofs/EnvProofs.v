From Coq Require Import List NArith Bool Lia.
From Conductor Require Import Lib.Str Gen.Generated Model.Ident Model.Env.
Import ListNotations.
Local Open Scope N_scope.

(* the documented option format *)
Definition doc_option_format : str := [45; 45; 123; 107; 101; 121; 125; 61; 123; 118; 97; 108; 117; 101; 125]. (* "--{key}={value}" *)
Definition DASH : N := 45.
Definition EQUALS : N := 61.

Section WithCfg.
  Hypothesis Hfmt : cfg_EXP_OPTION_CMD_FORMAT = doc_option_format.
  Hypothesis Hsep : cfg_DEPS_ENV_PATH_SEPARATOR = [COLON].

  Lemma format_option_spec key v : format_option key v = Some ([DASH; DASH] ++ key ++ [EQUALS] ++ render v).
  Proof.
    unfold format_option. rewrite Hfmt. unfold doc_option_format. cbn. rewrite app_nil_r. reflexivity.
  Qed.

  Lemma opts_cmdline_spec opts :
    opts_cmdline opts = Some (join [SPACE] (map (fun kv => [DASH; DASH] ++ fst kv ++ [EQUALS] ++ render (snd kv)) opts)).
  Proof.
    unfold opts_cmdline.
    assert (H : all_some (map (fun kv => format_option (fst kv) (snd kv)) opts)
                = Some (map (fun kv => [DASH; DASH] ++ fst kv ++ [EQUALS] ++ render (snd kv)) opts)).
    { induction opts as [|kv opts IH]; [reflexivity|]. cbn [map all_some]. rewrite format_option_spec, IH. reflexivity. }
    now rewrite H.
  Qed.

  (* C07_cmdline: run, then the arguments, then the --key=value options, each list in declared
     order, booleans as true/false, joined by single spaces *)
  Lemma cmdline_spec run args opts :
    cmdline run args opts =
    Some (run ++ [SPACE] ++ join [SPACE] (map render args) ++ [SPACE] ++
          join [SPACE] (map (fun kv => [DASH; DASH] ++ fst kv ++ [EQUALS] ++ render (snd kv)) opts)).
  Proof. unfold cmdline. rewrite opts_cmdline_spec. reflexivity. Qed.

  (* the library reads COND_DEPS back: the listed directories in order, [] when there are none *)
  Lemma lib_roundtrip paths :
    Forall (fun p => p <> [] /\ ~ In COLON p) paths ->
    lib_get_deps_paths (cond_deps paths) = paths.
  Proof.
    intros H. unfold lib_get_deps_paths, cond_deps, sep_char. rewrite Hsep.
    destruct paths as [|p ps]; [reflexivity|].
    assert (Hne : join [COLON] (p :: ps) <> []).
    { inversion H as [|? ? [Hp _] _]; subst. destruct ps; simpl; [assumption|].
      destruct p; [congruence | discriminate]. }
    destruct (join [COLON] (p :: ps)) eqn:E; [congruence|]. rewrite <- E.
    apply split_join; [discriminate|]. eapply Forall_impl; [|exact H]. intros a [_ Ha]; exact Ha.
  Qed.

  Lemma lib_empty : lib_get_deps_paths (cond_deps []) = [].
  Proof. reflexivity. Qed.
End WithCfg.

(* COND_OUT lies under <root>/cond-out and is determined by (identifier, version) *)
Lemma cond_out_shape root i v :
  cond_out root i v = root ++ SLASH :: cfg_OUTPUT_DIR ++ flat_map (fun c => SLASH :: c) (ipath i) ++ SLASH :: task_output_dir i v.
Proof.
  unfold cond_out, path_str, out_path. cbn [flat_map]. rewrite flat_map_app. cbn [flat_map]. rewrite app_nil_r.
  cbn [app]. reflexivity.
Qed.
