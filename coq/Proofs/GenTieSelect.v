(* Tie between Model/Select.v should_run and the decision list TRANSLATED from
   RunExperiment.should_run in the working tree (Gen/Generated.v gen_should_run). *)
From Coq Require Import List NArith Bool.
From Conductor Require Import Gen.Generated Model.Select.
Import ListNotations.
Open Scope N_scope.

Definition is_none {A} (o : option A) : bool := match o with None => true | Some _ => false end.

Lemma should_run_tie : forall (is_ancestor : cid -> cid -> bool) (al : option cid) (sel : option version),
  should_run is_ancestor al sel =
  gen_should_run (is_none sel) (is_none al)
                 (match sel with Some v => is_none (commit v) | None => false end)
                 (match sel, al with Some v, Some c => match commit v with Some vc => vc =? c | None => false end | _, _ => false end)
                 (match sel, al with Some v, Some c => match commit v with Some vc => is_ancestor c vc | None => false end | _, _ => false end).
Proof.
  intros ia al sel. unfold should_run, gen_should_run.
  destruct sel as [v|]; cbn [is_none]; [|reflexivity].
  destruct al as [c|]; cbn [is_none]; [|reflexivity].
  destruct (commit v) as [vc|]; cbn [is_none]; [|reflexivity].
  destruct (vc =? c); [reflexivity|]. destruct (ia c vc); reflexivity.
Qed.

(* cli/run.py validate_args: the model rejects exactly the flag combinations the TRANSLATED function
   rejects, with the error class of the same name, in the same order of tests *)
Definition flag_error_name (e : flag_error) : list N :=
  match e with
  | CannotSetBothCommitFlags => [67; 97; 110; 110; 111; 116; 83; 101; 116; 66; 111; 116; 104; 67; 111; 109; 109; 105; 116; 70; 108; 97; 103; 115]
  | CannotSetAgainAndCommit => [67; 97; 110; 110; 111; 116; 83; 101; 116; 65; 103; 97; 105; 110; 65; 110; 100; 67; 111; 109; 109; 105; 116]
  | CommitFlagUnsupported => [67; 111; 109; 109; 105; 116; 70; 108; 97; 103; 85; 110; 115; 117; 112; 112; 111; 114; 116; 101; 100]
  | InvalidCommitSymbol => [73; 110; 118; 97; 108; 105; 100; 67; 111; 109; 109; 105; 116; 83; 121; 109; 98; 111; 108]
  | AtLeastCommitNotAncestor => [65; 116; 76; 101; 97; 115; 116; 67; 111; 109; 109; 105; 116; 78; 111; 116; 65; 110; 99; 101; 115; 116; 111; 114]
  end.

Definition is_some' {A} (o : option A) : bool := negb (is_none o).

Lemma validate_args_tie : forall f m,
  option_map flag_error_name (validate_args f m) =
  gen_validate_args (f_this_commit f) (is_some' (f_at_least f)) (f_again f) (uses_git m) (is_some' (current_commit m)).
Proof.
  intros f m. unfold validate_args, gen_validate_args, is_some'.
  destruct (f_this_commit f), (f_at_least f), (f_again f), (uses_git m), (current_commit m); reflexivity.
Qed.
