(* Tie between Model/Select.v should_run and the decision list TRANSLATED from
   RunExperiment.should_run in the working tree (Gen/Generated.v gen_should_run). *)
From Coq Require Import List NArith Bool.
From Conductor Require Import Gen.Generated Model.Select.
Import ListNotations.
Open Scope N_scope.

Definition is_none {A} (o : option A) : bool := match o with None => true | Some _ => false end.

Lemma should_run_tie : forall (is_ancestor : cid -> cid -> bool) (al : option cid) (sel : option version),
  should_run is_ancestor al sel =
  gen_should_run (is_none sel) (is_none al)
                 (match sel with Some v => is_none (commit v) | None => false end)
                 (match sel, al with Some v, Some c => match commit v with Some vc => vc =? c | None => false end | _, _ => false end)
                 (match sel, al with Some v, Some c => match commit v with Some vc => is_ancestor c vc | None => false end | _, _ => false end).
Proof.
  intros ia al sel. unfold should_run, gen_should_run.
  destruct sel as [v|]; cbn [is_none]; [|reflexivity].
  destruct al as [c|]; cbn [is_none]; [|reflexivity].
  destruct (commit v) as [vc|]; cbn [is_none]; [|reflexivity].
  destruct (vc =? c); [reflexivity|]. destruct (ia c vc); reflexivity.
Qed.

(* cli/run.py validate_args: the model rejects exactly the flag combinations the TRANSLATED function
   rejects, with the error class of the same name, in the same order of tests *)
Definition flag_error_name (e : flag_error) : list N :=
  match e with
  | CannotSetBothCommitFlags => [67; 97; 110; 110; 111; 116; 83; 101; 116; 66; 111; 116; 104; 67; 111; 109; 109; 105; 116; 70; 108; 97; 103; 115]
  | CannotSetAgainAndCommit => [67; 97; 110; 110; 111; 116; 83; 101; 116; 65; 103; 97; 105; 110; 65; 110; 100; 67; 111; 109; 109; 105; 116]
  | CommitFlagUnsupported => [67; 111; 109; 109; 105; 116; 70; 108; 97; 103; 85; 110; 115; 117; 112; 112; 111; 114; 116; 101; 100]
  | InvalidCommitSymbol => [73; 110; 118; 97; 108; 105; 100; 67; 111; 109; 109; 105; 116; 83; 121; 109; 98; 111; 108]
  | AtLeastCommitNotAncestor => [65; 116; 76; 101; 97; 115; 116; 67; 111; 109; 109; 105; 116; 78; 111; 116; 65; 110; 99; 101; 115; 116; 111; 114]
  end.

Definition is_some' {A} (o : option A) : bool := negb (is_none o).

Lemma validate_args_tie : forall f m,
  option_map flag_error_name (validate_args f m) =
  gen_validate_args (f_this_commit f) (is_some' (f_at_least f)) (f_again f) (uses_git m) (is_some' (current_commit m)).
Proof.
  intros f m. unfold validate_args, gen_validate_args, is_some'.
  destruct (f_this_commit f), (f_at_least f), (f_again f), (uses_git m), (current_commit m); reflexivity.
Qed.

(* ---------------------------------------------------------------------------------------------
   RunExperiment._retrieve_most_relevant_existing_version: the model's `select` is the method
   TRANSLATED from the working tree (gen_sel_top / gen_sel_classify / gen_sel_closest):
   the same classification of every version, the same update of the loop state
   (selected_version, closest_distance) for every ancestor version, the same choice of what is returned. *)
Section SelectTie.
  Variable is_ancestor : cid -> cid -> bool.
  Variable get_distance : cid -> cid -> N.

  (* the first loop, driven by the translated per-version decision *)
  Definition classify_by_gen (h : cid) (acc : list version * list version) (v : version) : list version * list version :=
    let '(ancs, nulls) := acc in
    match gen_sel_classify (is_none (commit v)) (match commit v with Some c => is_ancestor h c | None => false end) with
    | 0 => (ancs, nulls ++ [v])
    | 1 => (ancs ++ [v], nulls)
    | _ => (ancs, nulls)
    end.

  Lemma classify_tie : forall h vs ancs nulls,
    classify is_ancestor h vs ancs nulls = fold_left (classify_by_gen h) vs (ancs, nulls).
  Proof.
    intros h vs. induction vs as [|v rest IH]; intros ancs nulls; cbn [classify fold_left]; [reflexivity|].
    unfold classify_by_gen at 2, gen_sel_classify.
    destruct (commit v) as [c|]; cbn [is_none].
    - destruct (is_ancestor h c); apply IH.
    - apply IH.
  Qed.

  (* one iteration of the second loop, driven by the translated decision over the loop state *)
  Definition closest_by_gen (h : cid) (st : option (version * N)) (v : version) : option (version * N) :=
    match commit v with
    | None => st
    | Some c =>
      let d := get_distance h c in
      let cd := match st with Some (_, x) => x | None => 0 end in
      let tss := match st with Some (s, _) => ts s | None => 0 end in
      match gen_sel_closest (is_none st) d cd (ts v) tss with
      | 0 => st
      | 1 => Some (v, d)
      | _ => Some (v, cd)
      end
    end.

  Lemma closest_tie : forall h st v, closest_step get_distance h st v = closest_by_gen h st v.
  Proof.
    intros h st v. unfold closest_step, closest_by_gen, gen_sel_closest.
    destruct (commit v) as [c|]; [|reflexivity].
    destruct st as [[s cd]|]; cbn [is_none orb]; [|reflexivity].
    destruct (get_distance h c <? cd); [reflexivity|].
    destruct ((get_distance h c =? cd) && (ts s <? ts v)); reflexivity.
  Qed.

  Lemma select_tie : forall m vs,
    select is_ancestor get_distance m vs =
    let lists := match m with Head h => fold_left (classify_by_gen h) vs ([], []) | _ => ([], []) end in
    match gen_sel_top (uses_git m) (is_none (current_commit m)) (length (fst lists)) (length (snd lists)) (length vs) with
    | 0 => latest vs
    | 1 => match m with Head h => option_map fst (fold_left (closest_by_gen h) (fst lists) None) | _ => None end
    | 2 => py_max_ts (snd lists)
    | _ => None
    end.
  Proof.
    intros m vs. unfold select, gen_sel_top.
    destruct m as [| |h]; cbn [uses_git current_commit is_none negb]; try reflexivity.
    rewrite classify_tie. destruct (fold_left (classify_by_gen h) vs ([], [])) as [ancs nulls]. cbn [fst snd].
    destruct (length ancs) as [|n]; cbn [Nat.eqb Nat.ltb Nat.leb negb].
    - destruct (Nat.eqb (length nulls) (length vs)); cbn [andb]; [|reflexivity].
      destruct (length nulls); reflexivity.
    - f_equal. clear. generalize (@None (version * N)). induction ancs as [|a rest IH]; intro st; cbn [fold_left]; [reflexivity|].
      rewrite closest_tie. apply IH.
  Qed.
End SelectTie.
