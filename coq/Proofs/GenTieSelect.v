(* Tie between Model/Select.v should_run and the decision list TRANSLATED from
   RunExperiment.should_run in the working tree (Gen/Generated.v gen_should_run). *)
From Coq Require Import List NArith Bool.
From Conductor Require Import Gen.Generated Model.Select.
Import ListNotations.
Open Scope N_scope.

Definition is_none {A} (o : option A) : bool := match o with None => true | Some _ => false end.

Lemma should_run_tie : forall (is_ancestor : cid -> cid -> bool) (al : option cid) (sel : option version),
  should_run is_ancestor al sel =
  gen_should_run (is_none sel) (is_none al)
                 (match sel with Some v => is_none (commit v) | None => false end)
                 (match sel, al with Some v, Some c => match commit v with Some vc => vc =? c | None => false end | _, _ => false end)
                 (match sel, al with Some v, Some c => match commit v with Some vc => is_ancestor c vc | None => false end | _, _ => false end).
Proof.
  intros ia al sel. unfold should_run, gen_should_run.
  destruct sel as [v|]; cbn [is_none]; [|reflexivity].
  destruct al as [c|]; cbn [is_none]; [|reflexivity].
  destruct (commit v) as [vc|]; cbn [is_none]; [|reflexivity].
  destruct (vc =? c); [reflexivity|]. destruct (ia c vc); reflexivity.
Qed.
