(* The plan and the transitive closure of the root, in terms of plain dependency paths:
   - whatever is planned or reported cached lies inside the closure (never a task outside it);
   - with --again nothing is taken from the cache and EXACTLY the closure is planned, each task once. *)
From Coq Require Import List Arith Bool.
From Conductor Require Import Model.Planner Proofs.PlannerInv Proofs.PlannerExact Proofs.PlannerOrder.
Import ListNotations.

Section Closure.
  Variable info : nat -> tinfo.
  Variable sr : nat -> bool.
  Variable root : nat.
  Hypothesis deps_nodup : forall t, NoDup (t_deps (info t)).

  Definition InClosure (t : nat) : Prop := t = root \/ TPath info root t.

  Lemma nreach_in_closure again t : NReach info sr again root t -> InClosure t.
  Proof.
    induction 1 as [|x y Hx IH Hr Hy]; [left; reflexivity|]. right.
    destruct IH as [->|IH]; [apply tp_one; exact Hy | eapply tp_snoc; eauto].
  Qed.

  Lemma tpath_nreach_again x t : NReach info sr true root x -> TPath info x t -> NReach info sr true root t.
  Proof.
    intros Hx Hp. induction Hp as [x y Hy|x y z Hy Hp IH].
    - eapply nr_step; [exact Hx | reflexivity | exact Hy].
    - apply IH. eapply nr_step; [exact Hx | reflexivity | exact Hy].
  Qed.

  Lemma closure_nreach_again t : InClosure t -> NReach info sr true root t.
  Proof. intros [->|Hp]; [apply nr_root | eapply tpath_nreach_again; [apply nr_root | exact Hp]]. Qed.

  Theorem planned_and_cached_inside_closure again fuel ps :
    plan_for info sr again fuel root = Some ps ->
    forall t, In t (map op_task (ops ps)) \/ In t (cached ps) -> InClosure t.
  Proof.
    intros H t Ht. destruct (plan_exact info sr again root deps_nodup fuel ps H) as (Hn & _ & Hc & _).
    destruct Ht as [Ht|Ht].
    - apply in_map_iff in Ht as (op & <- & Hin). apply In_nth with (d := op) in Hin as (o & Ho & Enth).
      assert (Hex : exists o0, o0 < length (ops ps) /\ op_task (op_at (ops ps) o0) = op_task op).
      { exists o. split; [exact Ho|]. unfold op_at. rewrite (nth_indep _ _ op Ho). rewrite Enth. reflexivity. }
      apply Hn in Hex as [Hr _]. eapply nreach_in_closure; exact Hr.
    - apply Hc in Ht as [Hr _]. eapply nreach_in_closure; exact Hr.
  Qed.

  Theorem again_plans_exactly_the_closure fuel ps :
    plan_for info sr true fuel root = Some ps ->
    cached ps = [] /\
    (forall t, (exists o, o < length (ops ps) /\ op_task (op_at (ops ps) o) = t) <-> InClosure t) /\
    NoDup (map op_task (ops ps)).
  Proof.
    intros H. destruct (plan_exact info sr true root deps_nodup fuel ps H) as (Hn & Hnd & Hc & _).
    split; [|split; [|exact Hnd]].
    - destruct (cached ps) as [|t l]; [reflexivity|]. exfalso.
      destruct (proj1 (Hc t) (or_introl eq_refl)) as [_ Hr]. unfold runs in Hr. discriminate.
    - intros t. rewrite Hn. unfold Needed, runs. cbn [orb]. split.
      + intros [Hr _]. eapply nreach_in_closure; exact Hr.
      + intros Hcl. split; [apply closure_nreach_again; exact Hcl | reflexivity].
  Qed.
End Closure.
