(* Tie: the launch block and the abort handlers of the regenerated definitions are the ones the C16 theorems are
   about (re-checked by computation on every run). *)
From Coq Require Import List NArith Bool.
From Conductor Require Import Gen.Generated Model.Abort.
Import ListNotations.

Definition launch_prog : list instr := map decode gen_launch_block.

Lemma gen_launch_block_shape : shape 0 launch_prog = true.
Proof. vm_compute. reflexivity. Qed.

Lemma gen_abort_handler : gen_abort_handler_terminates_registered = true.
Proof. vm_compute. reflexivity. Qed.
